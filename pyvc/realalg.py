"""Exact field normaliser for real-valued terms (back end `ring`).

Decides identities between z3 real terms built from + - * /, integer powers and the
uninterpreted functions exp / sqrt / tanh / log / pow(x, p/2) by
  * atomising function applications on *canonicalised* arguments (so syntactically
    different but equal arguments share one atom),
  * the laws  exp(a+b) = exp(a)exp(b), exp(-a) = 1/exp(a)  (arguments are split into
    monomial terms with a canonical sign), sqrt(x)^2 = x, x^(p/2) = x^((p-1)/2) sqrt(x),
  * cross-multiplication of exact Fraction-coefficient multivariate polynomials.
Everything else (atoms are algebraically independent) is *not* assumed: a `True` answer
is a proof of the identity wherever all denominators are non-zero and radicands are
non-negative (those side conditions are separate `defined` obligations); a `False`
answer only means "not proved by this back end".
"""
from __future__ import annotations

import fractions
import itertools

import z3

Fr = fractions.Fraction


class Poly:
    """multivariate polynomial: {monomial: coeff}, monomial = tuple of (atom, exp) sorted"""
    __slots__ = ("t",)

    def __init__(self, t=None):
        self.t = t if t is not None else {}

    @classmethod
    def const(cls, c):
        c = Fr(c)
        return cls({(): c} if c else {})

    @classmethod
    def atom(cls, a):
        return cls({((a, 1),): Fr(1)})

    def is_zero(self):
        return not self.t

    def is_const(self):
        return all(m == () for m in self.t)

    def const_value(self):
        return self.t.get((), Fr(0))

    def __add__(self, o):
        r = dict(self.t)
        for m, c in o.t.items():
            v = r.get(m, 0) + c
            if v:
                r[m] = v
            else:
                r.pop(m, None)
        return Poly(r)

    def __neg__(self):
        return Poly({m: -c for m, c in self.t.items()})

    def __sub__(self, o):
        return self + (-o)

    def __mul__(self, o):
        if len(self.t) > len(o.t):
            return o * self
        r = {}
        for m1, c1 in self.t.items():
            for m2, c2 in o.t.items():
                m = mono_mul(m1, m2)
                v = r.get(m, 0) + c1 * c2
                if v:
                    r[m] = v
                else:
                    r.pop(m, None)
        return Poly(r)

    def scale(self, c):
        c = Fr(c)
        return Poly({m: v * c for m, v in self.t.items()}) if c else Poly()

    def pow(self, n):
        r = Poly.const(1)
        b = self
        while n:
            if n & 1:
                r = r * b
            b = b * b if n > 1 else b
            n >>= 1
        return r

    def single_monomial(self):
        return len(self.t) == 1

    def key(self):
        return tuple(sorted(self.t.items()))

    def __len__(self):
        return len(self.t)


def mono_mul(m1, m2):
    if not m1:
        return m2
    if not m2:
        return m1
    d = dict(m1)
    for a, e in m2:
        v = d.get(a, 0) + e
        if v:
            d[a] = v
        else:
            d.pop(a, None)
    return tuple(sorted(d.items()))


class RF:
    """rational function num/den"""
    __slots__ = ("n", "d")

    def __init__(self, n, d=None):
        self.n = n
        self.d = d if d is not None else Poly.const(1)

    def __add__(self, o):
        if self.d.key() == o.d.key():
            return RF(self.n + o.n, self.d)
        return RF(self.n * o.d + o.n * self.d, self.d * o.d)

    def __neg__(self):
        return RF(-self.n, self.d)

    def __sub__(self, o):
        return self + (-o)

    def __mul__(self, o):
        return RF(self.n * o.n, self.d * o.d)

    def inv(self):
        if self.n.is_zero():
            raise ZeroDivisionError("inverse of zero term")
        return RF(self.d, self.n)

    def __truediv__(self, o):
        return self * o.inv()

    def pow(self, k):
        if k >= 0:
            return RF(self.n.pow(k), self.d.pow(k))
        return RF(self.d.pow(-k), self.n.pow(-k))


class Normaliser:
    def __init__(self, max_terms=400000):
        self.atoms = {}        # canonical key -> atom id (string)
        self.sqrt_of = {}      # atom id -> RF radicand
        self.memo = {}
        self.max_terms = max_terms
        self.atom_terms = {}   # atom id -> description

    # ---- canonical forms
    def _mono_split(self, rf):
        """rf with monomial denominator -> list of (coeff, num monomial, den monomial) reduced"""
        if not rf.d.single_monomial():
            return None
        (dm, dc), = rf.d.t.items()
        out = []
        for m, c in rf.n.t.items():
            nd, dd = dict(m), dict(dm)
            for a in list(nd):
                if a in dd:
                    g = min(nd[a], dd[a])
                    nd[a] -= g
                    dd[a] -= g
                    if not nd[a]:
                        del nd[a]
                    if not dd[a]:
                        del dd[a]
            out.append((c / dc, tuple(sorted(nd.items())), tuple(sorted(dd.items()))))
        return out

    def canon_key(self, rf):
        rf = self.reduce(rf)
        terms = self._mono_split(rf)
        if terms is not None:
            return ("sum", tuple(sorted(terms)))
        # general: normalise leading coefficient of the denominator
        dk = rf.d.key()
        lead = dk[0][1]
        return ("rf", RF(rf.n.scale(1 / lead), rf.d.scale(1 / lead)).n.key(), rf.d.scale(1 / lead).key())

    def get_atom(self, fname, key, descr=None):
        k = (fname, key)
        a = self.atoms.get(k)
        if a is None:
            a = "%s#%d" % (fname, len(self.atoms))
            self.atoms[k] = a
            self.atom_terms[a] = descr
        return a

    # ---- function applications
    def exp_of(self, arg):
        arg = self.reduce(arg)
        terms = self._mono_split(arg)
        if terms is None:
            key = self.canon_key(arg)
            # canonical sign: compare with key of the negated argument
            nkey = self.canon_key(-arg)
            if nkey < key:
                a = self.get_atom("exp", nkey)
                return RF(Poly.const(1), Poly.atom(a))
            return RF(Poly.atom(self.get_atom("exp", key)))
        res = RF(Poly.const(1))
        for c, nm, dm in sorted(terms):
            if not nm and not dm:
                # constant exponent: exp(c) atom
                a = self.get_atom("expc", abs(c))
                f = RF(Poly.atom(a))
                res = res * (f if c > 0 else f.inv())
                continue
            mag = abs(c)
            if mag.denominator == 1:
                a = self.get_atom("exp", (Fr(1), nm, dm))
                f = RF(Poly.atom(a)).pow(int(mag))
            else:
                a = self.get_atom("exp", (Fr(1, mag.denominator), nm, dm))
                f = RF(Poly.atom(a)).pow(mag.numerator)
            res = res * (f if c > 0 else f.inv())
        return res

    def sqrt_of_rf(self, arg):
        arg = self.reduce(arg)
        if arg.n.is_const() and arg.d.is_const():
            v = arg.n.const_value() / arg.d.const_value()
            if v >= 0:
                import math
                rn, rd = math.isqrt(v.numerator), math.isqrt(v.denominator)
                if rn * rn == v.numerator and rd * rd == v.denominator:
                    return RF(Poly.const(Fr(rn, rd)))
        key = self.canon_key(arg)
        a = self.get_atom("sqrt", key)
        self.sqrt_of[a] = arg
        return RF(Poly.atom(a))

    def generic(self, fname, arg):
        arg = self.reduce(arg)
        if arg.n.is_zero() and fname in ("tanh", "sin", "atanh", "sinh"):
            return RF(Poly())
        if arg.n.is_zero() and fname in ("cos", "cosh"):
            return RF(Poly.const(1))
        if fname in ("log", "log10") and (arg.n - arg.d).is_zero():
            return RF(Poly())
        key = self.canon_key(arg)
        if fname == "tanh":
            nkey = self.canon_key(-arg)
            if nkey < key:   # odd function
                return -RF(Poly.atom(self.get_atom(fname, nkey)))
        return RF(Poly.atom(self.get_atom(fname, key)))

    # ---- reduction  sqrt(x)^2 -> x
    def reduce(self, rf):
        if not self.sqrt_of:
            return rf
        for _ in range(50):
            target = None
            for poly in (rf.n, rf.d):
                for m in poly.t:
                    for a, e in m:
                        if e >= 2 and a in self.sqrt_of:
                            target = a
                            break
                    if target:
                        break
                if target:
                    break
            if target is None:
                return rf
            rad = self.sqrt_of[target]
            n2, dn = self._subst_sq(rf.n, target, rad)
            d2, dd = self._subst_sq(rf.d, target, rad)
            # n2/rad.d^dn  over  d2/rad.d^dd
            rf = RF(n2 * rad.d.pow(dd), d2 * rad.d.pow(dn))
        raise RuntimeError("sqrt reduction did not terminate")

    def _subst_sq(self, poly, a, rad):
        """replace a^(2k+r) by rad^k a^r; returns (poly * rad.d^K, K) to stay polynomial"""
        K = 0
        for m in poly.t:
            for b, e in m:
                if b == a:
                    K = max(K, e // 2)
        out = Poly()
        for m, c in poly.t.items():
            e = dict(m).get(a, 0)
            k, r = divmod(e, 2)
            rest = tuple((b, x) for b, x in m if b != a)
            base = Poly({rest: c})
            if r:
                base = base * Poly.atom(a)
            out = out + base * rad.n.pow(k) * rad.d.pow(K - k)
        return out, K

    # ---- z3 -> RF
    def of_z3(self, e):
        key = e.get_id()
        r = self.memo.get(key)
        if r is None:
            r = self._of_z3(e)
            if len(r.n) + len(r.d) > self.max_terms:
                raise OverflowError("normal form larger than %d terms" % self.max_terms)
            self.memo[key] = r
        return r

    def _of_z3(self, e):
        if z3.is_int_value(e):
            return RF(Poly.const(e.as_long()))
        if z3.is_rational_value(e):
            return RF(Poly.const(Fr(e.numerator_as_long(), e.denominator_as_long())))
        if z3.is_const(e) and e.decl().kind() == z3.Z3_OP_UNINTERPRETED:
            return RF(Poly.atom("v:" + e.decl().name()))
        k = e.decl().kind()
        ch = e.children()
        if k == z3.Z3_OP_ADD:
            r = self.of_z3(ch[0])
            for c in ch[1:]:
                r = r + self.of_z3(c)
            return r
        if k == z3.Z3_OP_SUB:
            r = self.of_z3(ch[0])
            for c in ch[1:]:
                r = r - self.of_z3(c)
            return r
        if k == z3.Z3_OP_UMINUS:
            return -self.of_z3(ch[0])
        if k == z3.Z3_OP_MUL:
            r = self.of_z3(ch[0])
            for c in ch[1:]:
                r = r * self.of_z3(c)
            return self.reduce(r)
        if k in (z3.Z3_OP_DIV, z3.Z3_OP_IDIV) and e.sort() == z3.RealSort():
            return self.reduce(self.of_z3(ch[0]) / self.of_z3(ch[1]))
        if k == z3.Z3_OP_TO_REAL:
            return self.of_z3(ch[0])
        if k == z3.Z3_OP_POWER:
            b, p = ch
            if z3.is_int_value(p) or z3.is_rational_value(p):
                pv = Fr(p.as_long()) if z3.is_int_value(p) else Fr(p.numerator_as_long(), p.denominator_as_long())
                return self.pow_const(self.of_z3(b), pv)
        if k == z3.Z3_OP_UNINTERPRETED:
            name = e.decl().name()
            if name == "exp":
                return self.exp_of(self.of_z3(ch[0]))
            if name == "sqrt":
                return self.sqrt_of_rf(self.of_z3(ch[0]))
            if name == "pow":
                b, p = ch
                ps = z3.simplify(p)
                if z3.is_rational_value(ps) or z3.is_int_value(ps):
                    pv = Fr(ps.as_long()) if z3.is_int_value(ps) else Fr(ps.numerator_as_long(), ps.denominator_as_long())
                    return self.pow_const(self.of_z3(b), pv)
                pk = self.canon_key(self.of_z3(p))
                bk = self.canon_key(self.of_z3(b))
                return RF(Poly.atom(self.get_atom("pow", (bk, pk))))
            if name == "exp10":
                return RF(Poly.atom(self.get_atom("exp10", self.canon_key(self.of_z3(ch[0])))))
            if len(ch) == 1:
                return self.generic(name, self.of_z3(ch[0]))
            keys = tuple(self.canon_key(self.of_z3(c)) for c in ch)
            return RF(Poly.atom(self.get_atom(name, keys)))
        if k == z3.Z3_OP_ITE:
            raise ValueError("if-then-else in a term handed to the ring normaliser")
        raise ValueError("unsupported z3 node %s" % e.decl())

    def pow_const(self, base, p):
        if p.denominator == 1:
            return self.reduce(base.pow(int(p)))
        if p.denominator == 2:
            n = p.numerator
            k = (n - 1) // 2 if n > 0 else -((-n + 1) // 2)
            # x^(n/2) = x^k * sqrt(x)^(n-2k)
            r = base.pow(k) * self.sqrt_of_rf(base).pow(n - 2 * k)
            return self.reduce(r)
        bk = self.canon_key(base)
        return RF(Poly.atom(self.get_atom("pow", (bk, p))))

    def is_zero(self, e):
        rf = self.reduce(self.of_z3(e))
        return rf.n.is_zero()

    def equal(self, a, b):
        ra, rb = self.of_z3(a), self.of_z3(b)
        diff = self.reduce(RF(ra.n * rb.d - rb.n * ra.d))
        return diff.n.is_zero()


# ----------------------------------------------------------------------------------
# symbolic differentiation on z3 terms
# ----------------------------------------------------------------------------------
def derivative(e, var, memo=None):
    """d e / d var for real z3 terms over + - * / power-by-constant, exp, sqrt, tanh, log, pow(x, const)"""
    if memo is None:
        memo = {}
    key = e.get_id()
    if key in memo:
        return memo[key]
    r = _derivative(e, var, memo)
    memo[key] = r
    return r


def _derivative(e, var, memo):
    zero, one = z3.RealVal(0), z3.RealVal(1)
    if z3.is_int_value(e) or z3.is_rational_value(e):
        return zero
    if z3.is_const(e):
        return one if e.eq(var) else zero
    k = e.decl().kind()
    ch = e.children()
    D = lambda x: derivative(x, var, memo)
    if k == z3.Z3_OP_ADD:
        return z3.Sum([D(c) for c in ch])
    if k == z3.Z3_OP_SUB:
        r = D(ch[0])
        for c in ch[1:]:
            r = r - D(c)
        return r
    if k == z3.Z3_OP_UMINUS:
        return -D(ch[0])
    if k == z3.Z3_OP_MUL:
        terms = []
        for i, c in enumerate(ch):
            dc = D(c)
            if z3.is_rational_value(dc) and dc.numerator_as_long() == 0:
                continue
            others = [x for j, x in enumerate(ch) if j != i]
            terms.append(z3.Product([dc] + others) if others else dc)
        return z3.Sum(terms) if terms else zero
    if k == z3.Z3_OP_DIV:
        a, b = ch
        da, db = D(a), D(b)
        if z3.is_rational_value(db) and db.numerator_as_long() == 0:
            return da / b
        return (da * b - a * db) / (b * b)
    if k == z3.Z3_OP_TO_REAL:
        return zero if not _mentions(ch[0], var) else D(ch[0])
    if k == z3.Z3_OP_POWER:
        b, p = ch
        if _mentions(p, var):
            raise ValueError("derivative of variable exponent")
        return p * (b ** (p - 1)) * D(b)
    if k == z3.Z3_OP_UNINTERPRETED:
        name = e.decl().name()
        if not any(_mentions(c, var) for c in ch):
            return zero
        if name == "exp":
            return e * D(ch[0])
        if name == "sqrt":
            return D(ch[0]) / (2 * e)
        if name == "tanh":
            return (1 - e * e) * D(ch[0])
        if name == "log":
            return D(ch[0]) / ch[0]
        if name == "pow":
            b, p = ch
            if _mentions(p, var):
                raise ValueError("derivative of variable exponent")
            return p * e.decl()(b, p - 1) * D(b)
        raise ValueError("derivative of %s unknown" % name)
    raise ValueError("derivative: unsupported node %s" % e.decl())


def _mentions(e, var, _memo=None):
    if _memo is None:
        _memo = {}
    key = e.get_id()
    if key in _memo:
        return _memo[key]
    r = e.eq(var) or any(_mentions(c, var, _memo) for c in e.children())
    _memo[key] = r
    return r
