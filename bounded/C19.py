# -*- coding: utf-8 -*-
"""Bounded stand-ins for C19 (physical-chemistry relations give unit-independent values in their
valid ranges; range warnings; published anchors and shape; inverse helpers).

ORACLES
  * unit independence is a metamorphic relation: the same physical inputs given (a) as plain numbers
    in the documented units, (b) as quantities with ``units=default_units`` (or the `quantities`
    module itself), (c) as quantities in *scaled* units (mM vs M, bar vs Pa, g vs kg, cm2/s vs m2/s)
    must give the same physical value; returned quantities are converted to SI with the hand-written
    table of bounded/_unitsoracle.py only, and must have the dimension of the quantity they name.
    TEMPERATURES ARE ALWAYS GIVEN IN KELVIN (scaled temperature units are outside the property).
  * each correlation is re-evaluated from the published equation and coefficients written out below
    (Tanaka 2001, Korson 1969, Holz 2000, Bradley & Pitzer 1979, Myhre 1998, Schumpe 1993) and
    compared to 1e-9 relative; published table values / docstring values are checked with the
    tolerances the tables allow; qualitative shape on dense grids.
  * a range warning must be emitted iff a temperature (for sulfuric acid also the mass fraction) is
    outside the documented range, never inside, never with warn=False.

Tolerances: 1e-9 relative between modes (same arithmetic, different unit bookkeeping gives ~1e-15),
1e-6 where CODATA constants of different revisions enter (constants=default_constants).
"""
import json
import math
import random
import warnings

import numpy as np

from . import _unitsoracle as O

RT = 1e-9
CONC = {"M": [("molar", 1)], "mM": [("millimolar", 1)], "uM": [("micromolar", 1)],
        "mol/m3": [("mol", 1), ("metre", -3)], "mol/cm3": [("mol", 1), ("cm", -3)], "mmol/L": [("mmol", 1), ("litre", -1)]}
PRES = {"bar": [("bar", 1)], "Pa": [("pascal", 1)], "kPa": [("kPa", 1)], "MPa": [("MPa", 1)], "atm": [("atm", 1)]}
DIFF = {"m2/s": [("metre", 2), ("s", -1)], "cm2/s": [("cm", 2), ("s", -1)], "mm2/s": [("mm", 2), ("s", -1)],
        "um2/ms": [("um", 2), ("ms", -1)], "cm2/min": [("cm", 2), ("minute", -1)]}
VISC = {"cP": [("centipoise", 1)], "P": [("poise", 1)], "Pa*s": [("pascal", 1), ("s", 1)], "kg/m/s": [("kg", 1), ("metre", -1), ("s", -1)],
        "g/cm/s": [("g", 1), ("cm", -1), ("s", -1)]}
D_DENS = (-3, 1, 0, 0, 0, 0, 0)
D_VISC = (-1, 1, -1, 0, 0, 0, 0)
D_DIFF = (2, 0, -1, 0, 0, 0, 0)
D_CONC = (-3, 0, 0, 0, 0, 0, 1)
D_PRES = (-1, 1, -2, 0, 0, 0, 0)
D_VOLT = (2, 1, -3, -1, 0, 0, 0)
D_MOB = (0, -1, 2, 1, 0, 0, 0)
D_NONE = (0,) * 7


def _exc(e):
    return "%s: %s" % (type(e).__name__, str(e)[:200])


def _scale(table, name):
    return O.spec_scale_dims(table[name])[0]


def _q(si_value, table, name):
    """the quantity that has SI value `si_value`, expressed in unit `name` of `table`"""
    return (si_value / _scale(table, name)) * O.build(table[name])


def _K(T):
    return T * O.getu("K")


def _call(f, *a, **k):
    """-> (value, list of warning messages)"""
    with warnings.catch_warnings(record=True) as w:
        warnings.simplefilter("always")
        v = f(*a, **k)
    return v, [str(x.message) for x in w if issubclass(x.category, UserWarning)]


def _units_objs():
    import quantities as pq
    return {"default_units": O.units_ns(), "quantities": pq}


class Checker(object):
    def __init__(self, tag):
        self.errs = []
        self.tag = tag

    def err(self, msg):
        self.errs.append("%s: %s" % (self.tag, msg))

    def call(self, must_work, f, *a, **k):
        """-> (value or None, warning messages).  Outside the documented range only the warning is
        promised: an exception there (e.g. log of a negative number) is tolerated, value checks are skipped"""
        with warnings.catch_warnings(record=True) as w:
            warnings.simplefilter("always")
            try:
                v = f(*a, **k)
            except Exception as e:
                v = None
                if must_work:
                    self.err("raised %s (args %r %r)" % (_exc(e), a, sorted(k)))
        return v, [str(x.message) for x in w if issubclass(x.category, UserWarning)]

    def same(self, label, got, exp, rtol=RT, atol=0.0):
        if got is None:
            return
        if not O.close(got, exp, rtol, atol):
            self.err("%s = %r, expected %r" % (label, got, exp))

    def quantity(self, label, q, exp_si, dims, rtol=RT, doc_unit=None, doc_value=None):
        """q must be a quantity of the given dims whose SI value is exp_si; to_unitless(q, documented unit) works"""
        from chempy.units import to_unitless
        if q is None:
            return
        p = O.phys(q)
        if not hasattr(q, "dimensionality") and tuple(dims) != D_NONE:
            self.err("%s returned a plain %s, expected a quantity" % (label, type(q).__name__))
            return
        if p[1] != tuple(dims):
            self.err("%s has dimension %r, expected %r (unit %s)" % (label, p[1], tuple(dims), getattr(q, "dimensionality", None)))
            return
        if not O.close(p[0], exp_si, rtol):
            self.err("%s has SI value %r, expected %r" % (label, p[0], exp_si))
        if doc_unit is not None:
            try:
                v = to_unitless(q, doc_unit)
                if not O.close(v, doc_value, rtol):
                    self.err("to_unitless(%s, documented unit) = %r, expected %r" % (label, v, doc_value))
            except Exception as e:
                self.err("%s not convertible to the documented unit: %s" % (label, _exc(e)))

    def warned(self, label, msgs, expect, needle=None):
        hit = [m for m in msgs if needle is None or needle in m]
        if expect and not hit:
            self.err("%s: no range warning although outside the documented range (warnings: %r)" % (label, msgs))
        if not expect and msgs:
            self.err("%s: warning %r although inside the documented range / warn=False" % (label, msgs))


# =========================================================================================
# published equations (independent re-evaluation)
# =========================================================================================

def tanaka(T):                   # kg/m3, T in K; Metrologia 38 (2001) 301, eq. (1), table 1
    t = T - 273.15
    a1, a2, a3, a4, a5 = -3.983035, 301.797, 522528.9, 69.34881, 999.974950
    return a5 * (1.0 - (t + a1) ** 2 * (t + a2) / (a3 * (t + a4)))


def korson(T, eta20=1.0020):     # cP; J. Phys. Chem. 73 (1969) 34, eq. (5) with log10
    t = T - 273.15
    return eta20 * 10.0 ** ((1.1709 * (20.0 - t) - 0.001827 * (t - 20.0) ** 2) / (t + 89.93))


def holz(T, e0=0.0, e1=0.0):     # m2/s; PCCP 2 (2000) 4740, eq. (2)
    return (1.635e-8 + e0 * 2.242e-11) * (T / (215.05 + e1 * 1.2) - 1.0) ** 2.063


def bradley_pitzer(T, P):        # T in K, P in bar; J. Phys. Chem. 83 (1979) 1599, eqs (1)-(4), table I
    U1, U2, U3, U4, U5, U6, U7, U8, U9 = 3.4279e2, -5.0866e-3, 9.4690e-7, -2.0525, 3.1159e3, -1.8289e2, -8.0325e3, 4.2142e6, 2.1417
    B = U7 + U8 / T + U9 * T
    C = U4 + U5 / (U6 + T)
    return U1 * math.exp(U2 * T + U3 * T * T) + C * math.log((B + P) / (B + 1000.0))


MYHRE = [  # rho = sum_ij a_ij w**i t**j, t in Celsius; J. Chem. Eng. Data 43 (1998) 617, table 4
    [999.8426, 0.03345402, -0.005691304, 0.0, 0.0],
    [547.2659, -5.300445, 0.01187671, 0.0005990008, 0.0],
    [5262.95, 37.20445, 0.1201909, -0.004148594, 1.197973e-5],
    [-62139.58, -287.767, -0.4064638, 0.01119488, 3.607768e-5],
    [409029.3, 1270.854, 0.326971, -0.01377435, -2.633585e-5],
    [-1596989.0, -3062.836, 0.1366499, 0.006373031, 0.0],
    [3857411.0, 4083.714, -0.1927785, 0.0, 0.0],
    [-5808064.0, -2844.401, 0.0, 0.0, 0.0],
    [5301976.0, 809.1053, 0.0, 0.0, 0.0],
    [-2682616.0, 0.0, 0.0, 0.0, 0.0],
    [576428.8, 0.0, 0.0, 0.0, 0.0],
]
M_H2SO4 = (1.00794 * 2 + 32.066 + 4 * 15.9994) * 1e-3  # kg/mol


def myhre(w, T):
    t = T - 273.15
    tot = 0.0
    for i in range(10, -1, -1):
        row = MYHRE[i]
        inner = 0.0
        for j in range(4, -1, -1):
            inner = inner * t + row[j]
        tot = tot * w + inner
    return tot


SCHUMPE_ION = {"H+": 0.0, "Li+": 0.0691, "Na+": 0.1171, "K+": 0.0959, "NH4+": 0.0539, "Mg+2": 0.1765, "Ca+2": 0.1771,
               "OH-": 0.0756, "Cl-": 0.0334, "Br-": 0.0137, "I-": 0.0020, "NO3-": 0.0050, "SO4-2": 0.1185, "CO3-2": 0.1666,
               "HCO3-": 0.1372, "F-": 0.1016, "PO4-3": 0.2117, "Al+3": 0.2253}
SCHUMPE_GAS = {"O2": 0.0, "CO2": -0.0183, "N2O": -0.0110, "H2": -0.024, "N2": -0.008, "He": -0.036, "Ar": -0.009, "C2H6": 0.011,
               "NO": 0.004, "Rn": 0.015}


# =========================================================================================
# temperature grids: inside the documented range, and just outside it
# =========================================================================================

def _t_case(rng, lo, hi):
    """-> (T, inside?)  dense inside, and both sides just outside (1e-3 .. 40 K beyond)"""
    k = rng.random()
    if k < 0.6:
        return round(rng.uniform(lo + 1e-3, hi - 1e-3), 4), True
    if k < 0.7:
        return rng.choice([lo + 1e-3, hi - 1e-3, lo + 0.01, hi - 0.01]), True
    d = rng.choice([1e-3, 0.01, 0.1, 0.5, 1.0, 3.0, 5.0, 10.0, 40.0])
    if rng.random() < 0.5:
        return round(lo - d, 4), False
    return round(hi + d, 4), False


# ---- water density ----------------------------------------------------------------------

def gen_density(rng):
    T, inside = _t_case(rng, 273.15, 313.15)
    T2, _ = _t_case(rng, 273.15, 313.15)
    return {"T": T, "inside": inside, "T2": T2, "uobj": rng.choice(["default_units", "quantities"])}


def check_density(c):
    from chempy.properties.water_density_tanaka_2001 import water_density as f
    T, inside = c["T"], c["inside"]
    u = _units_objs()[c["uobj"]]
    ck = Checker("water_density(T=%r K)" % T)
    try:
        v, w = ck.call(inside, f, T)
        ck.warned("unitless", w, not inside)
        ck.same("unitless value [kg/m3]", v, tanaka(T))
        v2, w2 = ck.call(inside, f, T, warn=False)
        ck.warned("warn=False", w2, False)
        ck.same("warn=False value", v2, tanaka(T))
        q, wq = ck.call(inside, f, _K(T), units=u)
        ck.warned("units=%s" % c["uobj"], wq, not inside)
        ck.quantity("result with units", q, tanaka(T), D_DENS, doc_unit=O.build([("kg", 1), ("metre", -3)]), doc_value=tanaka(T))
        q2, wq2 = ck.call(inside, f, _K(T), units=u, warn=False)
        ck.warned("units, warn=False", wq2, False)
        # explicit T0 in kelvin, array input (the module's own tests use arrays with units)
        q3, _ = ck.call(inside, f, _K(T), T0=_K(273.15), units=u, warn=False)
        ck.quantity("result with explicit T0", q3, tanaka(T), D_DENS)
        in2 = 273.15 <= c["T2"] <= 313.15
        arr, wa = ck.call(inside and in2, f, np.array([T, c["T2"]]) * O.getu("K"), units=u)
        ck.quantity("array result", arr, np.array([tanaka(T), tanaka(c["T2"])]), D_DENS)
        ck.warned("array input", wa, not (inside and in2))
        arr0, _ = ck.call(inside and in2, f, np.array([T, c["T2"]]), warn=False)
        ck.same("unitless array", arr0, [tanaka(T), tanaka(c["T2"])])
    except O.Unknown:
        raise
    except Exception as e:
        ck.err("raised %s" % _exc(e))
    return ck.errs


# ---- water viscosity --------------------------------------------------------------------

def gen_viscosity(rng):
    T, inside = _t_case(rng, 273.15, 373.15)
    return {"T": T, "inside": inside, "eta_unit": rng.choice(sorted(VISC)), "eta20": round(rng.uniform(0.9, 1.1), 4),
            "uobj": rng.choice(["default_units", "quantities"]), "T2": _t_case(rng, 273.15, 373.15)[0]}


def check_viscosity(c):
    from chempy.properties.water_viscosity_korson_1969 import water_viscosity as f
    T, inside = c["T"], c["inside"]
    u = _units_objs()[c["uobj"]]
    ck = Checker("water_viscosity(T=%r K)" % T)
    cP = O.TABLE["centipoise"][0]
    try:
        v, w = ck.call(inside, f, T)
        ck.warned("unitless", w, not inside)
        ck.same("unitless value [cP]", v, korson(T))
        _, w2 = ck.call(inside, f, T, warn=False)
        ck.warned("warn=False", w2, False)
        q, wq = ck.call(inside, f, _K(T), units=u)
        ck.warned("units=%s" % c["uobj"], wq, not inside)
        ck.quantity("result with units", q, korson(T) * cP, D_VISC, doc_unit=O.getu("centipoise"), doc_value=korson(T))
        _, wq2 = ck.call(inside, f, _K(T), units=u, warn=False)
        ck.warned("units, warn=False", wq2, False)
        # eta20 supplied in a scaled unit
        e20 = c["eta20"]
        ve, _ = ck.call(inside, f, T, eta20=e20, warn=False)
        ck.same("unitless, eta20=%r cP" % e20, ve, korson(T, e20))
        qe, _ = ck.call(inside, f, _K(T), eta20=_q(e20 * cP, VISC, c["eta_unit"]), units=u, warn=False)
        ck.quantity("eta20 given in %s" % c["eta_unit"], qe, korson(T, e20) * cP, D_VISC, doc_unit=O.getu("centipoise"), doc_value=korson(T, e20))
        # arrays: unit-free only (with units `10 ** array_quantity` is refused by `quantities`; arrays are not part of the property)
        in2 = 273.15 <= c["T2"] <= 373.15
        arr, wa = ck.call(inside and in2, f, np.array([T, c["T2"]]))
        ck.same("unitless array", arr, [korson(T), korson(c["T2"])])
        ck.warned("array input", wa, not (inside and in2))
    except O.Unknown:
        raise
    except Exception as e:
        ck.err("raised %s" % _exc(e))
    return ck.errs


# ---- water self diffusion ---------------------------------------------------------------

def gen_diffusion(rng):
    T, inside = _t_case(rng, 273.15, 373.15)
    return {"T": T, "inside": inside, "err": [rng.choice([-1, 0, 1, 0.5]), rng.choice([-1, 0, 1, 2])],
            "uobj": rng.choice(["default_units", "quantities"]), "T2": _t_case(rng, 273.15, 373.15)[0]}


def check_diffusion(c):
    from chempy.properties.water_diffusivity_holz_2000 import water_self_diffusion_coefficient as f
    T, inside = c["T"], c["inside"]
    u = _units_objs()[c["uobj"]]
    ck = Checker("water_self_diffusion_coefficient(T=%r K)" % T)
    try:
        v, w = ck.call(inside, f, T)
        ck.warned("unitless", w, not inside)
        ck.same("unitless value [m2/s]", v, holz(T))
        _, w2 = ck.call(inside, f, T, warn=False)
        ck.warned("warn=False", w2, False)
        q, wq = ck.call(inside, f, _K(T), units=u)
        ck.warned("units=%s" % c["uobj"], wq, not inside)
        ck.quantity("result with units", q, holz(T), D_DIFF, doc_unit=O.build(DIFF["m2/s"]), doc_value=holz(T))
        _, wq2 = ck.call(inside, f, _K(T), units=u, warn=False)
        ck.warned("units, warn=False", wq2, False)
        ve, _ = ck.call(inside, f, T, err_mult=c["err"], warn=False)
        ck.same("unitless err_mult=%r" % c["err"], ve, holz(T, *c["err"]))
        qe, _ = ck.call(inside, f, _K(T), units=u, err_mult=c["err"], warn=False)
        ck.quantity("err_mult=%r with units" % c["err"], qe, holz(T, *c["err"]), D_DIFF)
        in2 = 273.15 <= c["T2"] <= 373.15
        arr, wa = ck.call(inside and in2, f, np.array([T, c["T2"]]) * O.getu("K"), units=u)
        ck.quantity("array result", arr, np.array([holz(T), holz(c["T2"])]), D_DIFF)
        ck.warned("array input", wa, not (inside and in2))
    except O.Unknown:
        raise
    except Exception as e:
        ck.err("raised %s" % _exc(e))
    return ck.errs


# ---- water permittivity -----------------------------------------------------------------

def gen_permittivity(rng):
    T, inside = _t_case(rng, 273.15, 623.15)
    k = rng.random()
    if k < 0.5:
        P = round(rng.uniform(0.5, 1000), 3)
    elif k < 0.8:
        P = round(rng.uniform(1000, 1990), 2)
    else:
        P = round(rng.uniform(2010, 4500), 1)
    return {"T": T, "inside": inside, "P": P, "punit": rng.choice(sorted(PRES)), "backend": rng.choice(["default", "math", "numpy"]),
            "uobj": rng.choice(["default_units", "quantities"])}


def check_permittivity(c):
    from chempy.properties.water_permittivity_bradley_pitzer_1979 import water_permittivity as f
    T, P = c["T"], c["P"]
    u = _units_objs()[c["uobj"]]
    ck = Checker("water_permittivity(T=%r K, P=%r bar)" % (T, P))
    bk = {} if c["backend"] == "default" else {"backend": __import__(c["backend"])}
    t_inside = c["inside"]
    # documented (by the warning texts): 0-350 degC; above 70 degC only to 2000 bar (below 70 degC to 5000 bar)
    must_warn = (not t_inside) or (T > 343.15 + 1e-9 and P > 2000)
    try:
        ref = bradley_pitzer(T, P) if t_inside else None
        v, w = ck.call(t_inside, f, T, P, **bk)
        ck.warned("unitless", w, must_warn)
        if t_inside:
            ck.same("unitless value", v, ref)
        _, w2 = ck.call(t_inside, f, T, P, warn=False, **bk)
        ck.warned("warn=False", w2, False)
        Pq = _q(P * 1e5, PRES, c["punit"])
        q, wq = ck.call(t_inside, f, _K(T), Pq, units=u, **bk)
        ck.warned("units, P in %s" % c["punit"], wq, must_warn)
        _, wq2 = ck.call(t_inside, f, _K(T), Pq, units=u, warn=False, **bk)
        ck.warned("units, warn=False", wq2, False)
        if t_inside:
            from chempy.units import to_unitless
            ck.quantity("result with P in %s" % c["punit"], q, ref, D_NONE)
            if q is not None:
                ck.same("to_unitless(result)", to_unitless(q), ref)
            d1, _ = ck.call(True, f, T, warn=False, **bk)       # default pressure 1 bar
            ck.same("default P", d1, bradley_pitzer(T, 1.0))
            dq, _ = ck.call(True, f, _K(T), units=u, warn=False, **bk)
            ck.quantity("default P with units", dq, bradley_pitzer(T, 1.0), D_NONE)
    except O.Unknown:
        raise
    except Exception as e:
        ck.err("raised %s" % _exc(e))
    return ck.errs


# ---- sulfuric acid density and its inverse ----------------------------------------------

def gen_sulfuric(rng):
    T, t_in = _t_case(rng, 273.15, 323.15)
    k = rng.random()
    if k < 0.7:
        w, w_in = round(rng.uniform(0.1001, 0.8999), 4), True
    else:
        w, w_in = rng.choice([0.0999, 0.05, 0.0, 0.9001, 0.95, 0.99]), False
    return {"T": T, "t_in": t_in, "w": w, "w_in": w_in, "uobj": rng.choice(["default_units", "quantities"]),
            "cunit": rng.choice(sorted(CONC)), "munit": rng.choice(["kg/mol", "g/mol", "mg/mmol"]),
            "aunit": rng.choice(["kg/m3", "g/cm3", "g/litre"])}


MM = {"kg/mol": [("kg", 1), ("mol", -1)], "g/mol": [("g", 1), ("mol", -1)], "mg/mmol": [("mg", 1), ("mmol", -1)]}
DENS = {"kg/m3": [("kg", 1), ("metre", -3)], "g/cm3": [("g", 1), ("cm", -3)], "g/litre": [("g", 1), ("litre", -1)]}


def check_sulfuric(c):
    from chempy.properties.sulfuric_acid_density_myhre_1998 import sulfuric_acid_density as f, density_from_concentration as g
    from chempy.util import NoConvergence
    T, w = c["T"], c["w"]
    u = _units_objs()[c["uobj"]]
    ck = Checker("sulfuric_acid_density(w=%r, T=%r K)" % (w, T))
    try:
        ok_in = c["t_in"] and c["w_in"]
        v, ws = ck.call(ok_in, f, w, T)
        ck.warned("unitless (temperature)", [m for m in ws if "emperature" in m], not c["t_in"])
        ck.warned("unitless (mass fraction)", [m for m in ws if "raction" in m], not c["w_in"])
        if c["t_in"] and c["w_in"] and ws:
            ck.err("warning %r with all inputs inside the documented ranges" % ws)
        ck.same("unitless value [kg/m3]", v, myhre(w, T))
        _, w2 = ck.call(ok_in, f, w, T, warn=False)
        ck.warned("warn=False", w2, False)
        q, wq = ck.call(ok_in, f, w, _K(T), units=u)
        ck.warned("units (temperature)", [m for m in wq if "emperature" in m], not c["t_in"])
        ck.warned("units (mass fraction)", [m for m in wq if "raction" in m], not c["w_in"])
        ck.quantity("result with units", q, myhre(w, T), D_DENS, doc_unit=O.build(DENS["kg/m3"]), doc_value=myhre(w, T))
        _, wq2 = ck.call(ok_in, f, w, _K(T), units=u, warn=False)
        ck.warned("units, warn=False", wq2, False)
        # inverse: concentration -> density (fixed point), region where it converges: w <= 0.7
        if c["t_in"] and c["w_in"] and v is not None:
            conc = w * v / M_H2SO4   # mol/m3
            try:
                r, wr = _call(g, conc, T, maxiter=200)
                ck.warned("density_from_concentration (warn defaults to False)", wr, False)
                ck.same("density_from_concentration(c = w*rho/M) [kg/m3]", r, v, 0.0, atol=0.02)
                # units: concentration, molar mass and tolerance in scaled units
                rq, _ = _call(g, _q(conc, CONC, c["cunit"]), _K(T), molar_mass=_q(M_H2SO4, MM, c["munit"]),
                              atol=_q(1e-3, DENS, c["aunit"]), units=u, maxiter=200)
                ck.quantity("density_from_concentration, c in %s, M in %s, atol in %s" % (c["cunit"], c["munit"], c["aunit"]),
                            rq, r, D_DENS, 1e-8, doc_unit=O.build(DENS["kg/m3"]), doc_value=r)
                rq2, _ = _call(g, _q(conc, CONC, c["cunit"]), _K(T), units=u, maxiter=200)
                ck.quantity("density_from_concentration with defaults, c in %s" % c["cunit"], rq2, r, D_DENS, 1e-8)
            except NoConvergence:
                if w <= 0.7:
                    ck.err("density_from_concentration(maxiter=200) did not converge for w=%r <= 0.7" % w)
            # maxiter exceeded -> NoConvergence, never a silently wrong value
            try:
                r1 = g(conc, T, maxiter=1)
                if abs(r1 - v) > 0.02:
                    ck.err("density_from_concentration(maxiter=1) returned %r (true %r) instead of raising NoConvergence" % (r1, v))
            except NoConvergence:
                pass
    except O.Unknown:
        raise
    except Exception as e:
        ck.err("raised %s" % _exc(e))
    return ck.errs


# ---- Schumpe salting out ----------------------------------------------------------------

def gen_schumpe(rng):
    ions = rng.sample(sorted(SCHUMPE_ION), rng.randint(1, 4))
    return {"gas": rng.choice(sorted(SCHUMPE_GAS)), "ions": {i: [round(rng.uniform(0.01, 3), 4), rng.choice(sorted(CONC))] for i in ions},
            "uobj": rng.choice(["default_units", "quantities"])}


def check_schumpe(c):
    from chempy.properties.gas_sol_electrolytes_schumpe_1993 import lg_solubility_ratio as f
    u = _units_objs()[c["uobj"]]
    gas = c["gas"]
    ck = Checker("lg_solubility_ratio(%s, %s)" % (json.dumps(c["ions"], sort_keys=True), gas))
    exp = sum((SCHUMPE_GAS[gas] + SCHUMPE_ION[i]) * cM for i, (cM, _) in c["ions"].items())
    has_f = "F-" in c["ions"]
    try:
        v, w = _call(f, {i: cM for i, (cM, _) in c["ions"].items()}, gas)
        ck.same("unitless value (molar)", v, exp, RT, 1e-15)
        ck.warned("fluoride note", w, has_f)
        _, w2 = _call(f, {i: cM for i, (cM, _) in c["ions"].items()}, gas, warn=False)
        ck.warned("warn=False", w2, False)
        q, wq = _call(f, {i: _q(cM * 1e3, CONC, un) for i, (cM, un) in c["ions"].items()}, gas, units=u)
        ck.quantity("result with concentrations in mixed units", q, exp, D_NONE, RT)
        from chempy.units import to_unitless
        ck.same("to_unitless(result)", to_unitless(q), exp, RT, 1e-15)
        ck.warned("fluoride note (units)", wq, has_f)
    except O.Unknown:
        raise
    except Exception as e:
        ck.err("raised %s" % _exc(e))
    return ck.errs


# ---- Henry's law ------------------------------------------------------------------------

HCP = {"M/atm": [("molar", 1), ("atm", -1)], "M/bar": [("molar", 1), ("bar", -1)], "mol/m3/Pa": [("mol", 1), ("metre", -3), ("pascal", -1)],
       "mM/kPa": [("millimolar", 1), ("kPa", -1)]}


def gen_henry(rng):
    return {"H": float("%.4g" % (10 ** rng.uniform(-5, -1))), "Td": round(rng.uniform(-500, 3000), 1), "T": round(rng.uniform(273.15, 373.15), 3),
            "T0": rng.choice([None, 298.15, 293.15, 310.0]), "P": round(rng.uniform(0.01, 20), 4), "hunit": rng.choice(sorted(HCP)),
            "punit": rng.choice(sorted(PRES)), "cunit": rng.choice(sorted(CONC)), "backend": rng.choice(["default", "math", "numpy"])}


def check_henry(c):
    from chempy.henry import Henry, HenryWithUnits, Henry_H_at_T
    H, Td, T, T0, P = c["H"], c["Td"], c["T"], c["T0"], c["P"]   # H in M/atm, P in atm (unitless mode)
    ck = Checker("Henry(Hcp=%r M/atm, Tderiv=%r K, T0=%r)(T=%r K)" % (H, Td, T0, T))
    bk = {} if c["backend"] == "default" else {"backend": __import__(c["backend"])}
    exp = H * math.exp(Td * (1.0 / T - 1.0 / (T0 or 298.15)))
    atm = 101325.0
    exp_si = exp * 1e3 / atm            # mol/m3/Pa
    D_H = tuple(a - b for a, b in zip(D_CONC, D_PRES))
    u = O.units_ns()
    try:
        h = Henry(H, Td) if T0 is None else Henry(H, Td, T0)
        v, w = _call(h, T, **bk)
        ck.same("unitless H(T) [M/atm]", v, exp)
        ck.warned("Henry", w, False)
        ck.same("Henry_H_at_T", Henry_H_at_T(T, H, Td, T0, **bk), exp)
        cc = h.get_c_at_T_and_P(T, P, **bk)
        ck.same("get_c_at_T_and_P [M]", cc, exp * P)
        ck.same("get_P_at_T_and_c(get_c_at_T_and_P(T, P))", h.get_P_at_T_and_c(T, cc, **bk), P)
        # with units, everything in scaled units
        Hq = _q(H * 1e3 / atm, HCP, c["hunit"])
        hu = HenryWithUnits(Hq, _K(Td)) if T0 is None else HenryWithUnits(Hq, _K(Td), _K(T0))
        q = hu(_K(T), **bk)
        ck.quantity("HenryWithUnits(Hcp in %s)(T)" % c["hunit"], q, exp_si, D_H, doc_unit=O.build(HCP["M/atm"]), doc_value=exp)
        Pq = _q(P * atm, PRES, c["punit"])
        cq = hu.get_c_at_T_and_P(_K(T), Pq, **bk)
        ck.quantity("get_c_at_T_and_P(P in %s)" % c["punit"], cq, exp * P * 1e3, D_CONC, doc_unit=O.getu("molar"), doc_value=exp * P)
        pq_ = hu.get_P_at_T_and_c(_K(T), _q(exp * P * 1e3, CONC, c["cunit"]), **bk)
        ck.quantity("get_P_at_T_and_c(c in %s)" % c["cunit"], pq_, P * atm, D_PRES, doc_unit=O.getu("atm"), doc_value=P)
        pq2 = hu.get_P_at_T_and_c(_K(T), cq, **bk)
        ck.quantity("get_P_at_T_and_c(get_c_at_T_and_P(T, P))", pq2, P * atm, D_PRES)
        # plain Henry called with units=...
        hp = Henry(Hq, _K(Td), None if T0 is None else _K(T0))
        q3 = hp(_K(T), units=u, **bk)
        ck.quantity("Henry(...)(T, units=u)", q3, exp_si, D_H)
        cq3 = hp.get_c_at_T_and_P(_K(T), Pq, units=u, **bk)           # keyword arguments reach __call__
        ck.quantity("Henry.get_c_at_T_and_P(.., units=u)", cq3, exp * P * 1e3, D_CONC)
        pq3 = hp.get_P_at_T_and_c(_K(T), _q(exp * P * 1e3, CONC, c["cunit"]), units=u, **bk)
        ck.quantity("Henry.get_P_at_T_and_c(.., units=u)", pq3, P * atm, D_PRES)
    except O.Unknown:
        raise
    except Exception as e:
        ck.err("raised %s" % _exc(e))
    return ck.errs


# ---- Nernst potential -------------------------------------------------------------------

F_C, R_G = 96485.33289, 8.3144598   # CODATA 2014, the values the docstring's unit-free mode promises


def gen_nernst(rng):
    co = float("%.4g" % (10 ** rng.uniform(-4, 0)))
    ci = float("%.4g" % (10 ** rng.uniform(-4, 0)))
    return {"co": co, "ci": ci, "z": rng.choice([-2, -1, 1, 2, 3]), "T": round(rng.uniform(270, 330), 2),
            "u_out": rng.choice(sorted(CONC)), "u_in": rng.choice(sorted(CONC)), "backend": rng.choice(["math", "numpy"])}


def check_nernst(c):
    from chempy.electrochemistry.nernst import nernst_potential as f
    from chempy.units import default_constants
    co, ci, z, T = c["co"], c["ci"], c["z"], c["T"]     # molar
    ck = Checker("nernst_potential(%r M, %r M, z=%d, T=%r K)" % (co, ci, z, T))
    exp = R_G * T / (z * F_C) * math.log(co / ci)
    be = __import__(c["backend"])
    u = O.units_ns()
    scale = abs(R_G * T / (z * F_C))  # absolute floor: log(ratio) may be near zero
    try:
        v = f(co, ci, z, T, backend=be)
        ck.same("unitless value [V]", v, exp, RT, RT * scale)
        ck.same("unitless value, both concentrations in mM", f(co * 1e3, ci * 1e3, z, T, backend=be), exp, RT, RT * scale)
        qo, qi = _q(co * 1e3, CONC, c["u_out"]), _q(ci * 1e3, CONC, c["u_in"])
        q = f(qo, qi, z, _K(T), units=u, backend=be)
        p = O.phys(q)
        if p[1] != D_VOLT:
            ck.err("with units (c_out in %s, c_in in %s): dimension %r, expected volt %r" % (c["u_out"], c["u_in"], p[1], D_VOLT))
        elif not O.close(p[0], exp, RT, RT * scale):
            ck.err("with units (c_out in %s, c_in in %s): %r V, expected %r V" % (c["u_out"], c["u_in"], p[0], exp))
        q2 = f(qo, qi, z, _K(T), default_constants, backend=be)       # CODATA revision of `quantities`: 1e-6
        p2 = O.phys(_fold(q2))
        if p2[1] != D_VOLT:
            ck.err("with default_constants: dimension %r, expected volt" % (p2[1],))
        elif not O.close(p2[0], exp, 2e-6, 2e-6 * scale):
            ck.err("with default_constants (c_out in %s, c_in in %s): %r V, expected %r V" % (c["u_out"], c["u_in"], p2[0], exp))
        q3 = f(co, ci, z, _K(T), default_constants, backend=be)       # plain numbers for the concentrations
        p3 = O.phys(_fold(q3))
        if p3[1] != D_VOLT or not O.close(p3[0], exp, 2e-6, 2e-6 * scale):
            ck.err("with default_constants and plain concentrations: %r V dims %r, expected %r V" % (p3[0], p3[1], exp))
    except O.Unknown:
        raise
    except Exception as e:
        ck.err("raised %s" % _exc(e))
    return ck.errs


def _fold(q):
    """express physical constants (R, F, k, e as `quantities` UnitConstant objects) in ordinary units so that
    the oracle table can measure the result; uses the constants' own definitions (observation, not oracle)"""
    import quantities as pq
    if not hasattr(q, "dimensionality"):
        return q
    m, d = q.magnitude, pq.dimensionless
    for k, v in q.dimensionality.items():
        if isinstance(k, pq.UnitConstant):
            r = k.simplified
            m = m * float(r.magnitude) ** v
            d = d * r.units ** v
        else:
            d = d * k ** v
    return m * d


# ---- Einstein-Smoluchowski mobility ------------------------------------------------------

KB, QE = 1.38064852e-23, 1.60217662e-19   # CODATA 2014


def gen_mobility(rng):
    return {"D": float("%.4g" % (10 ** rng.uniform(-11, -8))), "z": rng.choice([-3, -2, -1, 1, 2, 3]), "T": round(rng.uniform(250, 400), 2),
            "dunit": rng.choice(sorted(DIFF))}


def check_mobility(c):
    from chempy.einstein_smoluchowski import electrical_mobility_from_D as f
    from chempy.units import default_constants
    D, z, T = c["D"], c["z"], c["T"]
    ck = Checker("electrical_mobility_from_D(D=%r m2/s, z=%d, T=%r K)" % (D, z, T))
    exp = D * z * QE / (KB * T)
    u = O.units_ns()
    try:
        ck.same("unitless value [m2/(V s)]", f(D, z, T), exp)
        Dq = _q(D, DIFF, c["dunit"])
        q = f(Dq, z, _K(T), None, u)
        ck.quantity("with units, D in %s" % c["dunit"], q, exp, D_MOB, doc_unit=O.build([("metre", 2), ("volt", -1), ("s", -1)]), doc_value=exp)
        q2 = f(Dq, z, _K(T), default_constants, u)
        p2 = O.phys(_fold(q2))
        if p2[1] != D_MOB or not O.close(p2[0], exp, 2e-6):
            ck.err("with default_constants, D in %s: %r (dims %r), expected %r m2/(V s)" % (c["dunit"], p2[0], p2[1], exp))
    except O.Unknown:
        raise
    except Exception as e:
        ck.err("raised %s" % _exc(e))
    return ck.errs


# ---- anchors and shape (fixed list, exhaustive) -----------------------------------------

def enum_anchors():
    return [{"which": w} for w in ["density_table", "density_shape", "viscosity_table", "viscosity_shape", "diffusion_table",
                                   "diffusion_shape", "permittivity_table", "permittivity_shape", "sulfuric_table", "sulfuric_shape",
                                   "schumpe_table", "henry_table", "nernst_table", "mobility_table", "defaults"]]


def check_anchor(c):
    from chempy.properties.water_density_tanaka_2001 import water_density
    from chempy.properties.water_viscosity_korson_1969 import water_viscosity
    from chempy.properties.water_diffusivity_holz_2000 import water_self_diffusion_coefficient as wsd
    from chempy.properties.water_permittivity_bradley_pitzer_1979 import water_permittivity
    from chempy.properties.sulfuric_acid_density_myhre_1998 import sulfuric_acid_density, density_from_concentration
    from chempy.properties.gas_sol_electrolytes_schumpe_1993 import lg_solubility_ratio
    from chempy.henry import Henry, HenryWithUnits
    from chempy.electrochemistry.nernst import nernst_potential
    from chempy.einstein_smoluchowski import electrical_mobility_from_D
    from chempy.units import to_unitless
    u = O.units_ns()
    which = c["which"]
    ck = Checker(which)

    def table(f, rows, label):
        for T, ref, tol in rows:
            v, w = _call(f, T)
            if w:
                ck.err("%s(%r): unexpected warning %r" % (label, T, w))
            if not abs(v - ref) <= tol:
                ck.err("%s(%r K) = %r, published %r +- %r" % (label, T, v, ref, tol))

    try:
        if which == "density_table":
            # VSMOW table values (kg/m3) quoted in the module's tests; docstring 999.97 at 277.13 K
            table(water_density, [(273.15, 999.8395, 0.004), (277.15, 999.9720, 0.003), (283.15, 999.7026, 0.0003), (288.15, 999.1026, 0.0001),
                                  (293.15, 998.2071, 0.0005), (295.15, 997.7735, 0.0007), (298.15, 997.0479, 0.0009), (303.15, 995.6502, 0.0016),
                                  (313.15, 992.2, 0.02), (277.13, 999.97, 0.005)], "water_density")
        elif which == "density_shape":
            t = np.linspace(0.0, 40.0, 4001)
            rho = np.array([water_density(273.15 + x, warn=False) for x in t])
            tmax = t[int(np.argmax(rho))]
            if not 3.9 <= tmax <= 4.1:
                ck.err("water densest at %r degC on a 0.01 K grid, expected within [3.9, 4.1]" % tmax)
            i = int(np.argmax(rho))
            if not (np.all(np.diff(rho[:i + 1]) > 0) and np.all(np.diff(rho[i:]) < 0)):
                ck.err("density not unimodal on [0, 40] degC")
            q = water_density(np.linspace(273.15, 313.15, 401) * u.K, units=u, warn=False)
            ck.quantity("vectorised with units", q, np.array([tanaka(x) for x in np.linspace(273.15, 313.15, 401)]), D_DENS)
        elif which == "viscosity_table":
            vals = [1.7916, 1.5192, 1.3069, 1.1382, 1.0020, 0.8903, 0.7975, 0.7195, 0.6532, 0.5963, 0.5471, 0.5042, 0.4666, 0.4334, 0.4039,
                    0.3775, 0.3538, 0.3323, 0.3128, 0.2949, 0.2783]   # Korson Table II, cP, 0..100 degC in steps of 5
            table(water_viscosity, [(273.15 + 5 * i, v, 5e-4 if i < 19 else (6e-4 if i == 19 else 2e-3)) for i, v in enumerate(vals)], "water_viscosity")
        elif which == "viscosity_shape":
            t = np.linspace(273.15, 373.15, 2001)
            eta = np.array([water_viscosity(x, warn=False) for x in t])
            if not np.all(np.diff(eta) < 0):
                ck.err("viscosity not strictly decreasing on [0, 100] degC")
        elif which == "diffusion_table":
            table(wsd, [(273.15, 1.099e-9, 0.027e-9), (277.15, 1.261e-9, 0.011e-9), (283.15, 1.525e-9, 0.007e-9), (288.15, 1.765e-9, 0.006e-9),
                        (293.15, 2.023e-9, 0.001e-9), (298.15, 2.299e-9, 0.001e-9), (303.15, 2.594e-9, 0.001e-9), (308.15, 2.907e-9, 0.004e-9)],
                  "water_self_diffusion_coefficient")
        elif which == "diffusion_shape":
            t = np.linspace(273.15, 373.15, 2001)
            d = np.array([wsd(x, warn=False) for x in t])
            if not np.all(np.diff(d) > 0):
                ck.err("self-diffusion coefficient not increasing with temperature on [0, 100] degC")
        elif which == "permittivity_table":
            for T, P, ref, tol in [(298.15, 1.0, 78.4, 0.1), (293.15, 1.0, 80.1, 0.2), (373.15, 1.0, 55.3, 0.5), (273.15, 1.0, 87.9, 0.3),
                                   (298.15, 1.0, 78.38436874203077, 1e-6)]:
                v, w = _call(water_permittivity, T, P)
                if w or not abs(v - ref) <= tol:
                    ck.err("water_permittivity(%r K, %r bar) = %r (warnings %r), published %r +- %r" % (T, P, v, w, ref, tol))
        elif which == "permittivity_shape":
            t = np.linspace(273.15, 623.15, 1401)
            for P in (1.0, 100.0, 1000.0):
                e = np.array([water_permittivity(x, P, warn=False) for x in t])
                if not np.all(np.diff(e) < 0):
                    ck.err("permittivity not decreasing with temperature at %r bar" % P)
            for T in (273.15, 298.15, 373.15, 473.15):
                e = np.array([water_permittivity(T, P, warn=False) for P in np.linspace(1, 2000, 401)])
                if not np.all(np.diff(e) > 0):
                    ck.err("permittivity not increasing with pressure at %r K" % T)
        elif which == "sulfuric_table":
            if "%d" % sulfuric_acid_density(0.5, 293) != "1396":
                ck.err("sulfuric_acid_density(.5, 293) = %r, docstring 1396" % sulfuric_acid_density(0.5, 293))
            if abs(sulfuric_acid_density(0.1, 298) - 1063.8) >= 0.1:
                ck.err("sulfuric_acid_density(.1, 298) = %r, published 1063.8" % sulfuric_acid_density(0.1, 298))
            if "%d" % density_from_concentration(400, 293) != "1021":
                ck.err("density_from_concentration(400, 293) = %r, docstring 1021" % density_from_concentration(400, 293))
            if abs(density_from_concentration(1000) - 1058.5) >= 0.1:
                ck.err("density_from_concentration(1000) = %r, published 1058.5" % density_from_concentration(1000))
            rq = density_from_concentration(0.4 * u.molar, units=u)     # same call without units: 400 mol/m3 at the default 298.15 K
            ck.quantity("density_from_concentration(0.4 M, units)", rq, density_from_concentration(400), D_DENS, 1e-8)
            # handbook densities of aqueous H2SO4 at 20 degC (kg/m3), +-0.3 %
            for w_, ref in [(0.1, 1066.1), (0.2, 1139.4), (0.3, 1218.5), (0.4, 1302.8), (0.5, 1395.1), (0.6, 1498.3), (0.7, 1610.5), (0.8, 1727.2), (0.9, 1814.4)]:
                v = sulfuric_acid_density(w_, 293.15)
                if abs(v / ref - 1) > 3e-3:
                    ck.err("sulfuric_acid_density(%r, 293.15) = %r, handbook %r +- 0.3%%" % (w_, v, ref))
        elif which == "sulfuric_shape":
            for T in (273.15, 298.15, 323.15):
                r = np.array([sulfuric_acid_density(x, T, warn=False) for x in np.linspace(0.1, 0.9, 801)])
                if not np.all(np.diff(r) > 0):
                    ck.err("sulfuric acid density not increasing with mass fraction at %r K" % T)
        elif which == "schumpe_table":
            # every tabulated ion / gas of the independent transcription, 1 M, unit-free and with units
            for gas, hg in sorted(SCHUMPE_GAS.items()):
                for ion, hi in sorted(SCHUMPE_ION.items()):
                    v, _ = _call(lg_solubility_ratio, {ion: 1.0}, gas, warn=False)
                    if not O.close(v, hg + hi, RT, 1e-15):
                        ck.err("lg_solubility_ratio({%s: 1 M}, %s) = %r, Schumpe table %r" % (ion, gas, v, hg + hi))
            v = lg_solubility_ratio({"Br-": 0.05 * u.molar, "Na+": 0.050 * u.molar}, "N2O", units=u)
            ck.same("N2O in 0.05 M NaBr", to_unitless(v), 0.05 * (0.0137 - 0.0110) + 0.05 * (0.1171 - 0.0110), RT)
        elif which == "henry_table":
            k = Henry(1.2e-3, 1800, ref="carpenter_1966")
            if "%.2g" % k(298.15) != "0.0012" or abs(k.get_c_at_T_and_P(290, 1) - 0.001421892) > 1e-8 or abs(k.get_P_at_T_and_c(310, 1e-3) - 1.05) > 1e-3:
                ck.err("Henry(1.2e-3, 1800) anchors: %r %r %r" % (k(298.15), k.get_c_at_T_and_P(290, 1), k.get_P_at_T_and_c(310, 1e-3)))
            h2 = HenryWithUnits(7.8e-4 * u.molar / u.atm, 640 * u.K, ref="dean_1992")
            ck.quantity("H2 at 300 K", h2(300 * u.K), 7.697430323e-4 * 1e3 / 101325.0, (-2, -1, 2, 0, 0, 0, 1), 1e-8)
            co = HenryWithUnits(9.7e-6 * u.mol / u.m ** 3 / u.Pa, 1300 * u.K, ref="sander_2015")
            if "%.2g" % to_unitless(co(298.15 * u.K), u.molar / u.bar) != "0.00097":
                ck.err("CO Henry constant docstring anchor: %r" % to_unitless(co(298.15 * u.K), u.molar / u.bar))
        elif which == "nernst_table":
            for a, b, z, ref in [(145, 15, 1, 60.605), (4, 150, 1, -96.8196), (2, 7e-5, 2, 137.0436), (110, 10, -1, -64.0567)]:
                v = 1000 * nernst_potential(a, b, z, 310)
                if abs(v - ref) > 1e-4:
                    ck.err("nernst_potential(%r, %r, %r, 310) = %r mV, textbook %r" % (a, b, z, v, ref))
            # 145 mM outside, 0.015 M inside: the same cell
            q = nernst_potential(145 * u.millimolar, 0.015 * u.molar, 1, 310 * u.K, units=u)
            ck.quantity("145 mM vs 0.015 M", q, 60.605e-3, D_VOLT, 1e-5)
        elif which == "mobility_table":
            ref = -2 * 1.60217657e-19 * 3 / 1.3806488e-23 / 100
            ck.same("electrical_mobility_from_D(3, -2, 100)", electrical_mobility_from_D(3, -2, 100), ref, 1e-5)
        elif which == "defaults":
            ck.same("water_density() default 298.15 K", water_density(), tanaka(298.15))
            ck.same("water_viscosity() default 298.15 K", water_viscosity(), korson(298.15))
            ck.same("water_self_diffusion_coefficient() default", wsd(), holz(298.15))
            ck.same("water_permittivity() default", water_permittivity(), bradley_pitzer(298.15, 1.0))
            ck.same("sulfuric_acid_density(0.3) default T", sulfuric_acid_density(0.3), myhre(0.3, 298.15))
            ck.quantity("water_density(units=u) default", water_density(units=u), tanaka(298.15), D_DENS)
            ck.quantity("water_viscosity(units=u) default", water_viscosity(units=u), korson(298.15) * 1e-3, D_VISC)
            ck.quantity("water_self_diffusion_coefficient(units=u) default", wsd(units=u), holz(298.15), D_DIFF)
            ck.quantity("water_permittivity(units=u) default", water_permittivity(units=u), bradley_pitzer(298.15, 1.0), D_NONE)
            ck.quantity("sulfuric_acid_density(0.3, units=u) default", sulfuric_acid_density(0.3, units=u), myhre(0.3, 298.15), D_DENS)
    except O.Unknown:
        raise
    except Exception as e:
        ck.err("raised %s" % _exc(e))
    return ck.errs


# =========================================================================================
# driver
# =========================================================================================

_RANGE = "temperatures 60% inside the documented range (incl. 1e-3 K from either end), 40% outside by 1e-3 .. 40 K on either side; "
STANDINS = {
    "water_density": (gen_density, None, check_density, 400, 20000,
                      "seeded: " + _RANGE + "value == Tanaka eq. (1e-9); units=default_units / the quantities module; explicit T0; arrays; "
                      "warning iff outside 0-40 degC, none with warn=False", "T in [233, 353] K"),
    "water_viscosity": (gen_viscosity, None, check_viscosity, 400, 20000,
                        "seeded: " + _RANGE + "value == Korson eq. (1e-9); unit mode result in viscosity units == unitless cP value; eta20 given in cP, P, "
                        "Pa*s, kg/m/s, g/cm/s; arrays; warning iff outside 0-100 degC", "T in [233, 413] K"),
    "water_self_diffusion": (gen_diffusion, None, check_diffusion, 400, 20000,
                             "seeded: " + _RANGE + "value == Holz eq. (1e-9) incl. err_mult perturbations; unit mode m2/s; arrays; warning iff "
                             "outside 0-100 degC", "T in [233, 413] K"),
    "water_permittivity": (gen_permittivity, None, check_permittivity, 400, 20000,
                           "seeded: " + _RANGE + "pressure 0.5-4500 bar given in bar, Pa, kPa, MPa, atm; value == Bradley-Pitzer eq. (1e-9), result "
                           "dimensionless; backends numpy/math; warning iff T outside 0-350 degC or (T > 70 degC and P > 2000 bar), never otherwise",
                           "T in [233, 663] K, P <= 4500 bar"),
    "sulfuric_acid_density": (gen_sulfuric, None, check_sulfuric, 400, 20000,
                              "seeded: " + _RANGE + "mass fraction 70% inside [0.1, 0.9], else just outside; value == Myhre polynomial (1e-9); "
                              "temperature / mass-fraction warnings iff outside; density_from_concentration(w*rho/M) == rho within 0.02 kg/m3 "
                              "(must converge for w <= 0.7 with maxiter=200; may raise NoConvergence above; maxiter=1 raises or is right), same with "
                              "concentration in M, mM, uM, mol/m3, mol/cm3, mmol/L, molar mass in kg/mol, g/mol, mg/mmol, atol in kg/m3, g/cm3, g/L",
                              "T in [233, 363] K, w in [0, 0.99]"),
    "schumpe_salting_out": (gen_schumpe, None, check_schumpe, 200, 10000,
                            "seeded: 1-4 ions (18 tabulated) x 10 gases, concentrations 0.01-3 M each in its own unit: value == sum (h_G + h_i) c_i with the "
                            "transcribed Schumpe table, dimensionless with units; fluoride note iff F- present", "<= 4 ions"),
    "henry": (gen_henry, None, check_henry, 250, 10000,
              "seeded: Hcp 1e-5..1e-1 M/atm given in M/atm, M/bar, mol/m3/Pa, mM/kPa; Tderiv -500..3000 K; T0 default/explicit; P in bar, Pa, kPa, MPa, atm; "
              "H(T) == Hcp exp(Tderiv (1/T - 1/T0)); get_c_at_T_and_P, get_P_at_T_and_c and their composition; Henry, HenryWithUnits, Henry_H_at_T; "
              "backends numpy/math", "T in [273.15, 373.15] K"),
    "nernst": (gen_nernst, None, check_nernst, 250, 10000,
               "seeded: concentrations 1e-4..1 M inside/outside each in its own unit (M, mM, uM, mol/m3, mol/cm3, mmol/L), z in -2..3, T in K: unit-free (M or mM), "
               "units=default_units, constants=default_constants (2e-6) all equal RT/zF ln(c_out/c_in) in volt; backends math/numpy", "T in [270, 330] K"),
    "mobility": (gen_mobility, None, check_mobility, 250, 10000,
                 "seeded: D 1e-11..1e-8 m2/s given in m2/s, cm2/s, mm2/s, um2/ms, cm2/min, z in -3..3: unit-free, units=default_units, "
                 "constants=default_constants (2e-6) all equal D z e/(kB T) with dimension A s2/kg", "T in [250, 400] K"),
    "anchors_and_shape": (None, enum_anchors, check_anchor, None, None,
                          "fixed list: published table / docstring values of every relation with the tolerance of the table; water densest within "
                          "[3.9, 4.1] degC on a 0.01 K grid and unimodal; viscosity, permittivity(T) decreasing, diffusion, permittivity(P), acid density(w) "
                          "increasing on dense grids; handbook H2SO4 densities at 20 degC (0.3 %); default arguments with and without units",
                          "15 anchor groups"),
}


def _run_one(job):
    name, seed, idx, case = job
    gen, enum, chk = STANDINS[name][:3]
    if case is None:
        case = json.loads(json.dumps(gen(random.Random(O.subseed(seed, name, idx)))))
    return name, idx, case, chk(case)


def _run_chunk(jobs):
    return [_run_one(j) for j in jobs]


def run(tier, seed):
    jobs = []
    for name, (gen, enum, chk, nq, nt, rule, bound) in STANDINS.items():
        if enum is not None:
            jobs += [(name, seed, i, c) for i, c in enumerate(enum())]
        else:
            jobs += [(name, seed, i, None) for i in range(nq if tier == "quick" else nt)]
    nchunks = 64 if tier == "quick" else 512
    chunks = [jobs[i::nchunks] for i in range(nchunks)]
    results = [r for ch in O.pmap(_run_chunk, [c for c in chunks if c], 16) for r in ch]
    results.sort(key=lambda r: (r[0], r[1]))
    out = []
    for name, (gen, enum, chk, nq, nt, rule, bound) in STANDINS.items():
        rs = [r for r in results if r[0] == name]
        keys = set(json.dumps(r[2], sort_keys=True) for r in rs)
        viol = [{"inputs": case, "index": idx, "detail": "; ".join(errs[:3]) + (" (+%d more)" % (len(errs) - 3) if len(errs) > 3 else "")}
                for _, idx, case, errs in rs if errs]
        out.append({"name": name, "rule": rule, "bound": bound, "evaluations": len(rs), "distinct": len(keys),
                    "exhaustive": False, "samples": [r[2] for r in rs[:2]], "violations": viol[:25]})
    return {"standins": out}


def replay(case):
    errs = STANDINS[case["name"]][2](case["inputs"])
    return (not errs), ("holds" if not errs else "; ".join(errs[:3]))
