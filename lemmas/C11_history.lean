/-
C11, the quantifier over operation histories: an expression built from given equilibria by integer scaling, addition and subtraction
denotes (net stoichiometry, constant) = (Σ_i c_i • ν_i , Π_i K_i ^ c_i), where c_i is the total integer coefficient with which operand i
enters the expression.  The contracts prove on the real code that ONE scaling / addition / subtraction acts as `step` below
(net stoichiometry n•ν, ν₁+ν₂, ν₁-ν₂; constant K^n, K₁*K₂, K₁/K₂ -- obligations C11.scale.*, C11.add.*, C11.sub.*); this lemma is the induction
over the expression, for any number of operands and species.  Constants live in a commutative group (positive reals, or symbols).
-/
import Mathlib

open Finset

inductive EqExpr (ι : Type) where
  | leaf  : ι → EqExpr ι
  | scale : ℤ → EqExpr ι → EqExpr ι
  | add   : EqExpr ι → EqExpr ι → EqExpr ι
  | sub   : EqExpr ι → EqExpr ι → EqExpr ι

namespace EqExpr

variable {ι S G : Type} [Fintype ι] [DecidableEq ι] [CommGroup G]

/-- total coefficient of operand `i` in the expression -/
def coef : EqExpr ι → ι → ℤ
  | leaf j, i      => if i = j then 1 else 0
  | scale n e, i   => n * coef e i
  | add a b, i     => coef a i + coef b i
  | sub a b, i     => coef a i - coef b i

/-- net stoichiometry denoted by the expression (what the code computes step by step) -/
def nu (ν : ι → S → ℤ) : EqExpr ι → S → ℤ
  | leaf j      => ν j
  | scale n e   => fun s => n * nu ν e s
  | add a b     => fun s => nu ν a s + nu ν b s
  | sub a b     => fun s => nu ν a s - nu ν b s

/-- equilibrium constant denoted by the expression (what the code computes step by step) -/
def const (K : ι → G) : EqExpr ι → G
  | leaf j      => K j
  | scale n e   => const K e ^ n
  | add a b     => const K a * const K b
  | sub a b     => const K a / const K b

theorem nu_eq_combination (ν : ι → S → ℤ) (e : EqExpr ι) (s : S) :
    nu ν e s = ∑ i, coef e i * ν i s := by
  induction e with
  | leaf j => simp [nu, coef]
  | scale n e ih => simp [nu, coef, ih, Finset.mul_sum, mul_assoc]
  | add a b iha ihb => simp [nu, coef, iha, ihb, add_mul, Finset.sum_add_distrib]
  | sub a b iha ihb => simp [nu, coef, iha, ihb, sub_mul, Finset.sum_sub_distrib]

theorem const_eq_product_of_powers (K : ι → G) (e : EqExpr ι) :
    const K e = ∏ i, K i ^ coef e i := by
  induction e with
  | leaf j => simp [const, coef]
  | scale n e ih =>
      simp only [const, coef, ih]
      rw [← Finset.prod_zpow]
      refine Finset.prod_congr rfl (fun i _ => ?_)
      rw [← zpow_mul, mul_comm]
  | add a b iha ihb => simp [const, coef, iha, ihb, zpow_add, Finset.prod_mul_distrib]
  | sub a b iha ihb =>
      simp only [const, coef, iha, ihb, zpow_sub]
      rw [← Finset.prod_div_distrib]
      exact Finset.prod_congr rfl (fun i _ => div_eq_mul_inv _ _)

end EqExpr
