# -*- coding: utf-8 -*-
"""Shared helper of the bounded stand-ins C01 / C12 / C13.

* a seeded generator of *derivation trees* of the formula notation of property C01
  (118 element symbols, integer / decimal subscripts, nested ( ) [ ] { } groups with
  multipliers, hydrate parts joined by '..' or U+00B7 with leading counts, trailing charge,
  radical '.' and greek prefixes, phase suffixes, prime / star marks);
* `render(tree)`  : the text of the derivation;
* `expected(tree)`: the composition computed from the TREE with exact rational arithmetic
  (sum over occurrences of the product of the enclosing multipliers; key 0 = signed charge iff
  a charge is written) -- the oracle never parses text;
* `ref_parse(text)`: an independent recursive-descent reader of the same notation (longest-match
  tokeniser over the reference symbol list of /verif/spec/iupac.py); used where a *text* has to be
  interpreted without chempy (two-symbol adjacency, un-done LaTeX/Unicode/HTML names);
* `pmap`: deterministic fork-pool map.

Nothing here imports chempy.  A tree is JSON-able:
  {"greek": None | "alpha", "radical": bool, "sep": ".." | "·",
   "parts": [{"mult": "" | "7", "terms": [term, ...]}, ...]      (parts[0]["mult"] == "")
   "marks": "" | "*" | "''" ..., "charge": "" | "+" | "-2" ..., "suffix": "" | "(aq)" ...}
  term = ["e", "Na", "2"]  |  ["g", "(", [term, ...], "3"]         (count text "" means 1)
"""
import hashlib
import multiprocessing as mp
import os
import random
import re
import sys
from fractions import Fraction

try:
    from spec.iupac import TABLE
except ImportError:  # module imported from another cwd
    sys.path.insert(0, os.path.dirname(os.path.dirname(os.path.abspath(__file__))))
    from spec.iupac import TABLE

SYMBOLS = tuple(row[1] for row in TABLE)          # index + 1 == atomic number
assert len(SYMBOLS) == 118 and len(set(SYMBOLS)) == 118
Z_OF = {s: i + 1 for i, s in enumerate(SYMBOLS)}
SYMSET = frozenset(SYMBOLS)

GREEK = ("alpha", "beta", "gamma", "delta", "epsilon", "zeta", "eta", "theta", "iota", "kappa",
         "lambda", "mu", "nu", "xi", "omicron", "pi", "rho", "sigma", "tau", "upsilon", "phi",
         "chi", "psi", "omega")
SUFFIXES = ("(s)", "(l)", "(g)", "(aq)")
OPEN = "([{"
CLOSE = {"(": ")", "[": "]", "{": "}"}
MARKS = ("*", "'", "''", "'''", "**", "*'")
MIDDOT = "·"


# --------------------------------------------------------------------------- generator
def _count(rng, decimals=True):
    r = rng.random()
    if r < 0.42:
        return ""
    if r < 0.72:
        return str(rng.randint(2, 9))
    if r < 0.75:
        return "1"
    if r < 0.84:
        return str(rng.randint(10, 99))
    if r < 0.87:
        return str(rng.randint(100, 999))
    if not decimals:
        return str(rng.randint(2, 12))
    k = rng.randrange(6)
    if k == 0:
        return "%d.%d" % (rng.randint(1, 9), rng.randint(1, 9))          # 2.5
    if k == 1:
        return "0.%d" % rng.randint(1, 9)                                 # 0.5
    if k == 2:
        return "%d.%02d" % (rng.randint(0, 9), rng.randint(1, 99))       # 1.05, 0.33
    if k == 3:
        return "%d.%d" % (rng.randint(10, 99), rng.randint(0, 9))        # 12.0, 10.5
    if k == 4:
        return "%d.%d0" % (rng.randint(1, 9), rng.randint(1, 9))         # 2.50 (trailing zero)
    return "%d.%03d" % (rng.randint(0, 3), rng.randint(1, 999))          # 0.125


def _terms(rng, pool, depth, nmax, decimals):
    out = []
    for _ in range(rng.randint(1, nmax)):
        if depth > 0 and rng.random() < 0.30:
            br = OPEN[rng.randrange(3)]
            out.append(["g", br, _terms(rng, pool, depth - 1, 3, decimals), _count(rng, decimals)])
        else:
            sym = pool[rng.randrange(len(pool))] if rng.random() < 0.75 else SYMBOLS[rng.randrange(118)]
            out.append(["e", sym, _count(rng, decimals)])
    return out


def gen_tree(rng, depth=3, decimals=True, plain=False):
    """One derivation.  depth = maximal bracket nesting, <= 3 terms per group, <= 4 top-level
    terms per part, <= 3 parts (2 hydrate parts).  plain=True: no prefixes/marks/suffix/hydrates."""
    pool = [SYMBOLS[rng.randrange(118)] for _ in range(rng.randint(1, 4))]
    r = rng.random()
    nparts = 1 if (plain or r < 0.72) else (2 if r < 0.94 else 3)
    parts = []
    for i in range(nparts):
        mult = ""
        if i > 0:
            q = rng.random()
            mult = "" if q < 0.25 else ("1" if q < 0.29 else str(rng.randint(2, 12)) if q < 0.92 else str(rng.randint(13, 99)))
        parts.append({"mult": mult, "terms": _terms(rng, pool, depth, 4 if i == 0 else 3, decimals)})
    charge = ""
    if rng.random() < 0.5:
        q = rng.random()
        mag = "" if q < 0.40 else (str(rng.randint(2, 4)) if q < 0.85 else "1" if q < 0.90 else str(rng.randint(5, 12)))
        charge = "+-"[rng.randrange(2)] + mag
    tree = {
        "greek": GREEK[rng.randrange(24)] if (not plain and rng.random() < 0.14) else None,
        "radical": (not plain) and rng.random() < 0.12,
        "sep": ".." if rng.random() < 0.6 else MIDDOT,
        "parts": parts,
        "marks": MARKS[rng.randrange(len(MARKS))] if (not plain and rng.random() < 0.12) else "",
        "charge": charge,
        "suffix": SUFFIXES[rng.randrange(4)] if (not plain and rng.random() < 0.35) else "",
    }
    return tree


# --------------------------------------------------------------------------- text of a tree
def _render_terms(terms):
    out = []
    for t in terms:
        if t[0] == "e":
            out.append(t[1] + t[2])
        else:
            out.append(t[1] + _render_terms(t[2]) + CLOSE[t[1]] + t[3])
    return "".join(out)


def render(tree, canonical=False):
    """Text of the derivation.  canonical=True gives the normal form used to compare un-done
    presentation names: hydrate separator '..', hydrate count 1 not written, charge +1/-1 as +/-."""
    sep = ".." if canonical else tree["sep"]
    body = ""
    for i, p in enumerate(tree["parts"]):
        mult = p["mult"]
        if canonical and mult == "1":
            mult = ""
        body += (sep if i else "") + mult + _render_terms(p["terms"])
    chg = tree["charge"]
    if canonical and chg in ("+1", "-1"):
        chg = chg[0]
    return ((tree["greek"] + "-") if tree["greek"] else "") + ("." if tree["radical"] else "") \
        + body + tree["marks"] + chg + tree["suffix"]


# --------------------------------------------------------------------------- oracle from the tree
def _acc_terms(terms, factor, acc):
    for t in terms:
        if t[0] == "e":
            c = factor * (Fraction(t[2]) if t[2] else 1)
            acc[Z_OF[t[1]]] = acc.get(Z_OF[t[1]], 0) + c
        else:
            _acc_terms(t[2], factor * (Fraction(t[3]) if t[3] else 1), acc)


def charge_value(chg):
    if not chg:
        return None
    return (1 if chg[0] == "+" else -1) * (int(chg[1:]) if len(chg) > 1 else 1)


def expected(tree):
    """{atomic number: Fraction}, key 0 = signed charge iff a charge is written."""
    acc = {}
    for p in tree["parts"]:
        _acc_terms(p["terms"], Fraction(int(p["mult"])) if p["mult"] else Fraction(1), acc)
    if tree["charge"]:
        acc[0] = Fraction(charge_value(tree["charge"]))
    return acc


def _has_dec_terms(terms):
    return any(("." in t[2]) if t[0] == "e" else ("." in t[3] or _has_dec_terms(t[2])) for t in terms)


def has_decimal(tree):
    return any(_has_dec_terms(p["terms"]) for p in tree["parts"])


def max_depth(tree):
    def d(terms):
        return max([0] + [1 + d(t[2]) for t in terms if t[0] == "g"])
    return max(d(p["terms"]) for p in tree["parts"])


def compare_comp(observed, exp, exact):
    """None when `observed` (what chempy returned) is the mapping `exp` ({Z: Fraction});
    otherwise a description.  exact=True (no decimal count anywhere): values must be ==;
    else relative tolerance 1e-9 (a handful of float multiplications/additions)."""
    if not isinstance(observed, dict):
        return "not a mapping: %r" % (observed,)
    if set(observed.keys()) != set(exp.keys()):
        return "key set %s, expected %s" % (sorted(observed.keys(), key=repr), sorted(exp.keys()))
    for k, v in exp.items():
        o = observed[k]
        if isinstance(o, bool) or not isinstance(o, (int, float)):
            # numpy scalars etc. are not expected here; compare numerically anyway
            try:
                o = float(o)
            except Exception:
                return "value for %d is %r" % (k, o)
        if exact or k == 0:
            ok = (o == v)
        else:
            ok = abs(o - float(v)) <= 1e-9 * max(1.0, abs(float(v)))
        if not ok:
            return "entry %d is %r, expected %s" % (k, o, (v.numerator if v.denominator == 1 else float(v)))
    return None


def comp_jsonable(exp):
    return {str(k): (v.numerator if v.denominator == 1 else float(v)) for k, v in sorted(exp.items())}


# --------------------------------------------------------------------------- independent reader
class RefError(Exception):
    pass


def tokenize_symbols(text):
    """Longest-match split of a letters-only string into reference symbols (or RefError)."""
    i, out = 0, []
    while i < len(text):
        if text[i:i + 2] in SYMSET:
            out.append(text[i:i + 2]); i += 2
        elif text[i] in SYMSET:
            out.append(text[i]); i += 1
        else:
            raise RefError("no symbol at %d in %r" % (i, text))
    return out


_CNT = re.compile(r"\d+\.\d+|\d+")


def _ref_terms(s, i, closer, factor, acc):
    n = 0
    while i < len(s):
        ch = s[i]
        if ch in CLOSE:
            sub = {}
            j = _ref_terms(s, i + 1, CLOSE[ch], Fraction(1), sub)
            if j >= len(s) or s[j] != CLOSE[ch]:
                raise RefError("unclosed %s at %d in %r" % (ch, i, s))
            j += 1
            m = _CNT.match(s, j)
            mult = Fraction(m.group()) if m else Fraction(1)
            if m:
                j = m.end()
            for k, v in sub.items():
                acc[k] = acc.get(k, 0) + factor * mult * v
            i = j
        elif ch == closer:
            break
        elif s[i:i + 2] in SYMSET or ch in SYMSET:
            sym = s[i:i + 2] if s[i:i + 2] in SYMSET else ch
            j = i + len(sym)
            m = _CNT.match(s, j)
            c = Fraction(m.group()) if m else Fraction(1)
            if m:
                j = m.end()
            acc[Z_OF[sym]] = acc.get(Z_OF[sym], 0) + factor * c
            i = j
        else:
            raise RefError("unexpected %r at %d in %r" % (ch, i, s))
        n += 1
    if n == 0:
        raise RefError("empty group in %r" % s)
    return i


def ref_parse(text):
    """Independent reading of a formula text -> dict(greek, radical, suffix, marks, charge, comp).
    comp is {Z: Fraction} with key 0 iff a charge is written."""
    s = text
    greek = None
    for g in GREEK:
        if s.startswith(g + "-"):
            greek, s = g, s[len(g) + 1:]
            break
    radical = s.startswith(".") and not s.startswith("..")
    if radical:
        s = s[1:]
    suffix = ""
    for suf in SUFFIXES:
        if s.endswith(suf):
            suffix, s = suf, s[:-len(suf)]
            break
    m = re.search(r"([+-])(\d*)$", s)
    charge = None
    if m:
        charge = (1 if m.group(1) == "+" else -1) * (int(m.group(2)) if m.group(2) else 1)
        s = s[:m.start()]
    if "+" in s or "-" in s:
        raise RefError("stray sign in %r" % text)
    m = re.search(r"[*']+$", s)
    marks = ""
    if m:
        marks, s = m.group(), s[:m.start()]
    if MIDDOT in s and ".." in s:
        raise RefError("mixed hydrate separators in %r" % text)
    parts = s.split(MIDDOT) if MIDDOT in s else s.split("..")
    comp = {}
    for idx, p in enumerate(parts):
        mult = Fraction(1)
        if idx:
            mm = re.match(r"\d+", p)
            if mm:
                mult, p = Fraction(int(mm.group())), p[mm.end():]
        end = _ref_terms(p, 0, None, mult, comp)
        if end != len(p):
            raise RefError("unbalanced %r in %r" % (p[end:], text))
    if charge is not None:
        comp[0] = Fraction(charge)
    return {"greek": greek, "radical": radical, "suffix": suffix, "marks": marks, "charge": charge, "comp": comp}


# --------------------------------------------------------------------------- misc
def key_of(text):
    """64-bit canonical key of a case (for counting distinct cases across processes)."""
    return int.from_bytes(hashlib.md5(text.encode("utf-8")).digest()[:8], "big")


def rng_for(seed, name, chunk):
    return random.Random("%d:%s:%d" % (seed, name, chunk))


def pmap(func, jobs, procs=16):
    """Ordered map over `jobs` in a fork pool (results in job order => deterministic)."""
    jobs = list(jobs)
    if len(jobs) <= 1 or procs <= 1:
        return [func(j) for j in jobs]
    ctx = mp.get_context("fork")
    with ctx.Pool(min(procs, len(jobs))) as pool:
        return pool.map(func, jobs, chunksize=1)


def merge(results, name, rule, bound, exhaustive=False, max_viol=25, max_samples=4):
    """Combine per-chunk worker results {n, keys, violations, samples} into one stand-in row."""
    keys, viol, samples, n = set(), [], [], 0
    for r in results:
        n += r["n"]
        keys.update(r["keys"])
        viol.extend(r["violations"])
        samples.extend(r.get("samples", []))
    viol.sort(key=lambda v: (len(repr(v["inputs"])), repr(v["inputs"])))   # smallest witness first
    return {"name": name, "rule": rule, "bound": bound, "evaluations": n, "distinct": len(keys),
            "exhaustive": exhaustive, "samples": samples[:max_samples], "violations": viol[:max_viol]}


def self_test(n=3000, seed=12345):
    """Generator / oracle / reader agree with each other (no chempy involved)."""
    rng = random.Random(seed)
    for _ in range(n):
        t = gen_tree(rng)
        for canon in (False, True):
            r = ref_parse(render(t, canon))
            e = expected(t)
            assert r["comp"] == e, (render(t, canon), r["comp"], e)
            assert r["greek"] == t["greek"] and r["radical"] == t["radical"] and r["suffix"] == t["suffix"]
            assert r["marks"] == t["marks"] and r["charge"] == charge_value(t["charge"])
    return True


if __name__ == "__main__":
    print(self_test())
    rng = random.Random(0)
    for _ in range(15):
        t = gen_tree(rng)
        print(render(t), comp_jsonable(expected(t)))
