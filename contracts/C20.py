"""C20  Printed numbers and parameters denote the value they were given."""
import re

from pyvc.api import harness
from pyvc import spec as SP
from pyvc.sym import Sym

META = {
    "explanation": "the power-of-ten renderers are proved on symbolic exponent strings (significand omitted iff it is '1'/'1.0', exponent printed as str(int(.)) with sign kept and leading zeros dropped, format markup) and checked exhaustively for every exponent string %g can produce; _number_to_X is proved to split the %g text once at 'e', hand both halves to the format's renderer and append the unit text after the separator, and to route the uncertainty case to _float_str_w_uncert; roman() is verified exhaustively on its whole domain 1..3999 against an independent numeral reader; the reaction printer shows magnitude_fmt(magnitude) + ' ' + unit_fmt(dimensionality)",
    "trusted_base": ["assumed contract 5.7: '%.Ng' % x is the C99 rounding of x to N significant digits (sampled over +-300 decades in the bounded stand-in)", "z3/cvc5 string theories"],
    "not_decided": ["_float_str_w_uncert numerics (floor(log10), round, %f on IEEE doubles): bounded stand-in", "%g itself"],
    "assumptions": [],
}
NUM = "chempy.printing.numbers"


def _attempt(thunk):
    """the value of the code under test, or the exception it raised (never equal to an expected text): data harnesses turn an exception of the
    code into a failed obligation instead of a checker error"""
    try:
        return thunk()
    except Exception as ex:
        return ex


@harness("C20", "roman.exhaustive", functions=[NUM + ":roman"], kind="data")
def _(v):
    from chempy.printing.numbers import roman
    val = {"I": 1, "V": 5, "X": 10, "L": 50, "C": 100, "D": 500, "M": 1000}

    def read(s):   # subtractive notation reader, independent of the code
        tot = 0
        for i, ch in enumerate(s):
            x = val[ch]
            if i + 1 < len(s) and val[s[i + 1]] > x:
                tot -= x
            else:
                tot += x
        return tot
    canonical = re.compile(r"M{0,3}(CM|CD|D?C{0,3})(XC|XL|L?X{0,3})(IX|IV|V?I{0,3})")
    texts = {n: _attempt(lambda: roman(n)) for n in range(1, 4000)}   # a refusal inside the domain is a failed obligation, not a checker error
    bad = [n for n, t in texts.items() if not isinstance(t, str) or not canonical.fullmatch(t) or read(t) != n]
    v.prove("denotes_its_integer_1_to_3999", not bad, "first failures %s" % [(n, texts[n]) for n in bad[:5]])
    v.prove("distinct", len({t for t in texts.values() if isinstance(t, str)}) == 3999)


def _pow10(fmt_name, significand):
    @harness("C20", "%s.sig_%s" % (fmt_name, significand.replace(".", "p").replace("-", "m")), functions=[NUM + ":" + fmt_name], kind="shape-bounded", samples=30)
    def _(v):
        import z3
        from chempy.printing import numbers
        fn = getattr(numbers, fmt_name)
        mant = v.str("mantissa", maxlen=4, alphabet="+-0123456789")
        if v.symbolic:
            v.assume(Sym(z3.InRe(mant.e, z3.Concat(z3.Option(z3.Union(z3.Re(z3.StringVal("+")), z3.Re(z3.StringVal("-")))), z3.Plus(z3.Range("0", "9"))))))
        else:
            if not re.fullmatch(r"[+-]?\d+", mant):
                mant = "+07"
        r = v.call(fn, significand, mant)
        omit = significand in ("1", "1.0")
        if v.symbolic:
            neg = Sym(z3.PrefixOf(z3.StringVal("-"), mant.e))
            body = z3.If(z3.Or(z3.PrefixOf(z3.StringVal("-"), mant.e), z3.PrefixOf(z3.StringVal("+"), mant.e)), z3.SubString(mant.e, 1, z3.Length(mant.e) - 1), mant.e)
            val = z3.StrToInt(body)
            expo = Sym(z3.If(z3.And(neg.e if isinstance(neg, Sym) else z3.BoolVal(neg), val != 0), z3.Concat(z3.StringVal("-"), z3.IntToStr(val)), z3.IntToStr(val)))
        else:
            expo = str(int(mant))
        if fmt_name == "_latex_pow_10":
            exp_text = ("" if omit else significand + r"\cdot ") + "10^{"
            v.prove("layout", r == exp_text + expo + "}" if not v.symbolic else r == Sym(z3.Concat(z3.StringVal(exp_text), expo.e, z3.StringVal("}"))))
        else:
            exp_text = ("" if omit else significand + "&sdot;") + "10<sup>"
            v.prove("layout", r == exp_text + expo + "</sup>" if not v.symbolic else r == Sym(z3.Concat(z3.StringVal(exp_text), expo.e, z3.StringVal("</sup>"))))
    return _


for _f in ("_latex_pow_10", "_html_pow_10"):
    for _s in ("1", "1.0", "3.1416", "-2.5", "10"):
        _pow10(_f, _s)


@harness("C20", "pow10.exhaustive_exponents", functions=[NUM + ":_latex_pow_10", NUM + ":_unicode_pow_10", NUM + ":_html_pow_10"], kind="data")
def _(v):
    """'significand times ten to the exponent, the significand omitted only when it is exactly 1': every exponent text %g can produce, with
    significands that are 1 ('1', '1.0': omitted), that are 1 in a longer spelling ('1.00': omitted or not, both denote the value), and that are NOT 1
    however close (-1, 1.0001, 1.0000004, 1.000000001, 0.9999999: must be kept, dropping them changes the value).  The exponent is printed as the
    integer it denotes (no '+', no leading zeros) in all three media alike."""
    from chempy.printing import numbers as N
    sup = {"0": "⁰", "1": "¹", "2": "²", "3": "³", "4": "⁴", "5": "⁵", "6": "⁶", "7": "⁷", "8": "⁸", "9": "⁹", "-": "⁻", "+": "⁺"}
    omitted = ("1", "1.0")
    either = ("1.00",)      # exactly 1 as well: an implementation comparing the VALUE with 1 omits it, one comparing the text keeps it
    kept = ("2.5", "-1", "-1.0", "9.9999", "1.0001", "1.0000004", "1.000000001", "-1.0000004", "0.9999999")
    bad = []
    n = 0
    for e in range(-330, 331):
        for mant in {"%+03d" % e, "%d" % e, "%+d" % e}:
            for sig in omitted + either + kept:
                n += 1
                try:
                    got = (N._latex_pow_10(sig, mant), N._html_pow_10(sig, mant), N._unicode_pow_10(sig, mant))
                except Exception as ex:
                    bad.append((sig, mant, repr(ex)))
                    continue
                tens = ("10^{%d}" % e, "10<sup>%d</sup>" % e, "10" + "".join(sup[c] for c in "%d" % e))
                with_sig = tuple(sig + dot + t for dot, t in zip((r"\cdot ", "&sdot;", "·"), tens))
                if sig in omitted:
                    ok = got == tens
                elif sig in kept:
                    ok = got == with_sig
                else:
                    ok = all(g in (t, w) for g, t, w in zip(got, tens, with_sig))
                if not ok:
                    bad.append((sig, mant) + got)
    v.prove("all_exponents_and_significands", not bad, "first %s" % bad[:2])
    v.prove("count", n >= 661 * 12)
    from chempy.util.parsing import _unicode_sup
    v.prove("superscript_table_is_unicode", all(_unicode_sup[k] == sup[k] for k in "0123456789-+"))


class _U:
    """a unit-like object that is not the integer one"""
    def __init__(self, name):
        self.name = name


@harness("C20", "_number_to_X.plumbing", functions=[NUM + ":_number_to_X"], kind="shape-bounded", samples=0)
def _(v):
    import z3
    from chempy.printing import numbers as N
    x = v.real("x", lo=-1e6, hi=1e6)
    prec = v.choice("precision", [None, 3, 7])
    calls = []

    def render(sig, mant):
        return Sym(z3.Concat(z3.StringVal("<"), sig.e if isinstance(sig, Sym) else z3.StringVal(sig), z3.StringVal("|"), mant.e if isinstance(mant, Sym) else z3.StringVal(mant), z3.StringVal(">")))

    def pow10(sig, mant):
        calls.append((sig, mant))
        return render(sig, mant)
    r = v.call(N._number_to_X, x, None, 1, prec, lambda u: "UNIT", pow10, " ")
    F = z3.Function("fmt_g", z3.IntSort(), z3.RealSort(), z3.StringSort())
    flt = F(z3.IntVal(5 if prec is None else prec), x.e)
    has_e = z3.Contains(flt, z3.StringVal("e"))
    if calls:
        sig, mant = calls[0]
        v.prove("exponent_form_split_once_at_e", SP.conj([Sym(has_e), Sym(z3.Concat(sig.e, z3.StringVal("e"), mant.e)) == Sym(flt),
                                                        SP.neg(Sym(z3.Contains(sig.e, z3.StringVal("e")))), r == render(sig, mant)]))
        v.prove("renderer_called_once", len(calls) == 1)
    else:
        v.prove("plain_form_returned_verbatim", SP.conj([SP.neg(Sym(has_e)), r == Sym(flt)]))
    # (the default precision 5 is part of `flt` above: with prec=None the text must be that of "%.5g")


def to_s(x):
    import z3
    return x.e if isinstance(x, Sym) else z3.StringVal(x)


@harness("C20", "_number_to_X.unit_and_uncertainty", functions=[NUM + ":_number_to_X"], kind="shape-bounded", samples=0)
def _(v):
    import z3
    from chempy.printing import numbers as N
    from chempy import units as U
    x, dx = v.real("x", lo=-1e6, hi=1e6), v.real("dx", lo=1e-9, hi=10)
    unit = _U("furlong")
    mag = v.real("mag")
    umag = v.real("umag")
    seen = {}

    def tu(v_, value, new_unit=None):
        seen.setdefault("to_unitless", []).append((value, new_unit))
        return mag if value is x else umag
    v.contract(U.to_unitless, "to_unitless", None, tu)

    def fsu(v_, m, u, p=2):
        out = z3.Function("uncert_str", z3.RealSort(), z3.RealSort(), z3.IntSort(), z3.StringSort())(m.e, u.e, z3.IntVal(p))
        ne = z3.Star(z3.Union(z3.Range("0", "9"), z3.Re(z3.StringVal(".")), z3.Re(z3.StringVal("(")), z3.Re(z3.StringVal(")")), z3.Re(z3.StringVal("-"))))
        v_.path.assume(z3.InRe(out, z3.Concat(ne, z3.Option(z3.Concat(z3.Re(z3.StringVal("e")), ne)))))   # its own layouts: nom(unc) or nom(unc)e<exp>
        return Sym(out)
    v.contract(N._float_str_w_uncert, "_float_str_w_uncert", None, fsu)
    calls = []

    def render(sig, mant):
        return Sym(z3.Function("render", z3.StringSort(), z3.StringSort(), z3.StringSort())(to_s(sig), to_s(mant)))

    def pow10(sig, mant):
        calls.append((sig, mant))
        return render(sig, mant)
    r = v.call(N._number_to_X, x, dx, unit, None, lambda u: "[" + u.name + "]", pow10, "~")
    US = z3.Function("uncert_str", z3.RealSort(), z3.RealSort(), z3.IntSort(), z3.StringSort())
    flt = US(mag.e, umag.e, z3.IntVal(2))
    has_e = z3.Contains(flt, z3.StringVal("e"))
    # (which of the two is converted first, and whether one is converted more than once, is no part of the property: contents, not sequence;
    #  that the texts shown come from the CONVERTED values is in `flt = US(mag, umag, 2)` below)
    v.prove("magnitude_and_uncertainty_converted_to_the_shown_unit", {id(a) for a, b in seen.get("to_unitless", [])} == {id(x), id(dx)} and all(b is unit for a, b in seen["to_unitless"]))
    # both directions: an exponent form is split exactly once at its 'e' and handed to the power-of-ten renderer; a plain form is shown verbatim;
    # in both cases the unit follows the separator
    if calls:
        sig, mant = calls[0]
        v.prove("uncertainty_with_exponent_is_split_once_and_rendered", SP.conj([Sym(has_e), Sym(z3.Concat(to_s(sig), z3.StringVal("e"), to_s(mant))) == Sym(flt),
                                                                                 SP.neg(Sym(z3.Contains(to_s(sig), z3.StringVal("e")))), len(calls) == 1,
                                                                                 r == Sym(z3.Concat(render(sig, mant).e, z3.StringVal("~[furlong]")))]))
    else:
        v.prove("plain_uncertainty_form_is_shown_verbatim_with_the_unit", SP.conj([SP.neg(Sym(has_e)), r == Sym(z3.Concat(flt, z3.StringVal("~[furlong]")))]))


@harness("C20", "reaction_param_str", functions=["chempy.printing.string:StrPrinter._Reaction_param_str", "chempy.printing.string:StrPrinter._print_Reaction"], kind="shape-bounded", samples=0)
def _(v):
    import z3
    from chempy.printing.string import StrPrinter
    from chempy.chemistry import Reaction

    class _Param:
        def __init__(self, magnitude, dimensionality):
            self.magnitude, self.dimensionality = magnitude, dimensionality
    m = v.real("magnitude", lo=1e-12, hi=1e12)
    rxn = Reaction({"A": 1}, {"B": 1}, _Param(m, "M/s"), checks=())
    p = StrPrinter()
    r = v.call(p._Reaction_param_str, rxn)
    F = z3.Function("fmt_g", z3.IntSort(), z3.RealSort(), z3.StringSort())
    v.prove("magnitude_fmt_then_space_then_unit_fmt", r == Sym(z3.Concat(F(z3.IntVal(3), m.e), z3.StringVal(" M/s"))))
    rxn2 = Reaction({"A": 1}, {"B": 1}, m, checks=())
    v.prove("plain_float_through_magnitude_fmt", v.call(p._Reaction_param_str, rxn2) == Sym(F(z3.IntVal(3), m.e)))
    whole = v.call(p._print_Reaction, rxn2)
    v.prove("reaction_then_separator_then_param", whole == Sym(z3.Concat(z3.StringVal("A -> B; "), F(z3.IntVal(3), m.e))))
    v.prove("without_param", v.call(p._print_Reaction, rxn2, with_param=False) == "A -> B")


@harness("C20", "uncertainty_notation.quantifier_edges", functions=[NUM + ":_float_str_w_uncert"], kind="data")
def _(v):
    """'a value printed with its uncertainty in parenthesis notation denotes the value rounded at the uncertainty's last kept digit and the uncertainty to
    the requested digits' at the corners of the quantifier (+-300 decades, up to 10 digits, uncertainty down to 1e-8 relative), where the last kept digit
    lies below the smallest normal double or the scaled value above 1e300: the text NNN.NN(UU)[eXX] is read back exactly (Fractions, nothing of
    chempy): UU counts units q of the last printed digit of NNN.NN, q is the place of the p-th significant digit of the uncertainty, the uncertainty
    is within q/2 of UU*q and the value within q/2 of NNN.NN (each + 1e-12 relative for the double arithmetic).  The bulk of the domain is sampled by
    the bounded stand-in; a refusal (OverflowError) inside the quantifier is a failed obligation."""
    from fractions import Fraction
    from chempy.printing.numbers import _float_str_w_uncert
    pat = re.compile(r"(-?)(\d+)(?:\.(\d+))?\((\d+)\)(?:e([-+]?\d+))?")
    cases = [(1e-299, 1e-301, 10), (3e-300, 3e-308, 2), (-2.5e-300, 5e-307, 3), (2.5e300, 5e298, 2), (-7.25e299, 3.6e292, 10), (6.02e23, 1.2e16, 2), (1.2343e-5, 1.2e-7, 2)]
    bad = []
    for x, dx, p in cases:
        t = _attempt(lambda: _float_str_w_uncert(x, dx, p))
        m = pat.fullmatch(t) if isinstance(t, str) else None
        if not m:
            bad.append((x, dx, p, t))
            continue
        sign, whole, frac, unc, e = m.groups()
        scale = Fraction(10) ** int(e or 0)
        q = Fraction(1, 10 ** len(frac or "")) * scale                      # one unit of the last printed digit
        val = (-1 if sign else 1) * Fraction(int(whole + (frac or "")), 10 ** len(frac or "")) * scale
        X, DX = Fraction(x), Fraction(dx)                                   # the doubles, exactly
        lead = Fraction(10) ** (len(str(int(DX))) - 1) if DX >= 1 else Fraction(1, 10 ** next(k for k in range(1, 400) if DX * 10 ** k >= 1))
        place = lead / 10 ** (p - 1)                                        # place of the p-th significant digit of the uncertainty
        tol = 1 + Fraction(1, 10 ** 12)
        # (a printed uncertainty may be a multiple of 10 units when the plain layout pads with zeros: '2000(250)'; then q < place and UU*q counts the same)
        ok = q <= place and (place / q).denominator == 1 and int(unc) % (place / q) == 0 and val % place == 0
        ok = ok and abs(int(unc) * q - DX) <= place / 2 * tol + abs(DX) * (tol - 1) and abs(val - X) <= place / 2 * tol + abs(X) * (tol - 1)
        if not ok:
            bad.append((x, dx, p, t))
    v.prove("value_and_uncertainty_read_back", not bad, detail=repr(bad[:3]))


@harness("C20", "public_wrappers", functions=[NUM + ":number_to_scientific_latex", NUM + ":number_to_scientific_unicode", NUM + ":number_to_scientific_html"], kind="data")
def _(v):
    """the three public functions, each with ITS renderer, separator and unit formatter: expected texts written by hand from the notation
    (significand, then 'times ten to the exponent' in that medium, '1 x' omitted only for a POSITIVE unit significand, unit after the separator,
    uncertainty in parentheses before the power of ten).  All inputs are chosen clear of rounding ties (the digits dropped are never a 5 followed by
    zeros, as decimal numerals and as doubles), so that the texts do not depend on how a tie of the double arithmetic falls."""
    from chempy.printing.numbers import number_to_scientific_latex as L, number_to_scientific_unicode as U, number_to_scientific_html as H
    LUH = (L, U, H)

    def three(*args, **kw):
        return tuple(_attempt(lambda: f(*args, **kw)) for f in LUH)
    table = [
        (2e10, "2\\cdot 10^{10}", "2·10¹⁰", "2&sdot;10<sup>10</sup>"),
        (1e-17, "10^{-17}", "10⁻¹⁷", "10<sup>-17</sup>"),
        (-1e-17, "-1\\cdot 10^{-17}", "-1·10⁻¹⁷", "-1&sdot;10<sup>-17</sup>"),
        (123456.0, "1.2346\\cdot 10^{5}", "1.2346·10⁵", "1.2346&sdot;10<sup>5</sup>"),
        (3.14159, "3.1416", "3.1416", "3.1416"),
        (-0.0025, "-0.0025", "-0.0025", "-0.0025"),
    ]
    bad = [(x, got) for x, *want in table for got in [three(x)] if got != tuple(want)]
    # zero is outside the quantifier ('non-zero floats'): only asked to be shown as a plain number that reads back as zero ('0', '0.0', '-0' ...)
    zero = three(0.0)
    bad += [(0.0, t) for t in zero if not (isinstance(t, str) and re.fullmatch(r"-?\d+(\.\d*)?", t) and float(t) == 0)]
    v.prove("plain_numbers", not bad, detail=repr(bad))
    v.prove("requested_digits", three(2.345e10, fmt=2) == ("2.3\\cdot 10^{10}", "2.3·10¹⁰", "2.3&sdot;10<sup>10</sup>")
            and _attempt(lambda: U(1.23456789e-3, fmt=8)) == "0.0012345679" and _attempt(lambda: U(7.0, fmt=1)) == "7")
    # a significand that is not exactly 1 is never omitted, however close (1.0000004 x 10^12 is not 10^12 to the 8 digits asked for)
    near = (three(1.0000004e12, fmt=8), three(-1.0000004e12, fmt=8), three(1.0001e-9))
    v.prove("significand_near_one_is_kept", near == (("1.0000004\\cdot 10^{12}", "1.0000004·10¹²", "1.0000004&sdot;10<sup>12</sup>"),
                                                     ("-1.0000004\\cdot 10^{12}", "-1.0000004·10¹²", "-1.0000004&sdot;10<sup>12</sup>"),
                                                     ("1.0001\\cdot 10^{-9}", "1.0001·10⁻⁹", "1.0001&sdot;10<sup>-9</sup>")), detail=repr(near))
    # 1.2343e-5 +- 1.2e-7 to two digits of uncertainty: the uncertainty is 12 units of 1e-8, the value 1234.3 -> 1234 of them
    got = three(1.2343e-5, 1.2e-7)
    v.prove("uncertainty_before_the_power_of_ten", got == ("1.234(12)\\cdot 10^{-5}", "1.234(12)·10⁻⁵", "1.234(12)&sdot;10<sup>-5</sup>"), detail=repr(got))
    # 'the uncertainty to the requested digits': an integer fmt together with an uncertainty is the number of digits kept of the UNCERTAINTY
    # (one digit: 1 unit of 1e-7, the value 123.43 -> 123 of them; three digits: 120 units of 1e-9, the value 12343 of them)
    got = (three(1.2343e-5, 1.2e-7, fmt=1), three(1.2343e-5, 1.2e-7, fmt=3))
    v.prove("requested_digits_of_the_uncertainty", got == (("1.23(1)\\cdot 10^{-5}", "1.23(1)·10⁻⁵", "1.23(1)&sdot;10<sup>-5</sup>"),
                                                            ("1.2343(120)\\cdot 10^{-5}", "1.2343(120)·10⁻⁵", "1.2343(120)&sdot;10<sup>-5</sup>")), detail=repr(got))
    try:   # (the import is the code under test too: a failure of it is a failed obligation, not a silently skipped one)
        import quantities as pq
        from chempy.units import default_units as u
        q = 3e5 * u.m / u.s
        got = (three(q), _attempt(lambda: U(1500 * u.m, unit=u.km)), _attempt(lambda: U(2.0 * u.km, 0.25 * u.km, unit=u.m)))
        v.prove("unit_after_the_number", got == (("3\\cdot 10^{5}\\,\\mathrm{\\frac{m}{s}}", "3·10⁵ m/s", "3&sdot;10<sup>5</sup> m/s"), "1.5 km", "2000(250) m"), detail=repr(got))
        # exponent form, uncertainty and unit together: parenthesis notation, then the power of ten, then the separator and the unit
        got = three(1.2343e-5 * u.m, 1.2e-7 * u.m)
        v.prove("uncertainty_then_power_of_ten_then_unit", got == ("1.234(12)\\cdot 10^{-5}\\,\\mathrm{m}", "1.234(12)·10⁻⁵ m", "1.234(12)&sdot;10<sup>-5</sup> m"), detail=repr(got))
        # a value that carries its own uncertainty (quantities.UncertainQuantity) is 'a value printed with its uncertainty' too: 2.00 +- 0.25 km is
        # 25 units of 0.01 km; in metres 25 units of 10 m ('2000(250)', 9 characters, is shorter than '2.00(25)e3'); to one digit the uncertainty
        # 0.25 is a tie between 2 and 3 units of 0.1 km, either is accepted
        uq = pq.UncertainQuantity(2.0, u.km, 0.25)
        got = (_attempt(lambda: U(uq)), _attempt(lambda: U(uq, unit=u.m)), _attempt(lambda: H(uq, fmt=1)), _attempt(lambda: L(uq)))
        v.prove("uncertainty_carried_by_the_value_is_printed", got[:2] == ("2.00(25) km", "2000(250) m") and got[2] in ("2.0(2) km", "2.0(3) km")
                and got[3] == "2.00(25)\\,\\mathrm{km}", detail=repr(got))
    except Exception as ex:
        v.prove("unit_after_the_number", False, detail="units could not be set up: %r" % (ex,))


_SUPER = {"⁰": "0", "¹": "1", "²": "2", "³": "3", "⁴": "4", "⁵": "5", "⁶": "6", "⁷": "7", "⁸": "8", "⁹": "9", "⁻": "-", "⁺": "+"}


def _unit_factors(text, medium):
    r"""reads a printed compound unit back as {symbol: power} (numerator positive, denominator negative), None if the text is not a unit in the notation
    of that medium.  Written from the notations, not from the code: plain 'm**3/(s*mol)', unicode 'm³/(s·mol)', html either of the plain notation or
    <sup>3</sup> / &sdot; markup, latex '$\mathrm{\frac{m^{3}}{(s{\cdot}mol)}}$' (\left( \right) and \cdot without braces accepted, % only as \%).
    The ORDER of the factors (a matter of the units package) and 's**-1' against '1/s' are no part of 'shows the unit': 1/(s*M) and 1/(M*s) read alike."""
    t = text
    if medium == "latex":
        m = re.fullmatch(r"\$\\mathrm\{(.*)\}\$", t)
        if not m or re.search(r"(?<!\\)%", t) or "*" in t or "/" in t:
            return None
        t = m.group(1).replace("\\left(", "(").replace("\\right)", ")").replace("{\\cdot}", "*")
        t = re.sub(r"\\cdot\s*", "*", t)
        t = re.sub(r"\^\{(-?\d+)\}|\^(\d)", lambda k: "**" + (k.group(1) or k.group(2)), t).replace("\\%", "%")
        m = re.fullmatch(r"\\frac\{([^{}]*)\}\{([^{}]*)\}", t)
        if m:
            t = "%s/(%s)" % (m.group(1), m.group(2).strip("()")) if "(" not in m.group(2).strip("()") else None
        if t is None or "\\" in t or "{" in t or "}" in t:
            return None
    elif medium == "unicode":
        if "*" in t or "<" in t or "&" in t:
            return None
        t = re.sub("[%s]+" % "".join(_SUPER), lambda k: "**" + "".join(_SUPER[c] for c in k.group(0)), t).replace("·", "*")
    elif medium == "html":
        t = re.sub(r"<sup>(-?\d+)</sup>", lambda k: "**" + k.group(1), t).replace("&sdot;", "*").replace("&middot;", "*").replace("·", "*")
    m = re.fullmatch(r"(?P<num>[^/()]+|\([^/()]+\))(/(?P<den>[^/()]+|\([^/()]+\)))?", t)
    if not m:
        return None
    out = {}
    for side, sign in ((m.group("num"), 1), (m.group("den"), -1)):
        if side is None or side.strip("()") == "1":
            continue
        if sign < 0 and "*" in side.replace("**", "") and not side.startswith("("):
            return None    # 'a/b*c' does not say whether c is divided by
        for factor in re.split(r"(?<!\*)\*(?!\*)", side.strip("()")):
            k = re.fullmatch(r"([^\W\d_]+|%)(\*\*([-+]?\d+))?", factor)
            if not k or k.group(1) in out:
                return None
            out[k.group(1)] = sign * int(k.group(3) or 1)
    return out


@harness("C20", "reaction_parameter_with_a_real_unit", functions=["chempy.printing.string:StrPrinter._Reaction_param_str", "chempy.printing.string:StrPrinter._print_Reaction"], kind="data")
def _(v):
    """'a reaction printed with its parameter shows that parameter's magnitude and unit' on quantities of the real units package, also for units that
    simplify to a pure number but carry a scale (percent, mM/M, g/kg): the magnitude is only meaningful together with the unit it is expressed in,
    so in all four formats the text is: the reaction, the separator, the magnitude in that medium's notation (hand-written: %.3g for the plain
    printer, five digits and 'significand times ten to the exponent' markup for the others), one blank, and the unit (read back as a multiset of
    powers of symbols by _unit_factors); nothing else, so neither a rescaled magnitude (0.05 %, 3000 mM/M), nor a lost factor or power of a compound
    unit, nor a unit printed twice passes.  A plain float parameter is its magnitude alone."""
    import warnings
    from chempy.chemistry import Equilibrium, Reaction
    from chempy.units import default_units as u
    same = lambda t: (t, t, t, t)   # noqa: E731
    table = [   # parameter, magnitude as (plain, unicode, html, latex), unit
        (5 * u.percent, same("5"), {"%": 1}), (3 * u.mM / u.M, same("3"), {"mM": 1, "M": -1}), (4 * u.g / u.kg, same("4"), {"g": 1, "kg": -1}),
        (2.5 / u.M / u.s, same("2.5"), {"M": -1, "s": -1}), (1.5e-3 * u.m ** 3 / u.mol / u.s, same("0.0015"), {"m": 3, "mol": -1, "s": -1}),
        # magnitudes in exponent form: here magnitude_fmt = number_to_scientific_X has something to do (significand omitted for exactly 1)
        (3e10 / u.s, ("3e+10", "3·10¹⁰", "3&sdot;10<sup>10</sup>", "3\\cdot 10^{10}"), {"s": -1}),
        (1e-7 / u.s, ("1e-07", "10⁻⁷", "10<sup>-7</sup>", "10^{-7}"), {"s": -1}),
        (-2.5e-12 * u.m ** 3 / u.mol / u.s, ("-2.5e-12", "-2.5·10⁻¹²", "-2.5&sdot;10<sup>-12</sup>", "-2.5\\cdot 10^{-12}"), {"m": 3, "mol": -1, "s": -1}),
        (1e10, ("1e+10", "10¹⁰", "10<sup>10</sup>", "10^{10}"), None), (2.5e-3, same("0.0025"), None),
    ]
    media = ("plain", "unicode", "html", "latex")
    bad = []
    with warnings.catch_warnings():
        warnings.simplefilter("ignore")
        for cls, arrows in ((Equilibrium, ("=", "⇌", "&harr;", "\\rightleftharpoons")), (Reaction, ("->", "→", "&rarr;", "\\rightarrow"))):
            for q, mags, unit in table:
                try:
                    r = cls({"A": 1}, {"B": 1}, q, checks=())
                    got = (r.string(with_param=True), r.unicode({}, with_param=True), r.html({}, with_param=True), r.latex({}, with_param=True))
                except Exception as ex:
                    bad.append((str(q), repr(ex)))
                    continue
                for g, a, mag, medium in zip(got, arrows, mags, media):
                    seps = ("&#59; ", "; ") if medium == "html" else ("; ",)
                    tails = [g[len("A %s B%s" % (a, sep)):] for sep in seps if g.startswith("A %s B%s" % (a, sep))]
                    if unit is None:
                        ok = tails == [mag]
                    else:
                        ok = len(tails) == 1 and tails[0].startswith(mag + " ") and _unit_factors(tails[0][len(mag) + 1:], medium) == unit
                    if not ok:
                        bad.append((str(q), medium, g))
    v.prove("magnitude_and_unit_in_all_four_formats", not bad, detail=repr(bad[:3]))
    # the reader of units itself: what it must tell apart (texts the earlier substring test let through) and what it must not
    UF = _unit_factors
    v.prove("unit_reader_sanity", UF("1/(s*M)", "plain") == UF("1/(M*s)", "plain") == UF("1/(s·M)", "unicode") == UF("$\\mathrm{\\frac{1}{(s{\\cdot}M)}}$", "latex") == {"s": -1, "M": -1}
            and UF("m**3/(s*mol)", "html") == UF("m<sup>3</sup>/(s&sdot;mol)", "html") == UF("m³/(mol·s)", "unicode") == UF("$\\mathrm{\\frac{m^{3}}{\\left(mol{\\cdot}s\\right)}}$", "latex") == {"m": 3, "s": -1, "mol": -1}
            and UF("1/s", "plain") == UF("s**-1", "plain") == {"s": -1} and UF("%", "plain") == UF("$\\mathrm{\\%}$", "latex") == {"%": 1}
            and UF("dimensionless", "plain") == {"dimensionless": 1} != UF("1/s", "plain") and UF("1/mol", "plain") != UF("m**3/(s*mol)", "plain")
            and UF("$\\mathrm{%}$", "latex") is None and UF("m**3/(s*mol)", "unicode") is None and UF("1/s 1/s", "plain") is None and UF("", "plain") is None)
    # 'the unit rendered after it' in LaTeX: a bare % starts a TeX comment and swallows the closing brace, so it is no rendering of the unit
    from chempy.printing.numbers import number_to_scientific_latex
    texts = [_attempt(lambda: number_to_scientific_latex(5 * u.percent)), _attempt(lambda: number_to_scientific_latex(50 * u.percent, 5 * u.percent)),
             _attempt(lambda: Reaction({"A": 1}, {"B": 1}, 5 * u.percent, checks=()).latex({}, with_param=True))]
    v.prove("percent_is_escaped_in_latex", all(isinstance(t, str) and "%" in t and re.search(r"(?<!\\)%", t) is None for t in texts), detail=repr(texts))
