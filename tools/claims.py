"""Claim table from which MANIFEST.json is generated (tools/gen_manifest.py)."""
TECH = "contract-based deductive verification: VCs generated from the real functions' ASTs (pyvc), discharged by z3"
COMMON_NOTE = ("Trusted: the pyvc interpreter/VC generator, z3, CPython's ast; Python semantics assumptions A1-A9 (ints exact, floats as reals, dict order as ghost enumeration, modelled exception sources); "
               "bounded stand-ins (native runs of the same contracts on seeded inputs) are reported separately and never counted as proved. ")

CLAIMS = {
    "C14": {
        "category": "proof",
        "technique": TECH + "; tables as data obligations; exhaustive name lookup",
        "text": "mass_from_composition proved equal to the spec fold for every composition (loop invariant, unbounded); Substance.mass/charge proved against it modularly; "
                "mass_fractions proved (value, positivity, proportionality, sum=1) for every mass/coefficient at 1-4 species (shape-bounded); "
                "the 118-row table, groups/periods and the electron mass are checked as data obligations against a reference snapshot; atomic_number exhaustively on all case variants.",
        "note": COMMON_NOTE + "Reference table spec/iupac.py is a hand-spot-checked snapshot of the pinned table (detects any later change, not an independent IUPAC derivation). Floats as reals (A2).",
    },
}

def _c(text, note_extra="", category="proof", technique=None):
    return {"category": category, "technique": technique or TECH, "text": text, "note": COMMON_NOTE + note_extra}


CLAIMS.update({
    "C03": _c("Stoichiometry tuples, reaction order and MassAction.active_conc_prod are proved for reactions of ANY size (symbolic maps, quantified postconditions, loop invariant: only active reactants enter the product). "
              "Reaction.rate, ReactionSystem.rates (sum over reactions, every substance has a rate, order independence, stirred-tank feed terms), law_of_mass_action_rates, dCdt_list and the stoichiometry matrices are proved for all coefficients, "
              "concentrations and rate constants at fixed system shapes (catalysts on both sides, inactive parts, sources, spectators). A bounded stand-in runs the same contracts natively on generated systems.",
              "pow(x,n) with symbolic exponent is an uninterpreted function with the laws of 5.3; numpy object arrays are assumed to store/return elements."),
    "C05": _c("composition_keys, composition_violation, check_balance (true iff every key of every reaction balances, ValueError iff not), the constructor's default checks (accepted iff balanced), composition_balance_vectors "
              "(rows = keys incl. charge, columns = substances) and the identity B.(N^T r) = sum_r rate_r * violation_r (ring back end) are proved for all compositions/coefficients at fixed shapes; numerical-integration clauses are bounded (thorough tier).",
              "Shape-bounded: four substances with partly missing keys (charge-only, empty), two reactions with inactive parts."),
    "C11": _c("intdiv proved for all integers; integer scaling / negation / addition / subtraction of equilibria (net stoichiometry, positivity, netted form, side swap, constant = product of powers), cancel and as_reactions proved for all "
              "coefficients and constants at key layouts with species on opposite sides, same side and disjoint; eliminate is covered by an exhaustive bounded grid (sympy.primefactors is external).",
              "pow(K,n) for symbolic integer n is uninterpreted with the laws of 5.3; histories of operations follow by induction from the per-operation contracts (stated, not mechanised in this round)."),
    "C16": _c("Expr.arg/all_args/all_params (unique-key override replaces exactly one argument, fallbacks, defaults, nesting), the operator algebra incl. reflected forms and shortcuts, create_Poly (any number of coefficients, loop invariant; plus explicit degrees 0-3 with shift/reciprocal), "
              "create_Piecewise, MassAction, Arrhenius, Eyring, EyringHS, Radiolytic, RampedTemp, SinTemp, arrhenius_equation, eyring_equation, ArrheniusParam/EyringParam (call, from_rateconst_at_T round trip, as_RateExpr inside a Reaction for orders 1-3), GibbsEqConst and MassActionEq "
              "are proved equal to their defining formulas for all real arguments (ring/z3).",
              "Backends are abstracted to the same real functions (5.3): equality of math/numpy/sympy floating point results and the with-units paths are bounded only. Fits (least_squares, curve_fit) are out of reach."),
    "C17": _c("All seven closed forms are executed symbolically with an abstract backend and differentiated by the verifier: the ODE residual of the documented mechanism and the initial value are discharged by the exact field normaliser (ring) for all parameters; "
              "every denominator/radicand is proved non-zero/non-negative for positive parameters (nlsat on atomised terms); evaluation under the attribute sets of math, numpy and sympy is proved not to raise.",
              "exp/sqrt/tanh are uninterpreted with exp(a+b)=exp(a)exp(b), sqrt(x)^2=x, tanh'=1-tanh^2 (5.3); floating-point agreement of backends is bounded."),
    "C18": _c("ionic_strength proved for sequences of ANY length (two loop invariants over None-initialised accumulators; warning emitted only if not neutral, silence only if nearly neutral within the code's tolerance; length mismatch raises), dict form at 1-3 ions; "
              "A and B proved to have the Debye-Hueckel functional form on both code paths (ring), hard-coded factors tied to CODATA by data obligations; limiting/extended/Davies formulas, their limits (a->0, I->0) and the three activity products (loop invariants, any length) proved.",
              "sqrt/exp per 5.3; with-units paths of A/B are compared with the numeric path on a grid using the real quantities package (data obligation) and in the bounded stand-in."),
    "C19": _c("Under the unit abstraction 5.1 with generic units of symbolic scale ('any compatible unit'): water_density, water_viscosity, water_self_diffusion_coefficient, water_permittivity, Henry (incl. inverse), nernst_potential and electrical_mobility_from_D return the same SI value and the "
              "right dimension whether called with plain numbers in documented units or with quantities; range warnings are proved to be emitted iff outside the documented range (and never when disabled); formulas equal the published ones; coefficients/anchors/shape as data obligations.",
              "The `quantities` package is an ASSUMED contract (pyvc/qmodel.py), sampled against the real package by the bounded stand-ins of C09/C19. Temperatures in kelvin only. sulfuric_acid_density, density_from_concentration and lg_solubility_ratio are bounded only."),
})

_PENDING = "contracts for this property are not built yet in this round (work in progress; see DESIGN.md section 7 for the plan)"
NOT_APPLICABLE = {p: _PENDING for p in ["C%02d" % i for i in range(1, 21)] if p not in CLAIMS}

NOTES = ("All checks are `./vcheck <ID>`; exit 0 held / 1 VIOLATION (counter-model replayed on the real code, or a baseline-discharged havoc-free obligation now failing: no-failing-input-found) / "
         "2 UNDECIDED (solver unknown, unsupported construct, stale contract) / 3 checker error. Obligations are tagged unbounded / shape-bounded / data in every evidence file.")
