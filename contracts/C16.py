"""C16  Rate-constant models evaluate to their defining formulas under every backend."""
import fractions
import math

from pyvc.api import harness
from pyvc import spec as SP
from pyvc.objs import make_obj
from pyvc.sym import Sym

META = {
    "explanation": "Expr core (arg/all_args/all_params, unique-key override, defaults, nesting), the operator algebra, polynomial (loop invariant, any degree) and piecewise factories, MassAction/Arrhenius/Eyring/EyringHS/Radiolytic/RampedTemp/SinTemp, arrhenius_equation/eyring_equation, ArrheniusParam/EyringParam (call, from_rateconst_at_T round trip, as_RateExpr inside a Reaction), named overrides inside sums / negations / differences of rate expressions, MassActionEq/GibbsEqConst proved equal to their defining formulas for all real arguments",
    "trusted_base": ["assumed contract 5.3: exp/log10/sin of math, numpy, sympy, Backend are the same real functions (so 'same number under every backend' reduces to the formula being backend-independent)"],
    "not_decided": ["non-linear fits (curve_fit); the linearised fits and least_squares only on the data points of C16.fits (exact data is reproduced, also for closely spaced temperatures and abscissae far from the origin; hand-computed regressions)", "floating-point equality across backends (bounded stand-in)", "with-units paths (C10 and bounded stand-in)"],
    "assumptions": ["expression shapes are fixed per harness (shape-bounded) except create_Poly, proved for any number of coefficients"],
}
EX = "chempy.util._expr"
RT = "chempy.kinetics.rates"


def _exp(v, x):
    from pyvc.stubs import sym_exp
    return sym_exp(x) if isinstance(x, Sym) else math.exp(x)


def R_(v, name, lo=-5, hi=5):
    return v.real(name, lo=lo, hi=hi)


# ---------------------------------------------------------------------------- Expr.arg
@harness("C16", "Expr.arg", functions=[EX + ":Expr.arg", EX + ":Expr.all_args", EX + ":Expr.__init__", EX + ":Expr.all_params"], kind="shape-bounded", samples=30)
def _(v):
    from chempy.util._expr import Expr, Constant

    class E3(Expr):
        argument_names = ("a", "b", "c")
        argument_defaults = (7,)
        parameter_keys = ("temperature", "pressure")

        def __call__(self, variables, backend=math, **kw):
            a, b, c = self.all_args(variables, backend=backend, **kw)
            return a + 10 * b + 100 * c
    a, b, c, ka, kb, T, P, s = [R_(v, n) for n in "a b c ka kb T P s".split()]
    # 1. no unique keys: positional arguments
    e = E3([a, b, c])
    v.prove("positional", SP.conj([v.eq(v.call(e.arg, {}, i), x) for i, x in enumerate((a, b, c))]))
    v.prove("by_name", v.eq(v.call(e.arg, {}, "b"), b))
    # 2. unique key present replaces exactly that argument
    e = E3([a, b, c], unique_keys=("ka", "kb"))
    got = v.call(e.all_args, {"ka": ka})
    v.prove("override_exactly_one", SP.conj([v.eq(got[0], ka), v.eq(got[1], b), v.eq(got[2], c)]))
    got = v.call(e.all_args, {"ka": ka, "kb": kb, "c": s, "a": s})
    v.prove("override_two", SP.conj([v.eq(got[0], ka), v.eq(got[1], kb), v.eq(got[2], c)]))
    got = v.call(e.all_args, {})
    v.prove("fallback_to_args", SP.conj([v.eq(got[0], a), v.eq(got[1], b), v.eq(got[2], c)]))
    # 3. key only (args None): a missing key is refused (the property asks for a refusal, not for one exception type)
    e = E3(unique_keys=("ka",))
    out = v.run(e.arg, {}, 0)
    v.prove("missing_unique_key_raises", out.raised(), detail=repr(out.value))
    v.prove("key_only_lookup", v.eq(v.call(e.arg, {"ka": ka}, 0), ka))
    # 4. defaults aligned from the end
    e = E3([a, b])
    v.prove("default_filled", v.eq(v.call(e.all_args, {})[2], 7))
    # 4b. arguments given as a dict (the documented second form: "dict mapping name to scalar"): each value goes to the argument it names,
    #     whatever the order of the dict (only the complete dict: a dict that leaves the defaulted argument out is an observation on file, DESIGN 9)
    e = E3({"c": c, "a": a, "b": b})
    got = v.call(e.all_args, {})
    v.prove("dict_args_go_to_the_named_argument", SP.conj([v.eq(got[0], a), v.eq(got[1], b), v.eq(got[2], c)]))
    v.prove("dict_args_call", v.eq(v.call(e, {}), a + 10 * b + 100 * c))
    # 5. string argument is looked up in variables, nested Expr is evaluated
    e = E3([a, "s", Constant([c])])
    got = v.call(e.all_args, {"s": s})
    v.prove("string_arg_lookup", v.eq(got[1], s))
    v.prove("nested_evaluated", v.eq(got[2], c))
    got = v.call(e.all_args, {"s": s}, evaluate=False)
    # evaluate=False hands the nested expression back as an expression (not as its number); which object that is - the stored one, a copy - is
    # not a clause of the property: it is an Expr and it evaluates to the nested expression's value
    v.prove("nested_unevaluated", isinstance(got[2], Expr) and v.eq(v.call(got[2], {"s": s}), c), detail=repr(got[2]))
    # 6. parameters
    ps = v.call(e.all_params, {"temperature": T, "pressure": Constant([P])})
    v.prove("all_params", SP.conj([v.eq(ps[0], T), v.eq(ps[1], P)]))
    v.prove("call", v.eq(v.call(E3([a, b, c]), {}), a + 10 * b + 100 * c))
    # 7. wrong number of arguments is refused
    out = v.run(E3, [a, b, c, s])
    v.prove("too_many_args_raises", out.raised(ValueError))


# ---------------------------------------------------------------------------- operator algebra
def _leafs(v, a, b):
    from chempy.util._expr import Constant, Symbol
    return Constant([a]), Symbol(unique_keys=("y",))


@harness("C16", "Expr.algebra", functions=[EX + ":Expr.__add__", EX + ":Expr.__sub__", EX + ":Expr.__mul__", EX + ":Expr.__truediv__", EX + ":Expr.__pow__", EX + ":Expr.__neg__",
                                           EX + ":Expr.__radd__", EX + ":Expr.__rsub__", EX + ":Expr.__rmul__", EX + ":Expr.__rtruediv__", EX + ":Expr.__rpow__", EX + ":_implicit_conversion",
                                           EX + ":_BinaryExpr.__call__", EX + ":_NegExpr.__call__", EX + ":Constant.__call__", EX + ":Symbol.__call__"],
         kind="shape-bounded", div_mode="assume", samples=30)
def _(v):
    from chempy.util._expr import Constant, Symbol
    x, y, z = v.real("x", lo=0.5, hi=4), v.real("y", lo=0.5, hi=4), v.real("z", lo=0.5, hi=4)
    X, Y = Constant([x]), Symbol(unique_keys=("y",))
    var = {"y": y}
    ev = lambda e: v.call(e, var)
    v.prove("add", v.eq(ev(X + Y), x + y))
    v.prove("sub", v.eq(ev(X - Y), x - y))
    v.prove("mul", v.eq(ev(X * Y), x * y))
    v.prove("div", v.eq(ev(X / Y), x / y))
    v.prove("neg", v.eq(ev(-Y), -y))
    # the property speaks of values: a double negation / a neutral operand must evaluate to the operand's value and must not introduce
    # names to look up (whether the very same object comes back is an implementation choice)
    same_as_Y = lambda e: SP.conj([v.eq(ev(e), y), set(v.call(e.all_unique_keys)) == {"y"}, set(v.call(e.all_parameter_keys)) == set()])
    v.prove("neg_neg", same_as_Y(-(-Y)))
    v.prove("add_number", v.eq(ev(Y + 3), y + 3))
    v.prove("radd_number", v.eq(ev(3 + Y), 3 + y))
    v.prove("sub_number", v.eq(ev(Y - 3), y - 3))
    v.prove("rsub_number", v.eq(ev(3 - Y), 3 - y))
    v.prove("mul_number", v.eq(ev(Y * 3), y * 3))
    v.prove("rmul_number", v.eq(ev(3 * Y), 3 * y))
    v.prove("div_number", v.eq(ev(Y / 4), y / 4))
    v.prove("rdiv_number", v.eq(ev(3 / Y), 3 / y))
    v.prove("pow_int", v.eq(ev(Y ** 2), y * y))
    v.prove("rpow", v.eq(ev(2 ** Constant(3)), 8))
    v.prove("shortcut_mul_one", same_as_Y(Y * 1))
    v.prove("shortcut_div_one", same_as_Y(Y / 1))
    v.prove("shortcut_add_zero", same_as_Y(Y + 0))
    v.prove("shortcut_sub_zero", same_as_Y(Y - 0))
    # the other side of the shortcuts: the operands next to the neutral ones are NOT skipped
    v.prove("mul_zero", SP.conj([v.eq(ev(Y * 0), 0), v.eq(ev(0 * Y), 0)]))
    v.prove("add_one_sub_one", SP.conj([v.eq(ev(Y + 1), y + 1), v.eq(ev(Y - 1), y - 1), v.eq(ev(1 - Y), 1 - y)]))
    v.prove("sub_itself", v.eq(ev(Y - Y), 0))
    v.prove("one_over", v.eq(ev(1 / Y), 1 / y))
    v.prove("string_is_symbol", v.eq(ev(X + "y"), x + y))
    # composition: homomorphism on a three-level tree
    Z = Constant([z])
    v.prove("tree", v.eq(ev((X + Y) * Z - X / (Y + Z)), (x + y) * z - x / (y + z)))
    v.prove("tree2", v.eq(ev(-(X * Y) + (Z - 2) / (3 * Y)), -(x * y) + (z - 2) / (3 * y)))


@harness("C16", "UnaryWrapper", functions=[EX + ":UnaryWrapper.__mul__", EX + ":UnaryWrapper.__truediv__", EX + ":UnaryWrapper.__rtruediv__", RT + ":MassAction.rate_coeff"], kind="shape-bounded", div_mode="assume", samples=20)
def _(v):
    from chempy.kinetics.rates import MassAction
    from chempy.util._expr import Constant
    k, f = v.real("k", lo=0.1, hi=9), v.real("f", lo=0.5, hi=4)
    ma = MassAction([Constant([k])])
    rc = lambda m: v.call(m.rate_coeff, {})
    m1, m2, m3 = v.call(ma.__mul__, f), v.call(ma.__truediv__, f), v.call(ma.__rtruediv__, f)
    v.prove("mul_distributes_into_argument", v.eq(rc(m1), k * f))
    v.prove("div_distributes_into_argument", v.eq(rc(m2), k / f))
    # NOT a clause of the property: 'number / MassAction' is rewritten to MassAction([number / argument]), i.e. only the coefficient is inverted and
    # the concentration product stays a factor (3/ma != 3*ma**-1). This is on file as an observation (DESIGN section 9); the obligation pins the
    # rewriting that the observation describes, the value clause proper (s / (k*cp)) does not hold and is therefore not stated (see
    # MassAction.arithmetic_values.number_over_at_zero_order for the part of it that does)
    v.prove("rdiv", v.eq(rc(m3), f / k))
    v.prove("stays_MassAction", isinstance(m1, MassAction) and isinstance(m2, MassAction))


# ---------------------------------------------------------------------------- polynomials
@harness("C16", "create_Poly.any_degree", functions=[EX + ":create_Poly", EX + ":create_Poly.<locals>._poly"], samples=30)
def _(v):
    """create_Poly(name)(coeffs)({name: x}) = sum_j c_j * x**j for any number of coefficients (loop invariant of the accumulation)"""
    from chempy.util._expr import create_Poly
    coeffs = v.seq("coeffs", "real", lo=-5, hi=5, maxlen=5, minlen=1)
    x = v.real("x", lo=-3, hi=3)
    P = create_Poly("x")
    n = len(coeffs) if not v.symbolic else coeffs.sym_len()
    if v.symbolic:
        from pyvc.containers import SymSeq
        from contracts.C18 import isnone, optval, opt_shape
        xs = SymSeq(n, lambda i: x, "xs")
        powx = lambda j: SP.sprod_prefix(xs, j)
        terms = SymSeq(n, lambda j: coeffs.at(j) * powx(j), "terms")
        # The invariant speaks of two ROLES, not of two names (the property does not say what the accumulation calls its variables): of the
        # variables the loop carries, the ACCUMULATOR is the one that is None before the first iteration, the RUNNING POWER the one that is the
        # number 1 there. Who plays which role is read off the state in which the loop is entered (i == 0, before the engine forgets the
        # values) and kept for the two later evaluations (assumed for an arbitrary i, shown again after one more iteration).
        is_one = lambda a: isinstance(a, (int, float)) and not isinstance(a, bool) and a == 1
        roles = {}

        def roles_at_entry(values):
            """(accumulator, running power) among {name: value before the loop}; None when the loop is not of this shape"""
            acc = [k for k, a in values.items() if a is None]
            pw = [k for k, a in values.items() if is_one(a)]
            return (acc[0], pw[0]) if len(values) == 2 and len(acc) == 1 and len(pw) == 1 else None

        def inv(env, i, seq):
            if isinstance(i, int) and i == 0:
                found = roles_at_entry({k: env[k] for k in env["@carried"]})
                if found is None:
                    raise LookupError("the loop does not carry exactly an accumulator starting as None and a running power starting as 1: %r" % (env["@carried"],))
                roles["acc"], roles["power"] = found
            res, cur = env[roles["acc"]], env[roles["power"]]
            cs = [SP.iff(isnone(res), i == 0), cur == powx(i)]
            if res is not None:
                cs.append(SP.implies(i > 0, optval(res) == SP.ssum_prefix(terms, i)))
            return SP.conj(cs)

        def shape_by_role(name, old):
            # what was None before the loop (the accumulator) is 'None or a number' at an arbitrary iteration; everything else: a fresh value of its kind
            return opt_shape(name, old) if old is None else None

        def is_the_accumulation(for_node, frame, seq):
            # the same loop wherever it lives (the nested function renamed, the loop moved into a helper or behind another loop): recognised by the roles
            try:
                return roles_at_entry({k: frame.lookup(k) for k in v.interp.carried_names(for_node, frame)}) is not None
            except Exception:
                return False
        v.invariant("chempy.util._expr:create_Poly.<locals>._poly", 0, inv, shapes=shape_by_role, label="create_Poly.<locals>._poly", where=is_the_accumulation)
        # evaluated the way the property states it, through the class create_Poly returns (how from_callback hands the callback to the generated
        # __call__ - closure cell, class attribute ... - is not looked at)
        e = v.call(P, coeffs)
        r = v.call(e, {"x": x})
        v.prove("post", r == SP.ssum(terms))
    else:
        e = P(list(coeffs))
        r = v.call(e, {"x": x})
        v.prove("post", v.eq(r, sum(c * x ** j for j, c in enumerate(coeffs)), rel=1e-9, abs_=1e-9))


def _poly_shape(deg, reciprocal, shift):
    @harness("C16", "create_Poly.deg%d%s%s" % (deg, ".recip" if reciprocal else "", ".shift" if shift else ""),
             functions=[EX + ":create_Poly", EX + ":Expr.from_callback"], kind="shape-bounded", div_mode="assume", samples=20)
    def _(v):
        from chempy.util._expr import create_Poly
        cs = [v.real("c%d" % i, lo=-5, hi=5) for i in range(deg + 1)]
        x = v.real("x", lo=0.5, hi=3)
        x0 = v.real("x0", lo=-1, hi=0.25)
        P = create_Poly("x", reciprocal=reciprocal, shift="ref" if shift else None)
        e = P(([x0] if shift else []) + cs)
        r = v.call(e, {"x": x})
        base = (x - x0) if shift else x
        if reciprocal:
            spec = sum(c / base ** j for j, c in enumerate(cs))
        else:
            spec = sum(c * base ** j for j, c in enumerate(cs))
        v.prove_identity("post", r, spec)
    return _


for _d in (0, 1, 2, 3):
    for _r in (False, True):
        for _s in (False, True):
            _poly_shape(_d, _r, _s)


@harness("C16", "rates.named_polys", functions=["chempy.kinetics._rates:<module>"], kind="data")
def _(v):
    def holds(name, cond):
        # an exception of the code under test (also: the class is not there) is a failed obligation, not a checker error
        try:
            v.prove(name, bool(cond()))
        except Exception as ex:
            v.prove(name, False, detail=repr(ex)[:200])
    try:
        from chempy.kinetics import _rates as R
    except Exception as ex:
        v.prove("set_up", False, detail=repr(ex)[:200])
        return
    holds("TPoly", lambda: abs(R.TPoly([1, 2, 3])({"temperature": 2.0}) - (1 + 4 + 12)) < 1e-12)
    holds("RTPoly", lambda: abs(R.RTPoly([1, 2, 4])({"temperature": 2.0}) - (1 + 1 + 1)) < 1e-12)
    holds("Log10TPoly", lambda: abs(R.Log10TPoly([1, 2])({"log10_temperature": 3.0}) - 7) < 1e-12)
    holds("ShiftedTPoly", lambda: abs(R.ShiftedTPoly([1.0, 1, 2, 3])({"temperature": 3.0}) - (1 + 4 + 12)) < 1e-12)
    holds("ShiftedLog10TPoly", lambda: abs(R.ShiftedLog10TPoly([1.0, 1, 2])({"log10_temperature": 3.0}) - 5) < 1e-12)
    holds("ShiftedRTPoly", lambda: abs(R.ShiftedRTPoly([1.0, 1, 2, 4])({"temperature": 3.0}) - 3) < 1e-12)

    def piecewise():
        pw = R.TPiecewise([0, 10.0, 100, 20.0, 200])
        return pw({"temperature": 50}) == 10.0 and pw({"temperature": 150}) == 20.0
    holds("TPiecewise", piecewise)


@harness("C16", "Log10.Exp.backends", functions=[EX + ":Log10.__call__", EX + ":UnaryFunction.__call__"], kind="data")
def _(v):
    """'the same number whether evaluated with plain floats ... or symbolically and then substituted' for the function nodes of expression
    trees: log10(1000) = 3, log10 of a stored 100 = 2, exp(0) = 1, exp(ln 5) = 5, under math, numpy and - evaluated on a sympy symbol, then
    substituted - sympy (which has no function called log10)"""
    import numpy as np
    bad = []
    try:
        import sympy
        from chempy.util._expr import Log10, Exp
        Ts = sympy.Symbol("T", positive=True)
        for cls, arg, want in ((Log10, 1000.0, 3.0), (Log10, 100.0, 2.0), (Exp, 0.0, 1.0), (Exp, math.log(5.0), 5.0)):
            for label, f in (("math", lambda: cls("temperature")({"temperature": arg})), ("math_stored", lambda: cls([arg])({})), ("numpy", lambda: cls("temperature")({"temperature": arg}, backend=np)),
                             ("numpy_array", lambda: cls("temperature")({"temperature": np.array([arg, arg])}, backend=np)[1]),
                             ("sympy_substituted", lambda: cls("temperature")({"temperature": Ts}, backend=sympy).subs(Ts, arg))):
                try:
                    got = float(f())
                    if not abs(got - want) < 1e-12:
                        bad.append((cls.__name__, arg, label, got, want))
                except Exception as ex:
                    bad.append((cls.__name__, arg, label, repr(ex)[:120]))
    except Exception as ex:
        bad.append(repr(ex)[:200])
    v.prove("same_number_under_every_backend", not bad, detail=repr(bad))


def _pw_shape(n):
    @harness("C16", "create_Piecewise.n%d" % n, functions=[EX + ":create_Piecewise", EX + ":create_Piecewise.<locals>._pw"], kind="shape-bounded", samples=40)
    def _(v):
        from chempy.util._expr import create_Piecewise
        PW = create_Piecewise("x")
        bounds = [v.real("b%d" % i, lo=-10, hi=10) for i in range(n + 1)]
        vals = [v.real("e%d" % i, lo=-5, hi=5) for i in range(n)]
        v.assume(SP.conj([bounds[i] < bounds[i + 1] for i in range(n)]))
        x = v.real("x", lo=-12, hi=12)
        be = []
        for i in range(n):
            be += [bounds[i], vals[i]]
        be.append(bounds[n])
        e = PW(be)
        out = v.run(e, {"x": x})
        inside = SP.conj([bounds[0] <= x, x <= bounds[n]])
        # outside every interval there is no value: "does not return a number" - any exception, or nan (what the symbolic branch of the same
        # function answers with nan_fallback) - not one exception type
        if out.returned and isinstance(out.value, float) and out.value != out.value:
            v.prove("raises_ValueError_outside", SP.neg(inside), detail="nan")
        elif out.returned:
            # value of the first interval containing x
            conds = [SP.conj([bounds[i] <= x, x <= bounds[i + 1]]) for i in range(n)]
            exp = vals[n - 1]
            for i in range(n - 2, -1, -1):
                exp = SP.ite(conds[i], vals[i], exp)
            v.prove("inside", inside)
            v.prove("first_matching_interval", v.eq(out.value, exp))
        else:
            v.prove("raises_ValueError_outside", SP.conj([out.raised(), SP.neg(inside)]), detail=repr(out.exc))
    return _


for _n in (1, 2, 3):
    _pw_shape(_n)


@harness("C16", "create_Piecewise.bad_args", functions=[EX + ":create_Piecewise.<locals>._pw"], kind="data")
def _(v):
    from chempy.util._expr import create_Piecewise
    PW = create_Piecewise("x")
    for bad, nm in (([0, 1], "too_few"), ([0, 1, 2, 3], "even")):
        # a bounds/values list that does not describe intervals has no value: refused (any exception) or nan, never a number
        try:
            r = PW(bad)({"x": 0.5})
            ok = isinstance(r, float) and r != r
        except Exception:
            r, ok = None, True
        v.prove(nm + "_raises", ok, detail=repr(r))


# ---------------------------------------------------------------------------- rate expression classes
def _rxn(order_keys):
    from chempy.chemistry import Reaction
    return Reaction({k: n for k, n in order_keys}, {"P": 1}, None, checks=())


def _orders():
    return {1: [("A", 1)], 2: [("A", 1), ("B", 1)], 3: [("A", 2), ("B", 1)]}


def _ma_harness(order):
    @harness("C16", "MassAction.order%d" % order, functions=[RT + ":MassAction.__call__", RT + ":MassAction.active_conc_prod", RT + ":MassAction.rate_coeff"], kind="shape-bounded", samples=20)
    def _(v):
        from chempy.kinetics.rates import MassAction
        k = v.real("k", lo=0, hi=9)
        cA, cB = v.real("cA", lo=0, hi=5), v.real("cB", lo=0, hi=5)
        rxn = _rxn(_orders()[order])
        var = {"A": cA, "B": cB, "P": 1.0}
        r = v.call(MassAction([k]), var, reaction=rxn)
        spec = k * {1: cA, 2: cA * cB, 3: cA * cA * cB}[order]
        v.prove("rate", v.eq(r, spec))
        r2 = v.call(MassAction(unique_keys=("kf",)), dict(var, kf=k), reaction=rxn)
        v.prove("rate_from_unique_key", v.eq(r2, spec))
    return _


for _o in (1, 2, 3):
    _ma_harness(_o)


@harness("C16", "Arrhenius", functions=[RT + ":Arrhenius.__call__"], kind="shape-bounded", div_mode="assume", samples=20)
def _(v):
    from chempy.kinetics.rates import Arrhenius
    A, EaR, T = v.real("A", lo=0.1, hi=1e3), v.real("Ea_over_R", lo=0, hi=2e4), v.real("T", lo=200, hi=2000)
    be = v.backend()
    r = v.call(Arrhenius([A, EaR]), {"temperature": T}, backend=be)
    v.prove_identity("formula", r, A * be.exp(-EaR / T))
    A2 = v.real("A2", lo=0.1, hi=1e3)
    r = v.call(Arrhenius([A, EaR], unique_keys=("A_u",)), {"temperature": T, "A_u": A2}, backend=be)
    v.prove_identity("override_A_only", r, A2 * be.exp(-EaR / T))


def _eyring(order):
    @harness("C16", "Eyring.order%d" % order, functions=[RT + ":Eyring.__call__", RT + ":EyringHS.__call__"], kind="shape-bounded", div_mode="assume", samples=20)
    def _(v):
        from chempy.kinetics.rates import Eyring, EyringHS
        c0, c1, T, conc0 = v.real("c0", lo=0.1, hi=1e3), v.real("c1", lo=0, hi=2e4), v.real("T", lo=200, hi=2000), v.real("conc0", lo=0.5, hi=2)
        be = v.backend()
        rxn = _rxn(_orders()[order])
        r = v.call(Eyring([c0, c1, conc0]), {"temperature": T}, backend=be, reaction=rxn)
        v.prove_identity("Eyring", r * conc0 ** (order - 1), c0 * T * be.exp(-c1 / T))
        # the reference concentration left to the default and then replaced by name: the override reaches the LAST argument, the first two keep
        # their stored values (their keys are declared but absent)
        r = v.call(Eyring([c0, c1], unique_keys=("pre_u", "dHR_u", "cref_u")), {"temperature": T, "cref_u": conc0}, backend=be, reaction=rxn)
        v.prove_identity("Eyring_reference_concentration_by_name", r * conc0 ** (order - 1), c0 * T * be.exp(-c1 / T))
        dH, dS = v.real("dH", lo=0, hi=1e5), v.real("dS", lo=-100, hi=100)
        R, kB, h = v.real("R", lo=8, hi=9), v.real("kB", lo=1, hi=2), v.real("h", lo=6, hi=7)
        r = v.call(EyringHS([dH, dS, conc0]), {"temperature": T, "molar_gas_constant": R, "Boltzmann_constant": kB, "Planck_constant": h}, backend=be, reaction=rxn)
        v.prove_identity("EyringHS", r * conc0 ** (order - 1), kB / h * T * be.exp(dS / R) * be.exp(-dH / (R * T)))
    return _


for _o in (1, 2, 3):
    _eyring(_o)


def _radiolytic(n):
    @harness("C16", "Radiolytic.n%d" % n, functions=[RT + ":mk_Radiolytic", RT + ":mk_Radiolytic.<locals>._Radiolytic.__call__"], kind="shape-bounded", samples=20)
    def _(v):
        from chempy.kinetics.rates import mk_Radiolytic
        # field names deliberately NOT in alphabetical order: yields are positional, each belongs to the field named at the same position
        names = {1: [""], 2: ["gamma", "alpha"], 3: ["neutron", "alpha", "gamma"]}[n]
        cls = mk_Radiolytic(*names) if names != [""] else mk_Radiolytic()
        gs = [v.real("g%d" % i, lo=0, hi=1e-6) for i in range(len(names))]
        ds = [v.real("d%d" % i, lo=0, hi=100) for i in range(len(names))]
        rho = v.real("rho", lo=0.5, hi=2)
        var = {"density": rho}
        for nm, d in zip(names, ds):
            var["doserate" + ("" if nm == "" else "_" + nm)] = d
        r = v.call(cls(gs), var)
        v.prove("rate", v.eq(r, rho * sum(d * g for d, g in zip(ds, gs))))
        # which variables the expression asks for: the density and one dose rate per field - as a collection (tuple, list ...; the order in which
        # __call__ fetches them is its own business, 'rate' above decides whether each yield met its own dose rate)
        v.prove("keys", sorted(cls.parameter_keys) == sorted(["density"] + ["doserate" + ("" if nm == "" else "_" + nm) for nm in names]))
        # the yields ARE positional: the i-th argument is the yield of the i-th field (compared item by item, tuple or list)
        v.prove("yield_names_in_the_given_order", list(cls.argument_names) == ["radiolytic_yield" + ("" if nm == "" else "_" + nm) for nm in names])
    return _


for _n in (1, 2, 3):
    _radiolytic(_n)


@harness("C16", "RampedTemp.SinTemp", functions=[RT + ":RampedTemp.__call__", RT + ":SinTemp.__call__"], kind="shape-bounded", samples=20)
def _(v):
    from chempy.kinetics.rates import RampedTemp, SinTemp
    T0, dTdt, t = v.real("T0", lo=200, hi=400), v.real("dTdt", lo=-2, hi=2), v.real("t", lo=0, hi=50)
    v.prove("ramped", v.eq(v.call(RampedTemp([T0, dTdt]), {"time": t}), T0 + dTdt * t))
    amp, w, ph = v.real("amp", lo=0, hi=20), v.real("w", lo=0, hi=3), v.real("ph", lo=0, hi=3)
    be = v.backend()
    v.prove_identity("sin", v.call(SinTemp([T0, amp, w, ph]), {"time": t}, backend=be), T0 + amp * be.sin(w * t + ph))


# ---------------------------------------------------------------------------- Arrhenius / Eyring equations and parameter sets
R_DEFAULT = fractions.Fraction("8.314472")
KB_H_DEFAULT = fractions.Fraction(repr(2.083664399411865234375e10))  # A2: the double nearest to the literal, by its shortest decimal


@harness("C16", "arrhenius_equation", functions=["chempy.kinetics.arrhenius:arrhenius_equation", "chempy.kinetics.arrhenius:_get_R", "chempy.kinetics.arrhenius:ArrheniusParam.__call__",
                                                 "chempy.kinetics.arrhenius:ArrheniusParam.from_rateconst_at_T", "chempy.kinetics.arrhenius:ArrheniusParam.Ea_over_R"],
         kind="unbounded", div_mode="assume", samples=20)
def _(v):
    from chempy.kinetics.arrhenius import arrhenius_equation, ArrheniusParam
    A, Ea, T = v.real("A", lo=0.1, hi=1e12), v.real("Ea", lo=0, hi=3e5), v.real("T", lo=200, hi=2000)
    be = v.backend()
    v.prove_identity("formula", v.call(arrhenius_equation, A, Ea, T, backend=be), A * be.exp(-Ea / (R_DEFAULT * T)))
    p = ArrheniusParam(A, Ea)
    v.prove_identity("param_call", v.call(p, T, backend=be), A * be.exp(-Ea / (R_DEFAULT * T)))
    k = v.real("k", lo=1e-6, hi=1e9)
    p2 = v.call(ArrheniusParam.from_rateconst_at_T, Ea, (T, k), backend=be)
    v.prove_identity("from_rateconst_roundtrip", v.call(p2, T, backend=be), k)
    v.prove("from_rateconst_keeps_Ea", v.eq(p2.Ea, Ea))
    v.prove_identity("Ea_over_R", v.call(p.Ea_over_R, None, None), Ea / R_DEFAULT)


@harness("C16", "gas_constant.kB_over_h", functions=["chempy.kinetics.arrhenius:_get_R", "chempy.kinetics.eyring:_get_kB_over_h"], kind="data")
def _(v):
    """the two constants of the defining formulas, R and kB/h, as the Arrhenius / Eyring equations use them (no constants object, a constants
    object, units only). They are taken from the modules' private helpers where the modules have helpers of these names (a finer aid), and are
    otherwise read off the public equations: arrhenius_equation(1, Ea, T) = exp(-Ea/(R*T)), so R = Ea/(T * -ln k) (Ea chosen so that the
    exponent is about -1: R to a few 1e-16); eyring_equation(0, 0, T) = (kB/h)*T, so kB/h = k/T"""
    def holds(name, cond):
        # an exception of the code under test is a failed obligation, not a checker error
        try:
            v.prove(name, bool(cond()))
        except Exception as ex:
            v.prove(name, False, detail=repr(ex)[:200])
    try:
        import chempy.kinetics.arrhenius as AR
        import chempy.kinetics.eyring as EY
        from chempy.units import default_constants as dc, default_units as u, to_unitless, Backend
    except Exception as ex:
        v.prove("set_up", False, detail=repr(ex)[:200])
        return
    Ea, T = 2494.0, 300.0

    def R_of(constants=None, units=None):
        helper = getattr(AR, "_get_R", None)
        if helper is not None:
            return helper(constants, units)
        if constants is None and units is None:
            return Ea / (T * -math.log(float(AR.arrhenius_equation(1.0, Ea, T))))
        k = AR.arrhenius_equation(1.0, Ea * u.J / u.mol, T * u.K, constants, units, backend=Backend())     # the unit-aware backend (cf. F-C16c)
        return Ea / (T * -math.log(float(to_unitless(k, 1)))) * u.J / u.K / u.mol

    def kB_over_h_of(constants=None, units=None):
        helper = getattr(EY, "_get_kB_over_h", None)
        if helper is not None:
            return helper(constants, units)
        if constants is None and units is None:
            return float(EY.eyring_equation(0.0, 0.0, T)) / T
        k = EY.eyring_equation(0.0 * u.J / u.mol, 0.0 * u.J / u.K / u.mol, T * u.K, constants, units, backend=Backend())
        return k / (T * u.K)
    holds("R_is_CODATA", lambda: abs(R_of() / 8.314462618 - 1) < 1e-5)
    holds("kB_over_h_is_CODATA", lambda: abs(kB_over_h_of() / 2.083661912e10 - 1) < 1e-5)
    holds("R_constants_path", lambda: abs(to_unitless(R_of(dc, u), u.J / u.K / u.mol) / 8.314462618 - 1) < 1e-5)
    holds("kB_over_h_constants_path", lambda: abs(to_unitless(kB_over_h_of(dc, u), 1 / u.K / u.s) / 2.083661912e10 - 1) < 1e-5)
    holds("R_units_path", lambda: abs(to_unitless(R_of(None, u), u.J / u.K / u.mol) - 8.314472) < 1e-12)


@harness("C16", "fits", functions=["chempy.kinetics.arrhenius:fit_arrhenius_equation", "chempy.kinetics.arrhenius:_fit", "chempy.kinetics.arrhenius:_fit_linearized",
                                   "chempy.kinetics.eyring:fit_eyring_equation", "chempy.util.regression:least_squares"], kind="data")
def _(v):
    """'constructing a set from known rate constants reproduces them', for the linearised fits: rate constants that lie exactly on an Arrhenius /
    Eyring curve (computed here from the defining formulas, 4 temperatures) give back A, Ea resp. dH, dS whatever the error bars are (the
    back-transformations A = exp(p0), Ea = -p1*R, dH = -p1*R, dS = R*(p0 - ln(kB/h)) of the straight line ln k resp. ln(k/T) against 1/T);
    the straight-line fit itself on three hand-computed cases. (kerr=None is refused in the pinned tree: observation on file; error bars are given)"""
    import numpy as np
    import warnings
    R, kB_h = 8.314472, 2.083661912e10     # the module's documented default gas constant; CODATA kB/h (the module's literal differs by 1.2e-6,
    T = np.array([280.0, 300.0, 330.0, 370.0])  # which moves dS by R*1.2e-6 = 1e-5 J/(K mol): tolerance 1e-3 on dS)
    bad = []
    with warnings.catch_warnings():
        warnings.simplefilter("ignore")
        try:
            from chempy.kinetics.arrhenius import fit_arrhenius_equation
            from chempy.kinetics.eyring import fit_eyring_equation
            for A, Ea in ((1e10, 50e3), (3.5e13, 120e3), (7.0, 0.0)):
                k = np.array([A * math.exp(-Ea / (R * t)) for t in T])
                for frac in ((0.01, 0.01, 0.01, 0.01), (0.01, 0.02, 0.05, 0.03)):
                    got = fit_arrhenius_equation(T, k, k * np.array(frac), linearized=True)
                    if not (len(got) == 2 and abs(got[0] / A - 1) < 1e-8 and abs(got[1] - Ea) < 1e-8 * max(Ea, 1e3)):
                        bad.append(("arrhenius", A, Ea, frac, got))
            for dH, dS in ((72e3, 61.4), (40e3, -25.0), (0.0, 0.0)):
                k = np.array([kB_h * t * math.exp(dS / R) * math.exp(-dH / (R * t)) for t in T])
                for frac in ((0.01, 0.01, 0.01, 0.01), (0.01, 0.02, 0.05, 0.03)):
                    got = fit_eyring_equation(T, k, k * np.array(frac), linearized=True)
                    if not (len(got) == 2 and abs(got[0] - dH) < 1e-8 * max(dH, 1e3) and abs(got[1] - dS) < 1e-3):
                        bad.append(("eyring", dH, dS, frac, got))
        except Exception as ex:
            bad.append(repr(ex)[:200])
    v.prove("exact_data_is_reproduced", not bad, detail=repr(bad))
    # the same clause for every series of temperatures in 200..2000 K, also one whose points lie close together compared with their magnitude
    # (a thermostatted measurement: 11 points within 0.01 K of 1500 K, 6 within 0.002 K of 200 K ...). What limits the answer: the slope of the
    # straight line is a quotient of differences; the abscissae 1/T differ by span/T of their magnitude (>= 5e-6 here, so their differences
    # are known to 2.2e-16/5e-6 = 5e-11), the ordinates ln k (|ln k| < 40) are known to 2.2e-16 relative, i.e. their differences
    # (Ea/R * span/T**2 >= 1e-5 for Ea >= 50 kJ/mol) to 40*2.2e-16/1e-5 = 1e-9: 1e-7 of the parameter leaves a factor 100 (an evaluation whose
    # intermediate quantities are SQUARES of the abscissae loses (T/span)**2 = 1e8..4e10 of the 16 digits instead, i.e. is off by 1e-6 and
    # more for the narrow series). dS as above: 1e-3 absolute
    bad = []
    with warnings.catch_warnings():
        warnings.simplefilter("ignore")
        try:
            for T0, span, n in ((1500.0, 0.01, 11), (1990.0, 0.01, 6), (600.0, 0.005, 11), (200.0, 0.002, 6), (1000.0, 0.1, 5)):
                Tn = np.array([T0 + span * i / (n - 1) for i in range(n)])
                for A, Ea in ((1e10, 50e3), (3.5e13, 120e3), (7.0, 0.0)):
                    k = np.array([A * math.exp(-Ea / (R * t)) for t in Tn])
                    for frac in (np.full(n, 0.01), np.array([0.01 * (1 + i % 3) for i in range(n)])):
                        got = fit_arrhenius_equation(Tn, k, k * frac, linearized=True)
                        if not (len(got) == 2 and abs(got[0] / A - 1) < 1e-7 and abs(got[1] - Ea) < 1e-7 * max(Ea, 1e3)):
                            bad.append(("arrhenius", T0, span, n, A, Ea, tuple(got)))
                for dH, dS in ((72e3, 61.4), (40e3, -25.0)):
                    k = np.array([kB_h * t * math.exp(dS / R) * math.exp(-dH / (R * t)) for t in Tn])
                    got = fit_eyring_equation(Tn, k, k * 0.01, linearized=True)
                    if not (len(got) == 2 and abs(got[0] - dH) < 1e-7 * dH and abs(got[1] - dS) < 1e-3):
                        bad.append(("eyring", T0, span, n, dH, dS, tuple(got)))
        except Exception as ex:
            bad.append(repr(ex)[:200])
    v.prove("exact_data_is_reproduced_for_closely_spaced_temperatures", not bad, detail=repr(bad)[:600])
    bad = []
    with warnings.catch_warnings():
        warnings.simplefilter("ignore")
        try:
            from chempy.util.regression import least_squares
            # (intercept, slope): the exact line 1 + 2x, without and with weights; y = x**2 at x = 0, 1, 2: unweighted normal equations give
            # slope (3*9 - 3*5)/(3*5 - 9) = 2, intercept (5 - 2*3)/3 = -1/3, R2 = 1 - (6/9)/(78/9) = 12/13; with weights 1, 1, 2:
            # Sw = 4, Swx = 5, Swy = 9, Swxx = 9, Swxy = 17 -> slope (4*17 - 5*9)/(4*9 - 25) = 23/11, intercept (9 - 5*23/11)/4 = -4/11
            for args, want, want_r2 in ((([0, 1, 2], [1, 3, 5]), (1.0, 2.0), 1.0), (([0, 1, 2], [1, 3, 5], [1, 3, 2]), (1.0, 2.0), 1.0),
                                        (([0, 1, 2], [0, 1, 4]), (-1.0 / 3, 2.0), 12.0 / 13), (([0, 1, 2], [0, 1, 4], [1, 1, 2]), (-4.0 / 11, 23.0 / 11), None)):
                beta, vcv, r2 = least_squares(*args)
                if not (len(beta) == 2 and abs(beta[0] - want[0]) < 1e-12 and abs(beta[1] - want[1]) < 1e-12 and (want_r2 is None or abs(r2 - want_r2) < 1e-12)):
                    bad.append((args, tuple(beta), r2, want, want_r2))
        except Exception as ex:
            bad.append(repr(ex)[:200])
    v.prove("least_squares_hand_computed", not bad, detail=repr(bad))
    # the straight line through points that lie EXACTLY on y = 3 + 2x is that line (intercept 3, slope 2, R2 = 1 as the residuals vanish),
    # wherever the abscissae lie: x = x0 + 0..5 with x0 = 1e2 .. 1e6 (all numbers are integers below 2**53, the data are exact), without
    # and with weights. The intercept is the extrapolation over x0 of a slope known from a base of length 5: for the design matrix [1, x] the
    # ratio of the singular values is sqrt(6)*x0 / (sqrt(17.5)/x0) = 0.6*x0**2, and a solver that works in double precision on the design matrix
    # answers to 2.2e-16 * 0.6*x0**2 * |(3, 2)| = 5e-16*x0**2; allowed here: 1e-12 + 1e-13*x0**2 (a factor 200; 0.1 at x0 = 1e6, where
    # solving through the explicitly inverted X^T X, whose condition is the square, is wrong in the leading digit)
    bad = []
    with warnings.catch_warnings():
        warnings.simplefilter("ignore")
        try:
            for x0 in (1e2, 1e3, 1e4, 1e5, 1e6):
                xs = [x0 + i for i in range(6)]
                ys = [3 + 2 * x for x in xs]
                for w in ((), ([1, 2, 1, 3, 1, 2],)):
                    beta, vcv, r2 = least_squares(xs, ys, *w)
                    tol = 1e-12 + 1e-13 * x0 ** 2
                    if not (len(beta) == 2 and abs(beta[0] - 3) < tol and abs(beta[1] - 2) < tol / x0 and abs(r2 - 1) < 1e-9):
                        bad.append((x0, w, tuple(beta), r2))
        except Exception as ex:
            bad.append(repr(ex)[:200])
    v.prove("least_squares_exact_line_far_from_the_origin", not bad, detail=repr(bad))


@harness("C16", "eyring_equation", functions=["chempy.kinetics.eyring:eyring_equation", "chempy.kinetics.eyring:_get_kB_over_h", "chempy.kinetics.eyring:EyringParam.__call__",
                                              "chempy.kinetics.eyring:EyringParam.kB_h_times_exp_dS_R", "chempy.kinetics.eyring:EyringParam.dH_over_R"],
         kind="unbounded", div_mode="assume", samples=20)
def _(v):
    from chempy.kinetics.eyring import eyring_equation, EyringParam
    dH, dS, T = v.real("dH", lo=0, hi=3e5), v.real("dS", lo=-200, hi=200), v.real("T", lo=200, hi=2000)
    be = v.backend()
    spec = KB_H_DEFAULT * T * be.exp(dS / R_DEFAULT) * be.exp(-dH / (R_DEFAULT * T))
    v.prove_identity("formula", v.call(eyring_equation, dH, dS, T, backend=be), spec)
    p = EyringParam(dH, dS)
    v.prove_identity("param_call", v.call(p, T, backend=be), spec)
    v.prove_identity("kB_h_times_exp_dS_R", v.call(p.kB_h_times_exp_dS_R, None, None, be), KB_H_DEFAULT * be.exp(dS / R_DEFAULT))
    v.prove_identity("dH_over_R", v.call(p.dH_over_R), dH / R_DEFAULT)


def _as_rate_expr(order):
    @harness("C16", "as_RateExpr.order%d" % order, functions=["chempy.kinetics.arrhenius:ArrheniusParam.as_RateExpr", "chempy.kinetics.eyring:EyringParam.as_RateExpr",
                                                              "chempy.chemistry:Reaction.rate_expr", "chempy.chemistry:Reaction.rate"],
             kind="shape-bounded", div_mode="assume", samples=15)
    def _(v):
        from chempy.chemistry import Reaction
        from chempy.kinetics.arrhenius import ArrheniusParam
        from chempy.kinetics.eyring import EyringParam
        A, Ea, T = v.real("A", lo=0.1, hi=1e12), v.real("Ea", lo=0, hi=3e5), v.real("T", lo=200, hi=2000)
        cA, cB = v.real("cA", lo=0.01, hi=5), v.real("cB", lo=0.01, hi=5)
        be = v.backend()
        reac = dict(_orders()[order])
        cp = {1: cA, 2: cA * cB, 3: cA * cA * cB}[order]
        var = {"A": cA, "B": cB, "P": 1.0, "temperature": T}
        rxn = Reaction(reac, {"P": 1}, ArrheniusParam(A, Ea), checks=())
        rates = v.call(rxn.rate, var, backend=be)
        kT = v.call(ArrheniusParam(A, Ea), T, backend=be)
        v.prove_identity("arrhenius_rate_of_product", rates["P"], kT * cp)
        v.prove_identity("arrhenius_rate_of_reactant", rates["A"], -reac["A"] * kT * cp)
        dH, dS = v.real("dH", lo=0, hi=3e5), v.real("dS", lo=-200, hi=200)
        conc0 = 1.0
        rxn = Reaction(reac, {"P": 1}, EyringParam(dH, dS), checks=())
        ratex = v.call(EyringParam(dH, dS).as_RateExpr, None, None, None, be)
        # the default reference concentration is 1 molar (a unit-carrying one): state the claim on magnitudes
        var_e = var
        try:
            # as built today: mass action of an Eyring expression whose third argument (left to its default) is set to the plain number here
            ey = ratex.args[0]
            ey.args = list(ey.args[:2]) + [conc0]
        except (AttributeError, IndexError, TypeError):
            # built otherwise: the same through the public surface, the reference concentration supplied as a named override
            ratex = v.call(EyringParam(dH, dS).as_RateExpr, ("pre_u", "dHR_u", "cref_u"), None, None, be)
            var_e = dict(var, cref_u=conc0)
        r = v.call(ratex, var_e, backend=be, reaction=rxn)
        kT = v.call(EyringParam(dH, dS), T, backend=be)
        v.prove_identity("eyring_rate", r, kT * cp)
    return _


for _o in (1, 2, 3):
    _as_rate_expr(_o)


@harness("C16", "GibbsEqConst.MassActionEq", functions=["chempy.thermodynamics.expressions:GibbsEqConst.eq_const", "chempy.thermodynamics.expressions:MassActionEq.eq_const",
                                                         "chempy.thermodynamics.expressions:MassActionEq.active_conc_prod", "chempy.thermodynamics.expressions:MassActionEq.equilibrium_equation"],
         kind="shape-bounded", div_mode="assume", samples=20)
def _(v):
    from chempy.thermodynamics.expressions import GibbsEqConst, MassActionEq
    from chempy.chemistry import Equilibrium
    dHR, dSR, T = v.real("dH_over_R", lo=-2e4, hi=2e4), v.real("dS_over_R", lo=-30, hi=30), v.real("T", lo=200, hi=2000)
    be = v.backend()
    v.prove_identity("gibbs", v.call(GibbsEqConst([dHR, dSR]), {"temperature": T}, backend=be), be.exp(dSR - dHR / T))
    K = v.real("K", lo=0.01, hi=100)
    cA, cB, cC = v.real("cA", lo=0.1, hi=5), v.real("cB", lo=0.1, hi=5), v.real("cC", lo=0.1, hi=5)
    eq = Equilibrium({"A": 2, "B": 1}, {"C": 3}, None, checks=())
    ma = MassActionEq([K])
    var = {"A": cA, "B": cB, "C": cC}
    v.prove_identity("quotient", v.call(ma.active_conc_prod, var, equilibrium=eq), cC ** 3 / (cA ** 2 * cB))
    v.prove("eq_const", v.eq(v.call(ma, var), K))
    v.prove_identity("equilibrium_equation", v.call(ma.equilibrium_equation, var, equilibrium=eq), K - cC ** 3 / (cA ** 2 * cB))


@harness("C16", "as_RateExpr.named_override_replaces_only_A", functions=["chempy.kinetics.arrhenius:ArrheniusParam.as_RateExpr", "chempy.kinetics.eyring:EyringParam.as_RateExpr"], kind="shape-bounded", div_mode="assume", samples=15)
def _(v):
    """as_RateExpr(unique_keys=('A_fwd',)): supplying A_fwd replaces the pre-exponential factor and nothing else"""
    from chempy.chemistry import Reaction
    from chempy.kinetics.arrhenius import ArrheniusParam
    A, Ea, T, A2 = v.real("A", lo=0.1, hi=1e12), v.real("Ea", lo=0, hi=3e5), v.real("T", lo=200, hi=2000), v.real("A_override", lo=0.1, hi=1e12)
    cA = v.real("cA", lo=0.01, hi=5)
    be = v.backend()
    ratex = v.call(ArrheniusParam(A, Ea).as_RateExpr, ("A_fwd",))
    rxn = Reaction({"A": 1}, {"P": 1}, None, checks=())
    v.prove("key_reported", set(v.call(ratex.all_unique_keys)) == {"A_fwd"})
    r0 = v.call(ratex, {"A": cA, "temperature": T}, backend=be, reaction=rxn)
    v.prove_identity("without_override", r0, A * be.exp(-Ea / (R_DEFAULT * T)) * cA)
    r1 = v.call(ratex, {"A": cA, "temperature": T, "A_fwd": A2}, backend=be, reaction=rxn)
    v.prove_identity("override_replaces_exactly_A", r1, A2 * be.exp(-Ea / (R_DEFAULT * T)) * cA)
    two = v.run(ArrheniusParam(A, Ea).as_RateExpr, ("A_fwd", "Ea_fwd"))
    v.prove("two_keys_accepted", two.returned, detail=repr(two.exc))


@harness("C16", "mutable_values_not_modified", functions=[RT + ":MassAction.active_conc_prod", RT + ":MassAction.__call__", RT + ":Arrhenius.__call__", "chempy.chemistry:Reaction.rate",
                                                          EX + ":create_Poly.<locals>._poly", "chempy.thermodynamics.expressions:MassActionEq.active_conc_prod"], kind="data")
def _(v):
    """rate expressions evaluated on numpy arrays / quantities (what an integrator or a parameter scan hands in): the caller's variables are left
    as they were and a second evaluation gives the same number"""
    import numpy as np
    from chempy.chemistry import Reaction
    from chempy.kinetics.rates import MassAction, Arrhenius
    from contracts._purity import prove_pure

    def pure(name, f, mk, want, materialise=None):
        """prove_pure + the hand-computed value; an exception of the code under test is a failed obligation (name.value), not a checker error"""
        try:
            r = prove_pure(v, name, f, mk, materialise=materialise)
            if want is not None:
                v.prove(name + ".value", np.shape(r) == np.shape(want) and bool(np.allclose(r, want, rtol=1e-12, atol=0)), detail=repr(r))
        except Exception as ex:
            v.prove(name + (".value" if want is not None else ".evaluates"), False, detail=repr(ex)[:200])
    rxn = Reaction({"A": 1, "B": 2}, {"C": 1}, MassAction([3.0]), checks=())
    mk = lambda: (({"A": np.array([1.0, 2.0]), "B": np.array([3.0, 5.0]), "C": np.array([0.0, 1.0])},), {"reaction": rxn})
    pure("MassAction.arrays", rxn.param, mk, np.array([27.0, 150.0]))          # 3*[A]*[B]**2
    pure("Reaction.rate.arrays", rxn.rate, lambda: (mk()[0], {}), None)
    arr = Reaction({"A": 1}, {"C": 1}, MassAction(Arrhenius([2.0, 300.0])), checks=())
    pure("Arrhenius.arrays", arr.param, lambda: (({"A": np.array([1.0, 2.0]), "temperature": np.array([300.0, 600.0])},), {"reaction": arr, "backend": np}),
         np.array([2.0 * math.exp(-1.0) * 1.0, 2.0 * math.exp(-0.5) * 2.0]))     # A*exp(-(Ea/R)/T) * [A]

    # the sites of this property that assign in place: the polynomial accumulates with 'res += coeff*cur', 'cur *= x0', 'cur /= x0' and the
    # equilibrium quotient with 'result *= ...'. Coefficients and variables are the caller's arrays / quantities (they are arguments of the
    # function under test here, so that prove_pure compares them before and after); values by hand
    ev = lambda cls: (lambda coeffs, variables: cls(coeffs)(variables))
    try:
        from chempy.kinetics._rates import TPoly, RTPoly, ShiftedTPoly
        from chempy.thermodynamics.expressions import MassActionEq
        from chempy.chemistry import Equilibrium
        # array coefficients, scalar temperature: [1, 2] + [1, 1]*2
        pure("TPoly.array_coefficients", ev(TPoly), lambda: (([np.array([1.0, 2.0]), np.array([1.0, 1.0])], {"temperature": 2.0}), {}), np.array([3.0, 4.0]))
        # scalar coefficients, array temperature T = (2, 4): 1 + 2T + 3T**2; 1 + 2/T + 4/T**2; x = T - 1: 1 + 2x + 3x**2
        Ts = lambda: {"temperature": np.array([2.0, 4.0])}
        pure("TPoly.array_temperature", ev(TPoly), lambda: (([1.0, 2.0, 3.0], Ts()), {}), np.array([17.0, 57.0]))
        pure("RTPoly.array_temperature", ev(RTPoly), lambda: (([1.0, 2.0, 4.0], Ts()), {}), np.array([3.0, 1.75]))
        pure("ShiftedTPoly.array_temperature", ev(ShiftedTPoly), lambda: (([1.0, 1.0, 2.0, 3.0], Ts()), {}), np.array([6.0, 34.0]))
        # array coefficients AND array temperature (the accumulator starts as coeff*1: it must not be the caller's coefficient array):
        # (1, 2) + (1, 1)*T + (0.5, 0.25)*T**2 at T = (2, 4)
        pure("TPoly.arrays_both", ev(TPoly), lambda: (([np.array([1.0, 2.0]), np.array([1.0, 1.0]), np.array([0.5, 0.25])], Ts()), {}), np.array([1 + 2 + 2.0, 2 + 4 + 4.0]))
        eq = Equilibrium({"A": 2, "B": 1}, {"C": 3}, None, checks=())
        mkq = lambda: (({"A": np.array([1.0, 2.0]), "B": np.array([3.0, 5.0]), "C": np.array([2.0, 1.0])},), {"equilibrium": eq})
        pure("MassActionEq.quotient.arrays", MassActionEq([4.0]).active_conc_prod, mkq, np.array([8.0 / 3.0, 1.0 / 20.0]))   # C**3/(A**2*B)
        pure("MassActionEq.equilibrium_equation.arrays", MassActionEq([4.0]).equilibrium_equation, mkq, np.array([4.0 - 8.0 / 3.0, 4.0 - 1.0 / 20.0]))   # K - quotient
    except Exception as ex:
        v.prove("in_place_sites.set_up", False, detail=repr(ex)[:200])
    try:
        from chempy.units import default_units as u, to_unitless
    except ImportError:
        return
    try:
        rq = Reaction({"A": 1, "B": 2}, {"C": 1}, MassAction([3.0 / u.molar ** 2 / u.second]), checks=())
        mq = lambda: (({"A": 1.0 * u.molar, "B": 3.0 * u.molar, "C": 0.0 * u.molar},), {"reaction": rq})
        pure("MassAction.quantities", rq.param, mq, 27.0, materialise=lambda x: float(to_unitless(x, u.molar / u.second)))
        # unit-carrying coefficients of different scale: 1/s + 2/(ms K) * 3 K = 6001/s, and the stored 1/s is still 1/s afterwards
        pure("TPoly.quantities", ev(TPoly), lambda: (([1.0 / u.s, 2.0 / u.ms / u.K], {"temperature": 3 * u.K}), {}), 6001.0, materialise=lambda x: float(to_unitless(x, 1 / u.s)))
    except Exception as ex:
        v.prove("quantities.set_up", False, detail=repr(ex)[:200])


def _in_molar_power(r, order):
    """the number r stands for when expressed in molar**(1 - order) (any equivalent spelling of the unit, dm3/mol ..., gives the same number;
    a wrong dimension raises); a plain number - all-float inputs may well give a float - is taken as it is"""
    if hasattr(r, "dimensionality"):
        from chempy.units import default_units as u, to_unitless
        return float(to_unitless(r, u.molar ** (1 - order)))
    return float(r)


@harness("C16", "as_RateExpr.unmodified_objects", functions=["chempy.kinetics.eyring:EyringParam.as_RateExpr", "chempy.kinetics.arrhenius:ArrheniusParam.as_RateExpr", RT + ":Eyring.__call__",
                                                             RT + ":Arrhenius.__call__", "chempy.util._expr:Expr.arg"], kind="data")
def _(v):
    """the rate expressions exactly as as_RateExpr returns them (Eyring keeps its default reference concentration of 1 molar): value for orders 1-3
    = k(T) * concentration product in molar**(1 - order), and a named override replaces exactly the argument it names (both parameter sets)"""
    import math
    from chempy.chemistry import Reaction
    from chempy.kinetics.arrhenius import ArrheniusParam
    from chempy.kinetics.eyring import EyringParam
    R, kB_h = 8.314472, 2.08366e10
    dH, dS, T = 72e3, 61.4, 310.0
    kT = kB_h * T * math.exp(dS / R) * math.exp(-dH / (R * T))
    conc = {"A": 0.7, "B": 1.3, "P": 0.0, "temperature": T}
    bad = []
    for order, reac, cp in ((1, {"A": 1}, 0.7), (2, {"A": 1, "B": 1}, 0.7 * 1.3), (3, {"A": 2, "B": 1}, 0.49 * 1.3)):
        try:
            rxn = Reaction(reac, {"P": 1}, checks=())
            ratex = EyringParam(dH, dS).as_RateExpr()
            r = ratex(conc, reaction=rxn)
            # the unit is judged by converting to molar**(1 - order), not by its spelling
            mag = _in_molar_power(r, order)
            if abs(mag / (kT * cp) - 1) > 2e-5:
                bad.append((order, r, kT * cp))
        except Exception as ex:
            bad.append((order, repr(ex)[:200]))
    v.prove("eyring_with_its_default_reference_concentration", not bad, detail=repr(bad))
    rxn = Reaction({"A": 1}, {"P": 1}, checks=())
    try:
        ey = EyringParam(dH, dS).as_RateExpr(unique_keys=("pre", "dHR"))
        # first order: dimensionless whether or not the result carries the (molar**0) unit of the default reference concentration
        base = _in_molar_power(ey(conc, reaction=rxn), 1)
        pre_only = _in_molar_power(ey(dict(conc, pre=2.0), reaction=rxn), 1)
        dh_only = _in_molar_power(ey(dict(conc, dHR=0.0), reaction=rxn), 1)
        ok = (abs(base / (kT * 0.7) - 1) < 2e-5 and abs(pre_only / (2.0 * T * math.exp(-dH / (R * T)) * 0.7) - 1) < 2e-5
              and abs(dh_only / (kB_h * math.exp(dS / R) * T * 0.7) - 1) < 2e-5)
        det = repr((base, pre_only, dh_only))
    except Exception as ex:
        ok, det = False, repr(ex)[:200]
    v.prove("eyring_named_override_replaces_exactly_that_argument", ok, detail=det)
    A, Ea = 3e9, 4.2e4
    try:
        ar = ArrheniusParam(A, Ea).as_RateExpr(unique_keys=("A_fwd", "EaR_fwd"))
        v0 = ar(conc, reaction=rxn)
        v1 = ar(dict(conc, A_fwd=5.0), reaction=rxn)
        v2 = ar(dict(conc, EaR_fwd=0.0), reaction=rxn)
        v3 = ar(dict(conc, A_fwd=0.0), reaction=rxn)
        ok = abs(v0 / (A * math.exp(-Ea / (R * T)) * 0.7) - 1) < 1e-9 and abs(v1 / (5.0 * math.exp(-Ea / (R * T)) * 0.7) - 1) < 1e-9 and abs(v2 / (A * 0.7) - 1) < 1e-12 and v3 == 0.0
        det = repr((v0, v1, v2, v3))
    except Exception as ex:
        ok, det = False, repr(ex)[:200]
    v.prove("arrhenius_named_overrides", ok, detail=det)


@harness("C16", "reference_concentration", functions=["chempy.kinetics.eyring:EyringParam.as_RateExpr", RT + ":Eyring.__call__", RT + ":EyringHS.__call__", "chempy.util._expr:Expr.arg",
                                                      "chempy.util._expr:Expr.__init__"], kind="data")
def _(v):
    """the third argument of the Eyring expressions, the reference concentration c0: the rate constant of a reaction of order n is
    (kB*T/h)*exp(dS/R)*exp(-dH/RT) * c0**(1 - n). The default c0 is 1 (molar), whose powers all have magnitude 1, so the exponent only shows
    with another value: c0 = 2 and c0 = 1/2 supplied as a named override (floats throughout) divide / multiply the first-order value by
    2**(n - 1); 'a named override replaces exactly that argument' for the last argument, which is filled from the defaults. EyringHS: the same
    with its default c0 left in place, with c0 by name, and with the three arguments given as a dict"""
    import math
    from chempy.chemistry import Reaction
    from chempy.kinetics.eyring import EyringParam
    from chempy.kinetics.rates import MassAction, EyringHS
    R, kB_h = 8.314472, 2.08366e10           # the module's documented gas constant; kB/h to six digits (tolerance 2e-5)
    dH, dS, T = 72e3, 61.4, 310.0
    kT = kB_h * T * math.exp(dS / R) * math.exp(-dH / (R * T))
    Rg, kB, h = 8.314462618, 1.380649e-23, 6.62607015e-34     # handed in as variables to EyringHS
    kT_hs = kB / h * T * math.exp(dS / Rg) * math.exp(-dH / (Rg * T))
    conc = {"A": 0.7, "B": 1.3, "P": 0.0, "temperature": T}
    conc_hs = dict(conc, molar_gas_constant=Rg, Boltzmann_constant=kB, Planck_constant=h)
    bad = {"eyring_reference_concentration_by_name": [], "eyringHS_default_reference_concentration": [], "eyringHS_reference_concentration_by_name": [],
           "eyringHS_dict_arguments": []}

    def check(label, order, f, want, tol):
        try:
            got = f()
            if not abs(got / want - 1) < tol:
                bad[label].append((order, got, want))
        except Exception as ex:
            bad[label].append((order, repr(ex)[:200]))
    for order, reac, cp in ((1, {"A": 1}, 0.7), (2, {"A": 1, "B": 1}, 0.7 * 1.3), (3, {"A": 2, "B": 1}, 0.49 * 1.3)):
        rxn = Reaction(reac, {"P": 1}, checks=())
        for cref in (2.0, 0.5):
            check("eyring_reference_concentration_by_name", order,
                  lambda: float(EyringParam(dH, dS).as_RateExpr(unique_keys=("pre", "dHR", "cref"))(dict(conc, cref=cref), reaction=rxn)), kT * cp / cref ** (order - 1), 2e-5)
            check("eyringHS_reference_concentration_by_name", order,
                  lambda: float(MassAction(EyringHS([dH, dS], unique_keys=("h_u", "s_u", "c_u")))(dict(conc_hs, c_u=cref), reaction=rxn)), kT_hs * cp / cref ** (order - 1), 1e-12)
            check("eyringHS_dict_arguments", order,
                  lambda: float(MassAction(EyringHS({"dS": dS, "c0": cref, "dH": dH}))(conc_hs, reaction=rxn)), kT_hs * cp / cref ** (order - 1), 1e-12)
        check("eyringHS_default_reference_concentration", order, lambda: _in_molar_power(MassAction(EyringHS([dH, dS]))(conc_hs, reaction=rxn), order), kT_hs * cp, 1e-12)
    for label in bad:
        v.prove(label, not bad[label], detail=repr(bad[label]))


@harness("C16", "MassAction.arithmetic_values", functions=["chempy.util._expr:Expr.__add__", "chempy.util._expr:Expr.__sub__", "chempy.util._expr:Expr.__neg__", "chempy.util._expr:Expr.__mul__",
                                                          "chempy.util._expr:Expr.__truediv__", "chempy.util._expr:UnaryWrapper.__mul__", "chempy.util._expr:UnaryWrapper.__truediv__",
                                                          "chempy.util._expr:UnaryWrapper.__rtruediv__", RT + ":MassAction.__call__"], kind="shape-bounded", div_mode="assume", samples=20)
def _(v):
    """arithmetic combinations of mass-action rate expressions evaluate to the same combination of their values (k * concentration product each)"""
    from chempy.chemistry import Reaction
    from chempy.kinetics.rates import MassAction
    k1, k2, s = v.real("k1", lo=0.1, hi=9), v.real("k2", lo=0.1, hi=9), v.real("s", lo=0.5, hi=4)
    cA, cB = v.real("cA", lo=0.01, hi=5), v.real("cB", lo=0.01, hi=5)
    rxn = Reaction({"A": 2, "B": 1}, {"P": 1}, checks=())
    var = {"A": cA, "B": cB, "P": 0.0}
    cp = cA * cA * cB
    m1, m2 = MassAction([k1]), MassAction([k2])
    for label, expr, want in (("sum", v.call(m1.__add__, m2), (k1 + k2) * cp), ("difference", v.call(m1.__sub__, m2), (k1 - k2) * cp), ("negation", v.call(m1.__neg__), -k1 * cp),
                              ("times_number", v.call(m1.__mul__, s), k1 * s * cp), ("number_times", v.call(m1.__rmul__, s), s * k1 * cp), ("over_number", v.call(m1.__truediv__, s), k1 / s * cp),
                              ("negated_scaled_sum", v.call(v.call(v.call(m1.__add__, m2).__mul__, s).__neg__), -(k1 + k2) * s * cp)):
        v.prove_identity(label, v.call(expr, var, reaction=rxn), want)
    # the same clause through the operators themselves (number operands through the reflected methods, as a symbolic number is not a float; so that the delegation Expr.__mul__/__truediv__ -> NotImplemented -> UnaryWrapper.__rmul__/
    # __rtruediv__, the reflected + and -, ** and products / quotients of two mass-action expressions are reached); value of m_i = k_i * cp
    from chempy.util._expr import Constant
    S = Constant([s])
    for label, mk_expr, want in (("product_of_two", lambda: m1 * m2, k1 * cp * k2 * cp), ("quotient_of_two", lambda: m1 / m2, k1 / k2), ("square", lambda: m1 ** 2, k1 * cp * k1 * cp),
                                 ("constant_times", lambda: S * m1, s * k1 * cp), ("over_constant", lambda: m1 / S, k1 * cp / s), ("number_plus", lambda: v.call(m1.__radd__, s), s + k1 * cp),
                                 ("number_minus", lambda: v.call(m1.__rsub__, s), s - k1 * cp), ("plus_number", lambda: v.call(m1.__add__, s), k1 * cp + s),
                                 ("minus_number", lambda: v.call(m1.__sub__, s), k1 * cp - s),
                                 ("sum_over_constant_minus_product", lambda: v.call(((m1 + m2) / S).__sub__, m1 * m2), (k1 + k2) * cp / s - k1 * cp * k2 * cp)):
        try:
            expr = mk_expr()
        except Exception as ex:
            v.prove(label, False, detail="building the expression raised %r" % (ex,))
            continue
        v.prove_identity(label, v.call(expr, var, reaction=rxn), want)
    # number / mass-action: for a reaction without reactants the concentration product is the empty product 1, so the value of m1 is k1 and
    # s / m1 must be s / k1 (the general statement s / (k1*cp) does not hold in the pinned tree: observation on file, see UnaryWrapper.rdiv)
    r0 = Reaction({}, {"P": 1}, checks=())
    for label, mk_expr in (("number_over_at_zero_order", lambda: v.call(m1.__rtruediv__, s)), ("constant_over_at_zero_order", lambda: S / m1)):
        try:
            expr = mk_expr()
        except Exception as ex:
            v.prove(label, False, detail="building the expression raised %r" % (ex,))
            continue
        v.prove_identity(label, v.call(expr, {"P": 0.0}, reaction=r0), s / k1)
    # an operand that takes its rate constant from a named variable: m1 - mk and m1 + (-mk) are the same combination, so they evaluate alike
    # = (k1 - k)*cp; the pinned tree refuses the first form (obs.: with a message about UnaryWrapper, because __sub__ probes 'other * 0') -
    # a refusal is accepted, a different number is not
    mk = MassAction(unique_keys=("k_named",))
    var_k = dict(var, k_named=k2)
    v.prove_identity("plus_negated_keyed_operand", v.call(v.call(m1.__add__, v.call(mk.__neg__)), var_k, reaction=rxn), (k1 - k2) * cp)
    out = v.run(m1.__sub__, mk)
    if out.returned:
        v.prove_identity("minus_keyed_operand_refused_or_right", v.call(out.value, var_k, reaction=rxn), (k1 - k2) * cp)
    else:
        v.prove("minus_keyed_operand_refused_or_right", out.raised(), detail=repr(out.exc))


@harness("C16", "arithmetic_named_overrides", functions=["chempy.util._expr:Expr.__add__", "chempy.util._expr:Expr.__neg__", "chempy.util._expr:Expr.__radd__", "chempy.util._expr:Expr.__rsub__",
                                                        "chempy.util._expr:Expr.__sub__", "chempy.util._expr:Expr.all_args", "chempy.util._expr:Expr.all_unique_keys",
                                                        "chempy.util._expr:_BinaryExpr.__call__", "chempy.util._expr:_NegExpr.__call__", RT + ":MassAction.__call__", RT + ":MassAction.rate_coeff",
                                                        RT + ":Arrhenius.__call__", "chempy.chemistry:Reaction.rate"], kind="shape-bounded", div_mode="assume", samples=20)
def _(v):
    """'a named override of an argument replaces exactly that argument' and 'arithmetic combinations of expressions', together: an operand of
    a sum / negation / difference that declares a name for its argument keeps that name inside the combination. With the terms
    ma = k_a-named constant, mb = k_b-named constant, mc = mass action of an Arrhenius expression whose pre-exponential factor is named A_u,
    md = unnamed constant (each times the concentration product cp of 2 A + B -> P), every combination evaluates to the same combination of
    the terms' values, where the value of a named argument is the variable of that name if present and the stored number otherwise - for no
    override, each single one, and all at once; the same through Reaction.rate. Combinations that the tree refuses to build for named
    operands (difference, products with numbers: UnaryWrapper demands unnamed operands) may stay refused, but must not evaluate to another
    number"""
    from chempy.chemistry import Reaction
    from chempy.kinetics.rates import MassAction, Arrhenius
    k1, k2, k3, s = v.real("k1", lo=0.1, hi=9), v.real("k2", lo=0.1, hi=9), v.real("k3", lo=0.1, hi=9), v.real("s", lo=1.5, hi=4)   # s is not a neutral operand
    oa, ob, oA = v.real("k_a_override", lo=10, hi=90), v.real("k_b_override", lo=10, hi=90), v.real("A_u_override", lo=10, hi=90)
    A, EaR, T = v.real("A", lo=0.1, hi=9), v.real("Ea_over_R", lo=0, hi=2e3), v.real("T", lo=200, hi=2000)
    cA, cB = v.real("cA", lo=0.01, hi=5), v.real("cB", lo=0.01, hi=5)
    be = v.backend()
    cp = cA * cA * cB
    var = {"A": cA, "B": cB, "P": 0.0, "temperature": T}
    mk_terms = lambda: (MassAction([k1], unique_keys=("k_a",)), MassAction([k2], unique_keys=("k_b",)), MassAction(Arrhenius([A, EaR], unique_keys=("A_u",))), MassAction([k3]))
    scenarios = (("no_override", {}), ("only_first", {"k_a": oa}), ("only_second", {"k_b": ob}), ("only_nested", {"A_u": oA}), ("all", {"k_a": oa, "k_b": ob, "A_u": oA}))
    # (label, the combination, its value as a function of the three effective constants, may the tree refuse to build it)
    combos = (("sum", lambda a, b, c, d: v.call(a.__add__, b), lambda a, b, c: (a + b) * cp, False),
              ("sum_reversed", lambda a, b, c, d: v.call(b.__add__, a), lambda a, b, c: (b + a) * cp, False),
              ("sum_with_unnamed_term", lambda a, b, c, d: v.call(a.__add__, d), lambda a, b, c: (a + k3) * cp, False),
              ("unnamed_term_plus", lambda a, b, c, d: v.call(d.__add__, b), lambda a, b, c: (k3 + b) * cp, False),
              ("sum_with_nested_name", lambda a, b, c, d: v.call(c.__add__, b), lambda a, b, c: (c + b) * cp, False),
              ("sum_of_three", lambda a, b, c, d: v.call(v.call(a.__add__, b).__add__, c), lambda a, b, c: (a + b + c) * cp, False),
              ("negated_sum", lambda a, b, c, d: v.call(v.call(a.__add__, b).__neg__), lambda a, b, c: -(a + b) * cp, False),
              ("plus_negated", lambda a, b, c, d: v.call(a.__add__, v.call(b.__neg__)), lambda a, b, c: (a - b) * cp, False),
              ("number_plus", lambda a, b, c, d: v.call(a.__radd__, s), lambda a, b, c: s + a * cp, False),
              ("number_minus", lambda a, b, c, d: v.call(b.__rsub__, s), lambda a, b, c: s - b * cp, False),
              ("difference", lambda a, b, c, d: v.call(a.__sub__, b), lambda a, b, c: (a - b) * cp, True),
              ("unnamed_minus_named", lambda a, b, c, d: v.call(d.__sub__, b), lambda a, b, c: (k3 - b) * cp, True),
              ("times_number", lambda a, b, c, d: v.call(a.__mul__, s), lambda a, b, c: a * s * cp, True),
              ("over_number", lambda a, b, c, d: v.call(a.__truediv__, s), lambda a, b, c: a / s * cp, True))
    rxn = Reaction({"A": 2, "B": 1}, {"P": 1}, checks=())
    for label, build, value, may_refuse in combos:
        out = v.run(build, *mk_terms())
        if not out.returned:
            v.prove(label + ".refused_or_right", out.raised() if may_refuse else False, detail="building the expression raised %r" % (out.exc,))
            continue
        for sc, extra in scenarios:
            eff = (extra.get("k_a", k1), extra.get("k_b", k2), extra.get("A_u", A) * be.exp(-EaR / T))
            v.prove_identity("%s.%s" % (label, sc), v.call(out.value, dict(var, **extra), backend=be, reaction=rxn), value(*eff))
    # the names of the operands are the names of the combination (what a caller is told it may override)
    a, b, c, d = mk_terms()
    total = v.call(v.call(a.__add__, b).__add__, c)
    v.prove("names_of_the_operands_are_reported", set(v.call(total.all_unique_keys)) == {"k_a", "k_b", "A_u"})
    # the same through the reaction that carries the sum as its rate expression: d[P]/dt = rate, d[A]/dt = -2 rate
    rx = Reaction({"A": 2, "B": 1}, {"P": 1}, total, checks=())
    for sc, extra in scenarios:
        eff = (extra.get("k_a", k1), extra.get("k_b", k2), extra.get("A_u", A) * be.exp(-EaR / T))
        rates = v.call(rx.rate, dict(var, **extra), backend=be)
        v.prove_identity("reaction_rate_of_product." + sc, rates["P"], sum(eff) * cp)
        v.prove_identity("reaction_rate_of_reactant." + sc, rates["A"], -2 * sum(eff) * cp)


@harness("C16", "named_override_through_the_units_wrapper", functions=["chempy.kinetics.arrhenius:ArrheniusParamWithUnits.as_RateExpr", "chempy.kinetics.arrhenius:ArrheniusParam.as_RateExpr",
                                                                       "chempy.kinetics.eyring:EyringParamWithUnits.as_RateExpr", "chempy.kinetics.eyring:EyringParam.as_RateExpr"], kind="data")
def _(v):
    """'a named override of an argument replaces exactly that argument', through the unit-carrying parameter set as well: the unique keys given
    to ArrheniusParamWithUnits.as_RateExpr reach the rate expression, an override of the pre-exponential factor doubles the rate, an override
    of the activation energy changes only the exponent, and without overrides the stored values are used"""
    import math
    import warnings
    from chempy.chemistry import Reaction
    from chempy.kinetics.arrhenius import ArrheniusParamWithUnits
    from chempy.units import default_units as u, default_constants as c, to_unitless
    warnings.simplefilter("ignore")
    try:
        ap = ArrheniusParamWithUnits(1e10 / u.s, 40e3 * u.J / u.mol)
        # both keys are spelled unlike the argument names (A, Ea_over_R): an override must come through the DECLARED key, not through a variable
        # that happens to be called like the argument
        ratex = ap.as_RateExpr(unique_keys=("Aa", "EaR_x"))
        rx = Reaction({"A": 1}, {"B": 1}, ratex)
        base = {"A": 2 * u.molar, "temperature": 300 * u.K}
        val = lambda extra: float(to_unitless(rx.rate(dict(base, **extra))["B"], u.molar / u.s))
        R = float(to_unitless(c.molar_gas_constant, u.J / u.K / u.mol))
        k0 = 1e10 * math.exp(-40e3 / (R * 300))
        r0, rA, rE = val({}), val({"Aa": 2e10 / u.s}), val({"EaR_x": 3000 * u.K})
        ok = abs(r0 / (2 * k0) - 1) < 1e-9 and abs(rA / (4 * k0) - 1) < 1e-9 and abs(rE / (2 * 1e10 * math.exp(-3000 / 300.0)) - 1) < 1e-9
        det = repr((r0, rA, rE, 2 * k0))
    except Exception as ex:
        ok, det = False, repr(ex)[:200]
    v.prove("overrides_reach_the_rate_expression", ok, detail=det)
    try:
        # 'replaces exactly that argument' also means: nothing else does. A variable named like an argument but not declared as a key is not an
        # override (here 'A' IS present - it is the substance's concentration, 2 molar - and so is 'Ea_over_R'); second order for the units
        rN = val({"Ea_over_R": 3000 * u.K})
        ap2 = ArrheniusParamWithUnits(1e10 / u.s / u.molar, 40e3 * u.J / u.mol)
        rx2 = Reaction({"A": 1, "C": 1}, {"B": 1}, ap2.as_RateExpr(unique_keys=("Aa", "EaR_x")))
        base2 = {"A": 2 * u.molar, "C": 3 * u.molar, "temperature": 300 * u.K}
        val2 = lambda extra: float(to_unitless(rx2.rate(dict(base2, **extra))["B"], u.molar / u.s))
        s0, sA, sN = val2({}), val2({"Aa": 2e10 / u.s / u.molar}), val2({"Ea_over_R": 3000 * u.K})
        ok = abs(rN / (2 * k0) - 1) < 1e-9 and abs(s0 / (6 * k0) - 1) < 1e-9 and abs(sA / (12 * k0) - 1) < 1e-9 and abs(sN / (6 * k0) - 1) < 1e-9
        det = repr((rN, s0, sA, sN, k0))
    except Exception as ex:
        ok, det = False, repr(ex)[:200]
    v.prove("undeclared_variables_named_like_arguments_are_not_overrides", ok, detail=det)
    # the same clause for the Eyring parameter set with units: keys for all three arguments (the third, the reference concentration, is filled
    # from the default 1 molar); k(T) = (kB/h)*T*exp(dS/R)*exp(-dH/(R*T)) with the constants of the constants object handed to the wrapper;
    # orders 1 and 2, default backend and the unit-aware one
    bad = []
    try:
        from chempy.kinetics.eyring import EyringParamWithUnits
        from chempy.units import Backend
        kB_h = float(to_unitless(c.Boltzmann_constant / c.Planck_constant, 1 / u.K / u.s))
        dH, dS, T = 40e3, 10.0, 300.0
        kT = kB_h * T * math.exp(dS / R) * math.exp(-dH / (R * T))
        # the same enthalpy spelled in J/mol and in kJ/mol (the stored dH/R is then kJ*K/J until simplified), an override in kK likewise
        for order, reac, cp, ep in ((1, {"A": 1}, 2.0, EyringParamWithUnits(dH * u.J / u.mol, dS * u.J / u.K / u.mol)),
                                    (2, {"A": 1, "C": 1}, 6.0, EyringParamWithUnits(dH * u.J / u.mol, dS * u.J / u.K / u.mol)),
                                    (2, {"A": 1, "C": 1}, 6.0, EyringParamWithUnits(dH / 1000 * u.kilojoule / u.mol, dS * u.J / u.K / u.mol))):
            for be in (None, Backend()):
                rxe = Reaction(reac, {"B": 1}, ep.as_RateExpr(unique_keys=("pre", "dHR", "cref")))
                for label, extra, want in (("stored", {}, kT * cp), ("cref", {"cref": 2 * u.molar}, kT * cp / 2 ** (order - 1)),
                                           ("pre", {"pre": 2e10 / u.K / u.s}, 2e10 * T * math.exp(-dH / (R * T)) * cp),
                                           ("dHR", {"dHR": 3000 * u.K}, kB_h * math.exp(dS / R) * T * math.exp(-3000 / 300.0) * cp),
                                           ("dHR_kK", {"dHR": 3 * u.kK}, kB_h * math.exp(dS / R) * T * math.exp(-3000 / 300.0) * cp),
                                           ("undeclared", {"dH_over_R": 3000 * u.K, "conc0": 5 * u.molar, "kB_h_times_exp_dS_R": 1 / u.K / u.s}, kT * cp)):
                    try:
                        vv = dict(base2, temperature=T * u.K, **extra)
                        got = float(to_unitless((rxe.rate(vv) if be is None else rxe.rate(vv, backend=be))["B"], u.molar / u.s))
                        if not abs(got / want - 1) < 1e-9:
                            bad.append((order, str(ep.dH), be is not None, label, got, want))
                    except Exception as ex:
                        bad.append((order, str(ep.dH), be is not None, label, repr(ex)[:120]))
    except Exception as ex:
        bad.append(repr(ex)[:200])
    v.prove("eyring_overrides_reach_the_rate_expression", not bad, detail=repr(bad))
