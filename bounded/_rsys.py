"""Shared generator and ORACLE for the kinetics stand-ins C03, C04, C05, C06.

Everything in this module is written from the property statements; nothing here calls
chempy's stoichiometry / rate helpers.  A *spec* is a JSON-able description of a reaction
system:

    {"subst": ["C", "A", ...],                      # substance order of the system
     "rxns": [{"reac": {"A": 2}, "prod": {"B": 1},  # active coefficients
               "inact_reac": {...}, "inact_prod": {...},
               "k": <num>}, ...]}

A <num> is a tagged list so that it survives JSON:  ["i", 3]  int,  ["Q", "3/7"]  Fraction,
["f", 0.375]  float,  ["s", "name"]  sympy Symbol (positive=False, plain symbol).

ORACLE (spec -> numbers), straight from the C03 statement:
    net(r, s)   = prod[s] + inact_prod[s] - reac[s] - inact_reac[s]          (absent = 0)
    cp(r, c)    = prod over the ACTIVE reactants s of c[s] ** reac[s]
    rate(r)[s]  = net(r, s) * k_r * cp(r, c)
    rates[s]    = sum_r rate(r)[s]  (+ F * (c_feed[s] - c[s]) for the fed substances)
"""
from __future__ import annotations

import hashlib
import random
from fractions import Fraction

KEYS = ["A", "B", "C", "D", "E"]
RTOL = 1e-10   # float comparisons: relative to the sum of |terms|


# ----------------------------------------------------------------------------- numbers
def dec(num):
    """tagged JSON number -> python/sympy object"""
    tag, v = num
    if tag == "i":
        return int(v)
    if tag == "Q":
        return Fraction(v)
    if tag == "f":
        return float(v)
    if tag == "s":
        import sympy
        return sympy.Symbol(v)
    raise ValueError("bad number tag %r" % (tag,))


def exact(num):
    """tagged number -> exact value (Fraction for every numeric tag, Symbol for 's')"""
    tag, v = num
    if tag == "s":
        import sympy
        return sympy.Symbol(v)
    if tag == "f":
        return Fraction(float(v))      # the exact binary value of the float
    return Fraction(v)


def to_sympy(x):
    """Fraction/int/float/sympy -> sympy object (Fractions become exact Rationals)"""
    import sympy
    if isinstance(x, Fraction):
        return sympy.Rational(x.numerator, x.denominator)
    return sympy.sympify(x)


def rand_num(rng, mode, name=None, positive=True):
    """mode: 'i' small int, 'Q' Fraction, 'f' float, 'd' dyadic float (exact in binary, few bits), 's' symbol"""
    if mode == "i":
        return ["i", rng.randint(1, 9)]
    if mode == "Q":
        return ["Q", "%d/%d" % (rng.randint(1, 40), rng.randint(1, 12))]
    if mode == "f":
        return ["f", round(10 ** rng.uniform(-2, 2), 6)]
    if mode == "d":
        return ["f", rng.randint(1, 64) / 8.0]
    if mode == "s":
        return ["s", name]
    raise ValueError(mode)


def case_seed(seed, *parts):
    """deterministic 32-bit seed derived from the run seed and a label"""
    h = hashlib.sha256(("|".join(map(str, (seed,) + parts))).encode()).hexdigest()
    return int(h[:8], 16)


# ----------------------------------------------------------------------------- generator
def _multiset(rng, keys, n):
    d = {}
    for _ in range(n):
        k = rng.choice(keys)
        d[k] = d.get(k, 0) + 1
    return d


def gen_reaction(rng, keys, max_order=3, min_order=0, inactive=True):
    """One reaction structure (dicts of positive ints) with at least one non-zero net coefficient."""
    while True:
        order = rng.choice([o for o in (0, 1, 1, 2, 2, 3) if min_order <= o <= max_order])
        reac = _multiset(rng, keys, order)
        prod = _multiset(rng, keys, rng.choice((0, 1, 1, 2, 2, 3)))
        # catalyst: the same species with the same (or another) coefficient on both sides
        if reac and rng.random() < 0.3:
            k = rng.choice(sorted(reac))
            prod[k] = prod.get(k, 0) + rng.choice((reac[k], 1))
        inact_reac, inact_prod = {}, {}
        if inactive and rng.random() < 0.35:
            inact_reac = _multiset(rng, keys, rng.choice((1, 1, 2)))
        if inactive and rng.random() < 0.35:
            inact_prod = _multiset(rng, keys, rng.choice((1, 1, 2)))
        rx = {"reac": reac, "prod": prod, "inact_reac": inact_reac, "inact_prod": inact_prod}
        if any(net(rx, k) != 0 for k in keys):
            return rx


def struct_key(rx):
    return tuple(tuple(sorted(rx[a].items())) for a in ("reac", "prod", "inact_reac", "inact_prod"))


def gen_spec(rng, max_subst=5, max_rxn=6, max_order=3, min_order=0, inactive=True,
             kmode=None, spectators=True, min_rxn=1):
    """Random reaction system: <= max_subst substances (order shuffled, so that it differs from the
    alphabetical one), <= max_rxn structurally distinct reactions, orders min_order..max_order,
    repeated species, catalysts, inactive parts, spectator substances."""
    ns = rng.randint(1, max_subst)
    subst = KEYS[:ns]
    rng.shuffle(subst)
    nspect = rng.choice((0, 0, 1)) if (spectators and ns >= 2) else 0
    active_keys = sorted(subst[: ns - nspect])
    nr = rng.randint(min_rxn, max_rxn)
    rxns, seen = [], set()
    for _ in range(nr * 4):
        if len(rxns) == nr:
            break
        rx = gen_reaction(rng, active_keys, max_order, min_order, inactive)
        sk = struct_key(rx)
        if sk in seen:
            continue
        seen.add(sk)
        rxns.append(rx)
    for i, rx in enumerate(rxns):
        m = kmode if kmode is not None else rng.choice("iQfds")
        rx["k"] = rand_num(rng, m, name="k%d" % i)
    return {"subst": subst, "rxns": rxns}


def gen_conc(rng, subst, mode):
    """concentration per substance; mode like rand_num plus 'm' = mixed"""
    out = {}
    for s in subst:
        m = rng.choice("iQfs") if mode == "m" else mode
        out[s] = rand_num(rng, m, name="c_" + s)
    return out


# ----------------------------------------------------------------------------- oracle
def net(rx, s):
    return (rx["prod"].get(s, 0) + rx["inact_prod"].get(s, 0)
            - rx["reac"].get(s, 0) - rx["inact_reac"].get(s, 0))


def conc_prod(rx, c):
    """product over ACTIVE reactants only of c[s]**nu"""
    p = 1
    for s in sorted(rx["reac"]):
        p = p * c[s] ** rx["reac"][s]
    return p


def oracle_reaction_rates(spec, c, ks):
    """list of k_r * cp_r"""
    return [ks[i] * conc_prod(rx, c) for i, rx in enumerate(spec["rxns"])]


def oracle_rates(spec, c, ks, feed=None):
    """dict substance -> sum_r net*k*cp (+ F*(c_feed - c));  feed = (F, {substance: c_feed})"""
    rr = oracle_reaction_rates(spec, c, ks)
    out = {}
    for s in spec["subst"]:
        tot = 0
        for rx, r in zip(spec["rxns"], rr):
            n = net(rx, s)
            if n != 0:
                tot = tot + n * r
        if feed is not None and s in feed[1]:
            tot = tot + feed[0] * (feed[1][s] - c[s])
        out[s] = tot
    return out


def abs_scale(spec, c, ks, feed=None):
    """sum of |terms| per substance (float): scale for floating-point comparisons"""
    out = {}
    for s in spec["subst"]:
        tot = 0.0
        for i, rx in enumerate(spec["rxns"]):
            tot += abs(float(net(rx, s) * ks[i] * conc_prod(rx, c)))
        if feed is not None and s in feed[1]:
            tot += abs(float(feed[0] * feed[1][s])) + abs(float(feed[0] * c[s]))
        out[s] = tot
    return out


# ----------------------------------------------------------------------------- chempy objects
def build_reactions(spec, param_mode="plain"):
    """param_mode: 'plain' (number / sympy symbol as Reaction.param), 'named' (param = 'k<i>' string),
    'ma' (MassAction([k])), 'uk' (MassAction([k], unique_keys=['k<i>']))"""
    from chempy import Reaction
    rxns = []
    for i, rx in enumerate(spec["rxns"]):
        k = dec(rx["k"])
        if param_mode == "plain":
            par = k
        elif param_mode == "named":
            par = "k%d" % i
        elif param_mode == "ma":
            from chempy.kinetics.rates import MassAction
            par = MassAction([k])
        elif param_mode == "uk":
            from chempy.kinetics.rates import MassAction
            par = MassAction([k], unique_keys=["k%d" % i])
        else:
            raise ValueError(param_mode)
        rxns.append(Reaction(dict(rx["reac"]), dict(rx["prod"]), par,
                             inact_reac=dict(rx["inact_reac"]), inact_prod=dict(rx["inact_prod"])))
    return rxns


def build_rsys(spec, param_mode="plain", order=None):
    from chempy import ReactionSystem
    rxns = build_reactions(spec, param_mode)
    if order is not None:
        rxns = [rxns[i] for i in order]
    return ReactionSystem(rxns, list(spec["subst"]))


def spec_str(spec):
    def side(a, b):
        t = ["%d %s" % (v, k) for k, v in sorted(a.items())]
        t += ["(%d %s)" % (v, k) for k, v in sorted(b.items())]
        return " + ".join(t) or "0"
    return "[%s] " % " ".join(spec["subst"]) + "; ".join(
        "%s -> %s k=%s" % (side(rx["reac"], rx["inact_reac"]), side(rx["prod"], rx["inact_prod"]), rx["k"][1])
        for rx in spec["rxns"])


# ----------------------------------------------------------------------------- comparison
def is_sym(x):
    return hasattr(x, "free_symbols")


def same(obs, exp, scale=0.0):
    """observed (whatever chempy returned) vs expected (Fraction or sympy expr)"""
    import sympy
    if is_sym(obs) or is_sym(exp):
        d = sympy.expand(to_sympy(obs) - to_sympy(exp))
        if d == 0:
            return True
        e = sympy.expand(to_sympy(exp))
        big = max([abs(float(v)) for v in e.as_coefficients_dict().values()] + [1e-300])
        try:
            return all(abs(float(v)) <= 1e-9 * big for v in d.as_coefficients_dict().values())
        except TypeError:
            return False
    if isinstance(obs, float):
        if obs != obs or obs in (float("inf"), float("-inf")):
            return False
        return abs(Fraction(obs) - exp) <= Fraction(RTOL) * max(Fraction(scale), abs(exp)) + Fraction(1, 10 ** 300)
    if isinstance(obs, (int, Fraction)):
        return obs == exp
    try:  # numpy scalars and the like
        return same(float(obs), exp, scale)
    except Exception:
        return False


def call(f):
    try:
        return True, f()
    except Exception as e:  # exception of the code under test on a valid input
        return False, "%s: %s" % (type(e).__name__, e)


def fmt(x):
    s = str(x)
    return s if len(s) < 120 else s[:117] + "..."
