"""engine smoke contracts (first targets)"""
from pyvc.api import harness
from pyvc import spec as SP
from pyvc.objs import make_obj


@harness("T0", "intdiv.post", functions=["chempy._util:intdiv"])
def _(v):
    from chempy._util import intdiv
    p = v.int("p")
    q = v.int("q")
    v.assume(q != 0)
    r = v.call(intdiv, p, q)
    # trunc(p/q): q*r has the sign of p, |p - q*r| < |q|
    v.prove("post", SP.conj([abs(p - q * r) < abs(q), SP.implies(p >= 0, (p - q * r) >= 0), SP.implies(p <= 0, (p - q * r) <= 0)]))


@harness("T0", "mass_from_composition.post", functions=["chempy.util.periodic:mass_from_composition"])
def _(v):
    from chempy.util import periodic
    comp = v.dict("composition", K="int", V="real", key_lo=0, key_hi=118, val_lo=-20, val_hi=20)
    ram = periodic.relative_atomic_masses

    def term(kv):
        k, val = kv
        return SP.ite(k == 0, -val * 5.489e-4, val * SP.select(ram, k - 1))
    v.invariant(periodic.mass_from_composition, 0,
                lambda env, i, seq: env["@acc"] == SP.ssum_prefix(seq, i, term))
    r = v.call(periodic.mass_from_composition, comp)
    v.prove("post", v.eq(r, SP.ssum(comp, term)))
