"""Path contexts and the decision-replay explorer.

Symbolic execution forks by *re-running* the harness: a path is identified by its list
of branch decisions; when execution reaches a symbolic condition beyond the recorded
prefix both outcomes are checked for feasibility, one is followed and the other is
queued as a new prefix.  No state has to be copied and the interpreted program may
mutate freely.
"""
from __future__ import annotations

import time

import z3

from .sym import Infeasible, PathAbort, Unsupported, Sym, to_z3, set_cur, reset_names, wrap

RLIMIT_BRANCH = 200_000
RLIMIT_GOAL = 15_000_000
TIMEOUT_MS = 20_000


class Obligation:
    __slots__ = ("name", "result", "backend", "seconds", "rlimit", "model", "path_id", "detail", "havoc", "inputs", "smt2")

    def __init__(self, name):
        self.name = name
        self.result = None
        self.backend = "z3"
        self.seconds = 0.0
        self.rlimit = 0
        self.model = None
        self.path_id = None
        self.detail = ""
        self.havoc = False
        self.inputs = None
        self.smt2 = None

    def as_dict(self):
        return {"name": self.name, "result": self.result, "backend": self.backend,
                "seconds": round(self.seconds, 4), "rlimit_used": self.rlimit, "path": self.path_id,
                "havoc": self.havoc, "detail": self.detail[:300]}


def _mentions_strings(fs):
    seen = set()

    def rec(e):
        if e.get_id() in seen:
            return False
        seen.add(e.get_id())
        if z3.is_expr(e) and e.sort().kind() in (z3.Z3_SEQ_SORT, z3.Z3_RE_SORT):
            return True
        return any(rec(c) for c in e.children())
    return any(rec(f) for f in fs)


def _rlimit_count(s):
    try:
        st = s.statistics()
        for k, v in st:
            if k == "rlimit count":
                return int(v)
    except Exception:
        pass
    return 0


class SymbolicPath:
    mode = "symbolic"

    def __init__(self, prefix, session, path_id):
        self.prefix = list(prefix)
        self.taken = []
        self.pending = []
        self.bound_hyps = []   # hypotheses about a variable that is about to be BOUND by a quantifier (see bound())
        self.session = session
        self.path_id = path_id
        self.solver = z3.Solver()
        self.solver.set("timeout", TIMEOUT_MS)
        self.conds = []
        self.inputs = {}      # name -> (value, decoder)
        self.div_mode = session.div_mode
        self.havoc_used = False
        self.obligations = []
        self.assumption_notes = set()
        self.events = []      # effect events (warnings issued, ...)
        self.ghost = {}

    # ------------------------------------------------------------------ assumptions
    def assume(self, c, check=True):
        e = to_z3(c)
        if z3.is_true(e):
            return
        self.conds.append(e)
        self.solver.add(e)
        if z3.is_false(z3.simplify(e)):
            raise Infeasible()

    def feasible(self, extra=None):
        self.solver.set("rlimit", RLIMIT_BRANCH)
        r = self.solver.check(*([extra] if extra is not None else []))
        return r != z3.unsat

    def require_feasible(self):
        if not self.feasible():
            raise Infeasible()

    # ------------------------------------------------------------------ forking
    def bound(self, hyp):
        """context: what is evaluated inside is a term over a variable that a quantifier will bind (the j-th element of a sequence of symbolic
        length, for every j in range).  A path decision about such a variable would be a statement about one free constant, while the term is
        used for every j: so inside this context a decision must follow from the path and the hypotheses (it then holds for every j), a
        conditional EXPRESSION becomes an if-then-else term, and anything else is outside the accepted subset."""
        import contextlib

        @contextlib.contextmanager
        def cm():
            self.bound_hyps.append(to_z3(hyp))
            try:
                yield
            finally:
                self.bound_hyps.pop()
        return cm()

    def decide_bound(self, c):
        """True / False if the condition is settled by path + hypotheses for every value of the bound variable, else None"""
        hyp = z3.And(*self.bound_hyps)
        can_t = self.feasible(z3.And(hyp, c))
        can_f = self.feasible(z3.And(hyp, z3.Not(c)))
        if can_t and can_f:
            return None
        return can_t or not can_f

    def branch(self, cond):
        c = z3.simplify(to_z3(cond))
        if z3.is_true(c):
            return True
        if z3.is_false(c):
            return False
        if self.bound_hyps:
            d = self.decide_bound(c)
            if d is None:
                raise Unsupported("a decision inside the element expression of a sequence of symbolic length depends on the element")
            return d
        pos = len(self.taken)
        if pos < len(self.prefix):
            d = self.prefix[pos]
        else:
            can_t = self.feasible(c)
            can_f = self.feasible(z3.Not(c))
            if can_t and can_f:
                d = True
                self.pending.append(self.taken + [False])
            elif can_t:
                d = True
            elif can_f:
                d = False
            else:
                raise Infeasible()
        self.taken.append(d)
        self.assume(c if d else z3.Not(c))
        if len(self.taken) > self.session.max_depth:
            raise Unsupported("path deeper than %d decisions" % self.session.max_depth)
        return d

    def div_guard(self, den):
        den = z3.simplify(den)
        if z3.is_int_value(den) or z3.is_rational_value(den) or z3.is_algebraic_value(den):
            if (den.as_long() if z3.is_int_value(den) else den.as_fraction()) == 0:
                raise ZeroDivisionError("division by zero")
            return
        if self.div_mode == "assume":
            self.assumption_notes.add("denominators assumed non-zero (real-domain precondition, see `defined` obligations)")
            self.assume(den != 0)
        elif self.div_mode == "oblige":
            k = self.ghost["ndef"] = self.ghost.get("ndef", 0) + 1
            self.prove_nl("%s.defined.den%d" % (self.session.name, k), den != 0)
        elif self.div_mode == "fork":
            if not self.branch(den != 0):
                raise ZeroDivisionError("division by zero")
        else:
            raise Unsupported("div_mode %r" % self.div_mode)

    def domain_guard(self, cond, what):
        """real-domain side condition (radicand >= 0, log argument > 0, ...)"""
        if self.div_mode == "oblige":
            k = self.ghost["ndef"] = self.ghost.get("ndef", 0) + 1
            self.prove_nl("%s.defined.%s%d" % (self.session.name, what, k), cond)
        else:
            self.assumption_notes.add("real-domain side conditions (%s) assumed; see `defined` obligations" % what)
            self.assume(cond)

    def oblige_or_raise(self, cond, exc, msg=""):
        if not self.branch(cond):
            raise exc(msg)

    # ------------------------------------------------------------------ obligations
    def prove(self, name, goal, assume_after=True, detail="", timeout_ms=None):
        """register and immediately try to discharge obligation `name` on this path"""
        ob = Obligation(name)
        ob.path_id = self.path_id
        ob.havoc = self.havoc_used
        ob.detail = detail
        g = to_z3(goal)
        t0 = time.time()
        if z3.is_true(z3.simplify(g)):
            ob.result = "discharged"
            ob.backend = "trivial"
            self.obligations.append(ob)
            self.session.record(ob)
            return True
        if self.session.strings_first and _mentions_strings(self.conds + [g]):
            # string VCs: cvc5 decides most of what z3's sequence solver leaves open, and faster
            self.solver.push()
            try:
                self.solver.add(z3.Not(g))
                ob.smt2 = self.solver.to_smt2()
            finally:
                self.solver.pop()
            if self.session.alt_backend is not None:
                ob.result = "unknown"
                self.session.alt_backend(self, g, ob)
                if ob.result == "discharged":
                    ob.seconds = time.time() - t0
                    self.obligations.append(ob)
                    self.session.record(ob)
                    if assume_after:
                        self.assume(g)
                    return True
                ob.result = None
        self.solver.push()
        try:
            self.solver.set("rlimit", self.session.rlimit_goal)
            if timeout_ms:
                self.solver.set("timeout", timeout_ms)
            self.solver.add(z3.Not(g))
            r = self.solver.check()
            if timeout_ms:
                self.solver.set("timeout", TIMEOUT_MS)
            ob.rlimit = _rlimit_count(self.solver)
            if r == z3.unsat:
                ob.result = "discharged"
            elif r == z3.sat:
                ob.result = "failed"
                m = self.solver.model()
                ob.model = str(m)[:4000]
                try:
                    ob.inputs = self.decode_inputs(m)
                except Exception as ex:  # model could not be concretised
                    ob.inputs = None
                    ob.detail += " [decode failed: %s]" % ex
            else:
                ob.result = "unknown"
                ob.detail += " z3:" + str(self.solver.reason_unknown())
                if self.session.keep_smt2:
                    try:
                        ob.smt2 = self.solver.to_smt2()
                    except Exception:
                        ob.smt2 = None
        finally:
            self.solver.pop()
        ob.seconds = time.time() - t0
        if ob.result == "unknown" and self.session.alt_backend is not None:
            self.session.alt_backend(self, g, ob)
        if ob.result == "unknown":
            # candidate counter-model from the quantifier-free part of the hypotheses: not a proof of
            # anything, only an input worth replaying on the real code
            try:
                from .smt import _has_quant
                s2 = z3.Solver()
                s2.set("timeout", 5000)
                for c in self.conds:
                    if not _has_quant([c]):
                        s2.add(c)
                s2.add(z3.Not(g) if not _has_quant([g]) else z3.BoolVal(True))
                if s2.check() == z3.sat:
                    ob.inputs = self.decode_inputs(s2.model())
                    ob.detail += " [candidate inputs from quantifier-free weakening]"
            except Exception as ex:
                ob.detail += " [no candidate: %s]" % ex
        self.obligations.append(ob)
        self.session.record(ob)
        if assume_after:
            self.assume(g)
        return ob.result == "discharged"

    def record_custom(self, name, result, backend, seconds=0.0, detail="", inputs=None, model=None, assume=None):
        ob = Obligation(name)
        ob.path_id = self.path_id
        ob.havoc = self.havoc_used
        ob.result = result
        ob.backend = backend
        ob.seconds = seconds
        ob.detail = detail
        ob.inputs = inputs
        ob.model = model
        self.obligations.append(ob)
        self.session.record(ob)
        if assume is not None:
            self.assume(assume)
        return result == "discharged"

    def prove_identity(self, name, a, b):
        """field identity a == b: exact normaliser first (back end `ring`), then z3"""
        from .realalg import Normaliser
        import time as _t
        t0 = _t.time()
        ea, eb = to_z3(a, "real"), to_z3(b, "real")
        try:
            ok = Normaliser().equal(ea, eb)
            why = ""
        except (ValueError, OverflowError, ZeroDivisionError, RuntimeError) as ex:
            ok = False
            why = "ring: %s" % ex
        if ok:
            return self.record_custom(name, "discharged", "ring", _t.time() - t0,
                                      "identity by exact normalisation (denominators non-zero, radicands non-negative: see `defined`)")
        return self.prove(name, ea == eb, detail=why or "ring: normal forms differ", timeout_ms=8000)

    def prove_nl(self, name, goal):
        """nonlinear real arithmetic goal under the path condition: nlsat on atomised terms"""
        from .smt import nl_check
        import time as _t
        t0 = _t.time()
        g = to_z3(goal)
        r, m = nl_check(self.conds, g)
        if r == "unsat":
            return self.record_custom(name, "discharged", "z3-nlsat", _t.time() - t0, "atomised real functions (5.3)", assume=g)
        if r == "sat":
            # the model is over atoms; try to decode inputs that are plain variables
            try:
                inputs = self.decode_inputs(m)
            except Exception:
                inputs = None
            return self.record_custom(name, "failed", "z3-nlsat", _t.time() - t0, "counter-model over atomised terms", inputs=inputs, model=str(m)[:3000], assume=g)
        return self.prove(name, g, detail="nlsat: %s" % (m,))

    def cover(self, name):
        """reachability witness: the current path condition must be satisfiable"""
        ob = Obligation(name)
        ob.path_id = self.path_id
        t0 = time.time()
        self.solver.set("rlimit", self.session.rlimit_goal)
        r = self.solver.check()
        ob.result = {z3.sat: "discharged", z3.unsat: "failed"}.get(r, "unknown")
        ob.detail = "cover"
        ob.seconds = time.time() - t0
        self.session.record(ob)

    # ------------------------------------------------------------------ inputs
    def declare(self, name, value, decoder):
        """remember how to turn a model into a concrete python input for replay"""
        self.inputs[name] = (value, decoder)

    def decode_inputs(self, model):
        out = {}
        for name, (value, dec) in self.inputs.items():
            out[name] = dec(model, value)
        return out

    def note(self, text):
        self.assumption_notes.add(text)

    def event(self, kind, payload=None):
        self.events.append((kind, payload))


class Session:
    """collects obligations of one harness across all its paths"""

    def __init__(self, name, div_mode="fork", max_paths=3000, max_depth=400, rlimit_goal=RLIMIT_GOAL):
        self.name = name
        self.div_mode = div_mode
        self.max_paths = max_paths
        self.max_depth = max_depth
        self.rlimit_goal = rlimit_goal
        self.obligations = []
        self.paths = 0
        self.notes = set()
        self.unsupported = []
        self.errors = []
        self.alt_backend = None
        self.keep_smt2 = False
        self.strings_first = True
        self.functions = {}   # qualname -> {file, line, sha, how}

    def record(self, ob):
        self.obligations.append(ob)


def explore(harness, session):
    """run `harness(path)` once per feasible decision prefix"""
    work = [[]]
    pid = 0
    while work:
        prefix = work.pop()
        pid += 1
        if pid > session.max_paths:
            session.unsupported.append("more than %d paths" % session.max_paths)
            break
        path = SymbolicPath(prefix, session, pid)
        set_cur(path)
        try:
            harness(path)
        except Infeasible:
            pass
        except PathAbort:
            pass
        except Unsupported as ex:
            session.unsupported.append("path %d: %s" % (pid, ex))
        finally:
            set_cur(None)
        session.notes |= path.assumption_notes
        work.extend(path.pending)
    session.paths = pid
    return session
