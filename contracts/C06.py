"""C06  Integrated kinetics reproduce exact solutions and stay physically admissible."""
from pyvc.api import harness
from pyvc import spec as SP
from fractions import Fraction as _F
from pyvc.sym import Sym

META = {
    "explanation": "the advertised explicit-Euler step: the closure max_euler_step_cb of get_odesys is proved safe for ANY right-hand side vector and any state inside [0, upper bound]: the returned h is non-negative, at most 1, and y + h*f stays inside [0, upper bound] component-wise (nlsat); the bound itself is the elemental upper bound of C15 (used through its contract). Agreement of the delegated integrator with exact solutions is not decidable by contracts: bounded stand-in (first-order networks vs matrix exponential, bimolecular steps vs closed forms).",
    "trusted_base": ["assumed contract 5.6 for odesys.pre_process / to_arrays / f_cb (identity pre-processing without units, f_cb returns the right-hand side vector)", "contract of ReactionSystem.upper_conc_bounds (proved in C15)"],
    "not_decided": ["accuracy of CVODE/LSODA/scipy integration against exact solutions (adaptive numerical integrator, IEEE arithmetic): bounded only", "non-negativity of integrated trajectories beyond tolerance: bounded only; for the right-hand side itself quasi-positivity and conservation of the element supply are proved for a complete first-order network and a reversible bimolecular step with symbolic constants (symbolic_networks_...)",
                    "systems with a kinetically inactive REACTANT, e.g. 'A + B + (S) -> C': S is consumed at a rate that does not depend on [S], so the model itself (and its exact solution) lets S become negative and C exceed its elemental bound; the admissibility clauses are not claimed for such systems (recorded observation, DESIGN 9; second review no. 1); from_text_to_right_hand_side only states that the text becomes that model"],
    "assumptions": ["three- and four-substance shapes for the step-size proof (the loop is over the components; each component's clause is independent)"],
}
ODE = "chempy.kinetics.ode"
SP_TOL = _F(1, 10 ** 9)     # relative slack allowed below the largest safe Euler step


def _same_term(a, b):
    """the same symbolic value: the same object, or terms that simplify to the same term (t * 1, y + 0)"""
    if a is b:
        return True
    import z3
    try:
        return isinstance(a, Sym) and isinstance(b, Sym) and z3.is_true(z3.simplify(a.e == b.e))
    except Exception:
        return False


def _same_terms(got, want):
    """the same symbolic terms in the same positions, whatever the container (list, tuple, object array): value, not object identity of the container"""
    try:
        got = list(got)
    except TypeError:
        return False
    return len(got) == len(want) and all(_same_term(a, b) for a, b in zip(got, want))


def _state_terms(rsys, init_concs):
    """the per-substance values of a state handed to upper_conc_bounds, in the order of rsys.substances, or None when it is not a state of that
    system. upper_conc_bounds documents `init_concs : dict or array_like`: a mapping is read BY SUBSTANCE KEY (as_per_substance_array:
    [init_concs[k] for k in substances]) and must then name exactly the substances of the system (a missing key is an error there, a further
    key would be a value that belongs to no substance); anything else is positional. Iterating a mapping would give its keys, not the state."""
    from collections.abc import Mapping
    if isinstance(init_concs, Mapping):
        try:
            keys = list(rsys.substances)
            if len(init_concs) != len(keys) or any(k not in init_concs for k in keys):
                return None
            return [init_concs[k] for k in keys]
        except Exception:
            return None
    try:
        return list(init_concs)
    except TypeError:
        return None


def _same_state(rsys, init_concs, want):
    """init_concs (mapping by substance key or positional container) is the state `want` (terms in the order of rsys.substances)"""
    got = _state_terms(rsys, init_concs)
    return got is not None and _same_terms(got, want)


def _default_bounds_request(rsys, self, kw):
    """the bound of the property is the ELEMENTAL UPPER bound of the system that was given: asked of a system with the given substances and
    compositions, with the least ratio over the elements (min_=max would give the greatest: not a bound) and skipping the charge only (the
    defaults of upper_conc_bounds, C15); dtype does not change the value"""
    same_system = self is rsys or (list(self.substances) == list(rsys.substances)
                                   and all(self.substances[k].composition == rsys.substances[k].composition for k in rsys.substances))
    return (same_system and set(kw) <= {"min_", "skip_keys", "dtype"} and kw.get("min_", min) is min
            and sorted(kw.get("skip_keys", (0,))) == [0])


def _euler(n):
    @harness("C06", "max_euler_step_cb.n%d" % n, functions=[ODE + ":get_odesys.<locals>.max_euler_step_cb"], kind="shape-bounded", div_mode="fork", samples=0, max_paths=3000)
    def _(v):
        from chempy.kinetics.ode import get_odesys
        from chempy.chemistry import Reaction, Substance
        from chempy.reactionsystem import ReactionSystem
        from contracts.C04 import FakeSymbolicSys
        names = ["A", "B", "C", "D"][:n]
        subs = [Substance(s, composition={1: 1}) for s in names]
        rsys = ReactionSystem([Reaction({"A": 1}, {"B": 1}, 1.0, checks=())], subs, checks=())
        ys = [v.real("y_" + s, lo=0, hi=100) for s in names]
        ubs = [v.real("ub_" + s, lo=0, hi=1000) for s in names]
        fs = [v.real("f_" + s, lo=-1e3, hi=1e3) for s in names]
        v.assume(SP.conj([y <= ub for y, ub in zip(ys, ubs)]))
        # the parameter vector of the call: the default (empty) for n = 3, 4; for n = 2 the rate constant is a parameter of the ODE system
        # (include_params=False) and the callback is given a symbolic value for it, which must reach the right-hand side
        ps = [v.real("p_k", lo=0, hi=10)] if n == 2 else []
        seen = []
        v.contract(ReactionSystem.upper_conc_bounds, "upper_conc_bounds", None,
                   lambda v_, self, init_concs, **kw: (seen.append(("bounds_of", init_concs, _default_bounds_request(rsys, self, kw))), list(ubs))[1])

        class Sys(FakeSymbolicSys):
            def f_cb(self, x, y, p):
                seen.append(("rhs_at", x, y, p))
                return list(fs)
        odesys, extra = v.call(get_odesys, rsys, SymbolicSys=Sys, **(dict(include_params=False) if n == 2 else {}))
        cb = extra["max_euler_step_cb"]
        v.prove("callback_offered_when_compositions_known", cb is not None)
        t0 = v.real("t0", lo=0, hi=10)
        h = v.call(cb, t0, ys, ps) if n == 2 else v.call(cb, t0, ys)
        # the bounds were asked for (at least once) and the right-hand side was evaluated (at least once), every time for the given state, time
        # and parameters (the same terms: a copy of the vector into another container is not a different state), never for anything else
        asked, evaluated = [r for r in seen if r[0] == "bounds_of"], [r for r in seen if r[0] == "rhs_at"]
        v.prove("bounds_and_rhs_are_those_of_the_given_state", len(asked) >= 1 and len(evaluated) >= 1 and len(asked) + len(evaluated) == len(seen)
                and all(_same_state(rsys, r[1], ys) for r in asked) and all(_same_term(r[1], t0) and _same_terms(r[2], ys) and _same_terms(r[3], ps) for r in evaluated))
        v.prove("bounds_are_the_elemental_upper_bounds_of_the_given_system", len(asked) >= 1 and all(r[2] for r in asked))
        v.prove_nl("step_is_non_negative", h >= 0)
        v.prove_nl("step_at_most_one", h <= 1)
        for y, ub, f, s in zip(ys, ubs, fs, names):
            v.prove_nl("stays_non_negative_" + s, y + h * f >= 0)
            v.prove_nl("stays_below_bound_" + s, y + h * f <= ub)
        # not needlessly small (excludes 'return 0'): either the cap 1 is returned (to within 1e-9) or some concentration has used up all but 1e-9 of its room (down
        # to 0 when falling, up to the bound when rising), i.e. h >= (1 - 1e-9) * the largest safe step. The property only asks for safety, so a
        # step rounded down by a few ulps / a safety factor close to 1 is still right; an exact 'reaches the limit' would outlaw that.
        tol = SP_TOL
        v.prove_nl("step_is_as_large_as_safety_allows", SP.disj([h >= 1 - tol] + [SP.conj([f < 0, y + h * f <= tol * y]) for y, f in zip(ys, fs)]
                                                                + [SP.conj([f > 0, ub - (y + h * f) <= tol * (ub - y)]) for y, ub, f in zip(ys, ubs, fs)]))
    return _


for _n in (2, 3, 4):
    _euler(_n)


@harness("C06", "max_euler_step_cb.no_stale_bounds", functions=[ODE + ":get_odesys.<locals>.max_euler_step_cb"], kind="shape-bounded", div_mode="fork", samples=0, max_paths=3000)
def _(v):
    """the callback is used repeatedly on one odesys: the second call must use the bounds and right-hand side of ITS state"""
    from chempy.kinetics.ode import get_odesys
    from chempy.chemistry import Reaction, Substance
    from chempy.reactionsystem import ReactionSystem
    from contracts.C04 import FakeSymbolicSys
    names = ["A", "B"]
    subs = [Substance(s, composition={1: 1}) for s in names]
    rsys = ReactionSystem([Reaction({"A": 1}, {"B": 1}, 1.0, checks=())], subs, checks=())
    state = {"call": 0}
    ys = [[v.real("y%d_%s" % (c, s), lo=0, hi=100) for s in names] for c in (0, 1)]
    ubs = [[v.real("ub%d_%s" % (c, s), lo=0, hi=1000) for s in names] for c in (0, 1)]
    fs = [[v.real("f%d_%s" % (c, s), lo=-1e3, hi=1e3) for s in names] for c in (0, 1)]
    v.assume(SP.conj([y <= ub for c in (0, 1) for y, ub in zip(ys[c], ubs[c])]))

    other = []      # requests that are for neither state, or not for the elemental upper bound of this system

    def which(y):   # by the terms, not by the identity of the container (a copied vector is the same state)
        for c in (0, 1):
            if y is not None and _same_terms(y, ys[c]):
                return c
        other.append(y)
        return 0

    def bounds(v_, self, init_concs, **kw):
        if not _default_bounds_request(rsys, self, kw):
            other.append(kw)
        # the state may be given by substance key or positionally (both documented): normalised to the order of rsys.substances first
        state = _state_terms(rsys, init_concs)
        if state is None:
            other.append(init_concs)
            return list(ubs[0])
        return list(ubs[which(state)])
    v.contract(ReactionSystem.upper_conc_bounds, "upper_conc_bounds", None, bounds)

    class Sys(FakeSymbolicSys):
        def f_cb(self, x, y, p):
            return list(fs[which(y)])
    odesys, extra = v.call(get_odesys, rsys, SymbolicSys=Sys)
    cb = extra["max_euler_step_cb"]
    v.call(cb, 0.0, ys[0])
    h = v.call(cb, 0.0, ys[1])
    v.prove("only_the_two_given_states_are_looked_at", not other)
    v.prove_nl("second_call.step_is_non_negative", h >= 0)
    for y, ub, f, s in zip(ys[1], ubs[1], fs[1], names):
        v.prove_nl("second_call.stays_non_negative_" + s, y + h * f >= 0)
        v.prove_nl("second_call.stays_below_bound_" + s, y + h * f <= ub)


@harness("C06", "no_callback_without_compositions", functions=[ODE + ":get_odesys"], kind="shape-bounded", samples=0)
def _(v):
    from chempy.kinetics.ode import get_odesys
    from chempy.chemistry import Reaction, Substance
    from chempy.reactionsystem import ReactionSystem
    from contracts.C04 import FakeSymbolicSys
    rsys = ReactionSystem([Reaction({"A": 1}, {"B": 1}, v.real("k", lo=0, hi=9), checks=())], [Substance("A"), Substance("B")], checks=())
    odesys, extra = v.call(get_odesys, rsys, SymbolicSys=FakeSymbolicSys)
    v.prove("no_bound_no_callback", extra["max_euler_step_cb"] is None and extra["linear_dependencies"] is None)


@harness("C06", "get_odesys.result_arrays_carry_the_requested_units", functions=[ODE + ":get_odesys", ODE + ":get_odesys.<locals>.post_processor", ODE + ":get_odesys.<locals>.<lambda>",
                                                                                 "chempy.units:rescale", "chempy.units:to_unitless", "chempy.units:get_derived_unit"],
         kind="shape-bounded", div_mode="assume", samples=0, max_paths=400)
def _(v):
    """'through to the result arrays': with a unit registry the numbers handed to the integrator are the state in registry units, and the arrays
    handed back are the integrator's numbers in registry units EXPRESSED in the requested output units (same physical value), for any registry
    and any compatible output units (generic units of symbolic scale, abstraction 5.1)"""
    import numpy
    from chempy.kinetics.ode import get_odesys
    from chempy.kinetics.rates import MassAction
    from chempy.chemistry import Reaction, Substance
    from chempy.reactionsystem import ReactionSystem
    from chempy import units as CU
    from pyvc.qmodel import si_value, dim_of, std_table, Quantity
    from contracts.C04 import FakeSymbolicSys
    from contracts.C10 import _registry, _unit_in_registry, CONC, TIME
    t = std_table()
    reg = _registry(v, t)
    v.contract(CU.default_unit_in_registry, "default_unit_in_registry", None, lambda v_, value, registry: _unit_in_registry(t, registry, value) if isinstance(value, Quantity) else 1)
    v.contract(CU.unitless_in_registry, "unitless_in_registry", None,
               lambda v_, value, registry: v_.interp.call(CU.to_unitless, (value, _unit_in_registry(t, registry, value))) if isinstance(value, Quantity) else value)
    k = v.real("k", lo=1e-9, hi=1e9)
    ku = t.generic("ku", (0, 0, -1, 0, 0, 0, 0))
    rsys = ReactionSystem([Reaction({"A": 1}, {"B": 1}, MassAction([k * ku]), checks=())], [Substance("A"), Substance("B")], checks=())
    out_t, out_c = t.generic("out_t", TIME), t.generic("out_c", CONC)
    x, y = v.real("x", lo=0, hi=1e6), v.real("y", lo=0, hi=1e6)
    reg_t, reg_c = reg["time"], reg["amount"] / reg["length"] ** 3
    for label, kw in (("both_requested", dict(output_time_unit=out_t, output_conc_unit=out_c)), ("only_conc_requested", dict(output_conc_unit=out_c)),
                      ("only_time_requested", dict(output_time_unit=out_t)), ("none_requested", {})):
        odesys, extra = v.call(get_odesys, rsys, unit_registry=reg, SymbolicSys=FakeSymbolicSys, **kw)
        to_x, to_y, to_p = odesys.kwargs["to_arrays_callbacks"]
        (post,) = odesys.kwargs["post_processors"]
        tm, conc, par = v.call(post, x, y, numpy.array([]))
        want_t, want_c = kw.get("output_time_unit", reg_t), kw.get("output_conc_unit", reg_c)
        v.prove(label + ".time_dimension", isinstance(tm, Quantity) and dim_of(tm) == TIME)
        v.prove(label + ".conc_dimension", isinstance(conc, Quantity) and dim_of(conc) == CONC)
        v.prove_identity(label + ".time_same_physical_value", si_value(tm), x * si_value(reg_t))
        v.prove_identity(label + ".conc_same_physical_value", si_value(conc), y * si_value(reg_c))
        v.prove_identity(label + ".time_expressed_in_requested_unit", tm.magnitude * si_value(want_t), x * si_value(reg_t))
        v.prove_identity(label + ".conc_expressed_in_requested_unit", conc.magnitude * si_value(want_c), y * si_value(reg_c))
        # going in: any compatible unit is converted to registry units; what comes back converts to the same number again
        v.prove_identity(label + ".state_in_registry_units", v.call(to_y, y * out_c) * si_value(reg_c), y * si_value(out_c))
        v.prove_identity(label + ".time_in_registry_units", v.call(to_x, x * out_t) * si_value(reg_t), x * si_value(out_t))
        v.prove_identity(label + ".round_trip_conc", v.call(to_y, conc), y)
        v.prove_identity(label + ".round_trip_time", v.call(to_x, tm), x)
    yA, yB = odesys.dep
    v.prove_identity("rhs_in_registry_units", odesys.exprs[0] / si_value(reg_t), -si_value(k * ku) * yA)
    v.prove_identity("rhs_product", odesys.exprs[1], -odesys.exprs[0])


@harness("C06", "from_text_to_right_hand_side", functions=[ODE + ":get_odesys", ODE + ":get_odesys.<locals>.dydt", "chempy.reactionsystem:ReactionSystem.from_string (native: pyparsing/regex inside, decided in C12)"],
         kind="shape-bounded", samples=0)
def _(v):
    """'from text input through to the result arrays', first half: fixed texts (repeated species, explicit and decimal coefficients, branch and
    cycle, comments) become exactly the kinetic model written in them; what the integrator then does with the right-hand side is bounded only"""
    from chempy.chemistry import Substance
    from chempy.reactionsystem import ReactionSystem
    from chempy.kinetics.ode import get_odesys
    from contracts.C04 import FakeSymbolicSys
    from fractions import Fraction as F
    # the species that appears first in the text is the last in alphabetical order: the property does not say in which order the columns come,
    # only that every column is paired with the name of its substance (the obligations below follow odesys.names, whatever their order)
    text = "\n".join(["D + 2 D -> A; 0.125", "A + 2 A -> B; 0.5", "B + A + 1 B -> 2 C + C; 0.25  # repeated on both sides", "C -> A; 3", "C -> D; 7"])
    rsys = ReactionSystem.from_string(text, substance_factory=Substance)

    def written(rs):   # the reactions with their constants, as a collection (the order of the reactions changes no right-hand side)
        return sorted(((sorted(r.reac.items()), sorted(r.prod.items()), r.param) for r in rs.rxns), key=repr)
    v.prove("stoichiometry_as_written", written(rsys) == sorted([([("D", 3)], [("A", 1)], 0.125), ([("A", 3)], [("B", 1)], 0.5), ([("A", 1), ("B", 2)], [("C", 3)], 0.25),
                                                                   ([("C", 1)], [("A", 1)], 3), ([("C", 1)], [("D", 1)], 7)], key=repr))
    odesys, extra = v.call(get_odesys, rsys, SymbolicSys=FakeSymbolicSys)
    # (the obligation keeps its historical name for the baseline; what it states is: the substances are those of the text, and the columns of the
    # ODE system are named after them one by one -- not a particular order)
    v.prove("substances_in_order_of_appearance", sorted(rsys.substances) == ["A", "B", "C", "D"] and tuple(odesys.names) == tuple(rsys.substances)
            and len(odesys.exprs) == 4)

    def model(y, k_ca):
        r = [F(1, 2) * y["A"] ** 3, F(1, 4) * y["B"] ** 2 * y["A"], k_ca * y["C"], 7 * y["C"], F(1, 8) * y["D"] ** 3]
        return {"A": -3 * r[0] - r[1] + r[2] + r[4], "B": r[0] - 2 * r[1], "C": 3 * r[1] - r[2] - r[3], "D": r[3] - 3 * r[4]}
    want = model(dict(zip(odesys.names, odesys.dep)), 3)
    for e, s in zip(odesys.exprs, odesys.names):
        if s in want:
            v.prove_identity("rhs_" + s, e, want[s])
    # the same system object after one rate constant was re-assigned: the next system built from it uses the new constant
    for r in rsys.rxns:
        if dict(r.reac) == {"C": 1} and dict(r.prod) == {"A": 1}:
            r.param = 11
    ode2, _x = v.call(get_odesys, rsys, SymbolicSys=FakeSymbolicSys)
    want2 = model(dict(zip(ode2.names, ode2.dep)), 11)
    v.prove("rebuilt_after_changing_a_constant.columns", sorted(ode2.names) == ["A", "B", "C", "D"] and len(ode2.exprs) == 4)
    for e, s in zip(ode2.exprs, ode2.names):
        if s in want2:
            v.prove_identity("rebuilt_after_changing_a_constant.rhs_" + s, e, want2[s])
    # a reversible bimolecular step written as ONE equilibrium with a kinetically inactive participant on each side, split into its two directions:
    # the backward step gives back what the forward step takes (inactive parts mirrored), and neither enters a concentration product
    # (this is 'the text becomes the model written in it' only: a rate that consumes S without depending on [S] is not quasi-positive, so the
    # admissibility clauses of C06 are NOT claimed for systems with inactive reactants -- see META not_decided)
    from chempy.chemistry import Equilibrium
    eq = Equilibrium.from_string("A + B + (S) = C + (2 W); 4")
    for label, kw, kf, kb in (("kf_given", {"kf": 3}, 3, F(3, 4)), ("kb_given", {"kb": 5}, 20, 5)):
        sys3 = ReactionSystem(eq.as_reactions(**kw), "A B C S W", substance_factory=Substance)
        ode3, _x = v.call(get_odesys, sys3, SymbolicSys=FakeSymbolicSys)
        y3 = dict(zip(ode3.names, ode3.dep))
        net = kf * y3["A"] * y3["B"] - kb * y3["C"]
        want3 = {"A": -net, "B": -net, "C": net, "S": -net, "W": 2 * net}
        v.prove("reversible_step_with_inactive_parts.%s.names" % label, sorted(ode3.names) == ["A", "B", "C", "S", "W"] and tuple(ode3.names) == tuple(sys3.substances)
                and len(ode3.exprs) == 5)
        for e, s in zip(ode3.exprs, ode3.names):
            if s in want3:
                v.prove_identity("reversible_step_with_inactive_parts.%s.rhs_%s" % (label, s), e, want3[s])


@harness("C06", "symbolic_networks_are_linear_metzler_and_conserve_elements", functions=[ODE + ":get_odesys", ODE + ":get_odesys.<locals>.dydt"], kind="shape-bounded", samples=0)
def _(v):
    """the quantifier 'all first-order networks, rate constants over many decades' / 'all single-step bimolecular systems with positive
    parameters', for the right-hand side that is handed to the integrator (symbolic rate constants k >= 0, no numbers):
    (1) a first-order network over monomers A, B and dimers D, E with EVERY directed first-order step that conserves the element
        (A <-> B, D <-> E, D/E -> 2 A / 2 B): the right-hand side is K.y with the matrix K written here from the reactions -- the matrix whose
        exponential is the exact solution the bounded stand-in compares with; it is quasi-positive (y >= 0 and y_i = 0 give dy_i/dt >= 0: the
        exact solution never becomes negative) and conserves the element (w.f = 0 for the composition vector w = (1, 1, 2, 2): no
        concentration can exceed the supply of its element);
    (2) the same two facts and the closed-form model for the reversible bimolecular step A + B -> C (kf), C -> A + B (kb)."""
    from chempy.chemistry import Reaction, Substance
    from chempy.reactionsystem import ReactionSystem
    from chempy.kinetics.ode import get_odesys
    from contracts.C04 import FakeSymbolicSys

    def admissible(label, ode, w):
        ys = dict(zip(ode.names, ode.dep))
        nonneg = SP.conj([y >= 0 for y in ys.values()])
        tot = 0
        for e, s in zip(ode.exprs, ode.names):
            v.prove_nl("%s.quasi_positive_%s" % (label, s), SP.implies(SP.conj([nonneg, ys[s] == 0]), e >= 0))
            tot = tot + w[s] * e
        v.prove_identity(label + ".element_supply_is_conserved", tot, 0)

    w = {"A": 1, "B": 1, "D": 2, "E": 2}
    subs = [Substance(s, composition={1: w[s]}) for s in "ABDE"]
    steps = [("A", "B", 1), ("B", "A", 1), ("D", "E", 1), ("E", "D", 1), ("D", "A", 2), ("D", "B", 2), ("E", "A", 2), ("E", "B", 2)]     # (from, to, number formed)
    k = {(a, b): v.real("k_%s%s" % (a, b), lo=0, hi=1e6) for a, b, _n in steps}
    rsys = ReactionSystem([Reaction({a: 1}, {b: n}, k[a, b], checks=()) for a, b, n in steps], subs, checks=())
    ode, extra = v.call(get_odesys, rsys, SymbolicSys=FakeSymbolicSys)
    v.prove("first_order.columns", sorted(ode.names) == ["A", "B", "D", "E"] and len(ode.exprs) == 4)
    y = dict(zip(ode.names, ode.dep))
    # K[i][j]: what one unit of j produces of i per unit time; the diagonal is minus everything that leaves j
    K = {i: {j: 0 for j in w} for i in w}
    for a, b, n in steps:
        K[b][a] = K[b][a] + n * k[a, b]
        K[a][a] = K[a][a] - k[a, b]
    for e, s in zip(ode.exprs, ode.names):
        if s in K:
            v.prove_identity("first_order.rhs_is_K_y_" + s, e, sum(K[s][j] * y[j] for j in w))
    admissible("first_order", ode, w)
    v.prove("first_order.step_callback_offered", extra["max_euler_step_cb"] is not None)

    wb = {"A": 1, "B": 3, "C": 4}           # one element, A + B -> C balanced: 1 + 3 = 4
    kf, kb = v.real("kf", lo=0, hi=1e6), v.real("kb", lo=0, hi=1e6)
    rs2 = ReactionSystem([Reaction({"A": 1, "B": 1}, {"C": 1}, kf, checks=()), Reaction({"C": 1}, {"A": 1, "B": 1}, kb, checks=())],
                         [Substance(s, composition={1: wb[s]}) for s in "ABC"], checks=())
    ode2, extra2 = v.call(get_odesys, rs2, SymbolicSys=FakeSymbolicSys)
    v.prove("bimolecular.columns", sorted(ode2.names) == ["A", "B", "C"] and len(ode2.exprs) == 3)
    y2 = dict(zip(ode2.names, ode2.dep))
    net = kf * y2["A"] * y2["B"] - kb * y2["C"]
    want = {"A": -net, "B": -net, "C": net}
    for e, s in zip(ode2.exprs, ode2.names):
        if s in want:
            v.prove_identity("bimolecular.rhs_" + s, e, want[s])
    admissible("bimolecular", ode2, wb)


@harness("C06", "euler_step_with_scaled_variables_and_missing_constants", functions=[ODE + ":get_odesys", ODE + ":get_odesys.<locals>.max_euler_step_cb"], kind="data")
def _(v):
    """(a) the advertised Euler step on the real pyodesys classes, also when the ODE system keeps its dependent variables in scaled form
    (ScaledSys, dep_scaling -- the configuration chempy's own examples use for stiff problems): one explicit step from the USER's concentrations
    with the independent mass-action rate stays inside [0, elemental bound] for a bimolecular step, and is the largest such step (to 1e-9);
    the same with the rate constants as parameters of the ODE system, given with the call; (b) 'agree with the exact solution': a
    network in which one reaction has no rate constant has no solution to agree with -- it is refused, never integrated with the remaining
    constants shifted onto other reactions (control: the same texts with the constant filled in are accepted and are the model written)"""
    from chempy.chemistry import Substance, Reaction
    from chempy.reactionsystem import ReactionSystem
    from chempy.kinetics.ode import get_odesys
    from chempy.kinetics.rates import MassAction
    from pyodesys.symbolic import ScaledSys
    kf = 1.4e11
    cases = [{"H+": 1e-3, "OH-": 2e-4, "H2O": 55.0}, {"H+": 3e-7, "OH-": 5e-6, "H2O": 1.0}, {"H+": 0.25, "OH-": 0.75, "H2O": 0.0}]
    bad, small = [], []
    for label, kw in (("plain", {}), ("dep_scaling=1e6", dict(SymbolicSys=ScaledSys, dep_scaling=1e6)), ("dep_scaling=1e-3", dict(SymbolicSys=ScaledSys, dep_scaling=1e-3))):
        try:
            rsys = ReactionSystem.from_string("H+ + OH- -> H2O; %r" % kf)
            odesys, extra = get_odesys(rsys, **kw)
            for c0 in cases:
                h = float(extra["max_euler_step_cb"](0, c0))
                r = kf * c0["H+"] * c0["OH-"]
                f = {"H+": -r, "OH-": -r, "H2O": r}
                H, O = c0["H+"] + c0["OH-"] + 2 * c0["H2O"], c0["OH-"] + c0["H2O"]
                ub = {"H+": H, "OH-": min(H, O), "H2O": min(H / 2, O)}
                scale = max(c0.values())
                for k in c0:
                    c1 = c0[k] + h * f[k]
                    if not (h > 0 and -1e-12 * scale <= c1 <= ub[k] * (1 + 1e-12) + 1e-12 * scale):
                        bad.append((label, c0, h, k, c1))
                # the largest safe step from the definition: the cap 1, or the first of the two reactants to run out / the product to reach its bound
                want = min(1, c0["H+"] / r, c0["OH-"] / r, (ub["H2O"] - c0["H2O"]) / r)
                if not h >= (1 - 1e-9) * want:
                    small.append((label, c0, h, want))
        except Exception as ex:
            bad.append((label, repr(ex)[:120]))
            small.append((label, repr(ex)[:120]))
    v.prove("one_step_from_user_concentrations_stays_inside", not bad, detail=repr(bad[:2]))
    v.prove("one_step_from_user_concentrations_is_as_large_as_safety_allows", not small, detail=repr(small[:2]))
    # rate constants as parameters of the ODE system (include_params=False), values given with the call -- not the defaults of the reactions:
    # A -> B (k1), B -> A (k2), both substances of composition {1: 1} so both bounds are A + B; f_A = -k1 A + k2 B = -f_B.
    wrong = []
    try:
        subs = [Substance(s, composition={1: 1}) for s in "AB"]
        rsys = ReactionSystem([Reaction({"A": 1}, {"B": 1}, MassAction([3.0], unique_keys=["k1"])), Reaction({"B": 1}, {"A": 1}, MassAction([7.0], unique_keys=["k2"]))], subs)
        odesys, extra = get_odesys(rsys, include_params=False)
        cb = extra["max_euler_step_cb"]
        for c0, par in (({"A": 1.0, "B": 0.0}, {"k1": 30.0, "k2": 7.0}), ({"A": 0.25, "B": 0.75}, {"k1": 2.0, "k2": 40.0}), ({"A": 0.5, "B": 0.5}, {"k1": 0.25, "k2": 0.125})):
            fA = -par["k1"] * c0["A"] + par["k2"] * c0["B"]
            tot = c0["A"] + c0["B"]
            want = min(1, (c0["A"] / -fA) if fA < 0 else (tot - c0["A"]) / fA, (c0["B"] / fA) if fA > 0 else (tot - c0["B"]) / -fA)   # 1/30, 0.75/29.5, 1
            forms = [(c0, par), (dict(reversed(list(c0.items()))), dict(reversed(list(par.items())))), ([c0[k] for k in odesys.names], [par[k] for k in odesys.param_names])]
            for y, p in forms:
                h = float(cb(0, y, p))
                if not (1 - 1e-9) * want <= h <= (1 + 1e-9) * want:
                    wrong.append((y, p, h, want))
    except Exception as ex:
        wrong.append(repr(ex)[:160])
    v.prove("step_uses_the_parameter_values_given_with_the_call", not wrong, detail=repr(wrong[:2]))
    # (b) the texts are read as written (nothing shifted), then refused by get_odesys
    answered, misread = [], []
    for text, params in (("A -> B; 2\nB -> C\nC -> D; 5", [2, None, 5]), ("A -> B\nB -> C; 2", [None, 2])):
        try:
            rsys = ReactionSystem.from_string(text, substance_factory=Substance)
            if [r.param for r in rsys.rxns] != params:
                misread.append((text, [r.param for r in rsys.rxns]))
        except Exception:     # refusing such a text already when it is read is a refusal too
            continue
        try:
            o, _e = get_odesys(rsys)
            answered.append((text, str(getattr(o, "exprs", None))[:120]))
        except Exception:
            pass
    v.prove("missing_rate_constant_is_refused", not answered, detail=repr(answered))
    v.prove("missing_rate_constant.text_read_as_written", not misread, detail=repr(misread))
    # control: with the constant filled in the same texts are accepted and are the first-order chains written in them; hand values at
    # (A, B, C, D) = (1.5, 0.5, 0.25, 2): -2A, 2A - 3B, 3B - 5C, 5C = -3, 1.5, 0.25, 1.25 and -3A, 3A - 2B, 2B = -4.5, 3.5, 1
    y0 = {"A": 1.5, "B": 0.5, "C": 0.25, "D": 2.0}
    off = []
    for text, want in (("A -> B; 2\nB -> C; 3\nC -> D; 5", {"A": -3.0, "B": 1.5, "C": 0.25, "D": 1.25}), ("A -> B; 3\nB -> C; 2", {"A": -4.5, "B": 3.5, "C": 1.0})):
        try:
            o, _e = get_odesys(ReactionSystem.from_string(text, substance_factory=Substance))
            got = dict(zip(o.names, [float(x) for x in o.f_cb(0, [y0[k] for k in o.names], [])]))
            if set(got) != set(want) or any(abs(got[k] - want[k]) > 1e-12 for k in want):
                off.append((text, got))
        except Exception as ex:
            off.append((text, repr(ex)[:160]))
    v.prove("missing_rate_constant.control_with_constant_is_accepted", not off, detail=repr(off[:2]))


@harness("C06", "euler_step_for_trace_species_and_constants_over_many_decades", functions=[ODE + ":get_odesys", ODE + ":get_odesys.<locals>.max_euler_step_cb"], kind="data")
def _(v):
    """'the advertised safe explicit-Euler step keeps every concentration inside [0, elemental upper bound]' under the quantifier 'rate
    constants over many decades, random initial state': safety is a RELATIVE statement (a species at 1e-15 M that falls at 1e-9 M/s is used
    up after 1e-6 s just as one at 1 M that falls at 1e6 M/s), so no net rate is small enough in ABSOLUTE terms to be left out of the step.
    First-order networks with a trace species next to an ordinary slow bimolecular step (two separate element pools), concentrations from
    1e-15 to 1e-3 and constants from 1e-3 to 1e6; a reversible pair close to (but not at) its equilibrium at trace level; and a pair
    exactly at equilibrium (no net rate at all: nothing limits the step, the cap 1 is returned). Rates, bounds and the largest safe step
    are written out by hand from mass action and the compositions."""
    from chempy.chemistry import Substance, Reaction
    from chempy.reactionsystem import ReactionSystem
    from chempy.kinetics.ode import get_odesys
    # element 1: A, B one atom each; element 2: P one atom, Q two.  A -> B (kA), 2 P -> Q (kP = 0.8), [P] = 0.1, [B] = [Q] = 0:
    # f_A = -kA [A] = -f_B, f_P = -2 kP [P]^2 = -0.016, f_Q = 0.008; bounds: A, B <= [A] + [B]; P <= [P] + 2 [Q]; Q <= ([P] + 2 [Q]) / 2.
    # A is used up after 1 / kA (B reaches its bound at the same moment), P after 0.1 / 0.016 = 6.25 (Q likewise): largest safe step min(1, 1 / kA)
    unsafe, small = [], []

    def judge(label, cb, c0, f, ub):
        want = min([1.0] + [c0[k] / -f[k] for k in c0 if f[k] < 0] + [(ub[k] - c0[k]) / f[k] for k in c0 if f[k] > 0])
        for form in (c0, [c0[k] for k in order]):
            h = float(cb(0, form))
            if not (h > 0 and h <= (1 + 1e-9) * want):      # beyond `want` the limiting species has left [0, bound]
                unsafe.append((label, c0, h, want))
            if not h >= (1 - 1e-9) * want:
                small.append((label, c0, h, want))
    try:
        subs = [Substance("A", composition={1: 1}), Substance("B", composition={1: 1}), Substance("P", composition={2: 1}), Substance("Q", composition={2: 2})]
        for kA in (1e-3, 1.0, 1e3, 1e6):
            rsys = ReactionSystem([Reaction({"A": 1}, {"B": 1}, kA), Reaction({"P": 2}, {"Q": 1}, 0.8)], subs)
            odesys, extra = get_odesys(rsys)
            order = list(odesys.names)
            for a0 in (1e-15, 1e-12, 1e-9, 1e-6, 1e-3):
                c0 = {"A": a0, "B": 0.0, "P": 0.1, "Q": 0.0}
                f = {"A": -kA * a0, "B": kA * a0, "P": -2 * 0.8 * 0.1 ** 2, "Q": 0.8 * 0.1 ** 2}
                judge("trace A -> B, kA=%g" % kA, extra["max_euler_step_cb"], c0, f, {"A": a0, "B": a0, "P": 0.1, "Q": 0.05})
                # control in the other direction: a trace species that is NOT short-lived. Trace P next to its dimer, no A, B at all:
                # f_P = -1.6 a0^2, f_Q = 0.8 a0^2, P lasts 1 / (1.6 a0) >= 625 (Q has room a0 / 2: the same), nothing limits the step below the cap 1
                c1 = {"A": 0.0, "B": 0.0, "P": a0, "Q": 0.25}
                judge("trace P, kA=%g" % kA, extra["max_euler_step_cb"], c1, {"A": 0.0, "B": 0.0, "P": -1.6 * a0 ** 2, "Q": 0.8 * a0 ** 2},
                      {"A": 0.0, "B": 0.0, "P": a0 + 0.5, "Q": a0 / 2 + 0.25})
        # reversible pair A <-> B, both constants 1e4, [A] = 3e-13, [B] = 1e-13: f_A = -1e4 (3e-13 - 1e-13) = -2e-9 = -f_B; A lasts 3e-13 / 2e-9 = 1.5e-4,
        # B has room [A] = 3e-13 below its bound: the same 1.5e-4.  With 1e-7 and 3e-7 M: f = -2e-3, again 1.5e-4.
        subs2 = [Substance("A", composition={1: 1}), Substance("B", composition={1: 1})]
        odesys, extra = get_odesys(ReactionSystem([Reaction({"A": 1}, {"B": 1}, 1e4), Reaction({"B": 1}, {"A": 1}, 1e4)], subs2))
        order = list(odesys.names)
        for a0, b0 in ((3e-13, 1e-13), (3e-7, 1e-7), (1e-13, 3e-13)):
            fA = -1e4 * a0 + 1e4 * b0
            judge("A <-> B near equilibrium", extra["max_euler_step_cb"], {"A": a0, "B": b0}, {"A": fA, "B": -fA}, {"A": a0 + b0, "B": a0 + b0})
        # exactly at equilibrium (2 * 0.5 = 4 * 0.25, exact in binary): no net rate, the cap
        odesys, extra = get_odesys(ReactionSystem([Reaction({"A": 1}, {"B": 1}, 2.0), Reaction({"B": 1}, {"A": 1}, 4.0)], subs2))
        order = list(odesys.names)
        judge("A <-> B at equilibrium", extra["max_euler_step_cb"], {"A": 0.5, "B": 0.25}, {"A": 0.0, "B": 0.0}, {"A": 0.75, "B": 0.75})
    except Exception as ex:
        unsafe.append(repr(ex)[:200])
        small.append(repr(ex)[:200])
    v.prove("no_net_rate_is_too_small_to_limit_the_step", not unsafe, detail="(label, state, step returned, largest safe step) " + repr(unsafe[:3]))
    v.prove("step_is_as_large_as_safety_allows", not small, detail="(label, state, step returned, largest safe step) " + repr(small[:3]))


@harness("C06", "result_arrays_with_units_for_single_runs_and_scans", functions=[ODE + ":get_odesys", ODE + ":get_odesys.<locals>.post_processor", ODE + ":get_odesys.<locals>.<lambda>",
                                                                                 "chempy.units:to_unitless", "chempy.reactionsystem:ReactionSystem.from_string"], kind="data")
def _(v):
    """'agree with the exact solution ... from text input through to the result arrays', with a unit registry and for EVERY way the initial state
    (or the rate constants) can be handed to integrate: one run (dict or list of scalars) or several runs in one call (one entry of the dict an
    array, or a table with one row per run), each entry in its own compatible unit (M, mM, uM; 1/s, 1/min).  Every run starts from the state
    that was given (first row, converted by hand) and follows the closed form of the chain A -> B -> C (k1 = 0.5/s, k2 = 6/min = 0.1/s):
    A = A0 e^(-k1 t), B = B0 e^(-k2 t) + A0 k1 / (k2 - k1) (e^(-k1 t) - e^(-k2 t)), C = A0 + B0 + C0 - A - B; and of the bimolecular step
    A + B -> C (k = 2/(M s)): C - C0 = A0 B0 (1 - E) / (A0 - B0 E), E = e^(-(A0 - B0) k t).  Both in the requested output units and in
    those of the registry (SI: mol/m3 = 1e-3 M).  Also, without the integrator: a table of scalar quantities is converted entry by entry."""
    import math
    import warnings
    import numpy as np
    from chempy.chemistry import Substance, Reaction
    from chempy.reactionsystem import ReactionSystem
    from chempy.kinetics.ode import get_odesys
    from chempy.kinetics.rates import MassAction
    from chempy.units import SI_base_registry, default_units as u, to_unitless
    M, mM, uM = u.molar, u.millimolar, u.micromolar
    tout = [0.0, 1.0, 4.0, 12.0]     # seconds
    kw = dict(integrator="scipy", atol=1e-11, rtol=1e-11, nsteps=50000)

    def chain(c, t, k1=0.5, k2=0.1):
        a = c[0] * math.exp(-k1 * t)
        b = c[1] * math.exp(-k2 * t) + c[0] * k1 / (k2 - k1) * (math.exp(-k1 * t) - math.exp(-k2 * t))
        return [a, b, sum(c) - a - b]

    def bimolecular(c, t, k=2.0):
        e = math.exp(-(c[0] - c[1]) * k * t)
        x = c[0] * c[1] * (1 - e) / (c[0] - c[1] * e)
        return [c[0] - x, c[1] - x, c[2] + x]

    def compare(label, odesys, names, c0, states, exact, problems, params=None, conc_unit=None, per_M=1.0, exact_kw=None):
        """states: the initial state of every run in molar, by hand; per_M: value of 1 M in the unit the result arrays are to be in"""
        try:
            with warnings.catch_warnings():
                warnings.simplefilter("ignore")
                res = odesys.integrate(tout * u.second, c0, *([params] if params is not None else []), **kw)
            runs = res if isinstance(res, (list, tuple)) else [res]
            if len(runs) != len(states):
                problems.append((label, "%d runs for %d states" % (len(runs), len(states))))
                return
            for i, (r, st) in enumerate(zip(runs, states)):
                cols = [list(r.odesys.names).index(k) for k in names]
                y = np.asarray(r.yout.rescale(conc_unit).magnitude, dtype=float)[:, cols]
                x = np.asarray(r.xout.rescale(u.second).magnitude, dtype=float)
                ref = np.array([exact(st, t, **(exact_kw[i] if exact_kw else {})) for t in tout]) * per_M
                scale = sum(st) * per_M
                if not (r.info["success"] and x.shape == (len(tout),) and np.allclose(x, tout, rtol=1e-12, atol=1e-12)):
                    problems.append((label, i, "times", x.tolist()))
                elif not (y.shape == ref.shape and np.allclose(y[0], ref[0], rtol=1e-12, atol=1e-12 * scale)):
                    problems.append((label, i, "first row %r, state given %r" % (y[0].tolist(), ref[0].tolist())))
                elif not np.allclose(y, ref, rtol=0, atol=1e-7 * scale):
                    problems.append((label, i, "last row %r, exact %r" % (y[-1].tolist(), ref[-1].tolist())))
        except Exception as ex:
            problems.append((label, repr(ex)[:200]))

    names = ["A", "B", "C"]
    forms = [   # (label, initial state as handed over, the runs in molar by hand)
        ("one_run.dict_mixed_units", {"A": 1.0 * M, "B": 200 * mM, "C": 5e4 * uM}, [[1.0, 0.2, 0.05]]),
        ("one_run.list_mixed_units", [250 * mM, 0.5 * M, 0 * uM], [[0.25, 0.5, 0.0]]),
        ("scan.first_species_varied_others_in_smaller_units", {"A": [1.0, 2.0, 0.5] * M, "B": 200 * mM, "C": 5e4 * uM}, [[1.0, 0.2, 0.05], [2.0, 0.2, 0.05], [0.5, 0.2, 0.05]]),
        ("scan.first_species_in_the_smaller_unit", {"A": [300, 1500] * mM, "B": 0.75 * M, "C": 0.125 * M}, [[0.3, 0.75, 0.125], [1.5, 0.75, 0.125]]),
        ("scan.second_species_varied", {"A": 1.0 * M, "B": [200, 100] * mM, "C": 5e4 * uM}, [[1.0, 0.2, 0.05], [1.0, 0.1, 0.05]]),
        ("scan.one_unit_throughout", {"A": [1.0, 0.25] * M, "B": 0.5 * M, "C": 0.0 * M}, [[1.0, 0.5, 0.0], [0.25, 0.5, 0.0]]),
        ("table.one_row_per_run", [[1.0 * M, 200 * mM, 5e4 * uM], [2.0 * M, 100 * mM, 0 * M], [5e5 * uM, 0.75 * M, 250 * mM]], [[1.0, 0.2, 0.05], [2.0, 0.1, 0.0], [0.5, 0.75, 0.25]]),
    ]
    first_order, registry_units, second_order, constants = [], [], [], []
    try:
        rsys = ReactionSystem.from_string("A -> B; 0.5/second\nB -> C; 6/minute", substance_factory=Substance)
        in_M = get_odesys(rsys, unit_registry=SI_base_registry, output_conc_unit=M, output_time_unit=u.minute)[0]
        in_SI = get_odesys(rsys, unit_registry=SI_base_registry)[0]
    except Exception as ex:
        in_M = in_SI = None
        first_order.append(repr(ex)[:200])
        registry_units.append(repr(ex)[:200])
    for label, c0, states in forms:
        if in_M is not None:
            compare(label, in_M, names, c0, states, chain, first_order, conc_unit=M)
            compare(label, in_SI, names, c0, states, chain, registry_units, conc_unit=u.mole / u.metre ** 3, per_M=1000.0)
    v.prove("first_order_chain.every_run_starts_from_the_given_state_and_follows_the_closed_form", not first_order, detail=repr(first_order[:3]))
    v.prove("first_order_chain.the_same_in_registry_units", not registry_units, detail=repr(registry_units[:3]))
    try:
        bi = get_odesys(ReactionSystem.from_string("A + B -> C; 2/molar/second", substance_factory=Substance), unit_registry=SI_base_registry, output_conc_unit=mM)[0]
        for label, c0, states in forms:
            compare(label, bi, names, c0, states, bimolecular, second_order, conc_unit=mM, per_M=1000.0)
    except Exception as ex:
        second_order.append(repr(ex)[:200])
    v.prove("bimolecular_step.every_run_starts_from_the_given_state_and_follows_the_closed_form", not second_order, detail=repr(second_order[:3]))
    # the rate constants given with the call (include_params=False), one of them varied, each in its own unit: run i uses the i-th value
    try:
        subs = [Substance(s) for s in names]
        rs = ReactionSystem([Reaction({"A": 1}, {"B": 1}, MassAction([0.5 / u.second], unique_keys=["k1"])), Reaction({"B": 1}, {"C": 1}, MassAction([6 / u.minute], unique_keys=["k2"]))], subs)
        by_call = get_odesys(rs, unit_registry=SI_base_registry, include_params=False, output_conc_unit=M)[0]
        c0, st = {"A": 1.0 * M, "B": 200 * mM, "C": 5e4 * uM}, [1.0, 0.2, 0.05]
        for label, par, ks in (("one_run", {"k1": 15 / u.minute, "k2": 0.2 / u.second}, [dict(k1=0.25, k2=0.2)]),
                               ("scan.k1_varied_in_per_second_k2_in_per_minute", {"k1": [0.5, 1.0, 0.25] / u.second, "k2": 6 / u.minute}, [dict(k1=0.5, k2=0.1), dict(k1=1.0, k2=0.1), dict(k1=0.25, k2=0.1)]),
                               ("scan.k2_varied_in_per_minute_k1_in_per_second", {"k1": 0.5 / u.second, "k2": [6, 12] / u.minute}, [dict(k1=0.5, k2=0.1), dict(k1=0.5, k2=0.2)])):
            compare(label, by_call, names, c0, [st] * len(ks), chain, constants, params=par, conc_unit=M, exact_kw=ks)
    except Exception as ex:
        constants.append(repr(ex)[:200])
    v.prove("first_order_chain.constants_given_with_the_call_in_their_own_units", not constants, detail=repr(constants[:3]))
    # without the integrator: a table (rows = runs) of scalar concentrations, each in its own unit, is the table of their values in the asked unit
    tables = []
    rows = [[1.0 * M, 200 * mM, 5e4 * uM], [250 * mM, 0.5 * M, 0 * uM]]
    by_hand = {"M": (M, [[1.0, 0.2, 0.05], [0.25, 0.5, 0.0]]), "mM": (mM, [[1000.0, 200.0, 50.0], [250.0, 500.0, 0.0]]), "mol/m3": (u.mole / u.metre ** 3, [[1000.0, 200.0, 50.0], [250.0, 500.0, 0.0]])}
    for label, (unit, want) in by_hand.items():
        for kind, tab in (("lists", rows), ("object_array", np.array([[None] * 3] * 2, dtype=object))):
            try:
                if kind == "object_array":
                    for i in range(2):
                        for j in range(3):
                            tab[i, j] = rows[i][j]
                got = np.asarray(to_unitless(tab, unit), dtype=float)
                if not (got.shape == (2, 3) and np.allclose(got, want, rtol=1e-12, atol=0)):
                    tables.append((label, kind, got.tolist()))
            except Exception as ex:
                tables.append((label, kind, repr(ex)[:200]))
    v.prove("state_table_in_mixed_units_is_converted_entry_by_entry", not tables, detail=repr(tables[:3]))
