"""Bounded stand-in for C06: integrated kinetics reproduce exact solutions and stay physically admissible.

Stand-ins
  max_euler_step   For seeded random BALANCED systems with compositions (generator of bounded/C05.py: formula-defined
                   and explicitly composed substances, catalysts, inactive parts) with float rate constants 1e-2..1e2 and
                   random non-negative float states (entries exactly 0 with probability 1/4); element counts > 0
                   (explicit zero counts are normalised away, the charge entry may be 0):
                   h = extra['max_euler_step_cb'](0, state) must be a finite number >= 0 (>= -1e-9 * shortest characteristic time, for rounding) and
                   0 - tol <= y_i + h*f_i <= ub_i + tol for every substance, where f is the stand-in's own mass-action
                   right-hand side (rational arithmetic) and ub_i = min over the elements e of substance i of
                   (sum_j comp_j[e]*y_j) / comp_i[e] (own computation; charge is not an element; no element -> inf).
                   tol = 1e-9 * max(1, |y_i|, h*|f_i|, ub_i).
  first_order_expm First-order networks over <=6 species (isomers C2H6O x5 and dimers C4H12O2 x3, so that every step is
                   balanced): monomer->monomer, dimer->dimer, dimer->2 monomer, dimer->monomer+monomer', random
                   topology incl. cycles and branches, 1..8 reactions, rate constants 1e-3..1e3, random initial state,
                   5 random output times up to ~3/k_typical.  TEXT -> ReactionSystem.from_string -> get_odesys ->
                   odesys.integrate (pyodesys default integrator of this environment = scipy lsoda, atol=rtol=1e-8)
                   compared with scipy.linalg.expm(K t) y0, K built by the stand-in from the generated reaction list.
                   |y - y_exact| <= 50*(atol + rtol*max|y_exact|) per entry; also y >= -that and y <= elemental bound + that.
  bimolecular      A + B -> C and A + B <-> C (Fe+3/SCN-/FeSCN+2, H+/OH-/H2O, NH3/H+/NH4+, Na+/Cl-/NaCl) with random positive
                   kf, kb, initial concentrations (incl. a0 == b0 and c0 > 0), same pipeline, compared with the closed
                   form x(t) = (r1 - r2 E)/(1 - E), E = (r1/r2) exp(kf (r1-r2) t), r1<r2 roots of
                   kf (a0-x)(b0-x) - kb (c0+x) = 0  (a0^2 kf t/(1 + a0 kf t) for kb = 0, a0 = b0); same tolerances.
quick tier: 500 Euler cases, 96 networks, 96 bimolecular cases;  thorough: 20000 / 4000 / 4000.
Runs in which the delegated integrator reports failure are not counted (none expected for these systems).
"""
from __future__ import annotations

import json
import math
import random
from fractions import Fraction

from . import _rsys as G
from . import C05 as B

NAMES = ("max_euler_step", "first_order_expm", "bimolecular")
SIZES = {"quick": (500, 96, 96), "thorough": (20000, 4000, 4000)}
ATOL = RTOL = 1e-8
FORGIVE = 50

MONO = ["C2H6O", "CH3CH2OH", "CH3OCH3", "C2H5OH", "HOCH2CH3"]
DIMER = ["C4H12O2", "C2H5OC2H5OH2", "CH3CH2OHCH3CH2OH"]
UNITS = dict([(m, 1) for m in MONO] + [(d, 2) for d in DIMER])   # C2H6O units per molecule (own table)
TRIPLES = [("Fe+3", "SCN-", "FeSCN+2"), ("H+", "OH-", "H2O"), ("NH3", "H+", "NH4+"), ("Na+", "Cl-", "NaCl")]


def elemental_bounds(comp, y):
    """own computation of the elemental upper bound per substance (comp: name -> {key: n}, y: name -> value)"""
    tot = {}
    for s, c in comp.items():
        for k, n in c.items():
            if k != 0:
                tot[k] = tot.get(k, 0) + n * y[s]
    ub = {}
    for s, c in comp.items():
        cand = [tot[k] / n for k, n in c.items() if k != 0 and n > 0]
        ub[s] = min(cand) if cand else float("inf")
    return ub


# ----------------------------------------------------------------------------- max_euler_step
def gen_euler(rng):
    base = None
    while base is None:
        base = B.gen_balanced(rng)
    base["via_factory"] = False
    # Domain: element counts are positive.  An explicit ZERO count (composition={3: 0, ...}) is a degenerate way of
    # writing "absent"; ReactionSystem.upper_conc_bounds divides by it (0/0 -> nan -> h = nan), see the final report.
    # Such entries are normalised away here (the charge entry {0: 0} is kept), they stay in the C05 generator.
    for d in base["substances"]:
        if d["kind"] == "explicit":
            d["composition"] = {k: v for k, v in d["composition"].items() if k == "0" or v != 0}
    for rx in base["rxns"]:
        rx["k"] = ["f", round(10 ** rng.uniform(-2, 2), 4)]
    names = [d["name"] for d in base["substances"]]
    y = {s: (0.0 if rng.random() < 0.25 else round(10 ** rng.uniform(-3, 1), 5)) for s in names}
    return {"base": base, "y": y}


def check_euler(case):
    from chempy.kinetics.ode import get_odesys
    base = case["base"]
    comp = B.compositions(base["substances"])
    names = list(comp)
    spec = {"subst": names, "rxns": base["rxns"]}
    ok, res = G.call(lambda: get_odesys(B.build_system(base)))
    if not ok:
        return ["get_odesys raised " + res]
    cb = res[1].get("max_euler_step_cb")
    if cb is None:
        return ["extra['max_euler_step_cb'] is None although every substance has a composition"]
    ok, h = G.call(lambda: float(cb(0, dict(case["y"]))))
    if not ok:
        return ["max_euler_step_cb raised " + h]
    out = []
    yq = {s: Fraction(v) for s, v in case["y"].items()}
    f = G.oracle_rates(spec, yq, [G.exact(rx["k"]) for rx in base["rxns"]])
    ub = elemental_bounds(comp, yq)
    # h >= 0 up to rounding: a state sitting exactly on its bound gives (ub - y)/f = -1e-17-ish in floating point.
    # T = shortest POSITIVE characteristic time max(y_i, ub_i)/|f_i| (capped at 1); h >= -1e-9*T is accepted.  (A species with y_i = 0 and no finite
    # bound -- a bare charge carrier such as e- -- has scale 0 and contributes -0/f or inf, both exact: it must not set the tolerance to 0; it did
    # until round 6, and the thorough tier with seed 2 then reported h = -2.3e-16 for a state sitting on the hydrogen bound.)
    T = min([1.0] + [t for t in (float(max(yq[s], ub[s] if ub[s] != float("inf") else yq[s]) / abs(f[s])) for s in names if f[s] != 0) if t > 0])
    if not (-1e-9 * T <= h < float("inf")):
        return ["max_euler_step_cb returned h = %r, expected a finite step h >= 0 (characteristic time %.3g)" % (h, T)]
    hq = Fraction(h)
    for s in names:
        new = yq[s] + hq * f[s]
        u = ub[s]
        tol = Fraction(1e-9) * max(1, abs(yq[s]), abs(hq * f[s]), u if u != float("inf") else 0)
        if new < -tol:
            out.append("y[%s] + h*f = %.17g + %.17g*%.17g = %.6g < 0" % (s, float(yq[s]), h, float(f[s]), float(new)))
        if u != float("inf") and new > u + tol:
            out.append("y[%s] + h*f = %.17g + %.17g*%.17g = %.17g exceeds the elemental bound %.17g" % (s, float(yq[s]), h, float(f[s]), float(new), float(u)))
    return out


# ----------------------------------------------------------------------------- first-order networks vs expm
def gen_network(rng):
    nm, nd = rng.randint(1, 4), rng.randint(0, 2)
    if nm + nd < 2:
        nm = 2
    subst = rng.sample(MONO, nm) + rng.sample(DIMER, nd)
    rng.shuffle(subst)
    monos = [s for s in subst if UNITS[s] == 1]
    dims = [s for s in subst if UNITS[s] == 2]
    kmid = 10 ** rng.uniform(-2, 2)
    rxns, seen = [], set()
    for _ in range(rng.randint(1, 8) * 3):
        if len(rxns) >= 8:
            break
        kinds = []
        if len(monos) >= 2:
            kinds += ["mm", "mm"]
        if len(dims) >= 2:
            kinds += ["dd"]
        if dims:
            kinds += ["d2m", "dmm"]
        if not kinds:
            break
        kind = rng.choice(kinds)
        if kind == "mm":
            a, b = rng.sample(monos, 2)
            r = (a, ((b, 1),))
        elif kind == "dd":
            a, b = rng.sample(dims, 2)
            r = (a, ((b, 1),))
        elif kind == "d2m":
            r = (rng.choice(dims), ((rng.choice(monos), 2),))
        else:
            if len(monos) < 2:
                continue
            b, c = sorted(rng.sample(monos, 2))
            r = (rng.choice(dims), ((b, 1), (c, 1)))
        if r in seen:
            continue
        seen.add(r)
        k = float("%.4g" % (kmid * 10 ** rng.uniform(-1.5, 1.5) if rng.random() < 0.7 else 10 ** rng.uniform(-3, 3)))
        rxns.append({"reac": r[0], "prod": [list(p) for p in r[1]], "k": k})
        if len(rxns) >= rng.randint(1, 8):
            break
    if not rxns:
        return gen_network(rng)
    y0 = [0.0 if rng.random() < 0.3 else round(rng.uniform(0.01, 2.0), 4) for _ in subst]
    if not any(y0[subst.index(r["reac"])] for r in rxns):
        y0[subst.index(rxns[0]["reac"])] = 1.0
    kmax = max(r["k"] for r in rxns)
    tend = float("%.4g" % min(max(3.0 / kmax * 10 ** rng.uniform(0, 2), 1e-4), 3e3))
    tout = sorted(float("%.5g" % (tend * rng.uniform(0.01, 1.0))) for _ in range(5))
    tout = [0.0] + [t for i, t in enumerate(tout) if t > 0 and (i == 0 or t > tout[i - 1])]
    return {"subst": subst, "rxns": rxns, "y0": y0, "tout": tout}


def network_text(case):
    lines = []
    for r in case["rxns"]:
        rhs = " + ".join(("%d %s" % (n, s)) if n != 1 else s for s, n in r["prod"])
        lines.append("%s -> %s; %r" % (r["reac"], rhs, r["k"]))
    return "\n".join(lines)


def _integrate(text, subst, y0, tout):
    """the REAL pipeline: text -> ReactionSystem -> get_odesys -> integrate.  -> (yout, success) or raises"""
    import numpy as np
    from chempy import ReactionSystem
    from chempy.kinetics.ode import get_odesys
    rsys = ReactionSystem.from_string(text, list(subst))
    odesys, extra = get_odesys(rsys)
    res = odesys.integrate(np.array(tout, dtype=float), dict(zip(subst, y0)), atol=ATOL, rtol=RTOL, nsteps=50000)
    return np.asarray(res.yout, dtype=float), bool(res.info.get("success", True)), np.asarray(res.xout, dtype=float)


def _compare(label, subst, tout, yout, ref, ub):
    """common admissibility + accuracy comparison; ref[t][j]"""
    import numpy as np
    out = []
    ref = np.asarray(ref, dtype=float)
    if yout.shape != ref.shape:
        return ["%s: result array has shape %s, expected (times, substances) = %s" % (label, yout.shape, ref.shape)]
    tol = FORGIVE * (ATOL + RTOL * np.abs(ref).max())
    err = np.abs(yout - ref)
    i, j = np.unravel_index(np.argmax(err), err.shape)
    if err[i, j] > tol:
        out.append("%s: y[%s](t=%g) = %.12g, exact %.12g, |error| %.3g > %d*(atol+rtol*max|y|) = %.3g"
                   % (label, subst[j], tout[i], yout[i, j], ref[i, j], err[i, j], FORGIVE, tol))
    if yout.min() < -tol:
        i, j = np.unravel_index(np.argmin(yout), yout.shape)
        out.append("%s: y[%s](t=%g) = %.6g is negative beyond tolerance %.3g" % (label, subst[j], tout[i], yout[i, j], tol))
    for j, s in enumerate(subst):
        if ub[s] != float("inf") and yout[:, j].max() > ub[s] + tol:
            out.append("%s: y[%s] reaches %.12g, above its elemental bound %.12g" % (label, s, yout[:, j].max(), ub[s]))
    return out


def check_network(case):
    """-> None (solver reported failure: not counted) or list of details"""
    import numpy as np
    from scipy.linalg import expm
    subst, y0, tout = case["subst"], case["y0"], case["tout"]
    n = len(subst)
    K = np.zeros((n, n))
    for r in case["rxns"]:
        i = subst.index(r["reac"])
        K[i, i] -= r["k"]
        for s, m in r["prod"]:
            K[subst.index(s), i] += m * r["k"]
    ref = np.array([expm(K * t) @ np.array(y0) for t in tout])
    comp = {s: {1: UNITS[s]} for s in subst}     # one conserved "element": the C2H6O unit (own table)
    ub = elemental_bounds(comp, dict(zip(subst, y0)))
    try:
        yout, success, xout = _integrate(network_text(case), subst, y0, tout)
    except RuntimeError as e:
        if "fail" in str(e).lower():
            return None
        return ["pipeline raised RuntimeError: %s" % e]
    except Exception as e:
        return ["pipeline raised %s: %s" % (type(e).__name__, e)]
    if not success:
        return None
    if xout.shape != (len(tout),) or np.abs(xout - np.array(tout)).max() > 1e-12 * max(tout):
        return ["output times %s differ from the requested %s" % (xout.tolist(), tout)]
    return _compare("first-order network", subst, tout, yout, ref, ub)


# ----------------------------------------------------------------------------- bimolecular closed forms
def gen_bimol(rng):
    tr = rng.choice(TRIPLES)
    order = list(tr)
    rng.shuffle(order)
    kf = float("%.4g" % 10 ** rng.uniform(-2, 3))
    rev = rng.random() < 0.55
    kb = float("%.4g" % 10 ** rng.uniform(-3, 2)) if rev else 0.0
    a0 = round(10 ** rng.uniform(-2, 0.5), 4)
    b0 = a0 if rng.random() < 0.15 else round(10 ** rng.uniform(-2, 0.5), 4)
    c0 = 0.0 if rng.random() < 0.5 else round(10 ** rng.uniform(-2, 0.3), 4)
    rate0 = kf * max(a0, b0) + kb
    tend = 3.0 / rate0 * 10 ** rng.uniform(-1, 1)
    tout = sorted(float("%.5g" % (tend * rng.uniform(0.01, 1.0))) for _ in range(5))
    tout = [0.0] + [t for i, t in enumerate(tout) if t > 0 and (i == 0 or t > tout[i - 1])]
    return {"triple": list(tr), "subst": order, "kf": kf, "kb": kb, "a0": a0, "b0": b0, "c0": c0, "tout": tout}


def bimol_extent(t, kf, kb, a0, b0, c0):
    """x(t) with dx/dt = kf (a0-x)(b0-x) - kb (c0+x), x(0)=0   (own derivation, see module docstring)"""
    if t == 0:
        return 0.0
    if kb == 0 and a0 == b0:
        return a0 * a0 * kf * t / (1 + a0 * kf * t)
    p = kf * (a0 + b0) + kb
    q = kf * a0 * b0 - kb * c0
    disc = math.sqrt(p * p - 4 * kf * q)
    # numerically stable roots of kf x^2 - p x + q = 0  (p > 0)
    r2 = (p + disc) / (2 * kf)
    r1 = q / (kf * r2)
    if r1 == 0:
        return 0.0
    E = (r1 / r2) * math.exp(kf * (r1 - r2) * t)
    return (r1 - r2 * E) / (1 - E)


def check_bimol(case):
    import numpy as np
    A, Bn, C = case["triple"]
    subst, tout = case["subst"], case["tout"]
    text = "%s + %s -> %s; %r" % (A, Bn, C, case["kf"])
    if case["kb"]:
        text += "\n%s -> %s + %s; %r" % (C, A, Bn, case["kb"])
    init = {A: case["a0"], Bn: case["b0"], C: case["c0"]}
    y0 = [init[s] for s in subst]
    xs = [bimol_extent(t, case["kf"], case["kb"], case["a0"], case["b0"], case["c0"]) for t in tout]
    refd = {A: [case["a0"] - x for x in xs], Bn: [case["b0"] - x for x in xs], C: [case["c0"] + x for x in xs]}
    ref = np.array([[refd[s][i] for s in subst] for i in range(len(tout))])
    # elemental bounds from the compositions carried by the substances (data), own arithmetic
    comp = B.compositions([{"name": s, "kind": "formula"} for s in subst])
    ub = elemental_bounds(comp, init)
    try:
        yout, success, xout = _integrate(text, subst, y0, tout)
    except RuntimeError as e:
        if "fail" in str(e).lower():
            return None
        return ["pipeline raised RuntimeError: %s" % e]
    except Exception as e:
        return ["pipeline raised %s: %s" % (type(e).__name__, e)]
    if not success:
        return None
    return _compare("bimolecular %s" % text.replace("\n", " | "), subst, tout, yout, ref, ub)


# ----------------------------------------------------------------------------- driver
GEN = {"max_euler_step": gen_euler, "first_order_expm": gen_network, "bimolecular": gen_bimol}
CHK = {"max_euler_step": check_euler, "first_order_expm": check_network, "bimolecular": check_bimol}


def _work(args):
    seed, name, lo, hi = args
    res = []
    for i in range(lo, hi):
        rng = random.Random(G.case_seed(seed, "C06", name, i))
        case = GEN[name](rng)
        res.append((name, i, case, CHK[name](case)))
    return res


def run(tier, seed):
    sizes = dict(zip(NAMES, SIZES["quick" if tier == "quick" else "thorough"]))
    import chempy.kinetics.ode  # noqa: F401
    import pyodesys.symbolic    # noqa: F401
    import scipy.linalg         # noqa: F401
    chunks = []
    for name in NAMES:
        step = {"max_euler_step": 40, "first_order_expm": 4, "bimolecular": 4}[name] * (1 if tier == "quick" else 10)
        chunks += [(seed, name, lo, min(lo + step, sizes[name])) for lo in range(0, sizes[name], step)]
    import multiprocessing as mp
    with mp.get_context("fork").Pool(16) as pool:
        parts = pool.map(_work, chunks, chunksize=1)
    results = sorted((r for p in parts for r in p), key=lambda t: (t[0], t[1]))
    ev = {nme: 0 for nme in NAMES}
    failed = {nme: 0 for nme in NAMES}
    viol = {nme: [] for nme in NAMES}
    distinct = {nme: set() for nme in NAMES}
    samples = {nme: [] for nme in NAMES}
    for name, i, case, r in results:
        if r is None:
            failed[name] += 1
            continue
        ev[name] += 1
        distinct[name].add(json.dumps(case, sort_keys=True))
        if len(samples[name]) < 2:
            samples[name].append(case if name != "max_euler_step" else {"system": B._sysstr(case["base"]), "y": case["y"]})
        for d in r[:2]:
            viol[name].append({"inputs": case, "detail": d})
    rules = {
        "max_euler_step": "h = max_euler_step_cb(0, y) for random balanced systems/states; 0<=h<inf and 0 <= y+h*f <= elemental bound (own f and bound), "
                          "tolerance 1e-9 relative",
        "first_order_expm": "text -> from_string -> get_odesys -> integrate(scipy lsoda, atol=rtol=1e-8) vs scipy.linalg.expm(K t) y0 at 5 random times; "
                            "error <= 50*(atol + rtol*max|y|); non-negativity and elemental bound to the same tolerance; %d runs with solver failure not counted" % failed["first_order_expm"],
        "bimolecular": "A + B -> C and A + B <-> C through the same pipeline vs the closed-form extent (own derivation); same tolerances; "
                       "%d runs with solver failure not counted" % failed["bimolecular"],
    }
    bounds = {
        "max_euler_step": "%d cases; systems of 3..6 substances, 1..4 balanced reactions (see C05), k 1e-2..1e2, y entries 0 or 1e-3..10" % sizes["max_euler_step"],
        "first_order_expm": "%d networks; 2..6 species (<=4 C2H6O isomers, <=2 dimers), 1..8 first-order steps with product coefficients 1 or 2, k 1e-3..1e3, "
                            "t_end = 3/k_max * 10^U(0,2) capped to [1e-4, 3e3]" % sizes["first_order_expm"],
        "bimolecular": "%d cases; 4 ion-pair/acid-base triples, kf 1e-2..1e3, kb 0 or 1e-3..1e2, a0,b0 1e-2..3 (15%% equal), c0 0 or 1e-2..2" % sizes["bimolecular"],
    }
    return {"standins": [
        {"name": nme, "rule": rules[nme], "bound": bounds[nme], "evaluations": ev[nme], "distinct": len(distinct[nme]),
         "exhaustive": False, "samples": samples[nme], "violations": viol[nme][:20]} for nme in NAMES]}


def replay(case):
    out = CHK[case["name"]](case["inputs"])
    if out is None:
        return True, "the delegated integrator reported failure for this case (not counted)"
    if out:
        return False, "; ".join(out[:3])
    return True, "stand-in %s holds for this case" % case["name"]
