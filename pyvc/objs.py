"""building instances of real repository classes with symbolic fields"""


def make_obj(cls, **attrs):
    inst = object.__new__(cls)
    for k, v in attrs.items():
        object.__setattr__(inst, k, v)
    return inst
