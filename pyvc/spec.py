"""Dual-mode specification primitives.

The same spec text runs (a) symbolically, on Sym/SymSeq/SymDict values, producing z3
terms (recursive folds become function symbols with their defining recurrence), and
(b) natively on python values, as the oracle used to replay counter-models and to drive
the bounded stand-ins.
"""
from __future__ import annotations

import fractions
import functools
import math
import operator

import z3

from . import sym as S
from .sym import Sym, Unsupported, cur, has_cur, to_z3, wrap, wrap_num, fresh_name
from .containers import SymSeq, SymDict

_J = z3.Int("j!fold")
_fold_cache = {}


def _symbolic(x):
    return isinstance(x, (SymSeq, SymDict)) and not (isinstance(x, SymSeq) and x.concrete_len())


def _extensionality(p, F, tF, G, tG, n):
    """fold extensionality at length n (a theorem of the two recurrences, by induction on n; added as a lemma because the solver does no induction):
    if the terms agree at every index below n, the folds agree at n"""
    j = z3.Int(fresh_name("j"))
    with p.bound(z3.And(j >= 0, j < n)):
        a, b = to_z3(tF(Sym(j))), to_z3(tG(Sym(j)))
    if a.sort() != b.sort():
        if z3.is_int(a) and z3.is_real(b):
            a = z3.ToReal(a)
        elif z3.is_real(a) and z3.is_int(b):
            b = z3.ToReal(b)
        else:
            return
    fa, fb = F(n), G(n)
    if fa.sort() != fb.sort():
        fa = z3.ToReal(fa) if z3.is_int(fa) else fa
        fb = z3.ToReal(fb) if z3.is_int(fb) else fb
    p.assume(z3.Implies(z3.ForAll([j], z3.Implies(z3.And(j >= 0, j < n), a == b)), fa == fb))


def _register_fold(p, F, term_at, unit, op, length=None):
    """axioms of the fold on the current path (recurrence for the indices below the length of the sequence it is used for) + instantiation at the
    known loop indices + extensionality against the other folds of the path"""
    reg = p.ghost.setdefault("folds", {})
    lens = p.ghost.setdefault("fold_lengths", {})
    key = F.name()
    is_new = key not in reg
    new_len = None
    if length is not None:
        ln = to_z3(length)
        mine = lens.setdefault(key, [])
        if not any(ln.eq(x) for x in mine):
            mine.append(ln)
            new_len = ln
    if is_new:
        reg[key] = (F, term_at, op)
        p.assume(F(0) == unit)
    if new_len is not None:
        j = z3.Int(fresh_name("j"))
        with p.bound(z3.And(j >= 0, j < new_len)):
            tj = to_z3(term_at(Sym(j)))
        body = F(j + 1) == (F(j) + tj if op == "+" else F(j) * tj)
        p.assume(z3.ForAll([j], z3.Implies(z3.And(j >= 0, j < new_len), body), patterns=[F(j + 1)]))
    for k2, (G, tG, op2) in list(reg.items()):
        if k2 == key or op2 != op:
            continue
        for ln in ((lens.get(k2, []) + lens.get(key, [])) if is_new else ([new_len] if new_len is not None else [])):
            if not z3.is_int_value(ln):
                _extensionality(p, F, term_at, G, tG, ln)
    if is_new:
        for pt in p.ghost.get("fold_points", []):
            _instantiate(p, F, term_at, op, pt)


def _instantiate(p, F, term_at, op, pt):
    e = to_z3(pt)
    t = to_z3(term_at(pt))
    if op == "+":
        p.assume(z3.Implies(e >= 0, F(e + 1) == F(e) + t))
    else:
        p.assume(z3.Implies(e >= 0, F(e + 1) == F(e) * t))


def add_fold_point(p, pt):
    p.ghost.setdefault("fold_points", []).append(pt)
    for F, term_at, op in list(p.ghost.get("folds", {}).values()):
        _instantiate(p, F, term_at, op, pt)


def _fold(seq, unit, op, tag):
    p = cur()
    with p.bound(z3.And(_J >= 0, _J < to_z3(seq.sym_len()))):
        t = to_z3(seq.at(Sym(_J)))
    srt = t.sort()
    if srt == z3.BoolSort():
        t = z3.If(t, z3.IntVal(1), z3.IntVal(0))
        srt = z3.IntSort()
    key = (tag, z3.simplify(t).sexpr(), str(srt))
    F = _fold_cache.get(key)
    if F is None:
        F = z3.Function("%s!%d" % (tag, len(_fold_cache)), z3.IntSort(), srt)
        _fold_cache[key] = F
    u = z3.IntVal(unit) if srt == z3.IntSort() else z3.RealVal(unit)
    _register_fold(p, F, seq.at, u, op, seq.sym_len())
    return F


def ssum(seq, f=None):
    """sum(f(x) for x in seq)"""
    if isinstance(seq, SymDict):
        seq = seq.items()
    if isinstance(seq, SymSeq) and not seq.concrete_len():
        s2 = seq.map(f) if f is not None else seq
        F = _fold(s2, 0, "+", "sum")
        return Sym(F(to_z3(seq.sym_len())))
    tot = 0
    for x in (seq.items() if isinstance(seq, dict) else seq):
        tot = tot + (f(x) if f is not None else x)
    return tot


def ssum_prefix(seq, i, f=None):
    """sum over the first i elements (for loop invariants)"""
    if isinstance(seq, SymDict):
        seq = seq.items()
    if isinstance(seq, SymSeq) and not seq.concrete_len():
        s2 = seq.map(f) if f is not None else seq
        F = _fold(s2, 0, "+", "sum")
        return Sym(F(to_z3(i)))
    items = list(seq.items() if isinstance(seq, dict) else seq)[:i]
    tot = 0
    for x in items:
        tot = tot + (f(x) if f is not None else x)
    return tot


def sprod(seq, f=None):
    if isinstance(seq, SymDict):
        seq = seq.items()
    if isinstance(seq, SymSeq) and not seq.concrete_len():
        s2 = seq.map(f) if f is not None else seq
        F = _fold(s2, 1, "*", "prod")
        return Sym(F(to_z3(seq.sym_len())))
    tot = 1
    for x in (seq.items() if isinstance(seq, dict) else seq):
        tot = tot * (f(x) if f is not None else x)
    return tot


def sprod_prefix(seq, i, f=None):
    if isinstance(seq, SymDict):
        seq = seq.items()
    if isinstance(seq, SymSeq) and not seq.concrete_len():
        s2 = seq.map(f) if f is not None else seq
        F = _fold(s2, 1, "*", "prod")
        return Sym(F(to_z3(i)))
    items = list(seq.items() if isinstance(seq, dict) else seq)[:i]
    tot = 1
    for x in items:
        tot = tot * (f(x) if f is not None else x)
    return tot


def forall(coll, pred):
    """all(pred(x) for x in coll); for dicts pred(k, v)"""
    if isinstance(coll, SymDict):
        k = z3.Const(fresh_name("k"), coll.ksort)
        body = to_z3(pred(S.wrap_keep(k) if False else _w(k), coll.value(_w(k))))
        return wrap(z3.ForAll([k], z3.Implies(z3.Select(coll.dom, k), body)))
    if isinstance(coll, SymSeq) and not coll.concrete_len():
        j = z3.Int(fresh_name("j"))
        rng = z3.And(j >= 0, j < to_z3(coll.sym_len()))
        with cur().bound(rng):
            body = to_z3(pred(coll.at(Sym(j))))
        return wrap(z3.ForAll([j], z3.Implies(rng, body)))
    if isinstance(coll, dict):
        return conj([pred(k, v) for k, v in coll.items()])
    return conj([pred(x) for x in coll])


def forall_int(lo, hi, pred):
    """all(pred(j) for j in range(lo, hi))"""
    if isinstance(lo, Sym) or isinstance(hi, Sym):
        j = z3.Int(fresh_name("j"))
        return wrap(z3.ForAll([j], z3.Implies(z3.And(j >= to_z3(lo), j < to_z3(hi)), to_z3(pred(Sym(j))))))
    return conj([pred(j) for j in range(lo, hi)])


def forall_keys(ksort, pred):
    """for every possible key (of the key sort): pred(k) -- whole-view postconditions"""
    k = z3.Const(fresh_name("k"), S_sort(ksort))
    return wrap(z3.ForAll([k], to_z3(pred(_w(k)))))


def S_sort(kind):
    from .containers import sort_of
    return sort_of(kind)


def _w(e):
    from .containers import wrap_num_or
    return wrap_num_or(e) if not z3.is_const(e) or z3.is_int_value(e) else Sym(e)


def conj(conds):
    conds = list(conds)
    if any(isinstance(c, Sym) for c in conds):
        return wrap(z3.And(*[to_z3(c) for c in conds])) if conds else True
    return all(conds)


def disj(conds):
    conds = list(conds)
    if any(isinstance(c, Sym) for c in conds):
        return wrap(z3.Or(*[to_z3(c) for c in conds])) if conds else False
    return any(conds)


def implies(a, b):
    if isinstance(a, Sym) or isinstance(b, Sym):
        return wrap(z3.Implies(to_z3(a), to_z3(b)))
    return (not a) or b


def ite(c, a, b):
    if isinstance(c, Sym):
        return S.ite(c, a, b)
    return a if c else b


def iff(a, b):
    if isinstance(a, Sym) or isinstance(b, Sym):
        return wrap(to_z3(a) == to_z3(b))
    return bool(a) == bool(b)


def neg(a):
    if isinstance(a, Sym):
        return wrap(z3.Not(to_z3(a)))
    return not a


def dget(d, k, default=0):
    """d.get(k, default) without forking"""
    if isinstance(d, SymDict):
        return d.get(k, default)
    if isinstance(k, Sym):
        r = default
        for kk, v in reversed(list(d.items())):
            r = S.ite(kk == k, v, r)
        return r
    return d.get(k, default)


def dhas(d, k):
    if isinstance(d, SymDict):
        return d.has(k)
    if isinstance(k, Sym):
        return disj([kk == k for kk in d])
    return k in d


def approx_eq(a, b, rel=1e-9, abs_=1e-12):
    """equality: exact for symbolic / exact numbers, tolerance for floats (concrete replay)"""
    if isinstance(a, Sym) or isinstance(b, Sym):
        return a == b
    if isinstance(a, float) or isinstance(b, float):
        try:
            fa, fb = float(a), float(b)
        except TypeError:
            return a == b
        if math.isnan(fa) or math.isnan(fb):
            return False
        if math.isinf(fa) or math.isinf(fb):
            return fa == fb
        return abs(fa - fb) <= max(abs_, rel * max(abs(fa), abs(fb)))
    return a == b


_table_cache = {}


def table_array(seq):
    """z3 array holding a concrete numeric tuple/list (index -> value)"""
    key = id(seq)
    ent = _table_cache.get(key)
    if ent is not None and ent[0] is seq:
        return ent[1]
    isint = all(isinstance(x, int) and not isinstance(x, bool) for x in seq)
    arr = z3.K(z3.IntSort(), z3.IntVal(0) if isint else z3.RealVal(0))
    for i, x in enumerate(seq):
        arr = z3.Store(arr, i, to_z3(x))
    name = z3.Const("table!%d" % len(_table_cache), arr.sort())
    _table_cache[key] = (seq, arr, name)
    return arr


def select(seq, idx):
    """seq[idx] for a concrete numeric sequence and possibly symbolic in-range index"""
    if not isinstance(idx, Sym):
        return seq[idx]
    if isinstance(seq, SymSeq):
        return seq.at(idx)
    n = len(seq)
    ei = to_z3(idx)
    # small tables: if-chain (keeps terms first-order and simple)
    r = to_z3(seq[-1])
    for j in range(n - 2, -1, -1):
        r = z3.If(ei == j, to_z3(seq[j]), r)
    return wrap_num(r)


def spow(x, n):
    """x ** n (symbolic exponents through the pow function of 5.3)"""
    if isinstance(x, Sym) or isinstance(n, Sym):
        return S.sym_pow(x, n)
    return x ** n
