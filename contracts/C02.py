"""C02  Balancing returns only balanced, positive, canonical coefficients or refuses."""
from collections import OrderedDict

from pyvc.api import harness
from pyvc import spec as SP
from pyvc.sym import Sym, Unsupported

META = {
    "explanation": "balance_stoichiometry delegates the mathematics to sympy (linsolve, nsimplify, gcd, Wild.match) and CBC; what is proved is everything chempy itself is responsible for: (head slice, up to the linsolve call) the signed composition matrix A[i][j] = composition_j[key_i] * (-1 for reactants), one row per composition key incl. charge (the order of the rows is free) and the reactants-then-products column order, and the presence pre-check raising ValueError exactly when a key occurs on one side only without mixed signs there; (tail slice, the statements after the last assignment to `sol`, for ANY vector sol and matrix A that the external solvers may have produced) every normal return has all coefficients non-zero, none negative, and - in the two numeric modes - numeric and satisfying A*sol == 0, with exactly the given species as keys (a set per side) and value sol[index(key)] (possibly int() of it, in the 'smallest integers' mode only); the duplicate-species dispatch. Positivity, coprimality, minimality and refusal of infeasible placements depend on sympy/CBC output: they are stated generically (no expected coefficients) on data only - 30 small signed matrices incl. charge-type rows and fractional entries against brute force, exact rank and an LP (numeric_clauses_on_small_matrices; a parametric answer must admit positive coefficients, and none is due when no positive solution exists), hand-derived under-determined placements without a positive solution in the default mode (fixed_reactions, coal_gas*/sulfur), and the coefficient sum proper on placements whose best and second-best sums differ by 1 or 2 at coefficients of several hundred (minimal_sum_with_large_coefficients) - and decided otherwise by the bounded exhaustive stand-in.",
    "trusted_base": ["sympy Matrix * Matrix is the matrix product; x == 0, 0 in M, free_symbols, is_negative, int(x) mean what they say (5.4)", "nsimplify(x, rational=True) preserves the value of x", "the slices are cut mechanically from the real AST on every run (what is dropped is stated in the evidence)"],
    "not_decided": ["minimal coefficient sum, joint coprimality, unique-ray minimal solution, symbolic (free parameter) mode identities: outputs of sympy/CBC -> bounded stand-in only"],
    "assumptions": ["species layouts fixed per harness; composition values and the solver's output vector are symbolic",
                    "reading of 'the set of keys equals the species given' when a species is given on BOTH sides (allow_duplicates): the answer may keep it on one side, on both or on neither (chempy prefers to drop it from both, e.g. {H2,O2,H2O} -> {H2O,H2O2} gives H2 + O2 -> H2O2 although 3 H2 + 2 O2 -> 2 H2O + H2O2 uses every species); every species given on one side only must be a key of that side. Same reading as bounded/C02.py",
                    "reading of 'no assignment of positive coefficients' in the parametric (default) mode: the free parameters range over the positive reals, although chempy declares its symbols integer",
                    "which exception class a refusal of the duplicate dispatch carries (ValueError / NotImplementedError), the order of the keys in the returned mappings, int vs sympy Integer, and whether the default / False mode refuses or validly answers a placement with several rays are not part of the statement and not pinned"],
}
CH = "chempy.chemistry"


class HeadDone(Exception):
    def __init__(self, A):
        self.A = A


class FakeMatrix:
    """stands for a sympy dense matrix of (symbolic) integers: the read-only surface of one (entries, shape, rows / cols, indexing, tolist,
    applyfunc, the product with the solution vector).  Anything else the code may ask of a real matrix is not modelled: asking for it is a limit of
    this stand-in (undecided), never a behaviour of the code."""
    _pyvc_symbolic = True

    def __init__(self, rows):
        self.data = [list(r) for r in rows]
        self._ncols = len(self.data[0]) if self.data else 0

    rows = property(lambda self: len(self.data))
    cols = property(lambda self: self._ncols)
    shape = property(lambda self: (len(self.data), self._ncols))

    def __len__(self):
        return len(self.data) * self._ncols

    def tolist(self):
        return [list(r) for r in self.data]

    def __getitem__(self, ij):
        if isinstance(ij, tuple) and len(ij) == 2 and all(isinstance(x, int) for x in ij):
            return self.data[ij[0]][ij[1]]
        if isinstance(ij, int):
            return [x for r in self.data for x in r][ij]
        raise Unsupported("FakeMatrix[%r]" % (ij,))

    def applyfunc(self, f):
        return FakeMatrix([[f(x) for x in r] for r in self.data])

    def __mul__(self, sol):
        return [sum(a * getattr(x, "val", x) for a, x in zip(row, sol)) for row in self.data]

    def __getattr__(self, name):
        if name.startswith("__"):
            raise AttributeError(name)
        raise Unsupported("the matrix stand-in of the contract has no %r" % name)


LAY = {
    "two_plus_one": (["R1", "R2"], ["P1"]),
    "one_plus_two": (["R1"], ["P1", "P2"]),
    "two_plus_two": (["R1", "R2"], ["P1", "P2"]),
}
KEYS = [0, 1, 8]


def _head(name):
    reactants, products = LAY[name]

    @harness("C02", "head.%s" % name, functions=[CH + ":balance_stoichiometry", CH + ":balance_stoichiometry.<locals>._get", CH + ":Substance.composition_keys"], kind="shape-bounded", samples=0, max_paths=6000)
    def _(v):
        import sympy
        from chempy.chemistry import balance_stoichiometry, Substance
        species = reactants + products
        comp = {s: {k: v.int("c_%s_%d" % (s, k), lo=(-2 if k == 0 else 0), hi=3) for k in KEYS} for s in species}
        substances = OrderedDict((s, Substance(s, composition=dict(comp[s]))) for s in species)
        v.stub(sympy.MutableDenseMatrix, lambda interp, rows: FakeMatrix(rows))
        v.stub(sympy.nsimplify, lambda interp, x, **kw: x)

        def stop(interp, system, *symbols):
            raise HeadDone(system[0])
        v.stub(sympy.linsolve, stop)
        mode = v.choice("underdetermined", [True, False, None])
        out = v.run(balance_stoichiometry, list(reactants), list(products), substances=substances, underdetermined=mode)

        def one_sided(k):   # key present on exactly one side, and not with mixed signs on that side
            in_r = SP.disj([SP.neg(comp[s][k] == 0) for s in reactants])
            in_p = SP.disj([SP.neg(comp[s][k] == 0) for s in products])
            mixed = lambda side: SP.conj([SP.disj([comp[s][k] > 0 for s in side]), SP.disj([comp[s][k] < 0 for s in side])])
            return SP.disj([SP.conj([SP.neg(in_r), SP.neg(mixed(products))]), SP.conj([SP.neg(in_p), SP.neg(mixed(reactants))])])
        refuse = SP.disj([one_sided(k) for k in KEYS])
        if isinstance(out.exc, HeadDone):
            A = out.exc.A
            v.prove("precheck_passes_only_if_every_key_on_both_sides_or_mixed", SP.neg(refuse))
            v.prove("matrix_shape_rows_keys_columns_species", len(A.data) == len(KEYS) and all(len(r) == len(species) for r in A.data))
            # the order of the rows (one balance equation each) is not part of the property, A x = 0 is the same system under any
            # permutation of them; the order of the columns is: the tail reads sol[subst_keys.index(k)].  So: the rows of A are,
            # in SOME order, exactly the rows row(k) = [composition_s[k] * sign(s) for s in reactants + products], one per key.
            import itertools
            row_is = lambda i, k: SP.conj([A.data[i][j] == comp[s][k] * (-1 if s in reactants else 1) for j, s in enumerate(species)])
            v.prove("signed_composition_matrix", len(A.data) == len(KEYS) and SP.disj([SP.conj([row_is(i, k) for i, k in enumerate(perm)]) for perm in itertools.permutations(KEYS)]))
        else:
            v.prove("refusal_is_ValueError_and_justified", SP.conj([out.raised(ValueError), refuse]), detail=repr(out.exc))
    return _


for _n in LAY:
    _head(_n)


class SNum:
    """stands for a sympy expression in the solver's output vector: a real value plus the attributes the tail reads"""
    _pyvc_symbolic = True

    def __init__(self, v, i):
        self.val = v.real("sol%d" % i, lo=-50, hi=50)
        self.symbolic = v.bool("sol%d_has_free_symbols" % i)     # free_symbols non-empty?
        self.isnan = v.bool("sol%d_is_nan" % i)
        self.free_symbols = _FreeSyms(self.symbolic)

    @property
    def is_negative(self):
        # sympy: True/False for numbers, None when undecidable (symbolic)
        return SP.conj([SP.neg(self.symbolic), self.val < 0])

    def __eq__(self, o):
        import sympy
        if o is sympy.nan:
            return self.isnan
        if isinstance(o, (int, float)):
            return SP.conj([SP.neg(self.symbolic), self.val == o])
        return NotImplemented

    __hash__ = object.__hash__

    def __int__(self):
        raise TypeError

    def __rmul__(self, a):
        return a * self.val


class _FreeSyms:
    _pyvc_symbolic = True

    def __init__(self, nonempty):
        self.nonempty = nonempty

    def sym_len(self):
        return SP.ite(self.nonempty, 1, 0)


def _solution_anchor(st):
    """the tail starts after the last top-level `<solution> = nsimplify(<solution>)`: found by that shape, whatever the local is called"""
    import ast
    if isinstance(st, ast.Assign) and isinstance(st.value, ast.Call) and getattr(st.value.func, "id", getattr(st.value.func, "attr", None)) == "nsimplify" \
            and len(st.value.args) == 1 and isinstance(st.value.args[0], ast.Name) and isinstance(st.targets[0], ast.Name) and st.targets[0].id == st.value.args[0].id:
        return "sol"
    return None


def _tail(name):
    reactants, products = LAY[name]

    @harness("C02", "tail.%s" % name, functions=[CH + ":balance_stoichiometry", CH + ":balance_stoichiometry.<locals>._x"], kind="shape-bounded", samples=0, max_paths=6000)
    def _(v):
        import sympy
        from chempy.chemistry import balance_stoichiometry
        species = reactants + products
        n = len(species)
        sol = [SNum(v, i) for i in range(n)]
        A = FakeMatrix([[v.int("A_%d_%d" % (i, j), lo=-3, hi=3) for j in range(n)] for i in range(2)])
        mode = v.choice("underdetermined", [True, False, None])
        v.stub(int, _int_stub)
        env = {"sol": sol, "A": A, "underdetermined": mode, "subst_keys": list(species), "reactants": list(reactants), "products": list(products), "sympy": sympy}
        try:
            res = v.call_tail(balance_stoichiometry, _solution_anchor, env)
        except ValueError:
            v.prove("refusal_is_always_allowed", True)
            return
        r, p = res
        # 'the set of keys equals the species given': a set per side, no order is demanded of the two mappings
        keys_ok = len(r) == len(reactants) and len(p) == len(products) and set(r.keys()) == set(reactants) and set(p.keys()) == set(products)
        v.prove("keys_are_exactly_the_given_species", keys_ok)
        if not keys_ok:
            return
        # looked up by key (not by position): the coefficient of species k is the solver's entry of k's column
        vals = [r[k] for k in reactants] + [p[k] for k in products]

        def is_entry(x, s):   # x is the entry s itself or int(s); for the symbolic stand-ins 'the same value' is: the same object, or provably equal reals
            y = x.of if isinstance(x, _IntOf) else x
            return True if y is s else (SP.conj([y.val == s.val, SP.iff(y.symbolic, s.symbolic)]) if isinstance(y, SNum) else False)
        v.prove("values_are_the_solver_entries_in_species_order", SP.conj([is_entry(x, s) for x, s in zip(vals, sol)]))
        # the balance and sign checks above the return were made on sol: what is returned may differ from it by an int() only where the
        # entries are integers by construction (mode None, Integer(...) of the ILP values); an int() in the other modes could truncate
        # a checked rational to an unchecked integer.  (Whether mode None hands out int or sympy Integer is not part of the property.)
        v.prove("smallest_integer_mode_returns_python_ints", all(isinstance(x, (_IntOf, SNum)) for x in vals) if mode is None else all(isinstance(x, SNum) for x in vals))
        v.prove("no_zero_coefficient", SP.conj([SP.neg(SP.conj([SP.neg(s.symbolic), s.val == 0])) for s in sol]))
        v.prove("no_negative_coefficient", SP.conj([SP.neg(SP.conj([SP.neg(s.symbolic), s.val < 0])) for s in sol]))
        if not mode:   # the two numeric modes
            v.prove("numeric_modes_have_no_free_symbols", SP.conj([SP.neg(s.symbolic) for s in sol]))
            v.prove("numeric_modes_are_balanced_A_sol_is_zero", SP.conj([sum(a * s.val for a, s in zip(row, sol)) == 0 for row in A.data]))
            v.prove("numeric_modes_are_strictly_positive", SP.conj([s.val > 0 for s in sol]))
        else:
            v.prove("symbolic_mode_has_no_nan", SP.conj([SP.neg(s.isnan) for s in sol]))
    return _


class _IntOf:
    def __init__(self, of):
        self.of = of


def _int_stub(interp, x=0, *a):
    if isinstance(x, SNum):
        return _IntOf(x)
    from pyvc.stubs import b_int
    return b_int(interp, x, *a)


for _n in LAY:
    _tail(_n)


def _numeric_answer_defects(res, reactants, products, comp, duplicates_may_vanish=False):
    """the numeric clauses of the property for ONE returned value, stated generically (no expected coefficients): a pair of mappings; the set of
    keys equals the species given, side by side; every coefficient a positive integer (int or anything that equals its int()); jointly coprime;
    every composition key (element / charge) sums to the same total on both sides, exactly (fractions).  `comp` holds hand-written compositions
    {species: {key: amount}}.  With duplicates_may_vanish a species given on BOTH sides may be kept on one side, on both, or on neither (see META,
    'reading'), every other species must be there.  Returns the list of violated clauses (empty: a valid answer)."""
    import math
    from fractions import Fraction
    try:
        r, p = res
        r, p = dict(r), dict(p)
    except Exception:
        return ["not a pair of mappings: %r" % (res,)]
    out = []
    both = set(reactants) & set(products) if duplicates_may_vanish else set()
    for side, got, given in (("reactants", r, set(reactants)), ("products", p, set(products))):
        if not (given - both <= set(got) <= given):
            out.append("keys of %s %s, given %s" % (side, sorted(got), sorted(given)))
    if not r or not p:
        out.append("an empty side")
    vals = list(r.values()) + list(p.values())
    ints = []
    for x in vals:
        try:
            ok = not isinstance(x, bool) and int(x) == x and int(x) >= 1
        except Exception:
            ok = False
        if not ok:
            out.append("coefficient %r is not a positive integer" % (x,))
        else:
            ints.append(int(x))
    if out:
        return out
    if math.gcd(*ints) != 1:
        out.append("coefficients %s have the common factor %d" % (ints, math.gcd(*ints)))
    tot = {}
    for got, sign in ((r, -1), (p, 1)):
        for k, x in got.items():
            for el, n_el in comp[k].items():
                tot[el] = tot.get(el, 0) + sign * int(x) * (n_el if isinstance(n_el, (int, Fraction)) else Fraction(repr(float(n_el))))
    out.extend("key %r not balanced (products - reactants = %s)" % (el, t) for el, t in tot.items() if t != 0)
    return out


@harness("C02", "duplicates_dispatch", functions=[CH + ":balance_stoichiometry"], kind="data")
def _(v):
    """'with and without duplicate species allowed': a species given on both sides.  The statement names one exception (ValueError) for 'no answer';
    which exception class a refusal of the duplicate machinery carries (ValueError, NotImplementedError) is not part of it, and where a valid
    answer exists the statement does not demand a refusal: so 'refused, or an answer that satisfies every numeric clause'."""
    from chempy.chemistry import balance_stoichiometry as bs
    H2O, O2, H2, H2O2, C_, CO, CO2 = {1: 2, 8: 1}, {8: 2}, {1: 2}, {1: 2, 8: 2}, {6: 1}, {6: 1, 8: 1}, {6: 1, 8: 2}   # by hand, not from the parser
    comp = {"H2O": H2O, "O2": O2, "H2": H2, "H2O2": H2O2, "C": C_, "CO": CO, "CO2": CO2}

    def outcome(*a, **k):
        try:
            return bs(*a, **k)
        except Exception as e:
            return type(e)

    def refused_or_valid(res, reac, prod):
        if isinstance(res, type):
            return issubclass(res, (ValueError, NotImplementedError)), res.__name__
        d = _numeric_answer_defects(res, reac, prod, comp, duplicates_may_vanish=True)
        return not d, "%r: %s" % (res, "; ".join(d))
    # H2O + O2 -> H2O + H2 has no balancing with H2 and O2 on these sides (H: 2a = 2c + 2d, O: a + 2b = c  =>  d = -2b), whichever way H2O is
    # kept or dropped: a refusal is the only right outcome, with or without the flag
    v.prove("both_sides_refused_by_default", (lambda res: isinstance(res, type) and issubclass(res, ValueError))(outcome({"H2O", "O2"}, {"H2O", "H2"})))
    res = outcome({"H2O", "O2"}, {"H2O", "H2"}, allow_duplicates=True)
    v.prove("allow_duplicates_needs_mode_None", isinstance(res, type) and issubclass(res, (ValueError, NotImplementedError)), repr(res))
    # H2O -> H2O: 1 -> 1 is a positive balancing, so an answer ({'H2O': 1}, {'H2O': 1}) would satisfy the statement as well as a refusal does
    res = outcome({"H2O"}, {"H2O"}, allow_duplicates=True, underdetermined=None)
    v.prove("identical_sides_refused", *refused_or_valid(res, {"H2O"}, {"H2O"}))
    r = outcome({"H2O2", "H2O"}, {"H2O", "O2"}, allow_duplicates=True, underdetermined=None)
    v.prove("duplicate_dropped_when_possible", r == ({"H2O2": 2}, {"O2": 1, "H2O": 2}) or r == (OrderedDict([("H2O2", 2)]), OrderedDict([("H2O", 2), ("O2", 1)])), repr(r))
    # reading of 'the set of keys equals the species given' for a species given on both sides (recorded in META): the answer may keep it on one
    # side, on both, or on neither; every species given on one side only is there; and the numeric clauses hold.  Each of these placements has
    # a positive balancing with the duplicate on one side or on neither (by hand: H2 + O2 -> H2O2 / 3 H2 + 2 O2 -> 2 H2O + H2O2;
    # 2 CO -> C + CO2; 2 CO + O2 -> 2 CO2), so an answer is due in the smallest-integers mode.
    for label, reac, prod in (("water_peroxide", {"H2", "O2", "H2O"}, {"H2O", "H2O2"}), ("docstring_C_CO", {"C", "CO"}, {"C", "CO", "CO2"}), ("two_duplicates", {"C", "CO", "O2"}, {"C", "CO", "CO2"})):
        res = outcome(reac, prod, allow_duplicates=True, underdetermined=None)
        if isinstance(res, type):
            v.prove("duplicates_answer_is_valid." + label, False, "refused (%s) although a positive balancing exists" % res.__name__)
        else:
            d = _numeric_answer_defects(res, reac, prod, comp, duplicates_may_vanish=True)
            v.prove("duplicates_answer_is_valid." + label, not d, "%r: %s" % (res, "; ".join(d)))


def _admits_positive_coefficients(coeffs):
    """do values of the free parameters exist that make every coefficient of the (affine) family positive?  LP: maximise eps subject to
    coefficient_i(x) >= eps, x_j >= eps, eps <= 1 (the parameters range over the positive reals, see META 'reading'); without parameters: all > 0"""
    import sympy
    from scipy.optimize import linprog
    syms = sorted({x for c in coeffs for x in sympy.sympify(c).free_symbols}, key=str)
    if not syms:
        return all(c > 0 for c in coeffs)
    rows, rhs = [], []
    for c in coeffs:                         # c(x) = a + b.x >= eps   <=>   -b.x + eps <= a
        c = sympy.expand(sympy.sympify(c))
        b = [float(c.coeff(x)) for x in syms]
        a = float(c.subs({x: 0 for x in syms}))
        rows.append([-bi for bi in b] + [1.0])
        rhs.append(a)
    for j in range(len(syms)):               # x_j >= eps
        rows.append([-1.0 if i == j else 0.0 for i in range(len(syms))] + [1.0])
        rhs.append(0.0)
    res = linprog([0.0] * len(syms) + [-1.0], A_ub=rows, b_ub=rhs, bounds=[(None, None)] * len(syms) + [(None, 1.0)])
    return bool(res.status == 0 and -res.fun > 1e-9)


@harness("C02", "fixed_reactions", functions=[CH + ":balance_stoichiometry", CH + ":_solve_balancing_ilp_pulp"], kind="data")
def _(v):
    from chempy.chemistry import balance_stoichiometry as bs
    def answer(*a, **k):   # the code under test must not take the harness down: an exception becomes a value that equals no expected answer
        try:
            r, p = bs(*a, **k)
            return dict(r), dict(p)
        except Exception as e:
            return repr(e)
    ok = []
    for mode in (True, False, None):
        ok.append(answer({"NH4ClO4", "Al"}, {"Al2O3", "HCl", "H2O", "N2"}, underdetermined=mode))
    v.prove("unique_ray_minimal_solution_in_all_modes", all(x == ({"NH4ClO4": 6, "Al": 10}, {"Al2O3": 5, "HCl": 6, "H2O": 9, "N2": 3}) for x in ok), repr(ok))
    res = answer({"C", "O2"}, {"CO", "CO2"}, underdetermined=None)
    v.prove("smallest_integers_mode", res == ({"C": 3, "O2": 2}, {"CO": 2, "CO2": 1}), repr(res))
    ok = []
    for mode in (True, False, None):
        try:
            bs({"C", "CO"}, {"CO2"}, underdetermined=mode); got = False
        except ValueError:
            got = True
        except Exception as e:
            got = repr(e)
        ok.append(got)
    v.prove("wrong_side_species_refused_in_all_modes", all(x is True for x in ok), repr(ok))
    # mode False on a placement with more than one ray (C + O2 -> CO + CO2): the statement demands nothing but 'no wrong answer'; the documented
    # behaviour is a ValueError, an answer that satisfies every numeric clause (e.g. 3, 2 -> 2, 1) would be as good
    try:
        res = bs({"C", "O2"}, {"CO", "CO2"}, underdetermined=False)
        d = _numeric_answer_defects(res, {"C", "O2"}, {"CO", "CO2"}, {"C": {6: 1}, "O2": {8: 2}, "CO": {6: 1, 8: 1}, "CO2": {6: 1, 8: 2}})
        got, det = not d, "%r: %s" % (res, "; ".join(d))
    except ValueError:
        got, det = True, "refused"
    except Exception as e:
        got, det = False, repr(e)
    v.prove("underdetermined_refused_when_disallowed", got, det)
    # compositions with four significant decimals must be balanced exactly (no rationalisation tolerance).  6 species, 5 elements, a single ray;
    # by hand: a X + b O2 -> c CaO + d FeO + e MgO + f CO2 with X = Ca2.832 Fe0.6285 Mg5.395 C6 O18:  c = 2.832 a, d = 0.6285 a = 1257 a / 2000,
    # e = 5.395 a, f = 6 a, O: 18 a + 2 b = c + d + e + 2 f = 20.8555 a  =>  b = 1.42775 a = 5711 a / 4000.  gcd(1257, 2000) = 1 and
    # gcd(5711, 4000) = 1, so the smallest positive integer solution is a = 4000 (and it is coprime, 5711 being odd and not a multiple of 5):
    # 4000 X + 5711 O2 -> 11328 CaO + 2514 FeO + 21580 MgO + 24000 CO2.  That unique minimal solution is due in every mode (the residual
    # alone would also pass for a multiple, a negative or a non-coprime vector, and the default mode has no residual guard of its own).
    # Stated for the default mode and mode False; NOT run in the smallest-integers mode: on an implementation that perturbs these rows
    # slightly (rationalisation with a tolerance: coefficients of 6-7 digits) CBC does not terminate, and a checker that hangs reports
    # nothing.  Decimals on the path nsimplify -> integer row -> CBC are covered by eight_decimal_compositions_balanced_as_given and by the
    # decimal / fractional matrices of numeric_clauses_on_small_matrices, whose coefficients stay small.
    import fractions
    from chempy.chemistry import Substance
    subs = {k: Substance.from_formula(k) for k in ("Ca2.832Fe0.6285Mg5.395(CO3)6", "O2", "CaO", "FeO", "MgO", "CO2")}
    want4 = ({"Ca2.832Fe0.6285Mg5.395(CO3)6": 4000, "O2": 5711}, {"CaO": 11328, "FeO": 2514, "MgO": 21580, "CO2": 24000})
    bad4 = []
    for mode in (True, False):
        try:
            r, p = bs({"Ca2.832Fe0.6285Mg5.395(CO3)6", "O2"}, {"CaO", "FeO", "MgO", "CO2"}, substances=subs, underdetermined=mode)
            coef = {**{k: -fractions.Fraction(int(x)) for k, x in r.items()}, **{k: fractions.Fraction(int(x)) for k, x in p.items()}}
            resid = {}
            for k, c in coef.items():
                for el, n in subs[k].composition.items():
                    resid[el] = resid.get(el, 0) + c * fractions.Fraction(repr(float(n)))
            if (dict(r), dict(p)) != want4 or any(x != 0 for x in resid.values()):
                bad4.append("mode %s: %s -> %s, residuals %s" % (mode, dict(r), dict(p), {k: str(x) for k, x in resid.items() if x}))
        except Exception as e:
            bad4.append("mode %s: %r" % (mode, e))
    v.prove("four_decimal_compositions_balanced_exactly", not bad4, "; ".join(bad4))
    # more than ten species in the 'smallest integers' mode (solver variable order vs matrix columns)
    reac = ["A%d" % i for i in range(1, 7)]
    prod = ["B%d" % i for i in range(1, 7)]
    comp = {}
    for i, (a, b) in enumerate(zip(reac, prod)):
        comp[a] = Substance(a, composition={i + 1: 1, 20: 1})
        comp[b] = Substance(b, composition={i + 1: 1} if i < 5 else {i + 1: 1, 20: 6})
    # element i: a_i = b_i; element 20: a_1+..+a_6 = 6 b_6  ->  the only positive solution of minimal sum is all ones
    try:
        r12, p12 = bs(reac, prod, substances=comp, underdetermined=None)
        tot = {}
        for k, c in list(r12.items()):
            for el, n in comp[k].composition.items():
                tot[el] = tot.get(el, 0) - c * n
        for k, c in list(p12.items()):
            for el, n in comp[k].composition.items():
                tot[el] = tot.get(el, 0) + c * n
        ok12 = all(x == 0 for x in tot.values()) and all(int(c) == 1 for c in list(r12.values()) + list(p12.values()))
        det = "%s -> %s" % (dict(r12), dict(p12))
    except Exception as e:
        ok12, det = False, repr(e)
    try:
        rT, pT = bs(reac, prod, substances=comp, underdetermined=True)
        sameT = "answered"
    except Exception as e:
        sameT = repr(e)
    v.prove("twelve_species_smallest_integers_mode", ok12, det + " | mode True: " + sameT)
    # single ray with eleven species and pairwise different coefficients: the modes must agree on it
    packs = [12, 4, 30, 20, 8, 6, 50, 25, 10, 16]
    recipe = [3, 2, 4, 2, 1, 1, 1, 1, 1, 1]
    comp11 = {"R%02d" % i: Substance("R%02d" % i, composition={i + 1: n}) for i, n in enumerate(packs)}
    comp11["P"] = Substance("P", composition={i + 1: n for i, n in enumerate(recipe)})
    want = {"R%02d" % i: fractions.Fraction(1200 * q, n) for i, (n, q) in enumerate(zip(packs, recipe))}
    res11 = {}
    for mode in (None, False, True):
        try:
            r11, p11 = bs(sorted(k for k in comp11 if k != "P"), ["P"], substances=comp11, underdetermined=mode)
            res11[mode] = ({k: fractions.Fraction(int(x)) for k, x in r11.items()} == want and {k: int(x) for k, x in p11.items()} == {"P": 1200},
                           "%s -> %s" % (dict(r11), dict(p11)))
        except Exception as e:
            res11[mode] = (False, repr(e))
    v.prove("eleven_species_single_ray_modes_agree", all(ok for ok, _ in res11.values()), "; ".join("%s: %s" % (m, d) for m, (ok, d) in res11.items() if not ok))
    # exact rationals with large denominators are balanced as given (no rounding of the composition matrix)
    big = {"A": Substance("A", composition={1: fractions.Fraction(1000001, 3000000)}), "B": Substance("B", composition={1: fractions.Fraction(1000001, 1000000)})}
    okbig = []
    for mode in (True, False, None):
        try:
            rb, pb = bs(["A"], ["B"], substances=big, underdetermined=mode)
            okbig.append((dict(rb), dict(pb)) == ({"A": 3}, {"B": 1}))
        except Exception as e:
            okbig.append(repr(e))
    v.prove("large_denominator_compositions_balanced_as_given", okbig == [True, True, True], detail=repr(okbig))
    dec = {"A": Substance("A", composition={1: 0.94700001, 8: 1}), "B": Substance("B", composition={1: 1.89400002, 8: 2})}
    # 2 * 0.94700001 = 1.89400002 and 2 * 1 = 2 in the decimals as written: the single ray 2 A -> B, in all three modes
    okdec = [answer(["A"], ["B"], substances=dec, underdetermined=mode) for mode in (True, False, None)]
    v.prove("eight_decimal_compositions_balanced_as_given", all(x == ({"A": 2}, {"B": 1}) for x in okdec), detail=repr(okdec))
    # seven decimals where rounding to fewer digits changes the answer: the decimals as written decide (the two modes without the ILP)
    seven = []
    for mode in (True, False):
        for subs7, reac7, prod7, want7 in (({"A": Substance("A", composition={1: 0.3333333}), "B": Substance("B", composition={1: 1})}, ["A"], ["B"], ({"A": 10000000}, {"B": 3333333})),
                                           ({"A": Substance("A", composition={1: 1.2345678, 2: 1}), "B": Substance("B", composition={1: 1}), "C": Substance("C", composition={2: 1})}, ["A"], ["B", "C"],
                                            ({"A": 5000000}, {"B": 6172839, "C": 5000000}))):
            try:
                r7, p7 = bs(reac7, prod7, substances=subs7, underdetermined=mode)
                if (dict(r7), dict(p7)) != want7:
                    seven.append((mode, dict(r7), dict(p7)))
            except Exception as e:
                seven.append((mode, repr(e)[:80]))
    v.prove("seven_decimal_compositions_balanced_as_written", not seven, detail=repr(seven[:2]))
    # nothing is remembered between calls: the same keys with another substance_factory are balanced against THAT factory's compositions
    lab_a, lab_b = {"ox": {8: 3}, "atom": {8: 1}}, {"ox": {8: 2}, "atom": {8: 1}}
    fa = lambda k: Substance(k, composition=dict(lab_a[k]))
    fb = lambda k: Substance(k, composition=dict(lab_b[k]))
    seq = []
    for fac in (fa, fb, fa):
        rr, pp = bs(["ox"], ["atom"], substance_factory=fac)
        seq.append((dict(rr), dict(pp)))
    v.prove("no_state_between_calls", seq == [({"ox": 1}, {"atom": 3}), ({"ox": 1}, {"atom": 2}), ({"ox": 1}, {"atom": 3})], detail=repr(seq))
    # default (symbolic) mode: an answer with free parameters must admit positive parameter values that make every coefficient positive;
    # when no assignment of positive coefficients balances the species as placed, a ValueError is due, not an answer
    feasible = _admits_positive_coefficients
    # Reading: the parameters range over the positive REALS ('some assignment of positive coefficients'); chempy declares its symbols
    # integer=True, positive=True, and e.g. H2O -> H+ + OH- + H3O+ comes back with H+: 1 - x1, positive for no positive integer x1 but for
    # x1 = 1/2 - under an integer reading that answer would be a finding (reported to the maintainer, not stated here).
    # has_positive_solution is decided by hand: carbonate / formic: see F-C02c; two_oxides 3 C + 2 O2 -> 2 CO + CO2; iron_oxides
    # 3 Fe + 2 O2 -> FeO + Fe2O3; three_parameters (a 3-dimensional family, the per-symbol normalisation loops of the code do real work only
    # from two parameters on) 3 C + 2 O2 + 3 H2 -> CO + CO2 + H2O + CH4; water_ions (2-dimensional, a charge row) 3 H2O -> H+ + 2 OH- + H3O+.
    # A refusal (ValueError) of a placement with several rays is allowed in this mode: the statement promises an answer only for a single ray
    # and for the smallest-integers mode (refusals of feasible placements by the parametric mode are documented behaviour, DESIGN section 9).
    # 'when no assignment of positive coefficients balances the species as placed, a ValueError is raised rather than an answer', for
    # under-determined placements (parameters survive) in which one coefficient is MINUS a sum of others, whatever the parameters - by hand:
    #   coal_gas           a C + b CO + c H2 -> d CO2 + e H2O:   C: a + b = d,  O: b = 2 d + e            =>  a = -(d + e)
    #   coal_gas_reversed  a CO2 + b H2O -> c C + d CO + e H2:   C: a = c + d,  O: 2 a + b = d            =>  c = -(a + b)
    #   coal_gas_ammonia   the first one with N2 among the reactants and NH3 among the products (three parameters): still a = -(d + e)
    #   sulfur             a SO3 + b H2O -> c S + d SO2 + e H2:  S: a = c + d,  O: 3 a + b = 2 d          =>  c = -(a + b) / 2
    for label, (rs_, ps_), has_positive_solution in (("carbonate", (["H+", "H2O", "HCO3-"], ["CO2", "OH-"]), False), ("formic", (["CH3OH", "H2CO3", "HCOOH"], ["C2H4", "H2O"]), False),
                                                     ("coal_gas", (["C", "CO", "H2"], ["CO2", "H2O"]), False), ("coal_gas_reversed", (["CO2", "H2O"], ["C", "CO", "H2"]), False),
                                                     ("coal_gas_ammonia", (["C", "CO", "H2", "N2"], ["CO2", "H2O", "NH3"]), False), ("sulfur", (["SO3", "H2O"], ["S", "SO2", "H2"]), False),
                                                     ("two_oxides", (["C", "O2"], ["CO", "CO2"]), True), ("iron_oxides", (["Fe", "O2"], ["FeO", "Fe2O3"]), True),
                                                     ("three_parameters", (["C", "O2", "H2"], ["CO", "CO2", "H2O", "CH4"]), True), ("water_ions", (["H2O"], ["H+", "OH-", "H3O+"]), True)):
        try:
            rr, pp = bs(rs_, ps_)
            okf, det = feasible(list(rr.values()) + list(pp.values())), "%s -> %s" % (dict(rr), dict(pp))
            if okf and not has_positive_solution:
                okf, det = False, "the answer %s is called feasible by the LP, by hand the placement has no positive balancing" % det
        except ValueError as e:
            rr = pp = None
            okf, det = True, "refused: %s" % e
        except Exception as e:
            rr = pp = None
            okf, det = False, repr(e)
        v.prove("default_mode_answer_admits_positive_coefficients." + label, okf, detail=det)
        if rr is not None:
            # 'balanced identically in any free parameter': the signed element totals vanish as polynomials in the parameters
            import sympy
            from chempy.chemistry import Substance as _S
            tot = {}
            for side, sign in ((rr, -1), (pp, 1)):
                for key, coeff in side.items():
                    for el, n_el in _S.from_formula(key).composition.items():
                        tot[el] = tot.get(el, 0) + sign * sympy.sympify(coeff) * n_el
            v.prove("default_mode_answer_is_balanced_identically." + label, all(sympy.expand(x) == 0 for x in tot.values()), detail=repr({k: str(x) for k, x in tot.items() if sympy.expand(x) != 0}))
            v.prove("default_mode_answer_has_the_given_species." + label, set(rr) == set(rs_) and set(pp) == set(ps_) and len(rr) == len(rs_) and len(pp) == len(ps_), detail="%s -> %s" % (list(rr), list(pp)))
    res = answer(["H3.5", "HO2Cl3.5"], ["HO2.5", "H2.5Cl"])
    v.prove("fractional_compositions_balanced_exactly", res == ({"H3.5": 171, "HO2Cl3.5": 70}, {"HO2.5": 56, "H2.5Cl": 245}), repr(res))


def _small_matrices():
    """40 small signed composition matrices (rows: composition keys, columns: species, reactant columns negated) with the number of reactant
    columns: 6 written by hand, 34 drawn with a fixed seed.  About half have a positive integer solution, null-space dimensions 1 to 4."""
    import random
    rng = random.Random(2)
    mats = [([[-1, 0, 1, 1], [0, -2, 1, 2]], 2), ([[-1, 0, 1, 2], [0, -2, 1, 3]], 2), ([[-2, 0, 2], [0, -2, 1]], 2), ([[-1, -1, 2]], 2), ([[1, 1, 1]], 0), ([[-3, 0, 1], [0, -3, 2], [-1, -1, 1]], 2)]
    while len(mats) < 40:
        r, c = rng.choice([1, 2, 2, 3]), rng.choice([3, 4, 4, 5])
        nreac = rng.randint(1, c - 1)
        mats.append(([[(-1 if j < nreac else 1) * rng.choice([0, 0, 1, 1, 2, 3]) for j in range(c)] for _ in range(r)], nreac))
    return mats


@harness("C02", "smallest_integers_helper", functions=["chempy.chemistry:_solve_balancing_ilp_pulp"], kind="data")
def _(v):
    """chempy's own integer program (x >= 1 integer, A x = 0, minimise sum x; the solver CBC is external) against an independent brute force over
    small signed composition matrices: the returned vector is feasible and has the brute-force minimal coefficient sum; for an infeasible matrix the
    returned vector is not a solution (so that the caller's residual check must refuse it)"""
    import itertools
    import random
    import sympy
    from chempy.chemistry import _solve_balancing_ilp_pulp
    cases, bad, infeasible = 0, [], 0
    for rows, _nreac in _small_matrices():
        A = sympy.Matrix(rows)
        n = A.shape[1]
        best = None
        for x in itertools.product(range(1, 9), repeat=n):
            if all(sum(a * b for a, b in zip(row, x)) == 0 for row in rows):
                if best is None or sum(x) < sum(best):
                    best = x
        try:
            got = _solve_balancing_ilp_pulp(A)
        except Exception as ex:
            got = repr(ex)
        cases += 1
        is_solution = isinstance(got, list) and all(g is not None and abs(g - round(g)) < 1e-9 and round(g) >= 1 for g in got) and all(sum(a * round(b) for a, b in zip(row, got)) == 0 for row in rows)
        if best is not None:
            if not is_solution or sum(round(g) for g in got) != sum(best):
                bad.append((rows, got, best))
        else:
            # nothing with coefficients <= 8: either truly infeasible (then no solution may be claimed) or a larger solution (then it must be one)
            infeasible += 1
            if isinstance(got, list) and not is_solution and all(g is not None for g in got) and all(sum(a * round(b) for a, b in zip(row, got)) == 0 for row in rows):
                bad.append((rows, got, "claimed"))
    v.prove("feasible_matrices_get_a_solution_of_minimal_coefficient_sum", not bad, detail=repr(bad[:3]))
    v.prove("both_kinds_exercised", cases == 40 and 3 <= infeasible <= 37, detail="%d infeasible of %d" % (infeasible, cases))


@harness("C02", "bystanders_and_exact_ilp_rows", functions=[CH + ":balance_stoichiometry", CH + ":_solve_balancing_ilp_pulp"], kind="data")
def _(v):
    """(a) 'for a reaction whose balanced solutions form a single ray the result is that unique minimal solution in all modes': a `substances`
    mapping (or string) may describe more species than the reaction uses; a bystander's elements are not elements of the reaction and do not
    make the pre-check refuse it; (b) 'the smallest-integers mode returns a positive solution of minimal coefficient sum', also when a
    composition is a non-terminating fraction (1/3): the optimum 3 R -> 9 P0 + 2 P1 + P2 (sum 15), checked against brute force, not its double"""
    import itertools
    from collections import OrderedDict
    from fractions import Fraction as Fr
    from chempy.chemistry import balance_stoichiometry, Substance
    out = {}
    for mode in (True, False, None):
        for label, subs in (("string", "H2 O2 H2O N2 NaCl"), ("mapping", OrderedDict((k, Substance.from_formula(k)) for k in ("N2", "H2", "O2", "NaCl", "H2O")))):
            try:
                r, p = balance_stoichiometry(["H2", "O2"], ["H2O"], substances=subs, underdetermined=mode)
                if (dict(r), dict(p)) != ({"H2": 2, "O2": 1}, {"H2O": 2}):
                    out[(mode, label)] = (dict(r), dict(p))
            except Exception as ex:
                out[(mode, label)] = repr(ex)[:80]
    v.prove("bystander_species_in_substances", not out, detail=repr(out))
    for label, half in (("fraction", Fr(1, 2)), ("float", 0.5)):
        s = {"R": Substance("R", composition={1: 4, 2: Fr(1, 3)}), "P0": Substance("P0", composition={1: 1}), "P1": Substance("P1", composition={1: 1, 2: half}), "P2": Substance("P2", composition={1: 1})}
        best = None
        for xs in itertools.product(range(1, 13), repeat=4):
            if 4 * xs[0] == xs[1] + xs[2] + xs[3] and Fr(1, 3) * xs[0] == Fr(1, 2) * xs[2]:
                if best is None or sum(xs) < sum(best):
                    best = xs
        try:
            r, p = balance_stoichiometry(["R"], ["P0", "P1", "P2"], substances=s, underdetermined=None)
            got = (r["R"], p["P0"], p["P1"], p["P2"])
            # 'a POSITIVE solution of minimal coefficient sum': without the positivity (3, 10, 2, 0) or a signed vector of sum 15 would pass.
            # x1 / 3 = x3 / 2 forces R = 3 k, P1 = 2 k; k = 1 leaves P0 + P2 = 10 with both >= 1, sum 15 whichever way it is split: the
            # minimum is 15 and is attained by (3, m, 2, 10 - m), m = 1..9 (brute force names one of them)
            positive = all(not isinstance(g, bool) and int(g) == g and int(g) >= 1 for g in got)
            ok, det = positive and sum(got) == sum(best) == 15 and 4 * got[0] == got[1] + got[2] + got[3] and Fr(1, 3) * got[0] == Fr(1, 2) * got[2], "%r brute force %r" % (got, best)
        except Exception as ex:
            ok, det = False, repr(ex)[:120]
        v.prove("minimal_sum_with_a_non_terminating_fraction." + label, ok, detail=det)


@harness("C02", "minimal_sum_with_large_coefficients", functions=[CH + ":balance_stoichiometry", CH + ":_solve_balancing_ilp_pulp"], kind="data")
def _(v):
    """'the smallest-integers mode returns a positive solution of minimal coefficient sum' - the coefficient sum itself, not a weighted, perturbed or
    tie-broken variant of it: placements with two positive solutions whose sums differ by 1 or 2 while single coefficients differ by several
    hundred.  Two building blocks of nearly equal size (u and w units of one element, gcd(u, w) = 1) and `ncaps` capping species (one element
    each) make up one chain with N = u a0 + w c0 units and one cap of each kind, in both directions (chain built / chain split) and with the
    blocks given in either order.  By hand: a S + c L + sum b_i cap_i <-> p chain means u a + w c = N p, b_i = p.  p = 1: (a, c) =
    (a0 + w t, c0 - u t), t >= 0 (a0 <= w), coefficient sum a0 + c0 + ncaps + 1 + (w - u) t, least for t = 0; p >= 2: a + c >= N p / w >=
    2 (u a0 + w c0) / w > 2 c0 > a0 + c0 (c0 > a0).  So the minimal coefficient sum is a0 + c0 + ncaps + 1, and c0 > u makes the runner-up
    (t = 1, sum larger by w - u) a positive solution as well.  The sum is cross-checked by enumeration (p <= w S0 / N because N p <= w (a + c)
    <= w S0 for every solution of sum <= S0).  Coefficients stay below 2000: CBC answers at once."""
    import sympy
    from chempy.chemistry import balance_stoichiometry, Substance, _solve_balancing_ilp_pulp
    bad = {"oracle": [], "helper": [], "balance": []}
    ncases = 0
    #        u     w     a0  c0    ncaps
    for u, w, a0, c0, ncaps in ((700, 701, 1, 900, 1), (1500, 1501, 2, 1600, 2), (999, 1001, 1, 1200, 3), (350, 351, 3, 800, 0), (40, 41, 5, 90, 1)):
        N = u * a0 + w * c0
        want = a0 + c0 + ncaps + 1
        best = None
        for p_ in range(1, w * want // N + 1):
            for c_ in range(1, N * p_ // w + 1):
                a_, rem = divmod(N * p_ - w * c_, u)
                if rem == 0 and a_ >= 1 and (best is None or a_ + c_ + p_ * (1 + ncaps) < best):
                    best = a_ + c_ + p_ * (1 + ncaps)
        if best != want or not (a0 <= w and a0 < c0 and c0 > u):
            bad["oracle"].append(((u, w, a0, c0, ncaps), want, best))
            continue
        caps = ["cap%d" % i for i in range(ncaps)]
        comp = {"S": {1: u}, "L": {1: w}, "chain": {1: N}}
        for i, k in enumerate(caps):
            comp[k] = {10 + i: 1}
            comp["chain"][10 + i] = 1
        subs = {k: Substance(k, composition=dict(c)) for k, c in comp.items()}
        for blocks in (["S"] + caps + ["L"], ["L"] + caps + ["S"], caps + ["S", "L"]):
            for reac, prod in ((blocks, ["chain"]), (["chain"], blocks)):
                ncases += 1
                tag = ((u, w, a0, c0, ncaps), reac, prod)
                species = reac + prod
                rows = [[comp[k].get(el, 0) * (-1 if j < len(reac) else 1) for j, k in enumerate(species)] for el in [1] + [10 + i for i in range(ncaps)]]
                is_solution = lambda x: all(sum(a * b for a, b in zip(row, x)) == 0 for row in rows)
                # the helper on the signed composition matrix (what balance_stoichiometry hands it, see head.*)
                try:
                    got = _solve_balancing_ilp_pulp(sympy.Matrix(rows))
                    x = [int(round(g)) for g in got]
                    if not (all(abs(g - xi) < 1e-9 and xi >= 1 for g, xi in zip(got, x)) and is_solution(x)):
                        bad["helper"].append(tag + ("not a positive integer solution: %r" % (got,),))
                    elif sum(x) != want:
                        bad["helper"].append(tag + ("%s has the coefficient sum %d, the minimum is %d" % (dict(zip(species, x)), sum(x), want),))
                except Exception as e:
                    bad["helper"].append(tag + (repr(e)[:100],))
                try:
                    res = balance_stoichiometry(list(reac), list(prod), substances=subs, underdetermined=None)
                    d = _numeric_answer_defects(res, reac, prod, comp)
                    if d:
                        bad["balance"].append(tag + ("%r: %s" % (res, "; ".join(d)),))
                    else:
                        r, p = res
                        tot = sum(int(c) for c in list(r.values()) + list(p.values()))
                        if tot != want:
                            bad["balance"].append(tag + ("%s -> %s has the coefficient sum %d, the minimum is %d" % (dict(r), dict(p), tot, want),))
                except Exception as e:
                    bad["balance"].append(tag + (repr(e)[:100],))
    v.prove("hand_derived_minimum_confirmed_by_enumeration", not bad["oracle"] and ncases == 30, detail="%d cases, %r" % (ncases, bad["oracle"][:3]))
    v.prove("helper_returns_a_positive_solution_of_minimal_coefficient_sum", not bad["helper"], detail=repr(bad["helper"][:3]))
    v.prove("smallest_integers_mode_returns_a_valid_answer_of_minimal_coefficient_sum", not bad["balance"], detail=repr(bad["balance"][:3]))


def _rank(rows):
    """rank by exact elimination over fractions"""
    from fractions import Fraction as Fr
    m, rk = [[Fr(x) for x in r] for r in rows], 0
    for col in range(len(m[0]) if m else 0):
        piv = next((i for i in range(rk, len(m)) if m[i][col] != 0), None)
        if piv is None:
            continue
        m[rk], m[piv] = m[piv], m[rk]
        for i in range(len(m)):
            if i != rk and m[i][col] != 0:
                f = m[i][col] / m[rk][col]
                m[i] = [a - f * b for a, b in zip(m[i], m[rk])]
        rk += 1
    return rk


def _has_positive_solution(rows):
    """is there x > 0 (componentwise, real) with rows . x = 0?  LP: maximise t subject to rows . x = 0, x_j >= t, t <= 1"""
    from scipy.optimize import linprog
    n = len(rows[0])
    res = linprog([0.0] * n + [-1.0], A_eq=[[float(a) for a in row] + [0.0] for row in rows], b_eq=[0.0] * len(rows),
                  A_ub=[[-1.0 if i == j else 0.0 for i in range(n)] + [1.0] for j in range(n)], b_ub=[0.0] * n, bounds=[(None, None)] * n + [(None, 1.0)])
    return bool(res.status == 0 and -res.fun > 1e-9)


@harness("C02", "numeric_clauses_on_small_matrices", functions=[CH + ":balance_stoichiometry", CH + ":_solve_balancing_ilp_pulp"], kind="data")
def _(v):
    """The numeric clauses, stated generically for whatever balance_stoichiometry itself returns (the tail slice has them for the guards only, the
    fixed reactions only as equality with literals): synthetic species whose compositions are the columns of small signed matrices - the 40 of
    `smallest_integers_helper` plus hand-written ones with a charge-type row (mixed signs on one side) and with fractional / decimal entries -
    are balanced in all three modes, and every outcome is held against an oracle that shares nothing with chempy (brute force over coefficients
    1..8, exact rank, an LP for 'a positive solution exists'):
      * every return: the set of keys equals the species given; without free symbols: positive integers, jointly coprime, A x = 0 exactly;
        with free symbols (default mode): A x = 0 identically in them;
      * null space of dimension 1 with a positive vector ('a single ray'): exactly the brute-force minimal solution, in all modes;
      * smallest-integers mode, a positive solution exists: an answer, of the brute-force minimal coefficient sum;
      * no positive solution: ValueError in all three modes (in the default mode also when parameters survive: a family that is balanced identically
        has no member with positive coefficients then; the two F-C02c reactions of fixed_reactions are the known exceptions, none of these matrices is);
        a family that is returned admits values of its parameters that make every coefficient positive (LP);
      * mode False / default mode on several rays: a ValueError or a valid answer; any other exception is a failure.
    Scope: every species has at least one composition key (a matrix with a zero column is left out: species without any composition are a
    recorded observation of the first review, not this clause)."""
    import itertools
    import math
    import sympy
    from fractions import Fraction as Fr
    from chempy.chemistry import balance_stoichiometry, Substance
    extra = [
        ([[-1, -1, 2], [0, -1, 1], [-1, 1, 0]], 2),                  # H+ + OH- -> H2O with the charge row (+1, -1 | 0): 1, 1 -> 1
        ([[-1, 0, 1], [-3, 1, 2]], 2),                               # Fe+3 + e- -> Fe+2: 1, 1 -> 1
        ([[-1, 0, 0, 1, 0, 0], [-4, 0, 0, 0, 0, 1], [0, -1, 0, 0, 1, 0], [0, 0, -1, 0, 0, 2], [1, -2, -1, 2, 3, 0]], 3),   # MnO4- + 5 Fe+2 + 8 H+ -> Mn+2 + 5 Fe+3 + 4 H2O
        ([[-1, 1, 0], [1, -1, 0], [0, -1, 1]], 1),                   # the last key is absent among the reactants and has mixed signs among the products (passes the pre-check): x0 = x1, x1 = x2: 1 -> 1, 1
        ([[-Fr(1, 2), 0, 1], [0, -Fr(3, 2), 1]], 2),                 # x0 / 2 = x2, 3 x1 / 2 = x2: 6, 2 -> 3
        ([[-0.5, 0, 1], [0, -1.5, 1]], 2),                           # the same in decimals
        ([[-Fr(1, 3), -1, 1], [-1, 0, Fr(1, 2)]], 2),                # x0 = x2 / 2, x0 / 3 + x1 = x2: x2 = 2 x0, x1 = 5 x0 / 3: 3, 5 -> 6
        ([[-1, 2, 1], [1, 1, -2]], 1),                               # mixed signs on both sides: -x0 + 2 x1 + x2 = 0, x0 + x1 - 2 x2 = 0; adding them x2 = 3 x1, then x0 = 5 x1: 5 -> 1, 3
        ([[-1, 1, 1], [-1, 1, -1]], 1),                              # the difference of the rows forces x2 = 0: no positive solution although every key is on both sides (passes the pre-check)
        ([[-1, -1, 0, 1, 0], [0, -1, 0, 2, 1], [0, 0, -2, 0, 2]], 3),   # C + CO + H2 -> CO2 + H2O (rows C, O, H): x0 = x3 - x1 = -(x3 + x4), two dimensions, no positive solution, passes the pre-check
        ([[-1, 0, 1, 1, 0], [-2, -1, 0, 1, 0], [0, -2, 0, 0, 2]], 2),   # the same species with the sides exchanged: x2 = x0 - x3 = -(x0 + x1)
        ([[-1, -1, 1, 0], [-1, -2, 0, 1], [-2, -3, 1, 1]], 2),          # third row = sum of the first two (rank 2, two dimensions): x2 = x0 + x1, x3 = x0 + 2 x1, e.g. 1, 1 -> 2, 3 (sum 7)
    ]
    cases, seen = [], {"single_ray": 0, "several_rays": 0, "no_positive_solution": 0, "answers": 0, "symbolic_answers": 0, "no_positive_solution_with_parameters": 0}
    bad = {"keys": [], "numeric": [], "identically": [], "single_ray": [], "minimal_sum": [], "refusal": [], "exception": [], "oracle": [], "positive_family": []}
    for rows, nreac in _small_matrices() + extra:
        n = len(rows[0])
        if any(all(row[j] == 0 for row in rows) for j in range(n)):
            continue
        exact = [[Fr(repr(a)) if isinstance(a, float) else Fr(a) for a in row] for row in rows]
        scaled = [[int(a * math.lcm(*[c.denominator for c in row])) for a in row] for row in exact]    # the same equations with integer coefficients
        best = None
        for x in itertools.product(range(1, 9), repeat=n):
            if all(sum(a * b for a, b in zip(row, x)) == 0 for row in scaled):
                if best is None or sum(x) < sum(best):
                    best = x
        nullity, positive = n - _rank(exact), _has_positive_solution(exact)
        if (best is not None and not positive) or (positive and nullity == 1 and best is None):
            bad["oracle"].append((rows, best, positive, nullity))      # the oracles disagree, or the single ray lies outside the brute-force box
            continue
        keys = ["S%d" % j for j in range(n)]
        reac, prod = keys[:nreac], keys[nreac:]
        subs = OrderedDict((k, Substance(k, composition={i + 1: rows[i][j] * (-1 if j < nreac else 1) for i in range(len(rows)) if rows[i][j] != 0})) for j, k in enumerate(keys))
        cases.append(rows)
        seen["single_ray" if (positive and nullity == 1) else "several_rays" if positive else "no_positive_solution"] += 1
        seen["no_positive_solution_with_parameters"] += (not positive and nullity >= 2)
        for mode in (None, False, True):
            tag = (rows, nreac, mode)
            try:
                r, p = balance_stoichiometry(list(reac), list(prod), substances=subs, underdetermined=mode)
            except ValueError as e:
                if positive and (mode is None or nullity == 1):
                    bad["refusal"].append(tag + ("refused (%s) although %s balances" % (e, best),))
                continue
            except Exception as e:
                bad["exception"].append(tag + (repr(e)[:100],))
                continue
            try:
                if not (set(r) == set(reac) and set(p) == set(prod) and len(r) == len(reac) and len(p) == len(prod)):
                    bad["keys"].append(tag + (list(r), list(p)))
                    continue
                x = [r[k] for k in reac] + [p[k] for k in prod]
                symbolic = any(getattr(c, "free_symbols", None) for c in x)
                if symbolic and mode is not True:
                    bad["numeric"].append(tag + ("free symbols in a numeric mode: %s" % (x,),))
                    continue
                if symbolic:
                    seen["symbolic_answers"] += 1
                    resid = [sympy.expand(sum(sympy.Rational(a.numerator, a.denominator) * sympy.sympify(c) for a, c in zip(row, x))) for row in exact]
                    if any(t != 0 for t in resid):
                        bad["identically"].append(tag + (str(x), str(resid)))
                    elif not positive:   # balanced identically and no positive solution: no value of the parameters makes every coefficient positive
                        bad["refusal"].append(tag + ("answered with the family %s although no positive solution exists" % (x,),))
                    elif not _admits_positive_coefficients(x):
                        bad["positive_family"].append(tag + (str(x),))
                    continue
                seen["answers"] += 1
                d = _numeric_answer_defects((r, p), reac, prod, {k: {i: a for i, a in subs[k].composition.items()} for k in keys})
                if d:
                    bad["numeric"].append(tag + (str(x), "; ".join(d)))
                    continue
                x = tuple(int(c) for c in x)
                if not positive:
                    bad["refusal"].append(tag + ("answered %s although no positive solution exists" % (x,),))
                elif nullity == 1 and x != best:
                    bad["single_ray"].append(tag + (x, best))
                elif mode is None and best is not None and sum(x) != sum(best):
                    bad["minimal_sum"].append(tag + (x, best))
            except Exception as e:
                bad["exception"].append(tag + ("while checking %r -> %r: %r" % (r, p, e),))
    v.prove("oracles_agree_and_cover_the_single_rays", not bad["oracle"], detail=repr(bad["oracle"][:3]))
    v.prove("keys_are_the_given_species", not bad["keys"], detail=repr(bad["keys"][:3]))
    v.prove("numeric_answers_are_positive_integers_coprime_and_balanced", not bad["numeric"], detail=repr(bad["numeric"][:3]))
    v.prove("symbolic_answers_are_balanced_identically", not bad["identically"], detail=repr(bad["identically"][:3]))
    v.prove("single_ray_gives_the_minimal_solution_in_all_modes", not bad["single_ray"], detail=repr(bad["single_ray"][:3]))
    v.prove("smallest_integers_mode_has_the_minimal_coefficient_sum", not bad["minimal_sum"], detail=repr(bad["minimal_sum"][:3]))
    v.prove("symbolic_answers_admit_positive_coefficients", not bad["positive_family"], detail=repr(bad["positive_family"][:3]))
    v.prove("answers_exactly_when_due_else_ValueError", not bad["refusal"], detail=repr(bad["refusal"][:3]))
    v.prove("no_exception_other_than_ValueError", not bad["exception"], detail=repr(bad["exception"][:3]))
    v.prove("all_kinds_exercised", len(cases) >= 25 and seen["single_ray"] >= 8 and seen["several_rays"] >= 6 and seen["no_positive_solution"] >= 8 and seen["answers"] >= 3 * seen["single_ray"] + seen["several_rays"] and seen["no_positive_solution_with_parameters"] >= 5 and seen["symbolic_answers"] >= 5, detail="%d cases, %r" % (len(cases), seen))
