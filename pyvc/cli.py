"""vcheck command line: ./vcheck <ID> [--tier quick|thorough] [--repo DIR] | --replay FILE | --list"""
from __future__ import annotations

import argparse
import hashlib
import importlib
import json
import multiprocessing as mp
import os
import sys
import time
import traceback

VERIF = os.path.dirname(os.path.dirname(os.path.abspath(__file__)))


def setup_repo(repo):
    repo = os.path.realpath(repo)
    sys.path.insert(0, repo)
    if VERIF not in sys.path:
        sys.path.insert(1, VERIF)
    import warnings
    warnings.simplefilter("ignore")
    import chempy
    if not os.path.realpath(chempy.__file__).startswith(repo + os.sep):
        print("vcheck: chempy imported from %s, not from %s" % (chempy.__file__, repo), file=sys.stderr)
        sys.exit(3)
    return repo


class _HarnessTimeout(BaseException):
    pass


def _kill_children():
    """stop the processes this worker started (only its own children, found through /proc)"""
    me = os.getpid()
    for d in os.listdir("/proc"):
        if not d.isdigit():
            continue
        try:
            with open("/proc/%s/stat" % d) as fh:
                ppid = int(fh.read().rsplit(")", 1)[1].split()[1])
            if ppid == me:
                os.kill(int(d), 9)
        except (OSError, ValueError, IndexError):
            pass


def _isolated(fn, *a):
    """run fn(*a) in a forked child and hand back its (picklable) result.  The symbolic run executes the real code on symbolic values and under
    stand-ins; code that keeps state in a module-level container (a cache) would keep those values, and the native runs that follow in this process
    (sampling, differential, replay of counter-models) would meet them: a tester's hand-written cache made a later data harness fail on values the
    symbolic run had left behind.  The child takes that state with it."""
    import pickle
    r, w = os.pipe()
    pid = os.fork()
    if pid == 0:
        code = 0
        try:
            os.close(r)
            try:
                payload = pickle.dumps(("ok", fn(*a)))
            except BaseException:
                payload = pickle.dumps(("err", traceback.format_exc()))
            with os.fdopen(w, "wb") as fh:
                fh.write(payload)
        except BaseException:
            code = 1
        finally:
            os._exit(code)
    os.close(w)
    with os.fdopen(r, "rb") as fh:
        data = fh.read()
    os.waitpid(pid, 0)
    if not data:
        raise RuntimeError("the isolated symbolic run ended without a result")
    kind, val = pickle.loads(data)
    if kind == "err":
        raise RuntimeError("isolated symbolic run failed:\n" + val)
    return val


def _worker(args):
    prop, ident, repo, tier, seed = args
    try:        # an address-space limit per harness process: a runaway computation ends in a MemoryError of that harness (checker error), not in the
        import resource      # kernel's OOM killer taking a worker away from under the pool (which would then wait for ever)
        cap = int(float(os.environ.get("VCHECK_MEM_GB", "32")) * (1 << 30))
        soft, hard = resource.getrlimit(resource.RLIMIT_AS)
        from pyvc import api as _api
        _kind = [x for x in _api.HARNESSES[prop] if x.ident == ident][0].kind
        # (not for the Lean lemmas: the Lean runtime reserves a large address range up front and fails under such a limit)
        if _kind != "lemma" and (hard == resource.RLIM_INFINITY or cap < hard):
            resource.setrlimit(resource.RLIMIT_AS, (cap, hard))
    except Exception:
        pass
    from pyvc import api, run
    out = {"ident": ident}
    try:
        h = [x for x in api.HARNESSES[prop] if x.ident == ident][0]
        t0 = time.time()
        if h.kind in ("data", "lemma"):
            # watchdog: a data harness runs real code (CBC, scipy, pyodesys); a change of that code may make it run for ever. After the budget
            # the harness is abandoned and reported as undecided (never as a violation), and the solver processes it started are stopped.
            import signal
            budget = int(os.environ.get("VCHECK_DATA_BUDGET", "900" if tier == "quick" else "3600"))

            def _alarm(signum, frame):
                raise _HarnessTimeout("data harness exceeded its budget of %d s" % budget)
            old_handler = signal.signal(signal.SIGALRM, _alarm)
            signal.alarm(budget)
            try:
                st, v = run.run_concrete(h, None)
            except _HarnessTimeout as ex:
                _kill_children()
                out["symbolic"] = {"harness": h.ident, "kind": "data", "paths": 1, "obligations": [], "unsupported": ["timeout: " + str(ex)], "error": None,
                                   "notes": list(h.assumptions), "interpreted": {}, "seconds": time.time() - t0, "functions": h.functions}
                out["concrete"] = None
                return out
            finally:
                signal.alarm(0)
                signal.signal(signal.SIGALRM, old_handler)
            bk, secs = getattr(v, "backends", {}), getattr(v, "seconds", {})
            obs = [{"name": "%s.%s" % (h.ident, n), "instances": 1, "status": "discharged", "seconds": secs.get(n, 0.0), "rlimit": 0,
                    "backend": [bk.get(n, "cpython")], "havoc": False, "cex": None,
                    "detail": "accepted by the Lean kernel" if bk.get(n) == "lean" else "data obligation (concrete evaluation)"}
                   for n in dict.fromkeys(v.checked)]
            for n, d in v.failed:
                for o in obs:
                    if o["name"] == "%s.%s" % (h.ident, n):
                        o["status"] = "failed"
                        o["cex"] = {"inputs": {}, "model": None, "path": 0, "detail": d}
            for o in obs:
                if o["status"] == "failed":
                    o["cex"]["replay_status"] = "failed"
                    o["cex"]["replay_failed"] = [o["name"]]
            out["symbolic"] = {"harness": h.ident, "kind": "data" if h.kind == "data" else "unbounded", "paths": 1, "obligations": obs, "unsupported": [],
                               "error": (getattr(v, "tb", None) or getattr(v, "error", None) or st) if st not in ("ok", "failed") else None, "notes": list(h.assumptions),
                               "interpreted": {}, "seconds": time.time() - t0, "functions": h.functions}
            out["concrete"] = None
            return out
        out["symbolic"] = _isolated(run.run_symbolic, h, repo)
        n = h.samples if tier == "quick" else h.samples * 25
        seed_h = int(hashlib.sha256((ident + str(seed)).encode()).hexdigest()[:8], 16)
        out["concrete"] = run.sample_concrete(h, n, seed_h, repo, differential=False) if n else None
        ndiff = min(n, 8 if tier == "quick" else 60)
        out["differential"] = run.sample_concrete(h, ndiff, seed_h + 1, repo, differential=True) if ndiff else None
        # replay counter-models natively
        for ob in out["symbolic"]["obligations"]:
            if ob["status"] == "failed" and ob["cex"] and h.samples == 0 and h.kind != "data":
                # harness has no native mode (it drives the engine's stand-ins for external packages): nothing to replay
                ob["cex"]["replay_status"] = "not-replayable"
                ob["cex"]["inputs"] = run.jsonable(ob["cex"].get("inputs"))
            elif ob["status"] == "failed" and ob["cex"] and ob["cex"].get("inputs") is not None:
                st, v = run.replay_inputs(h, ob["cex"]["inputs"])
                ob["cex"]["replay_status"] = st
                ob["cex"]["replay_failed"] = [f[0] for f in v.failed]
                ob["cex"]["replay_error"] = getattr(v, "error", None)
                if st == "ok":
                    # the real code satisfies the contract on the counter-model's input.  Does the engine, run on that same concrete input, say
                    # otherwise?  Then the counter-model is an infidelity of the engine shown on this very input (a checker error), not a
                    # statement about the code.
                    try:
                        d = run.differential_one(h, ob["cex"]["inputs"], repo, v)
                    except BaseException as ex:
                        d = None
                    if d is not None:
                        ob["cex"]["replay_status"] = "engine-disagrees"
                        ob["cex"]["engine_mismatch"] = d
                ob["cex"]["inputs"] = run.jsonable(ob["cex"]["inputs"])
            elif ob["status"] == "failed" and ob["cex"]:
                ob["cex"]["replay_status"] = "no-inputs"
            elif ob["status"] == "unknown" and ob.get("candidate") is not None and h.samples > 0:
                st, v = run.replay_inputs(h, ob["candidate"])
                if st in ("failed", "error"):
                    ob["status"] = "failed"
                    ob["cex"] = {"inputs": run.jsonable(ob["candidate"]), "model": "solver: unknown (%s); candidate input from the quantifier-free part of the VC" % ob["detail"][:200],
                                 "path": None, "detail": ob["detail"], "replay_status": st, "replay_failed": [f[0] for f in v.failed], "replay_error": getattr(v, "error", None)}
                ob["candidate"] = None
    except BaseException:
        out["crash"] = traceback.format_exc()
    return out


def load_property(prop):
    from pyvc import api
    if os.path.exists(os.path.join(VERIF, "contracts", "%s.py" % prop)):
        importlib.import_module("contracts.%s" % prop)
    return api.HARNESSES.get(prop, [])


def source_hashes(repo, files):
    out = {}
    for f in sorted(set(files)):
        try:
            with open(f, "rb") as fh:
                out[os.path.relpath(f, repo)] = hashlib.sha256(fh.read()).hexdigest()
        except OSError:
            pass
    return out


def main(argv=None):
    ap = argparse.ArgumentParser(prog="vcheck")
    ap.add_argument("prop", nargs="?")
    ap.add_argument("--tier", default=os.environ.get("VERIF_TIER", "quick"), choices=["quick", "thorough"])
    ap.add_argument("--repo", default="/repo")
    ap.add_argument("--replay")
    ap.add_argument("--list", action="store_true")
    ap.add_argument("--jobs", type=int, default=int(os.environ.get("VCHECK_JOBS", "16")))
    ap.add_argument("--only", default=None, help="substring filter on harness names (debugging; evidence not written)")
    ap.add_argument("--update-baseline", action="store_true")
    ap.add_argument("-v", "--verbose", action="store_true")
    a = ap.parse_args(argv)
    seed = int(os.environ.get("VERIF_SEED", "0") or 0)
    if a.replay:
        from pyvc import report
        return report.replay_file(a.replay, a.repo)
    if not a.prop:
        ap.error("property id required")
    repo = setup_repo(a.repo)
    from pyvc import report
    t0 = time.time()
    try:
        hs = load_property(a.prop)
    except Exception:
        traceback.print_exc()
        print("CHECKER-ERROR property=%s cannot load contracts" % a.prop)
        return 3
    if a.only:
        hs = [h for h in hs if a.only in h.ident]
    if a.tier == "quick":
        hs = [h for h in hs if h.tier == "quick"]
    if a.list:
        for h in hs:
            print(h.ident, h.kind, h.functions)
        return 0
    jobs = [(a.prop, h.ident, repo, a.tier, seed) for h in hs]
    results = []
    if a.jobs > 1 and len(jobs) > 1:
        ctx = mp.get_context("fork")
        with ctx.Pool(min(a.jobs, len(jobs)), maxtasksperchild=1) as pool:      # a fresh process per harness: no state of the code under test is carried over
            for r in pool.imap_unordered(_worker, jobs):
                results.append(r)
    else:
        results = [_worker(j) for j in jobs]
    results.sort(key=lambda r: r["ident"])
    extra = None
    if not a.only and os.path.exists(os.path.join(VERIF, "bounded", "%s.py" % a.prop)) and not os.environ.get("VCHECK_NO_BOUNDED"):
        try:
            bmod = importlib.import_module("bounded.%s" % a.prop)
            extra = bmod.run(a.tier, seed)
        except Exception:
            extra = {"crash": traceback.format_exc()}
    return report.finish(a.prop, a.tier, seed, repo, hs, results, extra, time.time() - t0, a)


if __name__ == "__main__":
    sys.exit(main())
