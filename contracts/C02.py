"""C02  Balancing returns only balanced, positive, canonical coefficients or refuses."""
from collections import OrderedDict

from pyvc.api import harness
from pyvc import spec as SP
from pyvc.sym import Sym

META = {
    "explanation": "balance_stoichiometry delegates the mathematics to sympy (linsolve, nsimplify, gcd, Wild.match) and CBC; what is proved is everything chempy itself is responsible for: (head slice, up to the linsolve call) the signed composition matrix A[i][j] = composition_j[key_i] * (-1 for reactants) over the sorted keys incl. charge and the reactants-then-products column order, and the presence pre-check raising ValueError exactly when a key occurs on one side only without mixed signs there; (tail slice, the statements after the last assignment to `sol`, for ANY vector sol and matrix A that the external solvers may have produced) every normal return has all coefficients non-zero, none negative, and - in the two numeric modes - numeric and satisfying A*sol == 0, with exactly the given species as keys and value sol[index(key)] (int() of it in the 'smallest integers' mode); the duplicate-species dispatch. Positivity, coprimality, minimality and refusal of infeasible placements depend on sympy/CBC output: decided only by the bounded exhaustive stand-in.",
    "trusted_base": ["sympy Matrix * Matrix is the matrix product; x == 0, 0 in M, free_symbols, is_negative, int(x) mean what they say (5.4)", "nsimplify(x, rational=True) preserves the value of x", "the slices are cut mechanically from the real AST on every run (what is dropped is stated in the evidence)"],
    "not_decided": ["minimal coefficient sum, joint coprimality, unique-ray minimal solution, symbolic (free parameter) mode identities: outputs of sympy/CBC -> bounded stand-in only"],
    "assumptions": ["species layouts fixed per harness; composition values and the solver's output vector are symbolic"],
}
CH = "chempy.chemistry"


class HeadDone(Exception):
    def __init__(self, A):
        self.A = A


class FakeMatrix:
    _pyvc_symbolic = True

    def __init__(self, rows):
        self.rows = [list(r) for r in rows]

    def applyfunc(self, f):
        return FakeMatrix([[f(x) for x in r] for r in self.rows])

    def __mul__(self, sol):
        return [sum(a * getattr(x, "val", x) for a, x in zip(row, sol)) for row in self.rows]


LAY = {
    "two_plus_one": (["R1", "R2"], ["P1"]),
    "one_plus_two": (["R1"], ["P1", "P2"]),
    "two_plus_two": (["R1", "R2"], ["P1", "P2"]),
}
KEYS = [0, 1, 8]


def _head(name):
    reactants, products = LAY[name]

    @harness("C02", "head.%s" % name, functions=[CH + ":balance_stoichiometry", CH + ":balance_stoichiometry.<locals>._get", CH + ":Substance.composition_keys"], kind="shape-bounded", samples=0, max_paths=6000)
    def _(v):
        import sympy
        from chempy.chemistry import balance_stoichiometry, Substance
        species = reactants + products
        comp = {s: {k: v.int("c_%s_%d" % (s, k), lo=(-2 if k == 0 else 0), hi=3) for k in KEYS} for s in species}
        substances = OrderedDict((s, Substance(s, composition=dict(comp[s]))) for s in species)
        v.stub(sympy.MutableDenseMatrix, lambda interp, rows: FakeMatrix(rows))
        v.stub(sympy.nsimplify, lambda interp, x, **kw: x)

        def stop(interp, system, *symbols):
            raise HeadDone(system[0])
        v.stub(sympy.linsolve, stop)
        mode = v.choice("underdetermined", [True, False, None])
        out = v.run(balance_stoichiometry, list(reactants), list(products), substances=substances, underdetermined=mode)

        def one_sided(k):   # key present on exactly one side, and not with mixed signs on that side
            in_r = SP.disj([SP.neg(comp[s][k] == 0) for s in reactants])
            in_p = SP.disj([SP.neg(comp[s][k] == 0) for s in products])
            mixed = lambda side: SP.conj([SP.disj([comp[s][k] > 0 for s in side]), SP.disj([comp[s][k] < 0 for s in side])])
            return SP.disj([SP.conj([SP.neg(in_r), SP.neg(mixed(products))]), SP.conj([SP.neg(in_p), SP.neg(mixed(reactants))])])
        refuse = SP.disj([one_sided(k) for k in KEYS])
        if isinstance(out.exc, HeadDone):
            A = out.exc.A
            v.prove("precheck_passes_only_if_every_key_on_both_sides_or_mixed", SP.neg(refuse))
            v.prove("matrix_shape_rows_keys_columns_species", len(A.rows) == len(KEYS) and all(len(r) == len(species) for r in A.rows))
            v.prove("signed_composition_matrix", SP.conj([A.rows[i][j] == comp[s][k] * (-1 if s in reactants else 1) for i, k in enumerate(KEYS) for j, s in enumerate(species)]))
        else:
            v.prove("refusal_is_ValueError_and_justified", SP.conj([out.raised(ValueError), refuse]), detail=repr(out.exc))
    return _


for _n in LAY:
    _head(_n)


class SNum:
    """stands for a sympy expression in the solver's output vector: a real value plus the attributes the tail reads"""
    _pyvc_symbolic = True

    def __init__(self, v, i):
        self.val = v.real("sol%d" % i, lo=-50, hi=50)
        self.symbolic = v.bool("sol%d_has_free_symbols" % i)     # free_symbols non-empty?
        self.isnan = v.bool("sol%d_is_nan" % i)
        self.free_symbols = _FreeSyms(self.symbolic)

    @property
    def is_negative(self):
        # sympy: True/False for numbers, None when undecidable (symbolic)
        return SP.conj([SP.neg(self.symbolic), self.val < 0])

    def __eq__(self, o):
        import sympy
        if o is sympy.nan:
            return self.isnan
        if isinstance(o, (int, float)):
            return SP.conj([SP.neg(self.symbolic), self.val == o])
        return NotImplemented

    __hash__ = object.__hash__

    def __int__(self):
        raise TypeError

    def __rmul__(self, a):
        return a * self.val


class _FreeSyms:
    _pyvc_symbolic = True

    def __init__(self, nonempty):
        self.nonempty = nonempty

    def sym_len(self):
        return SP.ite(self.nonempty, 1, 0)


def _tail(name):
    reactants, products = LAY[name]

    @harness("C02", "tail.%s" % name, functions=[CH + ":balance_stoichiometry", CH + ":balance_stoichiometry.<locals>._x"], kind="shape-bounded", samples=0, max_paths=6000)
    def _(v):
        import sympy
        from chempy.chemistry import balance_stoichiometry
        species = reactants + products
        n = len(species)
        sol = [SNum(v, i) for i in range(n)]
        A = FakeMatrix([[v.int("A_%d_%d" % (i, j), lo=-3, hi=3) for j in range(n)] for i in range(2)])
        mode = v.choice("underdetermined", [True, False, None])
        v.stub(int, _int_stub)
        env = {"sol": sol, "A": A, "underdetermined": mode, "subst_keys": list(species), "reactants": list(reactants), "products": list(products), "sympy": sympy}
        try:
            res = v.call_tail(balance_stoichiometry, "sol", env)
        except ValueError:
            v.prove("refusal_is_always_allowed", True)
            return
        r, p = res
        v.prove("keys_are_exactly_the_given_species", list(r.keys()) == list(reactants) and list(p.keys()) == list(products))
        vals = list(r.values()) + list(p.values())
        v.prove("values_are_the_solver_entries_in_species_order", SP.conj([(x.of is s if isinstance(x, _IntOf) else x is s) for x, s in zip(vals, sol)]))
        v.prove("smallest_integer_mode_returns_python_ints", all(isinstance(x, _IntOf) for x in vals) if mode is None else all(isinstance(x, SNum) for x in vals))
        v.prove("no_zero_coefficient", SP.conj([SP.neg(SP.conj([SP.neg(s.symbolic), s.val == 0])) for s in sol]))
        v.prove("no_negative_coefficient", SP.conj([SP.neg(SP.conj([SP.neg(s.symbolic), s.val < 0])) for s in sol]))
        if not mode:   # the two numeric modes
            v.prove("numeric_modes_have_no_free_symbols", SP.conj([SP.neg(s.symbolic) for s in sol]))
            v.prove("numeric_modes_are_balanced_A_sol_is_zero", SP.conj([sum(a * s.val for a, s in zip(row, sol)) == 0 for row in A.rows]))
            v.prove("numeric_modes_are_strictly_positive", SP.conj([s.val > 0 for s in sol]))
        else:
            v.prove("symbolic_mode_has_no_nan", SP.conj([SP.neg(s.isnan) for s in sol]))
    return _


class _IntOf:
    def __init__(self, of):
        self.of = of


def _int_stub(interp, x=0, *a):
    if isinstance(x, SNum):
        return _IntOf(x)
    from pyvc.stubs import b_int
    return b_int(interp, x, *a)


for _n in LAY:
    _tail(_n)


@harness("C02", "duplicates_dispatch", functions=[CH + ":balance_stoichiometry"], kind="data")
def _(v):
    from chempy.chemistry import balance_stoichiometry as bs
    def outcome(*a, **k):
        try:
            return bs(*a, **k)
        except Exception as e:
            return type(e)
    v.prove("both_sides_refused_by_default", outcome({"H2O", "O2"}, {"H2O", "H2"}) is ValueError)
    v.prove("allow_duplicates_needs_mode_None", outcome({"H2O", "O2"}, {"H2O", "H2"}, allow_duplicates=True) is NotImplementedError)
    v.prove("identical_sides_refused", outcome({"H2O"}, {"H2O"}, allow_duplicates=True, underdetermined=None) is ValueError)
    r = outcome({"H2O2", "H2O"}, {"H2O", "O2"}, allow_duplicates=True, underdetermined=None)
    v.prove("duplicate_dropped_when_possible", r == ({"H2O2": 2}, {"O2": 1, "H2O": 2}) or r == (OrderedDict([("H2O2", 2)]), OrderedDict([("H2O", 2), ("O2", 1)])), repr(r))


@harness("C02", "fixed_reactions", functions=[CH + ":balance_stoichiometry", CH + ":_solve_balancing_ilp_pulp"], kind="data")
def _(v):
    from chempy.chemistry import balance_stoichiometry as bs
    ok = []
    for mode in (True, False, None):
        r, p = bs({"NH4ClO4", "Al"}, {"Al2O3", "HCl", "H2O", "N2"}, underdetermined=mode)
        ok.append((dict(r), dict(p)) == ({"NH4ClO4": 6, "Al": 10}, {"Al2O3": 5, "HCl": 6, "H2O": 9, "N2": 3}))
    v.prove("unique_ray_minimal_solution_in_all_modes", all(ok))
    r, p = bs({"C", "O2"}, {"CO", "CO2"}, underdetermined=None)
    v.prove("smallest_integers_mode", (dict(r), dict(p)) == ({"C": 3, "O2": 2}, {"CO": 2, "CO2": 1}))
    for mode in (True, False, None):
        try:
            bs({"C", "CO"}, {"CO2"}, underdetermined=mode); got = False
        except ValueError:
            got = True
        ok.append(got)
    v.prove("wrong_side_species_refused_in_all_modes", all(ok[3:]))
    try:
        bs({"C", "O2"}, {"CO", "CO2"}, underdetermined=False); got = False
    except ValueError:
        got = True
    v.prove("underdetermined_refused_when_disallowed", got)
    # compositions with four significant decimals must be balanced exactly (no rationalisation tolerance)
    import fractions
    from chempy.chemistry import Substance
    subs = {k: Substance.from_formula(k) for k in ("Ca2.832Fe0.6285Mg5.395(CO3)6", "O2", "CaO", "FeO", "MgO", "CO2")}
    r, p = bs({"Ca2.832Fe0.6285Mg5.395(CO3)6", "O2"}, {"CaO", "FeO", "MgO", "CO2"}, substances=subs)
    coef = {**{k: -fractions.Fraction(int(x)) for k, x in r.items()}, **{k: fractions.Fraction(int(x)) for k, x in p.items()}}
    resid = {}
    for k, c in coef.items():
        for el, n in subs[k].composition.items():
            resid[el] = resid.get(el, 0) + c * fractions.Fraction(repr(float(n)))
    v.prove("four_decimal_compositions_balanced_exactly", all(x == 0 for x in resid.values()), "residuals %s" % {k: str(x) for k, x in resid.items() if x})
    # more than ten species in the 'smallest integers' mode (solver variable order vs matrix columns)
    reac = ["A%d" % i for i in range(1, 7)]
    prod = ["B%d" % i for i in range(1, 7)]
    comp = {}
    for i, (a, b) in enumerate(zip(reac, prod)):
        comp[a] = Substance(a, composition={i + 1: 1, 20: 1})
        comp[b] = Substance(b, composition={i + 1: 1} if i < 5 else {i + 1: 1, 20: 6})
    # element i: a_i = b_i; element 20: a_1+..+a_6 = 6 b_6  ->  the only positive solution of minimal sum is all ones
    try:
        r12, p12 = bs(reac, prod, substances=comp, underdetermined=None)
        tot = {}
        for k, c in list(r12.items()):
            for el, n in comp[k].composition.items():
                tot[el] = tot.get(el, 0) - c * n
        for k, c in list(p12.items()):
            for el, n in comp[k].composition.items():
                tot[el] = tot.get(el, 0) + c * n
        ok12 = all(x == 0 for x in tot.values()) and all(int(c) == 1 for c in list(r12.values()) + list(p12.values()))
        det = "%s -> %s" % (dict(r12), dict(p12))
    except Exception as e:
        ok12, det = False, repr(e)
    try:
        rT, pT = bs(reac, prod, substances=comp, underdetermined=True)
        sameT = "answered"
    except Exception as e:
        sameT = repr(e)
    v.prove("twelve_species_smallest_integers_mode", ok12, det + " | mode True: " + sameT)
    # single ray with eleven species and pairwise different coefficients: the modes must agree on it
    packs = [12, 4, 30, 20, 8, 6, 50, 25, 10, 16]
    recipe = [3, 2, 4, 2, 1, 1, 1, 1, 1, 1]
    comp11 = {"R%02d" % i: Substance("R%02d" % i, composition={i + 1: n}) for i, n in enumerate(packs)}
    comp11["P"] = Substance("P", composition={i + 1: n for i, n in enumerate(recipe)})
    want = {"R%02d" % i: fractions.Fraction(1200 * q, n) for i, (n, q) in enumerate(zip(packs, recipe))}
    res11 = {}
    for mode in (None, False, True):
        try:
            r11, p11 = bs(sorted(k for k in comp11 if k != "P"), ["P"], substances=comp11, underdetermined=mode)
            res11[mode] = ({k: fractions.Fraction(int(x)) for k, x in r11.items()} == want and {k: int(x) for k, x in p11.items()} == {"P": 1200},
                           "%s -> %s" % (dict(r11), dict(p11)))
        except Exception as e:
            res11[mode] = (False, repr(e))
    v.prove("eleven_species_single_ray_modes_agree", all(ok for ok, _ in res11.values()), "; ".join("%s: %s" % (m, d) for m, (ok, d) in res11.items() if not ok))
    # exact rationals with large denominators are balanced as given (no rounding of the composition matrix)
    big = {"A": Substance("A", composition={1: fractions.Fraction(1000001, 3000000)}), "B": Substance("B", composition={1: fractions.Fraction(1000001, 1000000)})}
    okbig = []
    for mode in (True, False, None):
        try:
            rb, pb = bs(["A"], ["B"], substances=big, underdetermined=mode)
            okbig.append((dict(rb), dict(pb)) == ({"A": 3}, {"B": 1}))
        except Exception as e:
            okbig.append(repr(e))
    v.prove("large_denominator_compositions_balanced_as_given", okbig == [True, True, True], detail=repr(okbig))
    dec = {"A": Substance("A", composition={1: 0.94700001, 8: 1}), "B": Substance("B", composition={1: 1.89400002, 8: 2})}
    try:
        rd, pd_ = bs(["A"], ["B"], substances=dec)
        okdec = (dict(rd), dict(pd_)) == ({"A": 2}, {"B": 1})
    except Exception as e:
        okdec = repr(e)
    v.prove("eight_decimal_compositions_balanced_as_given", okdec is True, detail=repr(okdec))
    # seven decimals where rounding to fewer digits changes the answer: the decimals as written decide (the two modes without the ILP)
    seven = []
    for mode in (True, False):
        for subs7, reac7, prod7, want7 in (({"A": Substance("A", composition={1: 0.3333333}), "B": Substance("B", composition={1: 1})}, ["A"], ["B"], ({"A": 10000000}, {"B": 3333333})),
                                           ({"A": Substance("A", composition={1: 1.2345678, 2: 1}), "B": Substance("B", composition={1: 1}), "C": Substance("C", composition={2: 1})}, ["A"], ["B", "C"],
                                            ({"A": 5000000}, {"B": 6172839, "C": 5000000}))):
            try:
                r7, p7 = bs(reac7, prod7, substances=subs7, underdetermined=mode)
                if (dict(r7), dict(p7)) != want7:
                    seven.append((mode, dict(r7), dict(p7)))
            except Exception as e:
                seven.append((mode, repr(e)[:80]))
    v.prove("seven_decimal_compositions_balanced_as_written", not seven, detail=repr(seven[:2]))
    # nothing is remembered between calls: the same keys with another substance_factory are balanced against THAT factory's compositions
    lab_a, lab_b = {"ox": {8: 3}, "atom": {8: 1}}, {"ox": {8: 2}, "atom": {8: 1}}
    fa = lambda k: Substance(k, composition=dict(lab_a[k]))
    fb = lambda k: Substance(k, composition=dict(lab_b[k]))
    seq = []
    for fac in (fa, fb, fa):
        rr, pp = bs(["ox"], ["atom"], substance_factory=fac)
        seq.append((dict(rr), dict(pp)))
    v.prove("no_state_between_calls", seq == [({"ox": 1}, {"atom": 3}), ({"ox": 1}, {"atom": 2}), ({"ox": 1}, {"atom": 3})], detail=repr(seq))
    # default (symbolic) mode: an answer with free parameters must admit positive parameter values that make every coefficient positive;
    # when no assignment of positive coefficients balances the species as placed, a ValueError is due, not an answer
    def feasible(coeffs):
        import sympy
        from scipy.optimize import linprog
        syms = sorted({x for c in coeffs for x in sympy.sympify(c).free_symbols}, key=str)
        if not syms:
            return all(c > 0 for c in coeffs)
        rows, rhs = [], []
        for c in coeffs:                         # c(x) = a + b.x >= eps   <=>   -b.x + eps <= a
            c = sympy.expand(sympy.sympify(c))
            b = [float(c.coeff(x)) for x in syms]
            a = float(c.subs({x: 0 for x in syms}))
            rows.append([-bi for bi in b] + [1.0])
            rhs.append(a)
        for j in range(len(syms)):               # x_j >= eps
            rows.append([-1.0 if i == j else 0.0 for i in range(len(syms))] + [1.0])
            rhs.append(0.0)
        res = linprog([0.0] * len(syms) + [-1.0], A_ub=rows, b_ub=rhs, bounds=[(None, None)] * len(syms) + [(None, 1.0)])
        return bool(res.status == 0 and -res.fun > 1e-9)
    for label, (rs_, ps_), has_positive_solution in (("carbonate", (["H+", "H2O", "HCO3-"], ["CO2", "OH-"]), False), ("formic", (["CH3OH", "H2CO3", "HCOOH"], ["C2H4", "H2O"]), False),
                                                     ("two_oxides", (["C", "O2"], ["CO", "CO2"]), True), ("iron_oxides", (["Fe", "O2"], ["FeO", "Fe2O3"]), True)):
        try:
            rr, pp = bs(rs_, ps_)
            okf, det = feasible(list(rr.values()) + list(pp.values())), "%s -> %s" % (dict(rr), dict(pp))
        except ValueError as e:
            rr = pp = None
            okf, det = (not has_positive_solution), "refused: %s" % e
        v.prove("default_mode_answer_admits_positive_coefficients." + label, okf, detail=det)
        if rr is not None:
            # 'balanced identically in any free parameter': the signed element totals vanish as polynomials in the parameters
            import sympy
            from chempy.chemistry import Substance as _S
            tot = {}
            for side, sign in ((rr, -1), (pp, 1)):
                for key, coeff in side.items():
                    for el, n_el in _S.from_formula(key).composition.items():
                        tot[el] = tot.get(el, 0) + sign * sympy.sympify(coeff) * n_el
            v.prove("default_mode_answer_is_balanced_identically." + label, all(sympy.expand(x) == 0 for x in tot.values()), detail=repr({k: str(x) for k, x in tot.items() if sympy.expand(x) != 0}))
    r, p = bs(["H3.5", "HO2Cl3.5"], ["HO2.5", "H2.5Cl"])
    v.prove("fractional_compositions_balanced_exactly", (dict(r), dict(p)) == ({"H3.5": 171, "HO2Cl3.5": 70}, {"HO2.5": 56, "H2.5Cl": 245}))


@harness("C02", "smallest_integers_helper", functions=["chempy.chemistry:_solve_balancing_ilp_pulp"], kind="data")
def _(v):
    """chempy's own integer program (x >= 1 integer, A x = 0, minimise sum x; the solver CBC is external) against an independent brute force over
    small signed composition matrices: the returned vector is feasible and has the brute-force minimal coefficient sum; for an infeasible matrix the
    returned vector is not a solution (so that the caller's residual check must refuse it)"""
    import itertools
    import random
    import sympy
    from chempy.chemistry import _solve_balancing_ilp_pulp
    rng = random.Random(2)
    cases, bad, infeasible = 0, [], 0
    mats = [[[-1, 0, 1, 1], [0, -2, 1, 2]], [[-1, 0, 1, 2], [0, -2, 1, 3]], [[-2, 0, 2], [0, -2, 1]], [[-1, -1, 2]], [[1, 1, 1]], [[-3, 0, 1], [0, -3, 2], [-1, -1, 1]]]
    while len(mats) < 40:
        r, c = rng.choice([1, 2, 2, 3]), rng.choice([3, 4, 4, 5])
        nreac = rng.randint(1, c - 1)
        mats.append([[(-1 if j < nreac else 1) * rng.choice([0, 0, 1, 1, 2, 3]) for j in range(c)] for _ in range(r)])
    for rows in mats:
        A = sympy.Matrix(rows)
        n = A.shape[1]
        best = None
        for x in itertools.product(range(1, 9), repeat=n):
            if all(sum(a * b for a, b in zip(row, x)) == 0 for row in rows):
                if best is None or sum(x) < sum(best):
                    best = x
        try:
            got = _solve_balancing_ilp_pulp(A)
        except Exception as ex:
            got = repr(ex)
        cases += 1
        is_solution = isinstance(got, list) and all(g is not None and abs(g - round(g)) < 1e-9 and round(g) >= 1 for g in got) and all(sum(a * round(b) for a, b in zip(row, got)) == 0 for row in rows)
        if best is not None:
            if not is_solution or sum(round(g) for g in got) != sum(best):
                bad.append((rows, got, best))
        else:
            # nothing with coefficients <= 8: either truly infeasible (then no solution may be claimed) or a larger solution (then it must be one)
            infeasible += 1
            if isinstance(got, list) and not is_solution and all(g is not None for g in got) and all(sum(a * round(b) for a, b in zip(row, got)) == 0 for row in rows):
                bad.append((rows, got, "claimed"))
    v.prove("feasible_matrices_get_a_solution_of_minimal_coefficient_sum", not bad, detail=repr(bad[:3]))
    v.prove("both_kinds_exercised", cases == 40 and 3 <= infeasible <= 37, detail="%d infeasible of %d" % (infeasible, cases))


@harness("C02", "bystanders_and_exact_ilp_rows", functions=[CH + ":balance_stoichiometry", CH + ":_solve_balancing_ilp_pulp"], kind="data")
def _(v):
    """(a) 'for a reaction whose balanced solutions form a single ray the result is that unique minimal solution in all modes': a `substances`
    mapping (or string) may describe more species than the reaction uses; a bystander's elements are not elements of the reaction and do not
    make the pre-check refuse it; (b) 'the smallest-integers mode returns a positive solution of minimal coefficient sum', also when a
    composition is a non-terminating fraction (1/3): the optimum 3 R -> 9 P0 + 2 P1 + P2 (sum 15), checked against brute force, not its double"""
    import itertools
    from collections import OrderedDict
    from fractions import Fraction as Fr
    from chempy.chemistry import balance_stoichiometry, Substance
    out = {}
    for mode in (True, False, None):
        for label, subs in (("string", "H2 O2 H2O N2 NaCl"), ("mapping", OrderedDict((k, Substance.from_formula(k)) for k in ("N2", "H2", "O2", "NaCl", "H2O")))):
            try:
                r, p = balance_stoichiometry(["H2", "O2"], ["H2O"], substances=subs, underdetermined=mode)
                if (dict(r), dict(p)) != ({"H2": 2, "O2": 1}, {"H2O": 2}):
                    out[(mode, label)] = (dict(r), dict(p))
            except Exception as ex:
                out[(mode, label)] = repr(ex)[:80]
    v.prove("bystander_species_in_substances", not out, detail=repr(out))
    for label, half in (("fraction", Fr(1, 2)), ("float", 0.5)):
        s = {"R": Substance("R", composition={1: 4, 2: Fr(1, 3)}), "P0": Substance("P0", composition={1: 1}), "P1": Substance("P1", composition={1: 1, 2: half}), "P2": Substance("P2", composition={1: 1})}
        best = None
        for xs in itertools.product(range(1, 13), repeat=4):
            if 4 * xs[0] == xs[1] + xs[2] + xs[3] and Fr(1, 3) * xs[0] == Fr(1, 2) * xs[2]:
                if best is None or sum(xs) < sum(best):
                    best = xs
        try:
            r, p = balance_stoichiometry(["R"], ["P0", "P1", "P2"], substances=s, underdetermined=None)
            got = (r["R"], p["P0"], p["P1"], p["P2"])
            ok, det = sum(got) == sum(best) == 15 and 4 * got[0] == got[1] + got[2] + got[3] and Fr(1, 3) * got[0] == Fr(1, 2) * got[2], "%r brute force %r" % (got, best)
        except Exception as ex:
            ok, det = False, repr(ex)[:120]
        v.prove("minimal_sum_with_a_non_terminating_fraction." + label, ok, detail=det)
