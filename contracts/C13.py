"""C13  LaTeX, Unicode and HTML names show the same formula that was given."""
from pyvc.api import harness
from pyvc import spec as SP
from pyvc.sym import Sym

META = {
    "explanation": "_formula_to_format is proved modularly (over the contracts of _formula_to_parts, _get_leading_integer and _get_charge, each proved in C01): prefix images from the table, every hydrate part rendered with counts wrapped by the format's subscript, the infix image between parts, the hydrate multiplier printed iff it differs from 1, the charge token 'magnitude then sign with 1 omitted' wrapped by the superscript, suffixes verbatim - for every charge and multiplier (the helpers are found by name or, when renamed, by what they compute; when the code does not ask one of them the same clause is decided end to end on a formula of the grammar with enumerated multipliers and charges as written); greek prefixes, radical dot, hydrate separator, sub- and superscript digits are data obligations on the renderings against Unicode code points, the private tables being read one by one as an aid; Species.from_formula's phase index for list and dict phases; the printers pick latex_name/unicode_name/html_name (falling back to the key) and lay reactions out as in C12; printed reactions are read back term by term (data obligations): stored order, coefficient omitted iff it equals 1 (any numeric type) and otherwise a text that reads back as the stored number, inactive groups, Species with phase suffixes, one accepted arrow of the class",
    "trusted_base": ["A9: re.sub on concrete count patterns (run natively on the concrete hydrate parts)", "Unicode code points typed into this file", "presentation symbols the statement does not spell out, typed into this file: \\varepsilon and o for epsilon/omicron, '^\\bullet ', '\\cdot ', &sdot;, the accepted arrows per class and format (_ARROWS), the bracketed group ' + ( ... )' for inactive species (the notation C12's parser reads)"],
    "not_decided": ["global injectivity of the regex substitution on arbitrary strings: bounded invertibility stand-in over generated formulas"],
    "assumptions": ["stoichiometry texts are concrete per harness; charge and hydrate multiplier symbolic"],
}
PA = "chempy.util.parsing"


def _helper(parsing, name, arity, role):
    """a private helper of chempy.util.parsing: by its name or - when it was renamed - by its ROLE, i.e. the one function defined in that module with `arity`
    required arguments that computes what `role` checks on hand-written cases.  None when there is none (inlined, split up): the harness then does without
    the helper's contract and decides the clause end to end"""
    import inspect
    f = getattr(parsing, name, None)
    if inspect.isfunction(f):
        return f
    hits = []
    for g in list(vars(parsing).values()):
        try:
            required = [p for p in inspect.signature(g).parameters.values() if p.default is p.empty and p.kind in (p.POSITIONAL_ONLY, p.POSITIONAL_OR_KEYWORD)]
            if inspect.isfunction(g) and g.__module__ == parsing.__name__ and len(required) == arity and role(g):
                hits.append(g)
        except Exception:   # not a function of this role
            pass
    return hits[0] if len(hits) == 1 else None


# the roles, on hand-written cases of the contracts C01 proves for the three helpers
_ROLE_PARTS = lambda f: [tuple(x) if isinstance(x, (list, tuple)) else x for x in f("alpha-Fe+3(aq)", ("alpha-",), ("(aq)",))] == ["Fe", "+3", ("alpha-",), ("(aq)",)]
_ROLE_LEADING = lambda f: tuple(f("12H2O")) == (12, "H2O") and tuple(f("H2O")) == (1, "H2O")
_ROLE_CHARGE = lambda f: (f("+"), f("-2"), f("+12")) == (1, -2, 12)


def _fmt_harness(fmt, custom=False):
    """clause 'every count becomes a subscript, the charge a superscript magnitude-then-sign with 1 omitted, separators / radical dots / greek prefixes map
    to their symbols, suffixes verbatim', modularly over _formula_to_parts, _get_leading_integer and _get_charge.  custom=True: the same layout when the
    caller gives his own prefixes=, infixes= and suffixes= (the optional arguments must reach the helpers and the images must come from the GIVEN tables).
    The helper contracts are a proof aid: when the code does not ask one of the helpers (inlined, replaced) the same clause is decided end to end on a
    formula of the grammar with enumerated multipliers and charges as they are written (second part of the harness)"""
    @harness("C13", ("format_structure_own_tables." if custom else "format_structure.") + fmt, functions=[PA + ":_formula_to_format", PA + ":formula_to_" + fmt], kind="shape-bounded", samples=0, max_paths=1000)
    def _(v):
        import z3
        from chempy.util import parsing
        fn = getattr(parsing, "formula_to_" + fmt)
        if fmt == "unicode":   # superscripts are produced character by character: charges enumerated
            chg = v.choice("charge", [-12, -3, -2, -1, 1, 2, 3, 10])
        else:
            chg = v.int("charge", lo=-9, hi=9)
        has_chg = v.bool("has_charge")
        m = v.int("hydrate_multiplier", lo=1, hi=99)
        v.assume(SP.neg(chg == 0))
        seen = {"parts": [], "leading": [], "charge": [], "has_charge": []}
        own_prefixes, own_infixes, own_suffixes = {"iso-": "<ISO>-", "n-": "<N>-"}, {"..": "<DOT>"}, ("(ads)",)
        out_suffix = "(ads)" if custom else "(s)"
        # what the stand-in of _formula_to_parts hands out.  First part: the placeholders "X" / "+tok", which only the contracts of _get_leading_integer /
        # _get_charge can turn into the symbolic multiplier / charge.  Second part: the multiplier and the charge as they are written in the formula
        # The charge placeholder carries the sign of the charge it stands for ("+tok" for a positive, "-tok" for a negative one), as every token that
        # _formula_to_parts hands out does (C01: the token begins with its sign, _get_charge returns a number of that sign): code that takes the sign
        # from the token and only the magnitude from _get_charge is as right as code that takes both from the number.
        tok_placeholder = "-tok" if (chg < 0 if isinstance(chg, int) else bool(v.path.branch(chg.e < 0))) else "+tok"
        hand = {"lead": "X", "tok": tok_placeholder, "prefixes": ("iso-",) if custom else (".", "alpha-")}

        # the stand-ins take their arguments under the names (and in the order) of the helpers they stand for, so that a call by keyword is served too
        def parts_stub(v_, formula, prefixes, suffixes):
            seen["parts"].append((formula, sorted(prefixes), sorted(suffixes)))
            with_charge = bool(v_.path.branch(has_chg.e))
            seen["has_charge"].append(with_charge)
            return ["Na2CO3.." + hand["lead"] + "H2.5O", (hand["tok"] if with_charge else None), hand["prefixes"], (out_suffix,)]

        def leading_stub(v_, s):
            seen["leading"].append(s)
            if s == "XH2.5O":
                return (m, "H2.5O")
            digits = s[:len(s) - len(s.lstrip("0123456789"))]   # C01's contract on a written text: the leading run of digits, 1 when there is none
            return (int(digits) if digits else 1, s[len(digits):])

        def charge_stub(v_, chgstr):
            seen["charge"].append(chgstr)
            if chgstr == tok_placeholder:
                return chg
            return (1 if chgstr[:1] == "+" else -1) * int(chgstr[1:] or 1)   # C01's contract on a written token: sign, then the magnitude (1 when omitted)
        for name, arity, role, stand_in in (("_formula_to_parts", 3, _ROLE_PARTS, parts_stub), ("_get_leading_integer", 1, _ROLE_LEADING, leading_stub), ("_get_charge", 1, _ROLE_CHARGE, charge_stub)):
            helper = _helper(parsing, name, arity, role)
            if helper is not None:
                v.contract(helper, name, None, stand_in)
        given = "the{formula}as_given" if fmt == "latex" else "the_formula_as_given"
        kwargs = dict(prefixes=own_prefixes, infixes=own_infixes, suffixes=own_suffixes) if custom else {}
        out = v.run(fn, given, **kwargs)
        with_charge = bool(seen["has_charge"]) and seen["has_charge"][0]
        modular = bool(seen["parts"]) and bool(seen["leading"]) and (bool(seen["charge"]) or not with_charge)
        # side condition of the modular proof - what the helpers receive: the formula as given (LaTeX: with its braces escaped), the prefixes of THIS
        # format's table (or of the caller's) and the suffixes in force; only the part after the hydrate separator may carry a multiplier; the charge token
        # goes to _get_charge exactly when there is one.  Not part of the property, hence not demanded: how often a helper is asked (every time with the
        # right argument) and in which order the prefixes / suffixes are listed (what the order of the prefixes must achieve is stated end to end in
        # multi_digit_charges_and_counts.greek_prefix_then_radical_dot); THAT a helper is asked is not demanded either - a helper that is not asked sends
        # the harness to its second part
        table = own_prefixes if custom else getattr(parsing, "_%s_mapping" % fmt, None)   # the format's own table is read as an aid: when it is not there under this name, the prefixes handed on are not compared
        escaped = lambda f: f.replace("{", "\\{").replace("}", "\\}") if fmt == "latex" else f
        want_parts = lambda f: (escaped(f), sorted(table.keys()) if hasattr(table, "keys") else None, sorted(own_suffixes if custom else ("(s)", "(l)", "(g)", "(aq)")))
        parts_ok = lambda f: all(all(w is None or g == w for g, w in zip(p, want_parts(f))) for p in seen["parts"])
        sub = {"latex": lambda x: "_{%s}" % x, "html": lambda x: "<sub>%s</sub>" % x, "unicode": lambda x: "".join("₀₁₂₃₄₅₆₇₈₉"[int(c)] if c != "." else "." for c in x)}[fmt]
        image = {".": {"latex": "^\\bullet ", "html": "&sdot;", "unicode": "⋅"}[fmt], "alpha-": {"latex": "\\alpha-", "html": "&alpha;-", "unicode": "α-"}[fmt], "iso-": "<ISO>-"}
        infix = "<DOT>" if custom else {"latex": "\\cdot ", "html": "&sdot;", "unicode": "·"}[fmt]
        body0 = "Na" + sub("2") + "CO" + sub("3")
        body1 = "H" + sub("2.5") + "O"
        sups = "⁰¹²³⁴⁵⁶⁷⁸⁹"
        if modular:
            if out.exc is not None:
                raise out.exc
            r = out.value
            v.prove("helpers_get_the_right_arguments", parts_ok(given) and all(x == "XH2.5O" for x in seen["leading"])
                    and (all(x == tok_placeholder for x in seen["charge"]) if with_charge else seen["charge"] == []), detail=repr(seen))
            pre = "".join(image[k] for k in hand["prefixes"])
            mtxt = z3.If(m.e == 1, z3.StringVal(""), z3.IntToStr(m.e))
            if fmt == "unicode":
                tok = z3.StringVal(("" if abs(chg) == 1 else "".join(sups[int(c)] for c in str(abs(chg)))) + ("⁻" if chg < 0 else "⁺"))
            else:
                absn = z3.If(chg.e < 0, -chg.e, chg.e)
                inner = z3.Concat(z3.If(absn == 1, z3.StringVal(""), z3.IntToStr(absn)), z3.If(chg.e < 0, z3.StringVal("-"), z3.StringVal("+")))
                tok = z3.Concat(z3.StringVal("^{" if fmt == "latex" else "<sup>"), inner, z3.StringVal("}" if fmt == "latex" else "</sup>"))
            expected = z3.Concat(z3.StringVal(pre + body0 + infix), mtxt, z3.StringVal(body1), z3.If(has_chg.e, tok, z3.StringVal("")), z3.StringVal(out_suffix))
            v.prove("layout", r == Sym(expected))
            return
        # second part - the code left the modular path (it does not ask one of the helpers, so the placeholders mean nothing to it and the result of the
        # first call says nothing): the same clause end to end on a formula of the C01 grammar, greek prefix then radical dot (the order the grammar writes
        # them in) / the caller's own prefix, the hydrate multiplier as it is written (none, 1, one digit, two digits) and the charge as it is written
        # (sign alone or sign and magnitude; magnitudes 1, one digit, two digits; both signs).  A helper that IS asked answers by its C01 contract and must
        # still be asked with the right argument
        if not seen["has_charge"]:
            with_charge = bool(v.path.branch(has_chg.e))
        lead = v.choice("hydrate_multiplier_as_written", ["", "1", "2", "7", "10", "12", "99"])
        c, written = None, ""
        if with_charge:
            c = chg if isinstance(chg, int) else v.choice("charge_enumerated", [-12, -3, -2, -1, 1, 2, 3, 10])
            bare = abs(c) == 1 and v.choice("unit_charge_written_as_the_sign_alone", [True, False])
            written = ("+" if c > 0 else "-") + ("" if bare else str(abs(c)))
        hand.update(lead=lead, tok=written, prefixes=("iso-",) if custom else ("alpha-", "."))
        for k in seen:
            del seen[k][:]
        given = "".join(hand["prefixes"]) + "Na2CO3.." + lead + "H2.5O" + written + out_suffix
        r = v.call(fn, given, **kwargs)
        v.prove("helpers_get_the_right_arguments", parts_ok(given) and all(x == lead + "H2.5O" for x in seen["leading"])
                and (all(x == written for x in seen["charge"]) if with_charge else seen["charge"] == []), detail="second part (a helper is not asked) " + repr(seen))
        tok = ""
        if with_charge:
            inner = ("" if abs(c) == 1 else str(abs(c))) + ("-" if c < 0 else "+")
            tok = {"latex": "^{%s}" % inner, "html": "<sup>%s</sup>" % inner, "unicode": "".join(sups[int(x)] if x.isdigit() else {"+": "⁺", "-": "⁻"}[x] for x in inner)}[fmt]
        expected = "".join(image[k] for k in hand["prefixes"]) + body0 + infix + ("" if lead in ("", "1") else lead) + body1 + tok + out_suffix
        v.prove("layout", r == Sym(z3.StringVal(expected)), detail="second part (a helper is not asked): %r expected for %r" % (expected, given))
    return _


for _f in ("latex", "unicode", "html"):
    _fmt_harness(_f)
    _fmt_harness(_f, custom=True)


@harness("C13", "tables", functions=[PA + ":<module tables>"], kind="data")
def _(v):
    """clause 'every count becomes a subscript, the charge a superscript, radical dots, hydrate separators and greek prefixes map to their symbols': each
    of the 24 greek names, the radical dot, the hydrate separator and every digit / sign is SHOWN as the stated symbol by the three renderings (end to
    end, on the public functions); the private tables of the module are read one by one as an aid - a table that is there (as a mapping from texts to
    texts) must hold the stated image under each key (it may hold more, but nothing that could be cut off the front of a formula of the C01 grammar, and
    the images are pairwise distinct, needed by the inverse clause); a table that is not there, or is of another shape, is not consulted"""
    from chempy.util import parsing as P
    greek = "alpha beta gamma delta epsilon zeta eta theta iota kappa lambda mu nu xi omicron pi rho sigma tau upsilon phi chi psi omega".split()
    uni = [chr(c) for c in list(range(0x3B1, 0x3C2)) + list(range(0x3C3, 0x3CA))]   # α..ρ, σ..ω (final sigma skipped)
    formats = ("latex", "unicode", "html")

    def aid(name):
        """the private table `name` as a dict from texts to texts; None when there is no such table (renamed, replaced by something of another shape)"""
        try:
            t = dict(getattr(P, name))
        except Exception:
            return None
        return t if t and all(isinstance(k, str) and isinstance(x, str) for k, x in t.items()) else None

    def shown(fmt, formula):
        """what the public function of the format shows for the formula (an exception of the code under test: a text that equals no expected value)"""
        try:
            return getattr(P, "formula_to_" + fmt)(formula)
        except Exception as e:
            return "raised %r" % (e,)
    tabs = {f: aid("_%s_mapping" % f) for f in formats}
    infixes = {f: aid("_%s_infix_mapping" % f) for f in formats}
    usub, usup = aid("_unicode_sub"), aid("_unicode_sup")
    listed = [g + "-" for g in greek] + ["."]
    # the images the statement and the trusted base give, written here
    images = {"latex": {g + "-": "\\" + g + "-" for g in greek}, "unicode": {g + "-": u + "-" for g, u in zip(greek, uni)}, "html": {g + "-": "&" + g + ";-" for g in greek}}
    images["latex"]["epsilon-"] = "\\varepsilon-"
    images["latex"]["omicron-"] = "o-"
    images["latex"]["."], images["unicode"]["."], images["html"]["."] = "^\\bullet ", "⋅", "&sdot;"
    hydrate = {"latex": "\\cdot ", "unicode": "·", "html": "&sdot;"}
    # end to end: prefix + 'Fe' is shown as image + 'Fe'
    wrong = {f: [(k, shown(f, k + "Fe")) for k in listed if shown(f, k + "Fe") != images[f][k] + "Fe"] for f in formats}
    in_table = lambda f, keys: tabs[f] is None or all(tabs[f].get(k) == images[f][k] for k in keys)
    v.prove("24_greek_letters", len(set(greek)) == 24 and len(set(uni)) == 24 and all((all(k in tabs[f] for k in listed) if tabs[f] is not None else not wrong[f]) for f in formats),
            detail=repr([(f, k) for f in formats if tabs[f] is not None for k in listed if k not in tabs[f]][:5]) + " " + repr({f: w[:3] for f, w in wrong.items() if tabs[f] is None}))
    for f in formats:
        v.prove(f + "_greek", not [w for w in wrong[f] if w[0] != "."] and in_table(f, listed[:24]), detail=repr(wrong[f][:3]))
    v.prove("radical_dot", not any(w[0] == "." for f in formats for w in wrong[f]) and all(in_table(f, ["."]) for f in formats), detail=repr(wrong))
    hydrate_shown = {f: shown(f, "Na2CO3..7H2O") for f in formats}
    hydrate_parts = {"latex": ("Na_{2}CO_{3}", "7H_{2}O"), "unicode": ("Na₂CO₃", "7H₂O"), "html": ("Na<sub>2</sub>CO<sub>3</sub>", "7H<sub>2</sub>O")}
    v.prove("hydrate_infix", all(hydrate_shown[f] == hydrate_parts[f][0] + hydrate[f] + hydrate_parts[f][1] and (infixes[f] is None or infixes[f].get("..") == hydrate[f]) for f in formats), detail=repr(hydrate_shown))
    # (was: exactly 25 entries)  the 25 listed keys have 25 different images, and whatever else a table holds cannot be taken off the front of a formula:
    # a formula body begins with an element symbol (upper case), a bracket or is the electron 'e-', so a further prefix must begin with a lower case letter
    # or a sign that is none of these and must not be (the beginning of) 'e-'.  What ELSE a rendering takes off the front of a formula can only be read in
    # its table: when one of the three tables is not there this obligation is not generated (reported as undecided by the engine, not as a violation)
    harmless = lambda k: isinstance(k, str) and k != "" and not k[0].isupper() and not k[0].isdigit() and k[0] not in "([{+-" and not "e-".startswith(k)
    if all(t is not None for t in tabs.values()):
        extra = {f: [k for k in t if k not in listed and not harmless(k)] for f, t in tabs.items()}
        v.prove("table_sizes", all(len(set(t.get(k) for k in listed)) == 25 for t in tabs.values()) and not any(extra.values()), detail=repr(extra))
    # 'every count becomes a subscript' / 'the charge becomes a superscript written magnitude-then-sign': every digit, the decimal point of a count and both
    # signs, end to end on whole formulas (code points typed here)
    subs = [chr(0x2080 + i) for i in range(10)]
    sups = ["⁰", "¹", "²", "³"] + [chr(0x2070 + i) for i in range(4, 10)]
    count_shown = shown("unicode", "C1234567890.5")
    v.prove("subscript_digits", count_shown == "C" + "".join(subs[int(c)] for c in "1234567890") + "." + subs[5] and (usub is None or (all(usub.get(str(i)) == subs[i] for i in range(10)) and usub.get(".") == ".")),
            detail="C1234567890.5 shown as %r" % (count_shown,))
    charges_shown = (shown("unicode", "Fe+1234567890"), shown("unicode", "Fe-1234567890"))
    magnitude = "".join(sups[int(c)] for c in "1234567890")
    v.prove("superscript_digits_and_signs", charges_shown == ("Fe" + magnitude + "⁺", "Fe" + magnitude + "⁻")
            and (usup is None or (all(usup.get(str(i)) == sups[i] for i in range(10)) and usup.get("+") == "⁺" and usup.get("-") == "⁻")), detail="Fe+1234567890, Fe-1234567890 shown as %r" % (charges_shown,))


def _safely(v, name, thunk, expected):
    """data obligation `name`: thunk() == expected; an exception of the code under test is a failed obligation, not a checker error"""
    try:
        got = thunk()
    except Exception as e:
        return v.prove(name, False, detail="raised %r" % (e,))
    return v.prove(name, got == expected, detail="got %r, expected %r" % (got, expected))


@harness("C13", "multi_digit_charges_and_counts", functions=[PA + ":formula_to_latex", PA + ":formula_to_unicode", PA + ":formula_to_html"], kind="data")
def _(v):
    """clause by clause on whole formulas (expected texts written by hand from the statement): counts and charges of several digits, decimal counts,
    both hydrate separators and several hydrate parts, greek prefixes in every format and next to a radical dot / a charge, brackets kept verbatim"""
    from chempy.util.parsing import formula_to_latex as L, formula_to_unicode as U, formula_to_html as H
    greek = "alpha beta gamma delta epsilon zeta eta theta iota kappa lambda mu nu xi omicron pi rho sigma tau upsilon phi chi psi omega".split()
    three = lambda f: (L(f), U(f), H(f))
    _safely(v, "charge_12", lambda: (L("Fe+12"), U("Fe-12"), H("Fe+12")), ("Fe^{12+}", "Fe¹²⁻", "Fe<sup>12+</sup>"))
    _safely(v, "count_108", lambda: (L("C108H2"), U("C108"), H("C108")), ("C_{108}H_{2}", "C₁₀₈", "C<sub>108</sub>"))
    _safely(v, "braces_escaped_in_latex", lambda: L("{Fe(CN)6}-3"), "\\{Fe(CN)_{6}\\}^{3-}")
    _safely(v, "hydrate_one_omitted", lambda: (L("Na2CO3..1H2O"), L("Na2CO3..10H2O")), ("Na_{2}CO_{3}\\cdot H_{2}O", "Na_{2}CO_{3}\\cdot 10H_{2}O"))
    _safely(v, "each_greek_prefix_alone", lambda: [L(g + "-Fe") for g in greek], [("\\" + g if g not in ("epsilon", "omicron") else {"epsilon": "\\varepsilon", "omicron": "o"}[g]) + "-Fe" for g in greek])
    # a decimal count is ONE count, also when its integer part has several digits
    _safely(v, "decimal_count_above_ten", lambda: three("C12.5H3"), ("C_{12.5}H_{3}", "C₁₂.₅H₃", "C<sub>12.5</sub>H<sub>3</sub>"))
    # 'hydrate separators map to their symbols': the middle dot U+00B7 is the other spelling of '..' in the C01 grammar; more than one hydrate part
    _safely(v, "hydrate_written_with_the_middle_dot", lambda: three("Na2CO3" + chr(0xB7) + "7H2O"), ("Na_{2}CO_{3}\\cdot 7H_{2}O", "Na₂CO₃" + chr(0xB7) + "7H₂O", "Na<sub>2</sub>CO<sub>3</sub>&sdot;7H<sub>2</sub>O"))
    _safely(v, "two_hydrate_parts", lambda: three("Na2CO3..7H2O..2HCl"), ("Na_{2}CO_{3}\\cdot 7H_{2}O\\cdot 2HCl", "Na₂CO₃·7H₂O·2HCl", "Na<sub>2</sub>CO<sub>3</sub>&sdot;7H<sub>2</sub>O&sdot;2HCl"))
    # greek prefixes whose name contains another one (eta in beta/zeta/theta), in the other two formats; the '-' of a prefix is not a charge sign
    _safely(v, "greek_prefix_unicode_html_and_before_a_charge", lambda: (U("theta-Fe"), H("zeta-Fe"), U("eta-Fe")) + three("beta-Fe+3"), (chr(0x3B8) + "-Fe", "&zeta;-Fe", chr(0x3B7) + "-Fe", "\\beta-Fe^{3+}", chr(0x3B2) + "-Fe³⁺", "&beta;-Fe<sup>3+</sup>"))
    # both prefixes of a formula are mapped (greek, then the radical dot: the order the C01 grammar writes them in), whatever order the table lists them in
    _safely(v, "greek_prefix_then_radical_dot", lambda: three("alpha-.FeOOH(s)"), ("\\alpha-^\\bullet FeOOH(s)", chr(0x3B1) + "-" + chr(0x22C5) + "FeOOH(s)", "&alpha;-&sdot;FeOOH(s)"))
    # 'brackets are kept verbatim' (LaTeX escapes the braces, which is how LaTeX shows them verbatim)
    _safely(v, "brackets_verbatim", lambda: three("[Fe(CN)6]-3") + three("{[Fe(H2O)6]2}+6"),
            ("[Fe(CN)_{6}]^{3-}", "[Fe(CN)₆]³⁻", "[Fe(CN)<sub>6</sub>]<sup>3-</sup>", "\\{[Fe(H_{2}O)_{6}]_{2}\\}^{6+}", "{[Fe(H₂O)₆]₂}⁶⁺", "{[Fe(H<sub>2</sub>O)<sub>6</sub>]<sub>2</sub>}<sup>6+</sup>"))


def _phase(kind):
    @harness("C13", "Species.phase_idx." + kind, functions=["chempy.chemistry:Species.from_formula"], kind="data")
    def _(v):
        """clause 'a species created from a formula carries these three names, that composition, and the phase index its suffix selects' for phases given
        as a sequence (index = position + 1) or as a mapping (index = the value, 0 included)"""
        from chempy.chemistry import Species
        idx = lambda *a, **k: Species.from_formula(*a, **k).phase_idx
        if kind == "sequence":
            cases = [("NaCl(s)", 1), ("Hg(l)", 2), ("CO2(g)", 3), ("CO2(aq)", 0), ("H2O", 0), ("Na+(aq)", 0), ("Fe+3(s)", 1)]
            _safely(v, "index_from_suffix", lambda: [idx(f) for f, i in cases], [i for f, i in cases])
            _safely(v, "custom_order", lambda: (idx("CO2(aq)", ["(aq)", "(s)"]), idx("NaCl(s)", ["(aq)", "(s)"])), (1, 2))
            try:
                Species.from_formula("CO2(aq)", default_phase_idx=None); ok = False
            except Exception:   # refused: which exception is not part of the property
                ok = True
            v.prove("unknown_suffix_without_default_raises", ok)
            _safely(v, "default_used", lambda: idx("CO2(aq)", default_phase_idx=7), 7)
            ph = ["(ads)"]
        else:
            ph = {"(aq)": 0, "(s)": 1, "(ads)": 5}
            _safely(v, "dict_lookup", lambda: [idx(f, ph) for f in ("CO2(aq)", "NaCl(s)", "UO2+2(ads)")], [0, 1, 5])
            # an index given explicitly wins over the mapping that lists the suffix
            _safely(v, "explicit_phase_idx_wins", lambda: (idx("NaCl(s)", ph, phase_idx=9), idx("NaCl(s)", phase_idx=9)), (9, 9))
            # index 0 is an index like any other: the suffix selects it whatever the default is (also when there is none)
            zero = {"(aq)": 0, "(s)": 1, "(g)": 2}
            _safely(v, "mapped_index_zero_is_found", lambda: (idx("Ca+2(aq)", zero, default_phase_idx=None), idx("Ca+2(aq)", zero, default_phase_idx=3), idx("CO2(g)", zero, default_phase_idx=None)), (0, 0, 2))
        _safely(v, "names_and_composition", lambda: (lambda s: (s.latex_name, s.unicode_name, s.html_name, s.composition))(Species.from_formula("Fe+3(aq)")), ("Fe^{3+}(aq)", "Fe³⁺(aq)", "Fe<sup>3+</sup>(aq)", {26: 1, 0: 3}))
        # a suffix of the caller's own phases is kept verbatim in the names and is not read as part of the formula (U = 92, O = 8)
        _safely(v, "names_and_composition_with_own_phases", lambda: (lambda s: (s.name, s.latex_name, s.unicode_name, s.html_name, s.composition, s.phase_idx))(Species.from_formula("UO2+2(ads)", ph)),
                ("UO2+2(ads)", "UO_{2}^{2+}(ads)", "UO₂²⁺(ads)", "UO<sub>2</sub><sup>2+</sup>(ads)", {92: 1, 8: 2, 0: 2}, 1 if kind == "sequence" else 5))
    return _


_phase("sequence")
_phase("dict")


@harness("C13", "printers_use_format_names", functions=["chempy.printing.tex:LatexPrinter._print_Substance", "chempy.printing.pretty:UnicodePrinter._print_Substance",
                                                         "chempy.printing.web:HTMLPrinter._print_Substance", "chempy.chemistry:Reaction.latex", "chempy.chemistry:Reaction.unicode",
                                                         "chempy.chemistry:Reaction.html", "chempy.chemistry:Reaction.string"], kind="shape-bounded", samples=0)
def _(v):
    import z3
    from chempy.chemistry import Reaction, Substance
    a, b = v.int("a", lo=2, hi=50), v.int("b", lo=2, hi=50)
    subst = {"H2O": Substance("H2O", latex_name="LAT1", unicode_name="UNI1", html_name="HTM1"), "OH-": Substance("OH-", latex_name=None, unicode_name=None, html_name=None)}
    rxn = Reaction({"H2O": a}, {"OH-": b}, None, checks=())
    line = lambda n1, arrow, n2: Sym(z3.Concat(z3.IntToStr(a.e), z3.StringVal(" " + n1 + " " + arrow + " "), z3.IntToStr(b.e), z3.StringVal(" " + n2)))
    v.prove("latex", v.call(rxn.latex, subst) == line("LAT1", r"\rightarrow", "OH-"))
    v.prove("unicode", v.call(rxn.unicode, subst) == line("UNI1", "→", "OH-"))
    v.prove("html", v.call(rxn.html, subst) == line("HTM1", "&rarr;", "OH-"))
    v.prove("plain", v.call(rxn.string, subst) == line("H2O", "->", "OH-"))


@harness("C13", "no_state_between_constructions", functions=["chempy.chemistry:Species.from_formula", "chempy.chemistry:Substance.from_formula"], kind="data")
def _(v):
    """names, composition and phase index depend on the formula and the arguments of THIS call only: arguments are not modified and nothing is
    remembered from earlier constructions"""
    from chempy.chemistry import Species, Substance

    def prove(name, thunk):   # an exception of the code under test is a failed obligation
        try:
            return v.prove(name, thunk())
        except Exception as e:
            return v.prove(name, False, detail="raised %r" % (e,))
    phases = ["(aq)"]
    prove("phases_argument_not_modified", lambda: Species.from_formula("Na+(aq)", phases=phases).phase_idx == 1 and phases == ["(aq)"])
    prove("suffix_not_in_phases_selects_the_default_index", lambda: Species.from_formula("H2O(l)", phases=phases).phase_idx == 0 and Species.from_formula("NaCl(s)", phases=phases).phase_idx == 0 and phases == ["(aq)"])
    out = None
    try:
        Species.from_formula("CO2(g)", phases=phases, default_phase_idx=None)
    except Exception as e:   # refused: which exception is not part of the property
        out = e
    v.prove("no_default_and_unknown_suffix_is_refused", out is not None and phases == ["(aq)"])
    as_dict = {"(s)": 2, "(aq)": 5}
    prove("phases_mapping_not_modified", lambda: Species.from_formula("NaCl(s)", phases=as_dict).phase_idx == 2 and as_dict == {"(s)": 2, "(aq)": 5})
    state = {}

    def edit_then_fresh():
        state["f3"] = Substance.from_formula("Fe", charge=3)
        f0 = state["f0"] = Substance.from_formula("Fe")
        f0.composition[26] = 7            # the caller edits ITS substance: later substances from the same formula must not see it
        f0.composition[0] = -2
        fresh = Substance.from_formula("Fe")
        return fresh.composition == {26: 1} and fresh.charge == 0
    prove("editing_one_substance_does_not_change_the_next", edit_then_fresh)

    def again():
        f3, f0 = state["f3"], state["f0"]
        f0.composition[26] = 1
        del f0.composition[0]
        return (f3.composition == {26: 1, 0: 3} and f0.composition == {26: 1} and f0.charge == 0 and (f0.latex_name, f0.unicode_name, f0.html_name) == ("Fe", "Fe", "Fe")
                and Substance.from_formula("Fe", charge=3).composition == {26: 1, 0: 3})
    prove("same_formula_again", again)
    # the same through Species.from_formula (which asks for the composition with its own suffixes: another call, another place for a memo), phases given
    # as a list and as a mapping: the caller spoils HIS species, the next one from the same formula and the same phases object is as the formula says
    for label, ph, index in (("sequence", ["(aq)"], 1), ("mapping", {"(aq)": 4}, 4)):
        try:
            one = Species.from_formula("Fe+3(aq)", phases=ph)
            one.composition[26] = 7
            del one.composition[0]
            two = Species.from_formula("Fe+3(aq)", phases=ph)
            got = (two.composition, two.charge, two.phase_idx, two.latex_name, two.unicode_name, two.html_name)
        except Exception as e:
            got = repr(e)
        v.prove("editing_one_species_does_not_change_the_next." + label, got == ({26: 1, 0: 3}, 3, index, "Fe^{3+}(aq)", "Fe³⁺(aq)", "Fe<sup>3+</sup>(aq)"), detail=repr(got))


# "that format's arrow": the statement names no arrow, so any of the usual arrows of the format is accepted - a one-way arrow for a reaction, a two-way arrow
# for an equilibrium, never the same for both (chempy today: \rightarrow → &rarr; and \rightleftharpoons ⇌ &harr;)
_ARROWS = {
    "Reaction": {"latex": ("\\rightarrow", "\\to", "\\longrightarrow"), "unicode": (chr(0x2192), chr(0x27F6)), "html": ("&rarr;", "&#8594;", "&#x2192;", chr(0x2192))},
    "Equilibrium": {"latex": ("\\rightleftharpoons", "\\leftrightharpoons", "\\rightleftarrows", "\\leftrightarrows", "\\leftrightarrow"),
                    "unicode": (chr(0x21CC), chr(0x21CB), chr(0x21C4), chr(0x21C6), chr(0x2194)),
                    "html": ("&harr;", "&rlhar;", "&lrhar;", "&rlarr;", "&lrarr;", "&#8652;", "&#8651;", "&#8644;", "&#8646;", "&#8596;", "&#x21cc;", "&#x21CC;", chr(0x21CC), chr(0x21C4), chr(0x2194))},
}


def _number(text):
    """the number a printed coefficient stands for (12, 0.5, 1/3, \\frac{1}{3}), None when it is no number"""
    import re
    from fractions import Fraction
    m = re.fullmatch(r"\\[td]?frac\{(\d+)\}\{(\d+)\}", text)
    try:
        return float(Fraction(int(m.group(1)), int(m.group(2))) if m else Fraction(text))
    except (ValueError, ZeroDivisionError):
        return None


def _terms_shown(text, expected):
    """does `text` show exactly the terms expected = [(coefficient, rendered name), ...], in this order, joined by ' + ', each as 'coefficient blank name' with
    the coefficient left out exactly when it equals 1 (whatever its type) and otherwise written as a text that reads back as the stored number?"""
    terms = text.split(" + ")
    if len(terms) != len(expected):
        return False
    for term, (coeff, name) in zip(terms, expected):
        if not term.endswith(name):
            return False
        head = term[:len(term) - len(name)]
        if coeff == 1:
            if head != "":
                return False
        elif head == "" or not head[-1].isspace() or _number(head.strip()) != float(coeff):
            return False
    return True


def _line_shown(line, fmt, cls_name, reac, prod, inact_reac=(), inact_prod=()):
    """the printed line is: reactants [+ ( inactive reactants)] ARROW products [+ ( inactive products)] with one accepted arrow of the class; returns '' or what is wrong"""
    import re
    hits = [arrow for arrow in _ARROWS[cls_name][fmt] if len(line.split(" " + arrow + " ")) == 2]
    foreign = [arrow for other in _ARROWS if other != cls_name for arrow in _ARROWS[other][fmt] if arrow not in _ARROWS[cls_name][fmt] and (" " + arrow + " ") in line]
    if len(hits) != 1 or foreign:
        return "not exactly one arrow, a %s arrow of %s, in %r" % (cls_name, fmt, line)
    sides = line.split(" " + hits[0] + " ")
    for side, active, inactive, what in ((sides[0], reac, inact_reac, "left"), (sides[1], prod, inact_prod, "right")):
        if inactive:
            m = re.fullmatch(r"(.*?) \+ \(\s*(.*?)\s*\)", side)
            if m is None or not _terms_shown(m.group(1), list(active)) or not _terms_shown(m.group(2), list(inactive)):
                return "%s side %r does not show %r + ( %r )" % (what, side, list(active), list(inactive))
        elif not _terms_shown(side, list(active)):
            return "%s side %r does not show %r" % (what, side, list(active))
    return ""


_NAMES = {   # rendered names written by hand from the statement (counts -> subscripts, charge -> superscript magnitude-then-sign with 1 omitted, radical dot, suffix verbatim)
    "H2O2": ("H_{2}O_{2}", "H₂O₂", "H<sub>2</sub>O<sub>2</sub>"), "H2O": ("H_{2}O", "H₂O", "H<sub>2</sub>O"), "O2": ("O_{2}", "O₂", "O<sub>2</sub>"),
    "Fe+3": ("Fe^{3+}", "Fe³⁺", "Fe<sup>3+</sup>"), "Fe+2": ("Fe^{2+}", "Fe²⁺", "Fe<sup>2+</sup>"), "OH-": ("OH^{-}", "OH⁻", "OH<sup>-</sup>"),
    "H+": ("H^{+}", "H⁺", "H<sup>+</sup>"), ".OH": ("^\\bullet OH", chr(0x22C5) + "OH", "&sdot;OH"),
    "Fe+3(aq)": ("Fe^{3+}(aq)", "Fe³⁺(aq)", "Fe<sup>3+</sup>(aq)"), "Fe(OH)3(s)": ("Fe(OH)_{3}(s)", "Fe(OH)₃(s)", "Fe(OH)<sub>3</sub>(s)"),
}
_FORMATS = ("latex", "unicode", "html")


def _expected_terms(stored, fmt):
    """[(coefficient, rendered name)] in the order the reaction stores them"""
    return [(c, _NAMES[k][_FORMATS.index(fmt)]) for k, c in stored.items()]


@harness("C13", "printed_reactions.coefficients", functions=["chempy.printing.string:StrPrinter._Reaction_parts", "chempy.chemistry:Reaction.latex", "chempy.chemistry:Reaction.unicode", "chempy.chemistry:Reaction.html"], kind="data")
def _(v):
    """'shows, side by side in stored order, each coefficient (omitted when 1) and the rendered name of its species around that format's arrow': 1 - of any
    numeric type - is omitted, every other value (2, 12, 0.5, 1.5, a Fraction) is written as a text that reads back as the stored number, the coefficient stands
    before ITS name at every position of either side, the order is the stored one (list(r.reac), list(r.prod)), in all three formats, for reactions and
    equilibria, with the substances' format names"""
    from collections import OrderedDict
    from fractions import Fraction
    import numpy
    from chempy.chemistry import Reaction, Equilibrium, Substance
    bad = {"int": [], "other_ones": [], "position": [], "order": []}
    try:
        subs = {k: Substance.from_formula(k) for k in ("H2O2", "H2O", "O2", "Fe+3", "H+")}
        for cls in (Reaction, Equilibrium):
            runs = [("int", cls({"H2O2": 1, "Fe+3": c}, {"H2O": 1, "O2": c}, checks=())) for c in (1, 2, 12, 0.5, 1.5, Fraction(1, 3))]
            runs += [("other_ones", cls({"H2O2": 2, "Fe+3": c}, {"H2O": c, "O2": 3}, checks=())) for c in (1.0, Fraction(1), numpy.int64(1), numpy.float64(1.0))]
            # the coefficient that differs from 1 on the other reactant / product, and a different one on every species
            runs += [("position", cls({"H2O2": c, "Fe+3": 1}, {"H2O": c, "O2": 1}, checks=())) for c in (2, 0.5, Fraction(2, 3))]
            runs += [("position", cls({"H2O2": 2, "Fe+3": 3, "H+": 1}, {"H2O": 5, "O2": 1, "H2O2": 7}, checks=()))]
            # stored order that is not the alphabetical one (an OrderedDict is stored as given), both ways round
            runs += [("order", cls(OrderedDict([("H2O", 2), ("Fe+3", 1)]), OrderedDict([("O2", 1), ("H+", 4)]), checks=())),
                     ("order", cls(OrderedDict([("Fe+3", 1), ("H2O", 2)]), OrderedDict([("H+", 4), ("O2", 1)]), checks=()))]
            for tag, r in runs:
                for fmt in _FORMATS:
                    got = getattr(r, fmt)(subs)
                    wrong = _line_shown(got, fmt, cls.__name__, _expected_terms(r.reac, fmt), _expected_terms(r.prod, fmt))
                    if wrong:
                        bad[tag].append((cls.__name__, fmt, wrong))
    except Exception as e:
        for tag in bad:
            bad[tag].append("raised %r" % (e,))
    v.prove("one_is_omitted_everything_else_is_written", not bad["int"], detail=repr(bad["int"][:3]))
    v.prove("a_one_of_any_numeric_type_is_omitted", not bad["other_ones"], detail=repr(bad["other_ones"][:3]))
    v.prove("coefficient_stands_before_its_own_name_at_every_position", not bad["position"], detail=repr(bad["position"][:3]))
    v.prove("printed_order_is_the_stored_order", not bad["order"], detail=repr(bad["order"][:3]))


@harness("C13", "printed_reactions.inactive_groups", functions=["chempy.printing.string:StrPrinter._Reaction_parts", "chempy.printing.string:StrPrinter._Reaction_str", "chempy.chemistry:Reaction.latex", "chempy.chemistry:Reaction.unicode",
                                                               "chempy.chemistry:Reaction.html"], kind="data")
def _(v):
    """'shows each coefficient and the rendered name of ITS species': also the species a reaction stores as inactive (inact_reac / inact_prod) are shown, on
    their side of the arrow, as the bracketed group ' + ( ... )' that Reaction.from_string reads (C12), with coefficient and format name like every other
    species - Fe+2 + H2O2 + (H+) -> Fe+3 + OH- + (2 .OH) in all three formats, for a reaction and an equilibrium, and with a group on one side only"""
    from chempy.chemistry import Reaction, Equilibrium, Substance
    bad = []
    try:
        subs = {k: Substance.from_formula(k) for k in ("Fe+2", "H2O2", "Fe+3", "OH-", "H+", ".OH")}
        for cls in (Reaction, Equilibrium):
            for ir, ip in (({"H+": 1}, {".OH": 2}), ({}, {".OH": 2}), ({"H+": 3}, {}), ({"H+": 1, "H2O2": 2}, {".OH": 1, "Fe+2": 4})):
                r = cls({"Fe+2": 1, "H2O2": 1}, {"Fe+3": 1, "OH-": 1}, inact_reac=ir, inact_prod=ip, checks=())
                for fmt in _FORMATS:
                    got = getattr(r, fmt)(subs)
                    wrong = _line_shown(got, fmt, cls.__name__, _expected_terms(r.reac, fmt), _expected_terms(r.prod, fmt), _expected_terms(r.inact_reac, fmt), _expected_terms(r.inact_prod, fmt))
                    if wrong:
                        bad.append((cls.__name__, fmt, wrong))
    except Exception as e:
        bad.append("raised %r" % (e,))
    v.prove("inactive_species_are_shown_in_their_group", not bad, detail=repr(bad[:3]))


@harness("C13", "printed_reactions.species_with_phase_suffix", functions=["chempy.printing.printer:Printer._print", "chempy.printing.tex:LatexPrinter._print_Substance", "chempy.printing.pretty:UnicodePrinter._print_Substance",
                                                                         "chempy.printing.web:HTMLPrinter._print_Substance", "chempy.chemistry:Species.from_formula"], kind="data")
def _(v):
    """'the rendered name of its species': what stands in the printed line is the format name also when the entry is a Species (a subclass of Substance) with a
    phase suffix, and printing a Substance / Species by itself gives its name in that format"""
    from chempy.chemistry import Equilibrium, Species, Substance
    import chempy.printing as PR
    bad = []
    try:
        r = Equilibrium({"Fe+3(aq)": 1, "OH-": 3}, {"Fe(OH)3(s)": 1})
        subs = {k: Species.from_formula(k) for k in ("Fe+3(aq)", "OH-", "Fe(OH)3(s)")}
        for fmt in _FORMATS:
            wrong = _line_shown(getattr(r, fmt)(subs), fmt, "Equilibrium", _expected_terms(r.reac, fmt), _expected_terms(r.prod, fmt))
            if wrong:
                bad.append((fmt, wrong))
    except Exception as e:
        bad.append("raised %r" % (e,))
    v.prove("species_in_a_printed_equilibrium", not bad, detail=repr(bad[:3]))
    for label, make in (("species", lambda: Species.from_formula("Fe+3(aq)")), ("substance", lambda: Substance.from_formula("Fe+3(aq)"))):
        _safely(v, label + "_printed_by_itself", lambda: (lambda s: (PR.latex(s), PR.unicode_(s), PR.html(s)))(make()), _NAMES["Fe+3(aq)"])
