"""C01  Formula parsing yields exactly the written elemental composition and charge."""
import ast
import re

from pyvc.api import harness
from pyvc import spec as SP
from pyvc.sym import Sym, Unsupported
from spec import iupac

META = {
    "explanation": "the element regex literal (taken from the AST of _get_formula_parser) is proved to accept exactly the 118 symbols and to match, at a position, the longest symbol that starts there (exhaustive over capital + next character; no assumption on how the alternation is written); the parse actions multiplyContents / sumByElement / count, _parse_stoich's mapping to atomic numbers, _get_leading_integer, _get_charge (values and every rejection class) and _formula_to_parts (prefix/suffix stripping, single charge token, slash rejection) are proved on symbolic strings/counts; formula_to_composition's hydrate accumulation and charge placement is proved modularly over those contracts at 1-3 hydrate parts; Substance/Species.from_formula delegate to it. How pyparsing combines the actions (unbounded nesting) is covered by the bounded grammar enumeration.",
    "trusted_base": ["z3 sequence/regex theory and cvc5 --strings-exp", "A9 models of str.split/count/startswith/endswith/int()/re.findall('^\\\\d+')", "pyparsing engine (5.5: not assumed in any proof; bounded stand-in)", "spec/iupac.py symbol table"],
    "not_decided": ["unbounded nesting through pyparsing (engine outside the contract): bounded stand-in depth <= 3, one written example at depth 20",
                    "nesting deeper than the interpreter's recursion limit allows (observed on the pinned tree: 64 levels at the default limit of 1000 from a shallow caller) is refused with RecursionError - a refusal, not a mis-read; A4 of DESIGN 2.5 (no recursion limit) puts it outside what is decided here; no obligation",
                    "strings outside the three listed rejection classes that int()/re accept leniently (observed on the pinned tree: 'H+1_0' -> charge 10, 'H+ 2', Arabic-Indic digits, 'Na Cl', 'H2(g)O'): the property neither demands acceptance nor refusal; no obligation",
                    "attachment of the parse actions and the pairing of the bracket tokens inside the pyparsing grammar object: only through the hand-written examples (data) and the bounded enumeration"],
    "assumptions": ["charge strings range over the alphabet [0-9+-] (the grammar's alphabet); int() on other Unicode digit/space forms is not modelled",
                    "\\d in the regexes is modelled as ASCII 0-9 (CPython's str patterns also match other Unicode decimal digits)",
                    "_get_charge is quantified over strings of at most 4 characters (charges up to 999; longer charges: data examples up to 400 digits); _formula_to_parts over strings of at most 10 characters: the code has no length-dependent branch",
                    "_formula_to_parts is generic in its two lists: proved for the lists (), ('.',), ('a-',) and (thorough tier) ('.', 'alpha-'), where 'a-' stands for the 24 greek prefixes that end in the character that is also a charge mark",
                    "the prefixes the public function knows are the 24 greek letter names + '-' and the radical dot '.', written out in this file (GREEK24)"],
}
PA = "chempy.util.parsing"
# the greek prefixes of the supported notation, written out here (the 24 letters of the greek alphabet, alpha ... omega, as English words), NOT read from chempy
GREEK24 = ("alpha", "beta", "gamma", "delta", "epsilon", "zeta", "eta", "theta", "iota", "kappa", "lambda", "mu",
           "nu", "xi", "omicron", "pi", "rho", "sigma", "tau", "upsilon", "phi", "chi", "psi", "omega")
KNOWN_PREFIXES = frozenset(g + "-" for g in GREEK24) | {"."}      # 'alpha-' ... 'omega-' and the radical dot


class _Raised:
    """what a data harness records when the code under test raises: equal to nothing, so the obligation that looks at it fails (a data harness must
    not let an exception of chempy escape: that would be a checker error instead of a reported violation)"""
    def __init__(self, ex):
        self.ex = ex

    def __repr__(self):
        return "<raised %r>" % (self.ex,)

    def __eq__(self, other):
        return False

    def __ne__(self, other):
        return True
    __hash__ = None

    def __getattr__(self, name):          # .composition / .phase_idx / .name / .charge of a Substance that was never made
        if name.startswith("__"):
            raise AttributeError(name)
        return self

    def __getitem__(self, key):
        return self

    def __setitem__(self, key, value):
        pass


def _try(fn, *a, **kw):
    try:
        return fn(*a, **kw)
    except Exception as ex:
        return _Raised(ex)


def _walk_parser(e, seen=None, out=None):
    """every node of a pyparsing expression tree (And/MatchFirst: .exprs; Group/Optional/Forward/...: .expr)"""
    seen = set() if seen is None else seen
    out = [] if out is None else out
    if id(e) in seen:
        return out
    seen.add(id(e))
    out.append(e)
    for c in (getattr(e, "exprs", None) or []):
        _walk_parser(c, seen, out)
    c = getattr(e, "expr", None)
    if c is not None:
        _walk_parser(c, seen, out)
    return out


def element_regex_literal():
    """the pattern of the Regex that tokenises element symbols, read from the grammar the real function BUILDS (so: the pattern that runs, however the
    source spells it: a literal, a module constant, a helper).  Found by role, not by name: the one Regex of the grammar that accepts 'He'."""
    import re
    import pyparsing
    from chempy.util import parsing
    fn = parsing._get_formula_parser
    fn = getattr(fn, "__wrapped__", fn)
    grammar = fn()
    cands = [e for e in _walk_parser(grammar) if isinstance(e, pyparsing.Regex) and re.fullmatch(e.pattern, "He")]
    named = [e for e in cands if e.resultsName == "element"]
    if len(named) == 1:
        cands = named
    if len(cands) != 1:
        raise Unsupported("element regex of the formula grammar not identified (%d candidates)" % len(cands))
    return cands[0].pattern


@harness("C01", "element_regex", functions=[PA + ":_get_formula_parser"], samples=0)
def _(v):
    import z3
    from pyvc.regex import to_z3_re
    pat = element_regex_literal()
    R = to_z3_re(pat)
    syms = [s for _, s, _, _ in iupac.TABLE]
    s = v.str("s")
    is_symbol = SP.disj([s == x for x in syms])
    v.prove("language_subset_of_symbols", SP.implies(Sym(z3.InRe(s.e, R)), is_symbol))
    v.prove("symbols_subset_of_language", SP.implies(is_symbol, Sym(z3.InRe(s.e, R))))
    v.prove("canary_not_everything", SP.neg(Sym(z3.InRe(z3.StringVal("Xx"), R))))
    # tokenisation: at every position the match (re.match semantics = ordered choice, what pyparsing's Regex does) is the LONGEST symbol that is a
    # prefix there, whatever the way the alternation is written (one alternative per capital with a greedy class, longest alternative first, ...).
    # The pattern has no look-around/back-reference (to_z3_re above refuses those) and its language has just been proved to be the symbols (<= 2
    # characters), so the outcome of a match depends on the next two characters only: the enumeration below (every capital, followed by nothing / every
    # lower-case letter / a non-letter, each with and without further text) is exhaustive for capital-led tokens, not a sample.
    # (The two obligation names are historical: they used to pin the shape of the alternation; the conditions are now stated on the matches.)
    import string as _string
    longest = max(len(x) for x in syms)

    def want(text):
        cands = [x for x in syms if text.startswith(x)]
        return max(cands, key=len) if cands else None

    def got(text):
        m = re.match(pat, text)
        return m.group() if m else None
    wrong_single, wrong_double = [], []
    for cap in _string.ascii_uppercase:
        for nxt in ("", "2", "(", "+", ".", "A", "Z"):           # capital at the end of the token: one-letter symbol or nothing
            for more in ("", "b", "2)"):
                t = cap + nxt + (more if nxt else "")
                if got(t) != want(t):
                    wrong_single.append((t, got(t)))
        for low in _string.ascii_lowercase:                        # capital + lower-case letter: the two-letter symbol if it is one, else the one-letter one
            for more in ("", "a", "g", "2", "O", ")"):
                t = cap + low + more
                if got(t) != want(t):
                    wrong_double.append((t, got(t)))
    v.prove("alternatives_start_with_distinct_capitals", longest == 2 and not wrong_single, detail=repr(wrong_single[:5]))
    v.prove("alternatives_are_capital_plus_one_greedy_class", longest == 2 and not wrong_double, detail=repr(wrong_double[:5]))
    v.prove("nothing_but_a_capital_starts_a_match", all(got(c + "e") is None and got(c) is None for c in _string.ascii_lowercase + _string.digits + "()[]{}+-.*'@/ "))
    # consequence used by the rejection clause: a capitalised token [A-Z][a-z]* that is not a symbol is never consumed whole
    tok = v.str("tok")
    capital_token = Sym(z3.InRe(tok.e, z3.Concat(z3.Range("A", "Z"), z3.Star(z3.Range("a", "z")))))
    v.prove("non_symbol_capitalised_token_not_in_language", SP.implies(SP.conj([capital_token, SP.neg(SP.disj([tok == x for x in syms]))]), SP.neg(Sym(z3.InRe(tok.e, R)))))


@harness("C01", "symbols_table", functions=["chempy.util.periodic:<module tables>"], kind="data")
def _(v):
    from chempy.util.periodic import symbols
    from chempy.util import parsing
    v.prove("index_plus_one_is_atomic_number", all(symbols[z - 1] == s for z, s, n, m in iupac.TABLE) and len(symbols) == 118)
    v.prove("regex_fullmatches_every_symbol", all(re.fullmatch(element_regex_literal(), s) for z, s, n, m in iupac.TABLE))
    # value equality with the specification's table (an equal copy of the tuple is as good as the same object)
    v.prove("parsing_uses_periodic_symbols", list(parsing.symbols) == [s for z, s, n, m in iupac.TABLE])


def _underlying_action(expr):
    """the callable behind the first parse action of a pyparsing element (pyparsing wraps it in an arity-trimming closure)"""
    from pyvc.interp import Closure
    if not expr.parseAction:
        return None
    todo, seen = [expr.parseAction[0]], set()
    while todo:
        f = todo.pop(0)
        if id(f) in seen:
            continue
        seen.add(id(f))
        if isinstance(f, Closure):
            return f
        code = getattr(f, "__code__", None)
        if code is not None and "pyparsing" not in (code.co_filename or ""):
            return f
        for c in (getattr(f, "__closure__", None) or ()):
            try:
                x = c.cell_contents
            except ValueError:
                continue
            if callable(x):
                todo.append(x)
    return None


def _parser_closures(v):
    """build the grammar by running the real _get_formula_parser through the interpreter (concrete run) and take its two parse actions BY ROLE: the
    action of the Group that is one term (multiplies a sub-group out) and the action of the Forward that is the formula (sums by element).  The names
    under which the source defines them are not part of anything."""
    import pyparsing
    from chempy.util import parsing
    fn = parsing._get_formula_parser
    inner = getattr(fn, "__wrapped__", None)
    if inner is None:
        for c in (fn.__closure__ or ()):
            if callable(c.cell_contents) and getattr(c.cell_contents, "__name__", "") == "_get_formula_parser":
                inner = c.cell_contents
    it = v.interp
    qn = it.qualname_of(inner)
    it.force_interp.add(qn)
    try:
        grammar = it.call(inner, (), {})
    finally:
        it.force_interp.discard(qn)
    out = {}
    for e in _walk_parser(grammar):
        act = _underlying_action(e)
        if act is None:
            continue
        if isinstance(e, pyparsing.Forward):
            out.setdefault("sumByElement", act)
        elif isinstance(e, pyparsing.Group):
            out.setdefault("multiplyContents", act)
    if set(out) != {"sumByElement", "multiplyContents"}:
        raise Unsupported("parse actions of the formula grammar not identified: %s" % sorted(out))
    return out


class _Tok(list):
    """stand-in for a pyparsing ParseResults group: list of [name, count] plus named results"""
    def __init__(self, items, subgroup=None, mult=1):
        super().__init__(items)
        self.subgroup = subgroup
        self.mult = mult


def _mc(n):
    @harness("C01", "multiplyContents.n%d" % n, functions=[PA + ":_get_formula_parser.<locals>.multiplyContents"], kind="shape-bounded", samples=0)
    def _(v):
        clos = _parser_closures(v)
        mult = v.real("mult", lo=0, hi=50)
        names = ["H", "O", "Fe", "C"][:n]
        counts = [v.real("c%d" % i, lo=0, hi=50) for i in range(n)]
        sub = [[nm, c] for nm, c in zip(names, counts)]
        t = _Tok([], subgroup=sub, mult=mult)
        r = v.call(clos["multiplyContents"], [t])
        # stated on the VALUE the action hands back to pyparsing (the tokens that replace the group), not on how it is made: the real code multiplies
        # the sub-group in place and returns that very list; a fresh list with the same entries would be just as right
        if r is None or len(r) != n:
            v.prove("returns_subgroup_same_length", False, detail=repr(r))
            return
        v.prove("returns_subgroup_same_length", len(r) == n)
        v.prove("names_unchanged", [x[0] for x in r] == names)
        v.prove("every_count_multiplied", SP.conj([x[1] == c * mult for x, c in zip(r, counts)]))
        # a plain element is handed on as it is: the action returns nothing (pyparsing then keeps the tokens) or the same [symbol, count] again
        t2 = _Tok(["H", counts[0]], subgroup=None, mult=mult)
        r2 = v.call(clos["multiplyContents"], [t2])
        eff = t2 if r2 is None else r2
        if len(eff) == 1 and not isinstance(eff[0], str):
            eff = eff[0]
        v.prove("plain_element_untouched", SP.conj([len(eff) == 2, len(t2) == 2, eff[0] == "H", eff[1] == counts[0], t2[0] == "H", t2[1] == counts[0]]) if len(eff) == 2 and len(t2) == 2 else False)
    return _


for _n in (1, 2, 3, 4):
    _mc(_n)


def _sbe(names):
    @harness("C01", "sumByElement." + "_".join(names), functions=[PA + ":_get_formula_parser.<locals>.sumByElement"], kind="shape-bounded", samples=0)
    def _(v):
        clos = _parser_closures(v)
        counts = [v.real("c%d" % i, lo=0, hi=50) for i in range(len(names))]
        toks = [[nm, c] for nm, c in zip(names, counts)]
        r = v.call(clos["sumByElement"], toks)
        if len(set(names)) == len(names):
            # nothing to add up: the action returns nothing (pyparsing keeps the tokens as they are) or the same entries again (the name of the
            # obligation is historical; a summed copy is as good as None)
            eff = toks if r is None else list(r)
            v.prove("no_duplicates_returns_none", SP.conj([[x[0] for x in eff] == names] + [x[1] == c for x, c in zip(eff, counts)] + [[x[0] for x in toks] == names] + [x[1] == c for x, c in zip(toks, counts)]))
        else:
            if r is None:
                v.prove("one_entry_per_element", False, detail="duplicates left unsummed")
                return
            got = {x[0]: x[1] for x in r}
            v.prove("one_entry_per_element", sorted(got) == sorted(set(names)) and len(list(r)) == len(set(names)))
            v.prove("per_element_sum", SP.conj([got[nm] == sum(c for n2, c in zip(names, counts) if n2 == nm) for nm in set(names)]))
    return _


for _names in (["H", "O"], ["H", "O", "H"], ["C", "H", "C", "H", "O"], ["Fe", "Fe"], ["N", "H", "N", "O"]):
    _sbe(_names)


@harness("C01", "count_action", functions=[PA + ":_get_formula_parser.<locals>.<lambda>"], kind="data")
def _(v):
    from chempy.util.parsing import _get_formula_parser
    import pyparsing
    p = _get_formula_parser()

    def first_count(text):
        parse = getattr(p, "parse_string", None)     # pyparsing 3.x spelling; parseString/parseAll is the deprecated older one
        return (parse(text, parse_all=True) if parse is not None else p.parseString(text, parseAll=True))[0][1]
    v.prove("empty_count_is_one", _try(first_count, "H") == 1)
    v.prove("integer_count", _try(first_count, "H12") == 12.0)
    v.prove("decimal_count", _try(first_count, "H2.5") == 2.5)


@harness("C01", "_get_leading_integer", functions=[PA + ":_get_leading_integer"], samples=40)
def _(v):
    import z3
    from chempy.util.parsing import _get_leading_integer
    s = v.str("s", maxlen=8, alphabet="0123456789HO2")
    m, rest = v.call(_get_leading_integer, s)
    if v.symbolic:
        digit = z3.Range("0", "9")
        starts = Sym(z3.InRe(z3.SubString(s.e, 0, 1), digit))
        v.prove("no_leading_digit_gives_one_and_same_string", SP.implies(SP.neg(starts), SP.conj([m == 1, rest == s])))
        d = v.str("d")
        v.prove("leading_digits_are_consumed_and_valued",
                SP.implies(SP.conj([starts, Sym(z3.InRe(d.e, z3.Plus(digit))), s == Sym(z3.Concat(d.e, to_e(rest))), SP.neg(Sym(z3.InRe(z3.SubString(to_e(rest), 0, 1), digit)))]),
                           m == Sym(z3.StrToInt(d.e))))
        v.prove("rest_is_suffix_without_leading_digit", SP.conj([Sym(z3.SuffixOf(to_e(rest), s.e)), SP.neg(Sym(z3.InRe(z3.SubString(to_e(rest), 0, 1), digit)))]))
        # WHERE the cut is (the two obligations above take `rest` as the implementation gives it: alone they would let ('2H2O' -> anything, 'O') pass):
        # what was taken off the front is a non-empty run of digits - with `rest` not starting with a digit that makes it THE maximal leading run -
        # and the count is its decimal value
        cut = z3.SubString(s.e, 0, z3.Length(s.e) - z3.Length(to_e(rest)))
        v.prove("what_is_cut_off_is_the_leading_digit_run", SP.implies(starts, Sym(z3.InRe(cut, z3.Plus(digit)))))
        v.prove("count_is_the_value_of_what_is_cut_off", SP.implies(starts, m == Sym(z3.StrToInt(cut))))
    else:
        mm = re.match(r"\d+", s)
        v.prove("native", (m, rest) == ((int(mm.group()), s[mm.end():]) if mm else (1, s)))


def to_e(x):
    import z3
    return x.e if isinstance(x, Sym) else z3.StringVal(x)


@harness("C01", "_get_charge", functions=[PA + ":_get_charge"], samples=80)
def _(v):
    import z3
    from chempy.util.parsing import _get_charge
    s = v.str("chgstr", maxlen=4, alphabet="+-0123456789")
    if v.symbolic:
        v.assume(Sym(z3.InRe(s.e, z3.Star(z3.Union(z3.Range("0", "9"), z3.Re(z3.StringVal("+")), z3.Re(z3.StringVal("-")))))))
    out = v.run(_get_charge, s)
    if v.symbolic:
        digits = z3.Plus(z3.Range("0", "9"))
        plus, minus = z3.Re(z3.StringVal("+")), z3.Re(z3.StringVal("-"))
        d = v.str("d")
        isd = Sym(z3.InRe(d.e, digits))
        if out.returned:
            r = out.value
            v.prove("plus_is_one", SP.implies(s == "+", r == 1))
            v.prove("minus_is_minus_one", SP.implies(s == "-", r == -1))
            v.prove("plus_digits", SP.implies(SP.conj([isd, s == Sym(z3.Concat(z3.StringVal("+"), d.e))]), r == Sym(z3.StrToInt(d.e))))
            v.prove("minus_digits", SP.implies(SP.conj([isd, s == Sym(z3.Concat(z3.StringVal("-"), d.e))]), r == -Sym(z3.StrToInt(d.e))))
            v.prove("returns_only_sign_then_optional_digits", Sym(z3.InRe(s.e, z3.Concat(z3.Union(plus, minus), z3.Option(digits)))))
        else:
            # "rejected with an exception": which class is not part of the property (chempy itself uses ValueError here and pyparsing.ParseException for the
            # other rejection classes), so any exception of the program counts - the obligation name is historical. What keeps this from being empty is
            # the next obligation: a refusal (for whatever reason, a crash included) of a well-formed charge string is reported there.
            v.prove("raises_ValueError", out.raised(Exception), detail=repr(out.exc))
            v.prove("rejected_only_if_not_sign_then_digits", SP.neg(Sym(z3.InRe(s.e, z3.Concat(z3.Union(plus, minus), z3.Option(digits))))))
    else:
        m = re.fullmatch(r"([+-])(\d*)", s)
        if m:
            exp = (1 if m.group(1) == "+" else -1) * int(m.group(2) or 1)
            v.prove("native_value", out.returned and out.value == exp, detail="%r -> %r" % (s, out.value if out.returned else out.exc))
        else:
            v.prove("native_rejects", out.raised(Exception), detail="%r -> %r" % (s, out.value if out.returned else out.exc))


def _twice(e, ch):
    import z3
    c = z3.StringVal(ch)
    i = z3.IndexOf(e, c, 0)
    return z3.And(i >= 0, z3.Contains(z3.SubString(e, i + 1, z3.Length(e)), c))


def _bad_marks(body):
    """the three documented reasons to refuse a body (after stripping): a slash, two '+', or two '-' when there is no '+'"""
    import z3
    return z3.Or(z3.Contains(body, z3.StringVal("/")), _twice(body, "+"), z3.And(z3.Not(z3.Contains(body, z3.StringVal("+"))), _twice(body, "-")))


def _parts(prefixes, suffixes, tier="quick", tag=None):
    tag = tag or "p%d_s%d" % (len(prefixes), len(suffixes))

    @harness("C01", "_formula_to_parts." + tag, functions=[PA + ":_formula_to_parts"], kind="shape-bounded", samples=60, max_paths=400, tier=tier)
    def _(v):
        import z3
        from chempy.util.parsing import _formula_to_parts
        f = v.str("formula", maxlen=10, alphabet="HO2+-.(s)aq/")
        if not v.symbolic:
            # sampled inputs: a body from the alphabet, wrapped in (possibly several, possibly no) listed prefixes and suffixes so that stripping is exercised
            pre = v.choice("sample_prefix", [""] + list(prefixes) + (["".join(prefixes)] if len(prefixes) > 1 else []))
            suf = v.choice("sample_suffix", [""] + list(suffixes) + (["".join(suffixes[::-1])] if len(suffixes) > 1 else []))
            f = pre + f + suf
        out = v.run(_formula_to_parts, f, prefixes, suffixes)
        if not v.symbolic:
            # independent reading of the same specification
            body = f
            dp = []
            for p in prefixes:
                if body.startswith(p):
                    dp.append(p); body = body[len(p):]
            ds = []
            for sfx in suffixes:
                if body.endswith(sfx):
                    ds.append(sfx); body = body[:-len(sfx)]
            bad = "/" in body or body.count("+") > 1 or ("+" not in body and body.count("-") > 1)
            if bad:
                v.prove("native_rejects", out.raised(Exception), detail=repr((f, out.value if out.returned else out.exc)))     # any exception: the class is not part of the property
            else:
                if "+" in body:
                    i = body.index("+"); exp = [body[:i], body[i:]]
                elif "-" in body:
                    i = body.index("-"); exp = [body[:i], body[i:]]
                else:
                    exp = [body, None]
                # four parts (stoichiometry, charge, dropped prefixes, dropped suffixes), compared part by part: whether the private helper hands
                # them out as a list or as a tuple is nothing its callers (indexing, slicing, len) or the property depend on
                v.prove("native_parts", out.returned and isinstance(out.value, (list, tuple)) and len(out.value) == 4 and list(out.value[:2]) == exp
                        and tuple(out.value[2]) == tuple(dp) and tuple(out.value[3]) == tuple(ds[::-1]), detail=repr((f, out.value if out.returned else out.exc)))
            return
        if out.returned:
            stoich, chg, dp, ds = out.value
            pre = "".join(dp)
            suf = "".join(ds)
            chg_s = chg if chg is not None else ""
            whole = Sym(z3.Concat(z3.StringVal(pre), to_e(stoich), to_e(chg_s), z3.StringVal(suf))) if (pre or suf or True) else None
            v.prove("reassembles_to_input", whole == f)
            v.prove("dropped_prefixes_are_listed_ones_in_order", all(p in prefixes for p in dp) and [prefixes.index(p) for p in dp] == sorted(prefixes.index(p) for p in dp))
            v.prove("dropped_suffixes_are_listed_ones", all(x in suffixes for x in ds))
            v.prove("stoich_has_no_charge_mark", SP.conj([SP.neg(Sym(z3.Contains(to_e(stoich), z3.StringVal("+")))), SP.disj([chg is None, SP.neg(Sym(z3.Contains(to_e(stoich), z3.StringVal("+"))))])]))
            if chg is not None:
                v.prove("charge_token_starts_with_sign", SP.disj([Sym(z3.PrefixOf(z3.StringVal("+"), to_e(chg))), Sym(z3.PrefixOf(z3.StringVal("-"), to_e(chg)))]))
            else:
                v.prove("no_charge_means_no_sign_anywhere", SP.conj([SP.neg(Sym(z3.Contains(to_e(stoich), z3.StringVal("+")))), SP.neg(Sym(z3.Contains(to_e(stoich), z3.StringVal("-"))))]))
            v.prove("no_slash_accepted", SP.neg(Sym(z3.Contains(to_e(stoich), z3.StringVal("/")))))
            # a listed prefix / suffix that IS there is dropped: EVERY entry of each list, each looked for on what is left after the earlier-listed ones
            # that were dropped (the same obligation name once per entry). Entry i of the prefixes is there when the input starts with <the dropped
            # earlier ones><entry i>; entry j of the suffixes when the input ends with <entry j><the dropped earlier ones, the first-tried outermost> and
            # that does not reach into the dropped prefixes.
            for i, pfx in enumerate(prefixes):
                before = "".join(x for x in prefixes[:i] if x in dp)
                v.prove("leading_listed_prefix_is_dropped", SP.implies(Sym(z3.PrefixOf(z3.StringVal(before + pfx), f.e)), pfx in dp), detail="prefix %r" % (pfx,))
            for j, sfx in enumerate(suffixes):
                behind = "".join(x for x in reversed(suffixes[:j]) if x in ds)
                room = Sym(z3.Length(f.e) >= len(pre) + len(sfx) + len(behind))
                v.prove("trailing_listed_suffix_is_dropped", SP.implies(SP.conj([Sym(z3.SuffixOf(z3.StringVal(sfx + behind), f.e)), room]), sfx in ds), detail="suffix %r" % (sfx,))
            if not prefixes and not suffixes:
                # nothing to strip: the whole input is the body; accepted only without a slash, a second '+', or (without '+') a second '-'
                v.prove("accepted_only_without_contradictory_marks", SP.neg(Sym(_bad_marks(f.e))))
            if chg is not None:
                for sg, other in (("+", "-"), ("-", "+")):
                    if v.path.branch(z3.PrefixOf(z3.StringVal(sg), to_e(chg))):
                        v.prove("sign_not_in_the_stoichiometry_part", SP.neg(Sym(z3.Contains(to_e(stoich), z3.StringVal(sg)))))
                        if sg == "-" and len(prefixes) + len(suffixes) <= 2:     # (with two prefixes and two suffixes both string solvers time out on this one)
                            v.prove("a_minus_charge_means_no_plus_anywhere", SP.conj([SP.neg(Sym(z3.Contains(to_e(stoich), z3.StringVal("+")))), SP.neg(Sym(z3.Contains(to_e(chg), z3.StringVal("+"))))]))
                        break
        else:
            # "rejected with an exception": the class is not part of the property, any exception of the program counts (the obligation name is historical).
            # What a refusal needs is a reason, and that is the next two obligations (a crash on a well-formed input is reported there).
            v.prove("raises_ValueError", out.raised(Exception), detail=repr(out.exc))
            # whatever was stripped, the body is a piece of the input: an input without a slash and without any charge mark is never refused (the sharper
            # "... or some mark twice" is true of the code but both string solvers time out on it once a prefix is stripped, as a regular-expression
            # membership as well as with Contains/IndexOf; the exact condition is the one of p0_s0 below and, for every shape, the independent reading
            # of the specification in the sampled runs above). Written as one membership (the input is not a string of harmless characters): the
            # three-fold Contains form of the same statement takes the solvers four times as long.
            allc = z3.AllChar(z3.ReSort(z3.StringSort()))
            harmless = z3.Star(z3.Intersect(allc, z3.Complement(z3.Union(z3.Re(z3.StringVal("/")), z3.Re(z3.StringVal("+")), z3.Re(z3.StringVal("-"))))))
            v.prove("refused_only_with_a_slash_or_a_charge_mark", SP.neg(Sym(z3.InRe(f.e, harmless))))
            if not prefixes and not suffixes:
                # nothing to strip: the whole input is the body, and a refusal must be for one of the three documented reasons
                v.prove("refused_only_for_contradictory_marks", Sym(_bad_marks(f.e)))
    return _


_parts((".", "alpha-"), ("(s)", "(aq)"), tier="thorough")
_parts((), ())
_parts((".",), ("(g)",))
# a prefix that ends in the very character that also is a charge mark (as every greek prefix 'alpha-' ... does), short enough that prefix + stoichiometry +
# '-' charge + suffix fit into the 10 characters ('a-H2O-(s)'): the code is generic in the two lists, 'a-' stands for the 24 listed 'xxx-'
_parts(("a-",), ("(s)",), tag="p1_s1_dash")


@harness("C01", "_parse_stoich.mapping", functions=[PA + ":_parse_stoich"], kind="shape-bounded", samples=0)
def _(v):
    """the loop that turns (symbol, count) pairs into {atomic number: count}; the pyparsing call is replaced by its result"""
    from chempy.util import parsing
    import z3
    names = ["H", "O", "Og", "Fe"]
    counts = [v.real("c%d" % i, lo=0, hi=60) for i in range(4)]
    ints = [v.int("n%d" % i, lo=0, hi=60) for i in range(2)]

    calls = []

    class _FakeParser:
        # both spellings of the pyparsing call (parseString/parseAll is the pre-3.0 one, deprecated in the installed 3.x in favour of parse_string/parse_all)
        def parse_string(self, s, parse_all=False, parseAll=False):
            calls.append((s, bool(parse_all or parseAll)))
            return [["H", ints[0] * 1.0], ["O", counts[1]], ["Og", ints[1] * 1.0], ["Fe", counts[3]]]
        parseString = parse_string
    v.contract(parsing._get_formula_parser, "_get_formula_parser", None, lambda v_: _FakeParser())
    v.assume(SP.conj([SP.neg(counts[1] == Sym(z3.ToReal(z3.ToInt(counts[1].e)))), SP.neg(counts[3] == Sym(z3.ToReal(z3.ToInt(counts[3].e))))]))
    comp = v.call(parsing._parse_stoich, "H2O")
    v.prove("keys_are_atomic_numbers", set(comp.keys()) == {1, 8, 118, 26})
    # the value, and that it is handed out as an int (sort Int in the engine) although the parser delivered it as the float n.0: equality alone also holds
    # for the float (the same is looked at natively, through the real parser, in very_long_subscripts: 'H2.0' -> 2)
    v.prove("integral_counts_become_ints", SP.conj([comp[1] == ints[0], comp[118] == ints[1]] + [getattr(comp[k], "kind", type(comp[k]).__name__) == "int" for k in (1, 118)]))
    v.prove("fractional_counts_kept", SP.conj([comp[8] == counts[1], comp[26] == counts[3]]))
    v.prove("whole_string_must_match", calls == [("H2O", True)], detail=repr(calls))     # parseAll=True is what rejects 'H2Oxyz', 'H2O)' and 'Hx'
    v.prove("electron_is_empty", v.call(parsing._parse_stoich, "e") == {})


def _ftc(nparts, sep=".."):
    @harness("C01", "formula_to_composition.parts%d%s" % (nparts, "" if sep == ".." else "_middle_dot"), functions=[PA + ":formula_to_composition"], kind="shape-bounded", samples=0, max_paths=600)
    def _(v):
        """hydrate accumulation and charge placement, modular over the contracts of _formula_to_parts, _get_leading_integer,
        _parse_stoich and _get_charge (each proved above)"""
        from chempy.util import parsing
        keys = [1, 8, 11] if nparts < 3 else [1, 8]
        comps = []
        for j in range(nparts):
            pres = {k: v.bool("has_%d_%d" % (j, k)) for k in keys}
            vals = {k: v.int("cnt_%d_%d" % (j, k), lo=1, hi=30) for k in keys}
            comps.append((pres, vals))
        mults = [1] + [v.int("mult_%d" % j, lo=1, hi=20) for j in range(1, nparts)]
        charge = v.int("charge", lo=-6, hi=6)
        has_charge = v.bool("has_charge")
        part_strs = ["part%d" % j for j in range(nparts)]
        stoich_tok = "..".join(("%dX" % 0 if False else "") + p for p in part_strs)
        state = {"j": 0}

        seen = {"parts": [], "leading": [], "charge": []}

        def parts_contract(v_, formula, prefixes, suffixes):
            seen["parts"].append((formula, list(prefixes), tuple(suffixes)))
            return [sep.join(part_strs), ("+c" if v_.path.branch(has_charge.e) else None), (), ()]

        def leading_contract(v_, s):
            seen["leading"].append(s)
            j = part_strs.index(s)
            return mults[j], s

        def stoich_contract(v_, s):
            j = part_strs.index(s)
            pres, vals = comps[j]
            d = {}
            for k in keys:
                if v_.path.branch(pres[k].e):
                    d[k] = vals[k]
            return d
        v.contract(parsing._formula_to_parts, "_formula_to_parts", None, parts_contract)
        v.contract(parsing._get_leading_integer, "_get_leading_integer", None, leading_contract)
        v.contract(parsing._parse_stoich, "_parse_stoich", None, stoich_contract)
        v.contract(parsing._get_charge, "_get_charge", None, lambda v_, tok: (seen["charge"].append(tok), charge)[1])
        r = v.call(parsing.formula_to_composition, "whatever")
        # what is handed to the helpers: the formula as given, every known prefix, the four standard phase suffixes; only the parts AFTER the first
        # may carry a leading count; the charge token goes to _get_charge
        # (the prefixes and suffixes as SETS: the property does not say in which order they are tried; the expected prefixes are the hand-written
        # KNOWN_PREFIXES above, not chempy's own table)
        v.prove("helpers_get_the_right_arguments", len(seen["parts"]) == 1 and seen["parts"][0][0] == "whatever" and set(seen["parts"][0][1]) == KNOWN_PREFIXES
                and set(seen["parts"][0][2]) == {"(s)", "(l)", "(g)", "(aq)"}
                and seen["leading"] == part_strs[1:] and seen["charge"] in ([], ["+c"]) and (len(seen["charge"]) == 1) == (0 in r), detail=repr(seen)[:300])
        v.prove("known_prefixes_include_radical_and_greek", len(seen["parts"]) == 1 and set(seen["parts"][0][1]) == KNOWN_PREFIXES and len(KNOWN_PREFIXES) == 25,
                detail=repr(sorted(set(seen["parts"][0][1]) ^ KNOWN_PREFIXES)) if seen["parts"] else "")
        for k in keys:
            present = SP.disj([comps[j][0][k] for j in range(nparts)])
            total = sum(SP.ite(comps[j][0][k], mults[j] * comps[j][1][k], 0) for j in range(nparts))
            v.prove("key%d_present_iff_in_some_part" % k, SP.iff(k in r, present))
            if k in r:
                v.prove("key%d_is_multiplier_weighted_sum" % k, r[k] == total)
        v.prove("charge_key_iff_charge_token", SP.iff(0 in r, has_charge))
        if 0 in r:
            v.prove("charge_value", r[0] == charge)
        v.prove("no_other_keys", set(r.keys()) <= set(keys) | {0})
    return _


for _n in (1, 2, 3):
    _ftc(_n)
_ftc(2, sep="\u00b7")


@harness("C01", "from_formula_delegation", functions=["chempy.chemistry:Substance.from_formula", "chempy.chemistry:Species.from_formula"], kind="data")
def _(v):
    from chempy.chemistry import Substance, Species
    from chempy.util.parsing import formula_to_composition
    forms = ["H2O", "Fe+3", "SO4-2(aq)", "NaCl(s)", "Na2CO3..7H2O(s)", ".NO2(g)", "alpha-FeOOH(s)", "[Fe(CN)6]-3", "CO2(aq)", "Hg(l)", "e-", "Ca2.832Fe0.6285Mg5.395(CO3)6"]
    v.prove("Substance_composition", all(_try(Substance.from_formula, f).composition == _try(formula_to_composition, f) for f in forms))
    v.prove("Species_composition", all(_try(Species.from_formula, f).composition == _try(formula_to_composition, f) for f in forms))
    v.prove("Species_phase_idx", [_try(Species.from_formula, f).phase_idx for f in ("NaCl(s)", "Hg(l)", ".NO2(g)", "CO2(aq)", "H2O")] == [1, 2, 3, 0, 0])


@harness("C01", "no_state_between_parses", functions=["chempy.util.parsing:formula_to_composition", "chempy.chemistry:Substance.from_formula", "chempy.chemistry:Species.from_formula"], kind="data")
def _(v):
    """a parse depends on the formula given and on nothing that happened before: the caller may do what it likes with an earlier result
    (Substance.__init__ itself writes the `charge` keyword into the composition it is handed)"""
    from chempy.util import parsing
    from chempy import chemistry

    # (an exception of the code under test becomes a _Raised, which fails the obligation that looks at it)
    def ftc(*a, **kw):
        return _try(parsing.formula_to_composition, *a, **kw)

    class Substance:
        from_formula = staticmethod(lambda *a, **kw: _try(chemistry.Substance.from_formula, *a, **kw))

    class Species:
        from_formula = staticmethod(lambda *a, **kw: _try(chemistry.Species.from_formula, *a, **kw))
    d1 = ftc("C60")
    d1[0] = 7
    d1[6] = 1
    d1[99] = 3
    v.prove("mutating_a_returned_composition_does_not_change_later_parses", ftc("C60") == {6: 60} and ftc("C60") is not ftc("C60"))
    s4 = Substance.from_formula("Ce", charge=4)
    s0 = Substance.from_formula("Ce")
    s4b = Substance.from_formula("Ce", charge=4)
    v.prove("charge_keyword_then_plain", s4.composition == {58: 1, 0: 4} and s0.composition == {58: 1} and s4b.composition == {58: 1, 0: 4} and s0.charge == 0)
    a = Species.from_formula("Fe+3(aq)")
    a.composition[26] = 5
    b = Species.from_formula("Fe+3(aq)")
    v.prove("species_twice", b.composition == {26: 1, 0: 3} and b.phase_idx == 0 and ftc("Fe+3(aq)") == {26: 1, 0: 3})
    seq = ["H2O", "Na+", "H2O", "Na2CO3..7H2O(s)", "Na+", "e-", "H2O"]
    want = {"H2O": {1: 2, 8: 1}, "Na+": {11: 1, 0: 1}, "Na2CO3..7H2O(s)": {11: 2, 6: 1, 8: 10, 1: 14}, "e-": {0: -1}}
    v.prove("repeated_and_interleaved_formulas", all(ftc(f) == want[f] for f in seq))


@harness("C01", "very_long_subscripts", functions=["chempy.util.parsing:_get_formula_parser (count parse action)", "chempy.util.parsing:_parse_stoich", "chempy.util.parsing:formula_to_composition"], kind="data")
def _(v):
    """'unbounded length': integer subscripts, group multipliers, hydrate counts and the digits of the charge are read exactly however many digits they
    have (no round trip through a double), decimals stay decimals"""
    from chempy.util.parsing import formula_to_composition as ftc
    n = 2 ** 53 + 1
    big = int("9" * 400)
    cases = [("H%d" % n, {1: n}), ("(H)%d" % n, {1: n}), ("H%dO%d" % (n, n + 2), {1: n, 8: n + 2}), ("(H2O)%d" % n, {1: 2 * n, 8: n}), ("H" + "9" * 400, {1: big}),
             ("Na2CO3..%dH2O" % n, {11: 2, 6: 1, 8: 3 + n, 1: 2 * n}), ("Fe0.5O", {26: 0.5, 8: 1}), ("H02", {1: 2}),
             # a decimal subscript with an integral value is handed out as that integer (type looked at below), also on a group
             ("H2.0", {1: 2}), ("(H)2.0", {1: 2}), ("H2.50", {1: 2.5}),
             # the same for the digits of a CHARGE (the symbolic _get_charge harness stops at 4 characters): exact at any length, with suffix, both signs
             ("Fe+%d" % n, {26: 1, 0: n}), ("Fe-%d" % n, {26: 1, 0: -n}), ("SO4-%d(aq)" % n, {16: 1, 8: 4, 0: -n}), ("Fe+" + "9" * 400, {26: 1, 0: big}), ("Fe-" + "9" * 400, {26: 1, 0: -big})]
    bad = []
    for f, want in cases:
        try:
            got = ftc(f)
        except Exception as ex:
            got = repr(ex)
        if got != want or (isinstance(got, dict) and any(type(x) is not type(want[k]) for k, x in got.items())):
            bad.append((f[:30], str(got)[:80]))
    v.prove("integer_counts_exact_at_any_length", not bad, detail=repr(bad))


@harness("C01", "written_examples", functions=[PA + ":formula_to_composition", PA + ":_get_formula_parser", "chempy.chemistry:Substance.from_formula", "chempy.chemistry:Species.from_formula"], kind="data")
def _(v):
    """expectations written by hand from the notation (not from the implementation), through the real pyparsing grammar: nested and mixed brackets,
    both hydrate separators, prefixes, suffixes, primes, charges incl. the electron; and one example per listed rejection class"""
    from chempy.util.parsing import formula_to_composition as ftc
    from chempy.chemistry import Substance, Species
    want = {
        "(H2O)3": {1: 6, 8: 3},
        "((CH3)2N)3P": {6: 6, 1: 18, 7: 3, 15: 1},
        "{[Co(NH3)4]2}3": {27: 6, 7: 24, 1: 72},
        "H2O''+": {1: 2, 8: 1, 0: 1},
        "H2O*": {1: 2, 8: 1},
        "Na2CO3..7H2O(s)": {11: 2, 6: 1, 8: 10, 1: 14},
        "Na2CO3·7H2O": {11: 2, 6: 1, 8: 10, 1: 14},
        "CuSO4..5H2O..2NH3": {29: 1, 16: 1, 8: 9, 1: 16, 7: 2},
        "alpha-FeOOH(s)": {26: 1, 8: 2, 1: 1},
        ".NO2(g)": {7: 1, 8: 2},
        "e-": {0: -1},
        "e-(aq)": {0: -1},
        "[Fe(CN)6]-3": {26: 1, 6: 6, 7: 6, 0: -3},
        "Fe(SCN)2+": {26: 1, 16: 2, 6: 2, 7: 2, 0: 1},
        "SO4-2(aq)": {16: 1, 8: 4, 0: -2},
        "Og118": {118: 118},
        "UO2.3": {92: 1, 8: 2.3},
        "Hg2+2": {80: 2, 0: 2},
        "O2-": {8: 2, 0: -1},
    }
    got = {f: _try(ftc, f) for f in want}
    bad = {f: got[f] for f in want if got[f] != want[f]}
    v.prove("compositions_as_written", not bad, detail=repr(bad))
    refused = {}
    ill_formed = ("H2Oxyz", "Hx", "Xx2", "H2O)", "(H2O", "[H2O)", "{H2O]", "H2O]", "Fe+3-", "Fe+-", "Na+Cl-", "Fe/3+", "H2O++",
                  # a capitalised non-symbol in an inner position: inside a group, in a hydrate part, behind a prefix / before a suffix / before a charge
                  "(Xx)2", "(H2Xx)2", "Na2Xx", "H2O..2Xx", "Xx..H2O", "alpha-Xx", "Xx(s)", "Xx+2",
                  # unbalanced brackets: every crossed pair of the three kinds, each opener unclosed, each closer unopened, one too many, in a hydrate part
                  "[H2O}", "(H2O]", "(H2O}", "{H2O)", "{H2O", "[H2O", "H2O}", "(H2O))", "((H2O)", "Na2CO3..7H2O)", "H2O..(H2O",
                  # contradictory charge marks with the '-' FIRST, doubled marks of either sign, also behind a prefix and before a suffix
                  "Fe-+", "Fe-3+", "Na-Cl+", "Fe-+2", "Fe--", "Fe-2-", "O-2-", "Fe++", "Fe+3+", "Fe2/3+", "alpha-Fe-+", "Fe-+(aq)")
    for f in ill_formed:
        try:
            refused[f] = ftc(f)
        except Exception:
            pass
    v.prove("ill_formed_strings_are_refused", not refused, detail=repr(refused))
    # the public `prefixes=` argument is what decides which prefixes are read over: a custom one is dropped, and with it the standard ones are no
    # longer known ('.NO2' then starts with a character the grammar has no token for, the '-' of 'alpha-' is a charge mark like the last one)
    pref = []
    for f, kw, exp in (("x-Fe", dict(prefixes=("x-",)), {26: 1}), ("x-Fe+3(aq)", dict(prefixes=("x-",)), {26: 1, 0: 3}), ("x-Fe-", dict(prefixes=["x-"]), {26: 1, 0: -1}),
                       (".NO2", dict(prefixes=()), None), ("alpha-Fe-", dict(prefixes=(".",)), None), (".NO2(g)", dict(prefixes=(".",)), {7: 1, 8: 2}),
                       ("Fe+2(ads)", dict(suffixes=("(ads)",)), {26: 1, 0: 2}), ("x-Fe+2(ads)", dict(prefixes=("x-",), suffixes=("(ads)",)), {26: 1, 0: 2})):
        try:
            res = ftc(f, **kw)
        except Exception:
            res = None
        if res != exp:
            pref.append((f, kw, res))
    v.prove("prefixes_and_suffixes_arguments_are_honoured", not pref, detail=repr(pref))        # (None = refused with whatever exception)
    # nesting far beyond the depth (3) of the bounded enumeration, every level with its own multiplier: 2**20 water molecules
    deep = "(" * 20 + "H2O" + ")2" * 20
    try:
        res = ftc(deep)
    except Exception as ex:
        res = repr(ex)[:80]
    v.prove("twenty_levels_of_nesting", res == {1: 2 * 2 ** 20, 8: 2 ** 20}, detail=repr(res))
    sub = _try(Substance.from_formula, "Na2CO3..7H2O(s)")
    v.prove("substance_carries_name_and_composition", sub.name == "Na2CO3..7H2O(s)" and sub.composition == want["Na2CO3..7H2O(s)"] and sub.charge == 0)
    sp = [_try(Species.from_formula, "Na+(aq)", phases={"(aq)": 2}), _try(Species.from_formula, "Na+(cr)", phases=("(cr)",)), _try(Species.from_formula, "Na+(aq)", phases=("(cr)",))]
    v.prove("species_with_custom_phases", [x.composition for x in sp] == [{11: 1, 0: 1}] * 3 and [x.phase_idx for x in sp] == [2, 1, 0])
    # custom phase suffixes are stripped also when the phase index is given explicitly (the two optional arguments together)
    both = []
    for f, comp in (("UO2+2(ads)", {92: 1, 8: 2, 0: 2}), ("CO(ads)", {6: 1, 8: 1}), ("Na+(aq)", {11: 1, 0: 1})):
        for kw, idx in ((dict(phases={"(aq)": 0, "(ads)": 1}, phase_idx=1), 1), (dict(phases=("(ads)",), phase_idx=3), 3)):
            try:
                x = Species.from_formula(f, **kw)
                if x.composition != comp or x.phase_idx != idx or x.name != f:
                    both.append((f, kw, x.composition, x.phase_idx))
            except Exception as ex:
                both.append((f, kw, repr(ex)[:60]))
    v.prove("species_with_custom_phases_and_explicit_index", not both, detail=repr(both[:3]))
