"""C07  Equilibrium equations vanish exactly at, and only at, true equilibrium states."""
import math

from pyvc.api import harness
from pyvc import spec as SP
from pyvc.sym import Sym

META = {
    "explanation": "equilibrium_quotient, vec_dot_vec/mat_dot_vec, prodpow, EqSystem.stoichs/eq_constants/stoichs_constants (no rref), and the residual vectors NumSysLin.f, NumSysSquare.f, NumSysLog.f are proved entry by entry (Q_i/K_i - 1, conservation rows B(y - y0), A ln c - ln K, conservation of exp(y)) for every concentration, initial state and constant at fixed homogeneous systems; zero-iff-equilibrium then follows in SMT; the log form's equivalence to the product form is the standard log-product law (5.3)",
    "trusted_base": ["numpy object-array arithmetic (5.2)", "pyneqsys.symbolic.linear_exprs(A, x, b, rref=False) = [sum_j A_ij x_j - b_i] (5.6; read in the installed source)", "exp/log real functions (5.3)"],
    "not_decided": ["row-reduced configurations (pyneqsys linear_rref, sympy rref), NumSysLinRel / NumSysLinTanh (sympy Min/Piecewise/tanh): bounded stand-in"],
    "assumptions": ["system shapes fixed per harness (two homogeneous systems: water/ammonia, and a 2:1 complexation with a spectator)"],
}
EQ = "chempy._eqsys"


def systems():
    return {
        "ammonia": (["H2O", "H+", "OH-", "NH4+", "NH3"], [({"H2O": 1}, {"H+": 1, "OH-": 1}), ({"NH4+": 1}, {"NH3": 1, "H+": 1})]),
        "complex": (["Fe+3", "SCN-", "FeSCN+2", "Fe(SCN)2+", "Cl-"], [({"Fe+3": 1, "SCN-": 1}, {"FeSCN+2": 1}), ({"FeSCN+2": 1, "SCN-": 1}, {"Fe(SCN)2+": 1}),
                                                                         ({"Fe+3": 1, "SCN-": 2}, {"Fe(SCN)2+": 1})]),
    }


def build(v, name):
    from chempy.chemistry import Equilibrium
    from chempy.equilibria import EqSystem
    subs, eqs = systems()[name]
    Ks = [v.real("K%d" % i, lo=1e-3, hi=1e3) for i in range(len(eqs))]
    rxns = [Equilibrium(r, p, K) for (r, p), K in zip(eqs, Ks)]
    from chempy.chemistry import Species
    from collections import OrderedDict
    eqsys = EqSystem(rxns, OrderedDict((k, Species.from_formula(k)) for k in subs))
    assert len(eqsys.composition_balance_vectors()[1]) >= 3
    return eqsys, subs, eqs, Ks


def spec_Q(eqs, conc, i):
    r, p = eqs[i]
    q = 1
    for k, n in p.items():
        q = q * conc[k] ** n
    for k, n in r.items():
        q = q / conc[k] ** n
    return q


def _residual(name):
    @harness("C07", "residuals." + name, functions=[EQ + ":NumSysLin.f", EQ + ":NumSysSquare.f", EQ + ":NumSysLog.f", EQ + ":_NumSys._get_A_ks", EQ + ":_NumSys._inits_and_eq_params",
                                                    "chempy.equilibria:EqSystem.stoichs_constants", "chempy.equilibria:EqSystem.eq_constants", "chempy.reactionsystem:ReactionSystem.stoichs",
                                                    "chempy._util:prodpow", "chempy._util:mat_dot_vec", "chempy._util:vec_dot_vec", "chempy.reactionsystem:ReactionSystem.composition_balance_vectors"],
             kind="shape-bounded", div_mode="assume", samples=15)
    def _(v):
        from chempy._eqsys import NumSysLin, NumSysSquare, NumSysLog
        eqsys, subs, eqs, Ks = build(v, name)
        y = [v.real("y_" + s, lo=1e-6, hi=10) for s in subs]
        y0 = [v.real("y0_" + s, lo=0, hi=10) for s in subs]
        conc = dict(zip(subs, y))
        B, keys = eqsys.composition_balance_vectors()
        nr, nk = len(eqs), len(keys)
        params = list(y0) + list(Ks)
        cons = [sum(B[c][j] * (y[j] - y0[j]) for j in range(len(subs))) for c in range(nk)]
        # --- linear formulation
        f = v.call(NumSysLin(eqsys, backend=math).f, y, params)
        v.prove("lin.length_is_nr_plus_conservation_relations", len(f) == nr + nk)
        for i in range(nr):
            v.prove_identity("lin.equil_%d_is_Q_over_K_minus_1" % i, f[i], spec_Q(eqs, conc, i) / Ks[i] - 1)
        for c in range(nk):
            v.prove_identity("lin.conservation_key%d" % keys[c], f[nr + c] + 0.0, cons[c] + 0.0)
        if v.symbolic:
            at_eq = SP.conj([spec_Q(eqs, conc, i) == Ks[i] for i in range(nr)] + [x == 0 for x in cons])
            v.prove("lin.zero_iff_equilibrium_and_conserving", SP.iff(SP.conj([x == 0 for x in f]), at_eq))
        # --- squared variables
        z = [v.real("z_" + s, lo=-3, hi=3) for s in subs]
        v.assume(SP.conj([SP.neg(zi == 0) for zi in z]))
        fs = v.call(NumSysSquare(eqsys, backend=math).f, z, params)
        fl = v.call(NumSysLin(eqsys, backend=math).f, [zi * zi for zi in z], params)
        v.prove("square.length", len(fs) == nr + nk)
        for i in range(nr + nk):
            v.prove_identity("square.entry_%d_is_lin_of_squares" % i, fs[i] + 0.0, fl[i] + 0.0)
        # --- logarithmic variables
        be = v.backend()
        ly = [v.real("ly_" + s, lo=-10, hi=3) for s in subs]
        flog = v.call(NumSysLog(eqsys, backend=be).f, ly, params)
        v.prove("log.length", len(flog) == nr + nk)
        A = eqsys.stoichs()
        for i in range(nr):
            v.prove_identity("log.equil_%d" % i, flog[i], sum(int(A[i][j]) * ly[j] for j in range(len(subs))) - be.log(Ks[i]))
        for c in range(nk):
            v.prove_identity("log.conservation_key%d" % keys[c], flog[nr + c] + 0.0, sum(B[c][j] * (be.exp(ly[j]) - y0[j]) for j in range(len(subs))) + 0.0)
    return _


for _n in systems():
    _residual(_n)


@harness("C07", "equilibrium_quotient", functions=["chempy.chemistry:equilibrium_quotient", "chempy.equilibria:EqSystem.equilibrium_quotients"], kind="shape-bounded", div_mode="assume", samples=20)
def _(v):
    from chempy.chemistry import equilibrium_quotient
    c = [v.real("c%d" % i, lo=0.01, hi=10) for i in range(4)]
    q = v.call(equilibrium_quotient, c, [-2, -1, 3, 0])
    v.prove_identity("product_of_powers", q, c[2] ** 3 / (c[0] ** 2 * c[1]))
    eqsys, subs, eqs, Ks = build(v, "ammonia")
    y = [v.real("y_" + s, lo=1e-6, hi=10) for s in subs]
    if v.symbolic:
        qs = v.call(eqsys.equilibrium_quotients, y)
        for i in range(len(eqs)):
            v.prove_identity("system_quotient_%d" % i, qs[i], spec_Q(eqs, dict(zip(subs, y)), i))


@harness("C07", "mat_dot_vec", functions=["chempy._util:mat_dot_vec", "chempy._util:vec_dot_vec", "chempy._util:reducemap", "chempy._util:prodpow"], kind="shape-bounded", div_mode="assume", samples=20)
def _(v):
    from chempy._util import mat_dot_vec, vec_dot_vec, prodpow
    M = [[v.real("m%d%d" % (i, j), lo=-3, hi=3) for j in range(3)] for i in range(2)]
    x = [v.real("x%d" % j, lo=0.1, hi=3) for j in range(3)]
    t = [v.real("t%d" % i, lo=-3, hi=3) for i in range(2)]
    r = v.call(mat_dot_vec, M, x)
    v.prove("rows", SP.conj([v.eq(r[i], sum(M[i][j] * x[j] for j in range(3))) for i in range(2)] + [len(r) == 2]))
    r = v.call(mat_dot_vec, M, x, t)
    v.prove("rows_plus_term", SP.conj([v.eq(r[i], sum(M[i][j] * x[j] for j in range(3)) + t[i]) for i in range(2)]))
    v.prove("dot", v.eq(v.call(vec_dot_vec, M[0], x), sum(M[0][j] * x[j] for j in range(3))))
    pp = v.call(prodpow, x, [[1, 0, 2], [-1, 1, 0]])
    v.prove_identity("prodpow_0", pp[0], x[0] * x[2] * x[2])
    v.prove_identity("prodpow_1", pp[1], x[1] / x[0])


@harness("C07", "no_hidden_state_between_evaluations", functions=[EQ + ":NumSysLin.f", EQ + ":NumSysLog.f", EQ + ":_NumSys._get_A_ks", EQ + ":_NumSys._inits_and_eq_params"], kind="shape-bounded", div_mode="assume", samples=10)
def _(v):
    """the same formulation object evaluated twice with different constants / initial states must use the current ones"""
    from chempy._eqsys import NumSysLin, NumSysLog
    eqsys, subs, eqs, Ks = build(v, "ammonia")
    K2 = [v.real("K_second%d" % i, lo=1e-3, hi=1e3) for i in range(len(eqs))]
    y = [v.real("y_" + s, lo=1e-6, hi=10) for s in subs]
    y0a = [v.real("y0a_" + s, lo=0, hi=10) for s in subs]
    y0b = [v.real("y0b_" + s, lo=0, hi=10) for s in subs]
    conc = dict(zip(subs, y))
    B, keys = eqsys.composition_balance_vectors()
    nr = len(eqs)
    ns = NumSysLin(eqsys, backend=math)
    v.call(ns.f, y, list(y0a) + list(Ks))
    f2 = v.call(ns.f, y, list(y0b) + list(K2))
    for i in range(nr):
        v.prove_identity("lin.second_call_uses_current_constants_%d" % i, f2[i], spec_Q(eqs, conc, i) / K2[i] - 1)
    for c in range(len(keys)):
        v.prove_identity("lin.second_call_uses_current_initial_state_key%d" % keys[c], f2[nr + c] + 0.0, sum(B[c][j] * (y[j] - y0b[j]) for j in range(len(subs))) + 0.0)
    be = v.backend()
    nl = NumSysLog(eqsys, backend=be)
    v.call(nl.f, y, list(y0a) + list(Ks))
    g2 = v.call(nl.f, y, list(y0b) + list(K2))
    A = eqsys.stoichs()
    for i in range(nr):
        v.prove_identity("log.second_call_uses_current_constants_%d" % i, g2[i], sum(int(A[i][j]) * y[j] for j in range(len(subs))) - be.log(K2[i]))
    # constants taken from the system itself when no parameters are passed (new_eq_params=False): all ns initial concentrations are used
    ns3 = NumSysLin(eqsys, backend=math, new_eq_params=False)
    f3 = v.call(ns3.f, y, list(y0b))
    for c in range(len(keys)):
        v.prove_identity("lin.stored_constants_mode_uses_all_initial_concentrations_key%d" % keys[c], f3[nr + c] + 0.0, sum(B[c][j] * (y[j] - y0b[j]) for j in range(len(subs))) + 0.0)
    for i in range(nr):
        v.prove_identity("lin.stored_constants_mode_equil_%d" % i, f3[i], spec_Q(eqs, conc, i) / Ks[i] - 1)
