# -*- coding: utf-8 -*-
"""Bounded stand-ins for C09 (unit conversion is exact, reversible, refuses incompatible
dimensions; registries; derived units; registry round trip; Backend; array helpers).

ORACLE: bounded/_unitsoracle.py -- a hand-written table of SI scale factors and 7-component
dimension exponents.  Expected values are products of table entries; `quantities` is never asked
to rescale/simplify in order to produce an expectation.  A returned quantity is measured by
``phys``: magnitude times the table scales of the unit objects it names.

Tolerances: every comparison is relative 1e-9 (1e-6 when the CODATA-dependent units eV /
per100eV take part), far above the ~1e-14 noise of a few dozen float multiplications.
"""
import json
import math
import random

import numpy as np

from . import _unitsoracle as O

RT = 1e-9


def _rt(*loose):
    return 1e-6 if any(loose) else RT


def _spec(s):
    return [(a, int(e)) for a, e in s]


def _exc(e):
    return "%s: %s" % (type(e).__name__, str(e)[:200])


def _raises(f, *a, **k):
    """(raised?, value or exception text)"""
    try:
        v = f(*a, **k)
    except Exception as e:  # any exception counts as a refusal
        return True, _exc(e)
    return False, repr(v)[:120]


# =========================================================================================
# 1. to_unitless on the exponent lattice
# =========================================================================================

def gen_lattice(rng):
    for _ in range(1000):
        dims = O.rand_dims(rng)
        qs = O.rand_spec_with_dims(rng, dims)
        ts = O.rand_spec_with_dims(rng, dims)
        t2 = O.rand_spec_with_dims(rng, dims)
        if abs(O.spec_log10(qs) - O.spec_log10(ts)) < 150 and abs(O.spec_log10(qs) - O.spec_log10(t2)) < 150:
            break
    bad_dim = rng.choice([O.L, O.M, O.T, O.I, O.TH, O.N])
    bad = (rng.choice(O.BASE_CHOICES[bad_dim]), rng.choice([-1, 1]))
    # element specs for containers: same dims, other units
    els = [O.rand_spec_with_dims(rng, dims, ncompound=rng.choice([0, 1])) for _ in range(3)]
    return {"q": qs, "mag": O.rand_mag(rng), "t": ts, "t2": t2, "bad": list(bad),
            "a": round(rng.uniform(-5, 5), 3) or 1.5, "b": round(rng.uniform(0.1, 5), 3),
            "mag2": O.rand_mag(rng), "els": els, "elmags": [O.rand_mag(rng) for _ in range(3)],
            "arr": [O.rand_mag(rng) for _ in range(rng.randint(1, 4))]}


def check_lattice(c):
    from chempy.units import to_unitless, unit_of, is_unitless
    qs, ts, t2s = _spec(c["q"]), _spec(c["t"]), _spec(c["t2"])
    sq, dq, lq = O.spec_scale_dims(qs)
    st, dt, lt = O.spec_scale_dims(ts)
    s2, d2, l2 = O.spec_scale_dims(t2s)
    assert dq == dt == d2, "generator bug: dims differ"
    rt = _rt(lq, lt, l2)
    uq, ut, ut2 = O.build(qs), O.build(ts), O.build(t2s)
    mag = c["mag"]
    q = mag * uq
    errs = []
    tag = "q=%r*%s target=%s" % (mag, O.spec_str(qs), O.spec_str(ts))
    try:
        # (a) exact ratio
        got = to_unitless(q, ut)
        exp = mag * (sq / st)
        if not isinstance(got, float):
            errs.append("scalar conversion returned %r, not a float" % type(got))
        if not O.close(got, exp, rt):
            errs.append("to_unitless(%s): expected %r, observed %r" % (tag, exp, got))
        # (b) multiplying back reproduces q
        back = got * ut
        pb = O.phys(back)
        if pb[1] != dq or not O.close(pb[0], mag * sq, rt):
            errs.append("(to_unitless(q,t)*t) has SI value/dims %r %r, expected %r %r (%s)" % (pb[0], pb[1], mag * sq, dq, tag))
        got_b = to_unitless(back, uq)
        if not O.close(got_b, mag, rt):
            errs.append("to_unitless(to_unitless(q,t)*t, unit(q)) = %r, expected %r (%s)" % (got_b, mag, tag))
        # (c) composition through a third compatible unit
        via = to_unitless(to_unitless(q, ut2) * ut2, ut)
        if not O.close(via, exp, rt):
            errs.append("conversion via %s gives %r, direct expectation %r (%s)" % (O.spec_str(t2s), via, exp, tag))
        # (d) linearity
        a, b = c["a"], c["b"]
        lin = to_unitless(a * q, ut)
        if not O.close(lin, a * exp, rt):
            errs.append("to_unitless(a*q) = %r, a*to_unitless(q) = %r (a=%r; %s)" % (lin, a * exp, a, tag))
        q2 = c["mag2"] * ut2
        e2 = c["mag2"] * (s2 / st)
        lin2 = to_unitless(a * q + b * q2, ut)
        ref2 = a * exp + b * e2
        if not O.close(lin2, ref2, rt, atol=rt * (abs(a * exp) + abs(b * e2))):
            errs.append("to_unitless(a*q+b*q2) = %r, expected %r (%s)" % (lin2, ref2, tag))
        # (e) unit_of / is_unitless
        if O.phys(unit_of(q))[1] != dq or is_unitless(q):
            errs.append("unit_of/is_unitless wrong for %s" % tag)
        # (f) containers: element-wise
        els = [_spec(s) for s in c["els"]]
        elq = [m * O.build(s) for m, s in zip(c["elmags"], els)]
        elexp = [m * (O.spec_scale_dims(s)[0] / st) for m, s in zip(c["elmags"], els)]
        rte = _rt(lt, *[O.spec_scale_dims(s)[2] for s in els])
        for label, cont in (("list", list(elq)), ("tuple", tuple(elq)),
                            ("object ndarray", np.array(elq + [None], dtype=object)[:-1]),
                            ("nested list", [elq[:2], elq[1:]])):
            got_c = to_unitless(cont, ut)
            ref = np.array([elexp[:2], elexp[1:]]) if label == "nested list" else np.array(elexp)
            if not isinstance(got_c, np.ndarray) or got_c.shape != ref.shape or not O.close(got_c, ref, rte):
                errs.append("to_unitless(%s of mixed units) = %r, expected %r (target %s)" % (label, got_c, ref, O.spec_str(ts)))
        dct = {"k%d" % i: v for i, v in enumerate(elq)}
        got_d = to_unitless(dct, ut)
        if not isinstance(got_d, dict) or sorted(got_d) != sorted(dct) or \
                any(not O.close(got_d["k%d" % i], elexp[i], rte) for i in range(len(elq))):
            errs.append("to_unitless(dict) = %r, expected %r" % (got_d, elexp))
        if any(v is not elq[i] for i, v in enumerate(dct.values())):
            errs.append("to_unitless(dict) modified its argument")
        arr = np.array(c["arr"]) * uq
        got_a = to_unitless(arr, ut)
        ref_a = np.array(c["arr"]) * (sq / st)
        if not isinstance(got_a, np.ndarray) or got_a.shape != ref_a.shape or not O.close(got_a, ref_a, rt):
            errs.append("to_unitless(array quantity) = %r, expected %r (%s)" % (got_a, ref_a, tag))
    except O.Unknown:
        raise
    except Exception as e:
        errs.append("exception on a compatible conversion (%s): %s" % (tag, _exc(e)))
    # (g) one-off incompatible targets must raise
    ba, be_ = c["bad"]
    bad_t = ut * O.getu(ba) ** be_
    for label, val in (("scalar", q), ("list", [q, q]), ("array", np.array([1.0, 2.0]) * uq), ("dict", {"x": q})):
        r, v = _raises(to_unitless, val, bad_t)
        if not r:
            errs.append("to_unitless(%s %s, incompatible target %s*%s**%d) returned %s instead of raising"
                        % (label, tag, O.spec_str(ts), ba, be_, v))
    r, v = _raises(to_unitless, q)  # dimensional value, dimensionless target
    if not r:
        errs.append("to_unitless(%s) without target returned %s instead of raising" % (tag, v))
    r, v = _raises(to_unitless, mag, ut)  # plain number, dimensional target
    if not r:
        errs.append("to_unitless(plain %r, %s) returned %s instead of raising" % (mag, O.spec_str(ts), v))
    return errs


# =========================================================================================
# 2. all ordered pairs of same-dimension units x exponents -3..3 (exhaustive), definitions
# =========================================================================================

def _single_dim_units():
    out = {}
    for a, (sc, dm) in O.TABLE.items():
        nz = [i for i, e in enumerate(dm) if e]
        if len(nz) == 1 and dm[nz[0]] == 1 and a not in ("hertz",):
            out.setdefault(nz[0], []).append(a)
    return out


def enum_pairs():
    cases = []
    for dim, names in sorted(_single_dim_units().items()):
        for a in names:
            for b in names:
                cases.append({"u1": a, "u2": b})
    return cases


def check_pair(c):
    from chempy.units import to_unitless
    a, b = c["u1"], c["u2"]
    errs = []
    s1, d1 = O.TABLE[a]
    s2, d2 = O.TABLE[b]
    for e in (-3, -2, -1, 1, 2, 3):
        try:
            got = to_unitless(O.getu(a) ** e, O.getu(b) ** e)
            exp = (s1 / s2) ** e
            if not O.close(got, exp, RT):
                errs.append("to_unitless(%s**%d, %s**%d) = %r, expected %r" % (a, e, b, e, got, exp))
            got = to_unitless(2.5 * O.getu(a) ** e, O.getu(b) ** e)
            if not O.close(got, 2.5 * exp, RT):
                errs.append("to_unitless(2.5*%s**%d, %s**%d) = %r, expected %r" % (a, e, b, e, got, 2.5 * exp))
        except Exception as ex:
            errs.append("to_unitless(%s**%d, %s**%d) raised %s" % (a, e, b, e, _exc(ex)))
        # same units, exponents differing by one -> must raise
        r, v = _raises(to_unitless, O.getu(a) ** e, O.getu(b) ** (e + 1))
        if not r:
            errs.append("to_unitless(%s**%d, %s**%d) returned %s instead of raising" % (a, e, b, e + 1, v))
    return errs


def enum_defs():
    return [{"attr": a} for a in sorted(O.TABLE)]


def check_def(c):
    """every unit of the table (incl. the chemistry-specific ones chempy defines itself) against
    the SI product of base units given by the table"""
    from chempy.units import to_unitless, get_physical_dimensionality
    a = c["attr"]
    sc, dm = O.TABLE[a]
    rt = _rt(a in O.LOOSE)
    si = [("metre", dm[0]), ("kg", dm[1]), ("s", dm[2]), ("A", dm[3]), ("K", dm[4]), ("candela", dm[5]), ("mol", dm[6])]
    errs = []
    try:
        got = to_unitless(O.getu(a), O.build(si))
        if not O.close(got, sc, rt):
            errs.append("default_units.%s = %r SI, expected %r" % (a, got, sc))
        gd = get_physical_dimensionality(O.getu(a))
        ed = {O.DIMS[i]: e for i, e in enumerate(dm) if e}
        if dict(gd) != ed:
            errs.append("get_physical_dimensionality(%s) = %r, expected %r" % (a, dict(gd), ed))
    except Exception as ex:
        errs.append("default_units.%s: %s" % (a, _exc(ex)))
    for i in range(7):
        if i == O.J:
            continue
        for sgn in (-1, 1):
            si2 = list(si)
            si2[i] = (si2[i][0], si2[i][1] + sgn)
            r, v = _raises(to_unitless, O.getu(a), O.build(si2))
            if not r:
                errs.append("to_unitless(%s, %s) returned %s instead of raising" % (a, O.spec_str(si2), v))
    return errs


# derived chemistry-specific definitions that are quantities rather than units
DERIVED_DEFS = {
    "m3": (1.0, (3, 0, 0, 0, 0, 0, 0)), "dm3": (1e-3, (3, 0, 0, 0, 0, 0, 0)), "cm3": (1e-6, (3, 0, 0, 0, 0, 0, 0)),
    "perMolar_perSecond": (1e-3, (3, 0, -1, 0, 0, 0, -1)),
    "umol_per_J": (1e-6, (-2, -1, 2, 0, 0, 0, 1)),
}


def enum_derived_defs():
    return [{"attr": a} for a in sorted(DERIVED_DEFS)]


def check_derived_def(c):
    a = c["attr"]
    sc, dm = DERIVED_DEFS[a]
    try:
        p = O.phys(O.getu(a))
    except O.Unknown:
        raise
    except Exception as ex:
        return ["default_units.%s: %s" % (a, _exc(ex))]
    if p[1] != dm or not O.close(p[0], sc, RT):
        return ["default_units.%s has SI value %r dims %r, expected %r %r" % (a, p[0], p[1], sc, dm)]
    return []


# =========================================================================================
# 3. registries: dimensionality, default unit, unitless value, derived units
# =========================================================================================

DERIVED_KEYS = {  # independent SI exponents (L, M, T, I, Th, J, N)
    "diffusivity": (2, 0, -1, 0, 0, 0, 0),
    "diffusion": (2, 0, -1, 0, 0, 0, 0),
    "electrical_mobility": (0, -1, 2, 1, 0, 0, 0),      # m2/(V s) = A s2 / kg
    "permittivity": (-3, -1, 4, 2, 0, 0, 0),            # F/m
    "charge": (0, 0, 1, 1, 0, 0, 0),
    "energy": (2, 1, -2, 0, 0, 0, 0),
    "concentration": (-3, 0, 0, 0, 0, 0, 1),
    "density": (-3, 1, 0, 0, 0, 0, 0),
    "radiolytic_yield": (-2, -1, 2, 0, 0, 0, 1),        # mol/J
    "doserate": (2, 0, -3, 0, 0, 0, 0),                 # Gy/s
    "linear_energy_transfer": (1, 1, -2, 0, 0, 0, 0),   # J/m
    "length": (1, 0, 0, 0, 0, 0, 0), "mass": (0, 1, 0, 0, 0, 0, 0), "time": (0, 0, 1, 0, 0, 0, 0),
    "current": (0, 0, 0, 1, 0, 0, 0), "temperature": (0, 0, 0, 0, 1, 0, 0),
    "luminous_intensity": (0, 0, 0, 0, 0, 1, 0), "amount": (0, 0, 0, 0, 0, 0, 1),
}


def gen_registry(rng):
    dims = O.rand_dims(rng)
    kind = rng.choice(["SI", "cgs", "random", "random", "random"])
    same = O.rand_spec_with_dims(rng, dims, ncompound=0)
    return {"q": O.rand_spec_with_dims(rng, dims), "mag": O.rand_mag(rng),
            "q2": same, "mag2": O.rand_mag(rng),
            "reg": O.registry_spec(kind, rng), "kind": kind,
            "ratio": [rng.choice(O.BASE_CHOICES[O.N]), rng.choice(O.BASE_CHOICES[O.N])]}


def check_registry(c):
    from chempy.units import (get_physical_dimensionality, default_unit_in_registry,
                              unitless_in_registry, get_derived_unit)
    qs = _spec(c["q"])
    sq, dq, lq = O.spec_scale_dims(qs)
    rt = _rt(lq)
    rspec = c["reg"]
    reg = O.build_registry(rspec)
    q = c["mag"] * O.build(qs)
    errs = []
    tag = "q=%r*%s registry=%s" % (c["mag"], O.spec_str(qs), json.dumps(rspec, sort_keys=True))
    ed = {O.DIMS[i]: e for i, e in enumerate(dq) if e}
    rs = O.registry_scale(rspec, dq)
    try:
        gd = get_physical_dimensionality(q)
        if dict(gd) != ed:
            errs.append("get_physical_dimensionality = %r, expected %r (%s)" % (dict(gd), ed, tag))
        du = default_unit_in_registry(q, reg)
        pd = O.phys(du)
        if pd[1] != dq or not O.close(pd[0], rs, rt):
            errs.append("default_unit_in_registry has SI value %r dims %r, expected %r %r (%s)" % (pd[0], pd[1], rs, dq, tag))
        ul = unitless_in_registry(q, reg)
        if not O.close(ul, c["mag"] * sq / rs, rt):
            errs.append("unitless_in_registry = %r, expected %r (%s)" % (ul, c["mag"] * sq / rs, tag))
        # container of mixed compatible units
        q2s = _spec(c["q2"])
        s2 = O.spec_scale_dims(q2s)[0]
        lst = [q, c["mag2"] * O.build(q2s)]
        gd = get_physical_dimensionality(lst)
        if dict(gd) != ed:
            errs.append("get_physical_dimensionality(list) = %r, expected %r (%s)" % (dict(gd), ed, tag))
        ul = unitless_in_registry(lst, reg)
        if not O.close(ul, [c["mag"] * sq / rs, c["mag2"] * s2 / rs], rt):
            errs.append("unitless_in_registry(list) = %r, expected %r (%s)" % (ul, [c["mag"] * sq / rs, c["mag2"] * s2 / rs], tag))
        # dimensionless ratios and plain numbers
        n1, n2 = c["ratio"]
        rq = c["mag"] * O.getu(n1) / O.getu(n2)
        rexp = c["mag"] * O.TABLE[n1][0] / O.TABLE[n2][0]
        if dict(get_physical_dimensionality(rq)) != {} or default_unit_in_registry(rq, reg) != 1:
            errs.append("dimensionless ratio %s/%s not reported dimensionless" % (n1, n2))
        if not O.close(unitless_in_registry(rq, reg), rexp, RT):
            errs.append("unitless_in_registry(%r %s/%s) = %r, expected %r" % (c["mag"], n1, n2, unitless_in_registry(rq, reg), rexp))
        if dict(get_physical_dimensionality(c["mag"])) != {} or unitless_in_registry(c["mag"], reg) != c["mag"]:
            errs.append("plain number not passed through the registry functions")
    except O.Unknown:
        raise
    except Exception as ex:
        errs.append("exception (%s): %s" % (tag, _exc(ex)))
    # derived units: every key
    for key, dk in sorted(DERIVED_KEYS.items()):
        try:
            du = get_derived_unit(reg, key)
            pd = O.phys(du)
            exp = O.registry_scale(rspec, dk)
            if pd[1] != dk or not O.close(pd[0], exp, RT):
                errs.append("get_derived_unit(%s, %r) has SI value %r dims %r, expected %r %r"
                            % (json.dumps(rspec, sort_keys=True), key, pd[0], pd[1], exp, dk))
        except O.Unknown:
            raise
        except Exception as ex:
            errs.append("get_derived_unit(.., %r) raised %s" % (key, _exc(ex)))
    if get_derived_unit(None, "energy") != 1.0:
        errs.append("get_derived_unit(None, key) != 1.0")
    r, v = _raises(get_derived_unit, reg, "no_such_quantity")
    if not r:
        errs.append("get_derived_unit(reg, unknown key) returned %s" % v)
    return errs


# =========================================================================================
# 4. human-readable registry round trip
# =========================================================================================

def _roundtrip_units():
    sd = _single_dim_units()
    out = []
    for dim, names in sorted(sd.items()):
        for a in names:
            if a == "angstrom":
                continue  # not a prefixed unit
            out.append((O.DIMS[dim], a))
    return out


def enum_roundtrip():
    cases = []
    for dimname, a in _roundtrip_units():
        reg = O.registry_spec("SI")
        reg[dimname] = a
        cases.append({"reg": reg, "factors": {}, "ones": []})
    return cases


def gen_roundtrip(rng):
    units = _roundtrip_units()
    reg = {}
    for d in O.DIMS:
        reg[d] = rng.choice([a for dn, a in units if dn == d and a != "attosecond"])
    factors = {d: rng.choice([10.0, 2.5, 1e-3, 60.0]) for d in O.DIMS if rng.random() < 0.25}
    ones = [d for d in O.DIMS if d not in factors and rng.random() < 0.1]
    return {"reg": reg, "factors": factors, "ones": ones}


def check_roundtrip(c):
    from chempy.units import unit_registry_to_human_readable, unit_registry_from_human_readable
    rspec = c["reg"]
    reg = {}
    exp = {}
    for d in O.DIMS:
        if d in c["ones"]:
            reg[d] = 1
            exp[d] = None
        else:
            f = c["factors"].get(d)
            reg[d] = O.getu(rspec[d]) if f is None else f * O.getu(rspec[d])
            sc, dm = O.TABLE[rspec[d]]
            exp[d] = (sc * (f or 1.0), dm)
    tag = json.dumps(c, sort_keys=True)
    try:
        hr = unit_registry_to_human_readable(reg)
        json.dumps(hr)  # "human readable": plain numbers and strings
        back = unit_registry_from_human_readable(hr)
    except Exception as ex:
        return ["round trip of registry %s raised %s" % (tag, _exc(ex))]
    errs = []
    if sorted(back) != sorted(O.DIMS):
        errs.append("round trip changed the keys: %r" % sorted(back))
    for d in O.DIMS:
        if d not in back:
            continue
        if exp[d] is None:
            if not (isinstance(back[d], (int, float)) and back[d] == 1):
                errs.append("entry %s: 1 came back as %r" % (d, back[d]))
            continue
        try:
            p = O.phys(back[d])
        except O.Unknown as ex:
            errs.append("entry %s came back as %r (%s)" % (d, back[d], ex))
            continue
        if p[1] != exp[d][1] or not O.close(p[0], exp[d][0], RT):
            errs.append("entry %s: %r came back as %r (SI %r, expected %r)" % (d, reg[d], back[d], p[0], exp[d][0]))
    if unit_registry_to_human_readable(None) is not None or unit_registry_from_human_readable(None) is not None:
        errs.append("None registry not passed through")
    return errs


# =========================================================================================
# 5. Backend wrapper / patched numpy transcendental functions
# =========================================================================================

FUNCS = ["exp", "log", "sqrt", "sin", "cos", "tanh", "log10", "expm1", "log1p"]


def gen_backend(rng):
    dim = rng.choice([O.L, O.M, O.T, O.I, O.TH, O.N])
    if rng.random() < 0.3:
        num, den = rng.sample(["molar", "millimolar", "micromolar", "nanomolar"], 2)
    else:
        num, den = rng.choice(O.BASE_CHOICES[dim]), rng.choice(O.BASE_CHOICES[dim])
    ratio = O.TABLE[num][0] / O.TABLE[den][0]
    # choose the magnitude so that the dimensionless value is between 0.05 and 8
    x = round(rng.uniform(0.05, 8), 4)
    mag = x / ratio
    dims = O.rand_dims(rng)
    return {"num": num, "den": den, "mag": mag, "func": rng.choice(FUNCS),
            "backend": rng.choice(["math", "numpy", "default", "module"]),
            "dimensional": O.rand_spec_with_dims(rng, dims), "arr": [round(rng.uniform(0.1, 3), 3) for _ in range(3)]}


def check_backend(c):
    from chempy.units import Backend, patched_numpy
    name = c["backend"]
    if name == "default":
        be = Backend()
    elif name == "module":
        be = Backend(math)
    else:
        be = Backend(name)
    errs = []
    f = c["func"]
    x = c["mag"] * O.TABLE[c["num"]][0] / O.TABLE[c["den"]][0]
    q = c["mag"] * O.getu(c["num"]) / O.getu(c["den"])
    ref = getattr(math, f)(x)
    tag = "Backend(%s).%s(%r*%s/%s)" % (name, f, c["mag"], c["num"], c["den"])
    tol = 1e-9 * (1 + abs(x))
    try:
        got = getattr(be, f)(q)
        if not O.close(got, ref, tol, atol=1e-12):
            errs.append("%s = %r, expected %s(%r) = %r" % (tag, got, f, x, ref))
        got = getattr(be, f)(x)
        if not O.close(got, ref, tol, atol=1e-12):
            errs.append("Backend(%s).%s(plain %r) = %r, expected %r" % (name, f, x, got, ref))
        if f in ("exp", "log", "log10", "expm1", "log1p"):
            got = getattr(patched_numpy, f)(q)
            if not O.close(got, ref, tol, atol=1e-12):
                errs.append("patched_numpy.%s(%r*%s/%s) = %r, expected %r" % (f, c["mag"], c["num"], c["den"], got, ref))
        if name in ("numpy", "default"):
            arr = np.array(c["arr"]) * c["mag"] * O.getu(c["num"]) / O.getu(c["den"])
            got = getattr(be, f)(arr)
            refa = np.array([getattr(math, f)(a * x) for a in c["arr"]])
            if not O.close(got, refa, 1e-9 * (1 + abs(x) * 3), atol=1e-12):
                errs.append("%s on array = %r, expected %r" % (tag, got, refa))
            got = be.sum([[q, 1.0], [3, 4]], axis=1)   # keyword arguments are passed on
            if not O.close(got, [x + 1.0, 7.0], RT):
                errs.append("Backend(numpy).sum([[q,1],[3,4]],axis=1) = %r, expected %r" % (got, [x + 1, 7.0]))
        if not O.close(be.pi, math.pi, 1e-15):
            errs.append("non-callable attribute pi not passed through")
    except Exception as ex:
        errs.append("%s raised %s" % (tag, _exc(ex)))
    ds = _spec(c["dimensional"])
    dq = c["mag"] * O.build(ds)
    r, v = _raises(getattr(be, f), dq)
    if not r:
        errs.append("Backend(%s).%s(%r*%s) returned %s instead of raising" % (name, f, c["mag"], O.spec_str(ds), v))
    if f in ("exp", "log", "log10", "expm1", "log1p"):
        r, v = _raises(getattr(patched_numpy, f), dq)
        if not r:
            errs.append("patched_numpy.%s(%r*%s) returned %s instead of raising" % (f, c["mag"], O.spec_str(ds), v))
    return errs


# =========================================================================================
# 6. unit-aware array helpers
# =========================================================================================

HELPERS = ["allclose", "linspace", "logspace", "concatenate", "tile", "polyfit", "polyval", "uniform", "compare_equality"]


def gen_helper(rng):
    dims = O.rand_dims(rng, -2, 2, 0.6)
    kind = rng.choice(HELPERS)
    c = {"kind": kind, "u1": O.rand_spec_with_dims(rng, dims), "u2": O.rand_spec_with_dims(rng, dims),
         "u3": O.rand_spec_with_dims(rng, dims, ncompound=0)}
    n = rng.randint(2, 5)
    c["v"] = [round(rng.uniform(0.5, 9), 4) for _ in range(n)]
    bd = rng.choice([O.L, O.M, O.T, O.N])
    c["bad"] = [rng.choice(O.BASE_CHOICES[bd]), rng.choice([-1, 1])]
    if kind == "allclose":
        c["mode"] = rng.choice(["close", "far", "close_atol", "far_one", "incompatible", "uncertain"])
        c["rtol"] = rng.choice([1e-8, 1e-5, 1e-3])
    elif kind in ("linspace", "logspace"):
        c["num"] = rng.randint(2, 7)
        c["stop"] = round(rng.uniform(10, 90), 3)
    elif kind == "concatenate":
        c["w"] = [round(rng.uniform(0.5, 9), 4) for _ in range(rng.randint(1, 4))]
        c["x"] = [round(rng.uniform(0.5, 9), 4) for _ in range(rng.randint(1, 3))]
        c["two_d"] = rng.random() < 0.3
    elif kind == "tile":
        c["reps"] = rng.choice([2, 3, [2, 1], [1, 2], [2, 2]])
        c["two_d"] = rng.random() < 0.4
    elif kind in ("polyfit", "polyval"):
        xd = O.rand_dims(rng, -1, 1, 0.7)
        c["x1"] = O.rand_spec_with_dims(rng, xd, ncompound=0)
        c["x2"] = O.rand_spec_with_dims(rng, xd, ncompound=0)
        c["deg"] = rng.randint(0, 3)
        c["coef"] = [round(rng.uniform(-3, 3), 2) or 1.0 for _ in range(c["deg"] + 1)]
        npts = c["deg"] + 1 + rng.randint(1, 3)
        pts = rng.sample([0.5, 1.0, 1.5, 2.0, 2.5, 3.0, 3.5, 4.0, 4.5, 5.0], npts)
        c["xs"] = sorted(pts)
        c["mixed"] = rng.random() < 0.5
        c["scalar_x"] = rng.random() < 0.3
    elif kind == "uniform":
        c["cont"] = rng.choice(["list", "tuple", "dict"])
    elif kind == "compare_equality":
        c["pair"] = rng.choice([["metre", "km"], ["s", "minute"], ["s", "hour"], ["kg", "tonne"], ["s", "kilosecond"]])
        c["mode"] = rng.choice(["equal_cross", "equal_same", "differ", "plain", "otherdim", "lists", "lists_differ"])
        c["ints"] = [rng.randint(1, 50) for _ in range(3)]
    return c


def _si(vals, spec):
    return np.asarray(vals, dtype=float) * O.spec_scale_dims(_spec(spec))[0]


def _check_phys(errs, label, got, exp_si, dims, rt, unit_spec=None, atol=0.0):
    """got: quantity; compare SI value & dims; optionally the unit it is expressed in"""
    p = O.phys(got)
    if p[1] != tuple(dims):
        errs.append("%s: dims %r, expected %r" % (label, p[1], tuple(dims)))
        return
    if np.shape(p[0]) != np.shape(exp_si) or not O.close(p[0], exp_si, rt, atol):
        errs.append("%s: SI value %r, expected %r" % (label, p[0], exp_si))
    if unit_spec is not None:
        # "times that unit": the result is expressed in the common unit
        pu = O.phys(got.units)
        su = O.spec_scale_dims(_spec(unit_spec))[0]
        if not O.close(pu[0], su, rt):
            errs.append("%s: expressed in a unit of SI scale %r, expected the unit of the first argument (%r)" % (label, pu[0], su))


def check_helper(c):
    import chempy.units as cu
    kind = c["kind"]
    u1s, u2s, u3s = _spec(c["u1"]), _spec(c["u2"]), _spec(c["u3"])
    s1, dims, l1 = O.spec_scale_dims(u1s)
    s2, _, l2 = O.spec_scale_dims(u2s)
    s3, _, l3 = O.spec_scale_dims(u3s)
    rt = _rt(l1, l2, l3)
    U1, U2, U3 = O.build(u1s), O.build(u2s), O.build(u3s)
    v = np.array(c["v"])
    errs = []
    tag = "%s u1=%s u2=%s" % (kind, O.spec_str(u1s), O.spec_str(u2s))
    try:
        if kind == "allclose":
            mode, rtol = c["mode"], c["rtol"]
            a = v * U1
            bv = v * s1 / s2  # same physical values, expressed in u2
            if mode == "close":
                b = (bv * (1 + 0.01 * rtol)) * U2
                exp, kw = True, {"rtol": rtol}
            elif mode == "far":
                b = (bv * (1 + 100 * rtol)) * U2
                exp, kw = False, {"rtol": rtol}
            elif mode == "far_one":
                bv2 = bv.copy()
                bv2[-1] *= (1 + 100 * rtol)
                b = bv2 * U2
                exp, kw = False, {"rtol": rtol}
            elif mode == "close_atol":
                # difference 50*rtol*|a| but atol (given in u3) = 1000*rtol*max|a|
                b = (bv * (1 + 50 * rtol)) * U2
                exp, kw = True, {"rtol": rtol, "atol": (1000 * rtol * float(v.max()) * s1 / s3) * U3}
            elif mode == "uncertain":
                a = cu.UncertainQuantity(v, U1, 0.1 * v)
                b = (bv * (1 + 0.01 * rtol)) * U2
                exp, kw = True, {"rtol": rtol}
            else:
                b = v * (U2 * O.getu(c["bad"][0]) ** c["bad"][1])
                exp, kw = False, {"rtol": rtol}
            got = cu.allclose(a, b, **kw)
            if bool(got) != exp:
                errs.append("allclose(%s mode=%s rtol=%g) = %r, expected %r" % (tag, mode, rtol, got, exp))
            if mode in ("close", "far"):
                got = cu.allclose(list(a), list(b), **kw)   # lists of scalars
                if bool(got) != exp:
                    errs.append("allclose(lists; %s mode=%s) = %r, expected %r" % (tag, mode, got, exp))
                got = cu.allclose(a[0], b[0], **kw)         # scalars
                if bool(got) != exp:
                    errs.append("allclose(scalars; %s mode=%s) = %r, expected %r" % (tag, mode, got, exp))
        elif kind in ("linspace", "logspace"):
            start, stop, num = c["v"][0], c["stop"], c["num"]
            f = cu.linspace if kind == "linspace" else cu.logspace_from_lin
            got = f(start * U1, (stop * s1 / s2) * U2, num)
            ref = np.linspace(start * s1, stop * s1, num) if kind == "linspace" else np.geomspace(start * s1, stop * s1, num)
            _check_phys(errs, "%s(%r*u1, %r*u2, %d) [%s]" % (kind, start, stop * s1 / s2, num, tag), got, ref, dims, rt, u1s)
            got = f(start, stop, num)
            ref = np.linspace(start, stop, num) if kind == "linspace" else np.geomspace(start, stop, num)
            if not O.close(got, ref, RT):
                errs.append("%s on plain numbers = %r, expected %r" % (kind, got, ref))
            r, val = _raises(f, start * U1, stop * (U2 * O.getu(c["bad"][0]) ** c["bad"][1]), num)
            if not r:
                errs.append("%s with incompatible stop returned %s" % (kind, val))
        elif kind == "concatenate":
            w, x = np.array(c["w"]), np.array(c["x"])
            if c["two_d"]:
                arrs = (v[None, :] * U1, w[None, :] * U2, x[None, :] * U3)
                got = cu.concatenate(arrs, axis=1)
                ref = np.concatenate([v[None, :] * s1, w[None, :] * s2, x[None, :] * s3], axis=1)
            else:
                arrs = (v * U1, w * U2, x * U3)
                got = cu.concatenate(arrs)
                ref = np.concatenate([v * s1, w * s2, x * s3])
            _check_phys(errs, "concatenate [%s u3=%s]" % (tag, O.spec_str(u3s)), got, ref, dims, rt, u1s)
            r, val = _raises(cu.concatenate, (v * U1, w * (U2 * O.getu(c["bad"][0]) ** c["bad"][1])))
            if not r:
                errs.append("concatenate of incompatible arrays returned %s" % val)
        elif kind == "tile":
            reps = c["reps"] if isinstance(c["reps"], int) else tuple(c["reps"])
            base = np.array([c["v"], c["v"][::-1]]) if c["two_d"] else v
            got = cu.tile(base * U1, reps)
            _check_phys(errs, "tile(.., %r) [%s]" % (reps, tag), got, np.tile(base * s1, reps), dims, rt, u1s)
            lst = [c["v"][0] * U1, (c["v"][1] * s1 / s2) * U2]
            got = cu.tile(lst, reps)
            _check_phys(errs, "tile(list of mixed units, %r) [%s]" % (reps, tag), got,
                        np.tile(np.array(c["v"][:2]) * s1, reps), dims, rt, u1s)
        elif kind in ("polyfit", "polyval"):
            x1s, x2s = _spec(c["x1"]), _spec(c["x2"])
            sx1, xdims, _ = O.spec_scale_dims(x1s)
            sx2 = O.spec_scale_dims(x2s)[0]
            X1, X2 = O.build(x1s), O.build(x2s)
            deg, coef, xs = c["deg"], c["coef"], np.array(c["xs"])
            ys = np.polyval(coef, xs)  # y (in u1) as a polynomial of x (in x1)
            # expected SI coefficients: c_i * s1 / sx1**(deg-i), dims = dims(y) - (deg-i)*dims(x)
            exp_c = [coef[i] * s1 / sx1 ** (deg - i) for i in range(deg + 1)]
            exp_d = [tuple(dims[k] - (deg - i) * xdims[k] for k in range(7)) for i in range(deg + 1)]
            if kind == "polyfit":
                if c["mixed"]:
                    xq = [(x * X1) if j % 2 == 0 else ((x * sx1 / sx2) * X2) for j, x in enumerate(xs)]
                    yq = [(y * U1) if j % 2 == 0 else ((y * s1 / s2) * U2) for j, y in enumerate(ys)]
                else:
                    xq, yq = xs * X1, ys * U1
                got = cu.polyfit(xq, yq, deg)
                if len(got) != deg + 1:
                    errs.append("polyfit returned %d coefficients for degree %d" % (len(got), deg))
                else:
                    amax = max(abs(k) for k in coef) + 1.0
                    for i in range(deg + 1):
                        _check_phys(errs, "polyfit coefficient %d of %r [%s x=%s]" % (i, coef, tag, O.spec_str(x1s)),
                                    got[i], exp_c[i], exp_d[i], 1e-7, atol=1e-7 * amax * 5.0 ** (deg - i) * s1 / sx1 ** (deg - i))
            else:
                # coefficients given in assorted compatible units; x in x2
                p = []
                for i in range(deg + 1):
                    if i % 2 == 0:
                        p.append(coef[i] * (U1 / X1 ** (deg - i)))
                    else:
                        p.append((coef[i] * (s1 / s2) * (sx2 / sx1) ** (deg - i)) * (U2 / X2 ** (deg - i)))
                if c["scalar_x"]:
                    xq = (float(xs[0]) * sx1 / sx2) * X2
                    ref = float(np.polyval(coef, xs[0])) * s1
                else:
                    xq = (xs * sx1 / sx2) * X2
                    ref = ys * s1
                got = cu.polyval(p, xq)
                amax = sum(abs(k) * 5.0 ** (deg - i) for i, k in enumerate(coef))
                _check_phys(errs, "polyval(%r, x) [%s x=%s]" % (coef, tag, O.spec_str(x2s)), got, ref, dims, 1e-8, atol=1e-9 * amax * s1)
        elif kind == "uniform":
            vals = [c["v"][0] * U1, c["v"][1] * U2] + ([c["v"][2] * U3] if len(c["v"]) > 2 else [])
            refs = [c["v"][0] * s1, c["v"][1] * s2] + ([c["v"][2] * s3] if len(c["v"]) > 2 else [])
            if c["cont"] == "dict":
                got = cu.uniform({"k%d" % i: x for i, x in enumerate(vals)})
                if not isinstance(got, dict) or sorted(got) != ["k%d" % i for i in range(len(vals))]:
                    errs.append("uniform(dict) = %r" % (got,))
                else:
                    for i in range(len(vals)):
                        _check_phys(errs, "uniform(dict)[k%d] [%s]" % (i, tag), got["k%d" % i], refs[i], dims, rt, u1s)
            else:
                got = cu.uniform(vals if c["cont"] == "list" else tuple(vals))
                _check_phys(errs, "uniform(%s) [%s]" % (c["cont"], tag), got, np.array(refs), dims, rt, u1s)
            if cu.uniform(3.5) != 3.5:
                errs.append("uniform(scalar) not passed through")
        elif kind == "compare_equality":
            small, big = c["pair"]
            f = O.TABLE[big][0] / O.TABLE[small][0]  # exact integer factor, `small` has SI scale 1
            n = c["ints"]
            mode = c["mode"]
            if mode == "equal_cross":
                a, b, exp = (n[0] * f) * O.getu(small), n[0] * O.getu(big), True
            elif mode == "equal_same":
                a, b, exp = n[0] * U1, n[0] * U1, True
            elif mode == "differ":
                a, b, exp = (n[0] * f) * O.getu(small), (n[0] + 1) * O.getu(big), False
            elif mode == "plain":
                a, b, exp = n[0] * O.getu(big), n[0], False
            elif mode == "otherdim":
                a, b, exp = n[0] * U1, n[0] * (U1 * O.getu(c["bad"][0]) ** c["bad"][1]), False
            elif mode == "lists":
                a = [(n[0] * f) * O.getu(small), n[1] * U1]
                b = [n[0] * O.getu(big), n[1] * U1]
                exp = True
            else:
                a = [(n[0] * f) * O.getu(small), n[1] * U1]
                b = [n[0] * O.getu(big), (n[1] + 1) * U1]
                exp = False
            got = cu.compare_equality(a, b)
            try:
                gotb = bool(np.all(got))
            except Exception:
                gotb = None
            if gotb is not exp:
                errs.append("compare_equality(%r, %r) = %r, expected %r" % (a, b, got, exp))
        else:
            raise ValueError(kind)
    except O.Unknown:
        raise
    except Exception as ex:
        errs.append("%s raised %s" % (tag, _exc(ex)))
    return errs


# =========================================================================================
# driver
# =========================================================================================

STANDINS = {
    # name: (generator or None, enumerator or None, checker, quick n, thorough n, rule, bound)
    "to_unitless_lattice": (
        gen_lattice, None, check_lattice, 1200, 60000,
        "seeded: quantity = magnitude x product of integer powers of base/prefixed/compound units from the oracle table; "
        "two compatible targets built from *other* units of the same dimension, one target off by one power of one base unit. "
        "Checks exact ratio (rel 1e-9; 1e-6 with eV), multiply-back, composition via a third unit, linearity, element-wise "
        "lists/tuples/nested lists/object arrays/array quantities/dicts, and that incompatible targets raise. "
        "Non-trivial: source and target units differ.",
        "exponents -3..3 over six base dimensions, <= 2 compound units per side, scales 1e-10..1e3 per unit"),
    "unit_pairs": (
        None, enum_pairs, check_pair, None, None,
        "exhaustive: every ordered pair of single-dimension units of the oracle table (all SI-prefixed length, mass, time, "
        "current, temperature, amount units that default_units exposes) x exponents -3..3: to_unitless(u1**e, u2**e) == "
        "(s1/s2)**e (rel 1e-9) and to_unitless(u1**e, u2**(e+1)) raises",
        "all pairs within a dimension, exponents +-1..3"),
    "unit_definitions": (
        None, enum_defs, check_def, None, None,
        "exhaustive: every unit of the oracle table incl. the chemistry-specific ones chempy defines (molar .. nanomolar, "
        "molal, per100eV, micromole, nanomole, kilojoule, kilogray, dm) converted to the product of SI base units given by the "
        "table (rel 1e-9; 1e-6 for eV-based), reported dimensionality, 12 one-off targets raise",
        "86 units"),
    "derived_definitions": (
        None, enum_derived_defs, check_derived_def, None, None,
        "exhaustive: m3, dm3, cm3, perMolar_perSecond, umol_per_J on default_units against hand-written SI values",
        "5 definitions"),
    "registry": (
        gen_registry, None, check_registry, 400, 20000,
        "seeded: random quantity (as above) in the SI, a cgs-like and random prefixed base-unit registries: "
        "get_physical_dimensionality == table exponents, default_unit_in_registry has the SI scale prod(reg scale**e), "
        "unitless_in_registry == SI value / that scale (scalars, mixed-unit lists, dimensionless ratios, plain numbers); "
        "get_derived_unit for all 18 keys against independent SI exponents; None registry -> 1.0; unknown key raises",
        "registries: one of 8 lengths x 4 masses x 6 times x 3 currents x 3 temperatures x 5 amounts"),
    "registry_roundtrip_units": (
        None, enum_roundtrip, check_roundtrip, None, None,
        "exhaustive: SI registry with one entry replaced by each SI-prefixed unit of the six dimensions exposed by default_units "
        "(incl. micro-prefixed um/us/uA/uK/umol and chempy's dm, micromole, nanomole): from_human_readable(to_human_readable(reg)) "
        "has the same SI scale and dimension per entry; the serialised form is JSON-able",
        "every prefixed single-dimension unit of the oracle table"),
    "registry_roundtrip_random": (
        gen_roundtrip, None, check_roundtrip, 300, 20000,
        "seeded: all seven entries random prefixed units, 25% of entries scaled by a numeric factor, 10% the integer 1",
        "as above"),
    "backend": (
        gen_backend, None, check_backend, 600, 20000,
        "seeded: Backend('math'|'numpy'|default|module).f and patched_numpy.f for f in exp log sqrt sin cos tanh log10 expm1 log1p: "
        "a dimensionless ratio of two different units of one dimension (e.g. mM/M) is evaluated at magnitude*scale ratio "
        "(rel 1e-9*(1+|x|)); a dimensional argument raises; plain numbers, arrays, keyword arguments and constants pass through",
        "dimensionless value in [0.05, 8]"),
    "array_helpers": (
        gen_helper, None, check_helper, 1500, 60000,
        "seeded: allclose / linspace / logspace_from_lin / concatenate / tile / polyfit / polyval / uniform / compare_equality on "
        "arguments given in different compatible units == the numpy routine on SI magnitudes (rel 1e-9; polyfit 1e-7 on exactly "
        "polynomial data), result expressed in the unit of the first argument; allclose cases are a factor 50-100 away from the "
        "threshold on either side so |a| vs |b| weighting cannot matter; incompatible arguments are refused",
        "arrays of 2..8 elements, polynomial degree <= 3, exponents -2..2"),
}


def _run_one(job):
    name, seed, idx, case = job
    gen, enum, chk = STANDINS[name][0], STANDINS[name][1], STANDINS[name][2]
    if case is None:
        case = gen(random.Random(O.subseed(seed, name, idx)))
        case = json.loads(json.dumps(case))
    errs = chk(case)
    return name, idx, case, errs


def _run_chunk(jobs):
    return [_run_one(j) for j in jobs]


def run(tier, seed):
    jobs = []
    for name, (gen, enum, chk, nq, nt, rule, bound) in STANDINS.items():
        if enum is not None:
            for i, case in enumerate(enum()):
                jobs.append((name, seed, i, case))
        else:
            for i in range(nq if tier == "quick" else nt):
                jobs.append((name, seed, i, None))
    nchunks = 64 if tier == "quick" else 512
    chunks = [jobs[i::nchunks] for i in range(nchunks)]
    results = [r for ch in O.pmap(_run_chunk, [c for c in chunks if c], 16) for r in ch]
    results.sort(key=lambda r: (r[0], r[1]))
    out = []
    for name, (gen, enum, chk, nq, nt, rule, bound) in STANDINS.items():
        rs = [r for r in results if r[0] == name]
        keys = set(json.dumps(r[2], sort_keys=True) for r in rs)
        viol = []
        for _, idx, case, errs in rs:
            if errs:
                viol.append({"inputs": case, "index": idx, "detail": "; ".join(errs[:3]) + (" (+%d more)" % (len(errs) - 3) if len(errs) > 3 else "")})
        out.append({"name": name, "rule": rule, "bound": bound, "evaluations": len(rs), "distinct": len(keys),
                    "exhaustive": enum is not None, "samples": [r[2] for r in rs[:3]], "violations": viol[:25]})
    return {"standins": out}


def replay(case):
    name = case["name"]
    errs = STANDINS[name][2](case["inputs"])
    return (not errs), ("holds" if not errs else "; ".join(errs[:3]))
