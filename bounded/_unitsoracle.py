# -*- coding: utf-8 -*-
"""Independent unit oracle shared by the bounded stand-ins C09, C10 and C19.

Everything the stand-ins *expect* about a unit comes from the table below: an SI scale
factor and seven dimension exponents (length, mass, time, current, temperature, luminous
intensity, amount) written down by hand from the SI brochure.  `quantities` is never asked
to rescale/simplify anything in order to compute an expectation; the only thing read from a
`quantities` object is its magnitude and the *names* and exponents of the unit objects it is
built from (``phys``), which are then looked up in this table.
"""
import math
import multiprocessing as mp
import random

DIMS = ("length", "mass", "time", "current", "temperature", "luminous_intensity", "amount")
L, M, T, I, TH, J, N = range(7)


def _d(**kw):
    v = [0] * 7
    for k, e in kw.items():
        v["LMTIHJN".index(k)] = e
    return tuple(v)


# attribute on chempy.units.default_units -> (SI scale, exponents)
# (H = temperature, J = luminous intensity, N = amount)
TABLE = {
    # length
    "femtometer": (1e-15, _d(L=1)), "picometer": (1e-12, _d(L=1)), "angstrom": (1e-10, _d(L=1)),
    "nm": (1e-9, _d(L=1)), "um": (1e-6, _d(L=1)), "mm": (1e-3, _d(L=1)), "cm": (1e-2, _d(L=1)),
    "decimeter": (1e-1, _d(L=1)), "dm": (1e-1, _d(L=1)), "metre": (1.0, _d(L=1)), "km": (1e3, _d(L=1)),
    # mass
    "mg": (1e-6, _d(M=1)), "g": (1e-3, _d(M=1)), "kg": (1.0, _d(M=1)), "tonne": (1e3, _d(M=1)),
    # time
    "attosecond": (1e-18, _d(T=1)), "femtosecond": (1e-15, _d(T=1)), "picosecond": (1e-12, _d(T=1)),
    "ns": (1e-9, _d(T=1)), "us": (1e-6, _d(T=1)), "ms": (1e-3, _d(T=1)), "s": (1.0, _d(T=1)),
    "kilosecond": (1e3, _d(T=1)), "megasecond": (1e6, _d(T=1)),
    "minute": (60.0, _d(T=1)), "hour": (3600.0, _d(T=1)), "day": (86400.0, _d(T=1)),
    # current
    "pA": (1e-12, _d(I=1)), "nA": (1e-9, _d(I=1)), "uA": (1e-6, _d(I=1)), "mA": (1e-3, _d(I=1)),
    "A": (1.0, _d(I=1)),
    # temperature (multiplicative units only; degC/degF are affine and outside every property)
    "K": (1.0, _d(H=1)), "mK": (1e-3, _d(H=1)), "uK": (1e-6, _d(H=1)), "nK": (1e-9, _d(H=1)),
    "pK": (1e-12, _d(H=1)), "fK": (1e-15, _d(H=1)), "aK": (1e-18, _d(H=1)), "zK": (1e-21, _d(H=1)),
    "yK": (1e-24, _d(H=1)), "cK": (1e-2, _d(H=1)), "dK": (1e-1, _d(H=1)), "daK": (1e1, _d(H=1)),
    "hK": (1e2, _d(H=1)), "kK": (1e3, _d(H=1)), "MK": (1e6, _d(H=1)), "GK": (1e9, _d(H=1)),
    "TK": (1e12, _d(H=1)), "PK": (1e15, _d(H=1)), "EK": (1e18, _d(H=1)), "ZK": (1e21, _d(H=1)),
    "YK": (1e24, _d(H=1)),
    # luminous intensity
    "candela": (1.0, _d(J=1)),
    # amount
    "mol": (1.0, _d(N=1)), "mmol": (1e-3, _d(N=1)), "umol": (1e-6, _d(N=1)),
    "micromole": (1e-6, _d(N=1)), "nanomole": (1e-9, _d(N=1)),
    # volume / concentration
    "litre": (1e-3, _d(L=3)),
    "molar": (1e3, _d(N=1, L=-3)), "millimolar": (1.0, _d(N=1, L=-3)),
    "micromolar": (1e-3, _d(N=1, L=-3)), "nanomolar": (1e-6, _d(N=1, L=-3)),
    "molal": (1.0, _d(N=1, M=-1)),
    # mechanics
    "newton": (1.0, _d(M=1, L=1, T=-2)),
    "pascal": (1.0, _d(M=1, L=-1, T=-2)), "kPa": (1e3, _d(M=1, L=-1, T=-2)),
    "MPa": (1e6, _d(M=1, L=-1, T=-2)), "bar": (1e5, _d(M=1, L=-1, T=-2)),
    "atm": (101325.0, _d(M=1, L=-1, T=-2)),
    "joule": (1.0, _d(M=1, L=2, T=-2)), "kilojoule": (1e3, _d(M=1, L=2, T=-2)),
    "watt": (1.0, _d(M=1, L=2, T=-3)),
    "hertz": (1.0, _d(T=-1)),
    "poise": (0.1, _d(M=1, L=-1, T=-1)), "centipoise": (1e-3, _d(M=1, L=-1, T=-1)),
    "gray": (1.0, _d(L=2, T=-2)), "kilogray": (1e3, _d(L=2, T=-2)),
    # electricity
    "coulomb": (1.0, _d(I=1, T=1)),
    "volt": (1.0, _d(M=1, L=2, T=-3, I=-1)),
    "farad": (1.0, _d(I=2, T=4, M=-1, L=-2)),
    "ohm": (1.0, _d(M=1, L=2, T=-3, I=-2)),
    "siemens": (1.0, _d(M=-1, L=-2, T=3, I=2)),
    # constants-based (CODATA revisions differ in the 8th digit: compare these to 1e-6 only)
    "eV": (1.602176634e-19, _d(M=1, L=2, T=-2)),
    # 1/(100 eV * N_A) = 1 / (100 * 1.602176634e-19 J * 6.02214076e23 /mol)
    "per100eV": (1.0 / (100 * 1.602176634e-19 * 6.02214076e23), _d(N=1, M=-1, L=-2, T=2)),
}
LOOSE = {"eV", "per100eV"}  # tolerance 1e-6 instead of 1e-9 whenever one of these is involved

# units grouped per base dimension, moderate scales only (used to build random products)
BASE_CHOICES = {
    L: ["nm", "um", "mm", "cm", "dm", "decimeter", "metre", "km", "angstrom"],
    M: ["mg", "g", "kg", "tonne"],
    T: ["ns", "us", "ms", "s", "minute", "hour", "day", "kilosecond"],
    I: ["nA", "uA", "mA", "A"],
    TH: ["K", "mK", "kK", "cK"],
    N: ["mol", "mmol", "umol", "nanomole", "micromole"],
}
COMPOUND_CHOICES = ["litre", "molar", "millimolar", "micromolar", "nanomolar", "molal", "newton",
                    "pascal", "kPa", "MPa", "bar", "atm", "joule", "kilojoule", "watt", "hertz",
                    "poise", "centipoise", "gray", "kilogray", "coulomb", "volt", "farad"]

_BYNAME = None


def units_ns():
    from chempy.units import default_units
    return default_units


def getu(attr):
    return getattr(units_ns(), attr)


def byname():
    """map `quantities` unit *name* -> (scale, dims, attr) from the table above"""
    global _BYNAME
    if _BYNAME is None:
        out = {}
        for attr, (sc, dm) in TABLE.items():
            nm = getu(attr).name
            if nm in out and (abs(out[nm][0] / sc - 1) > 1e-12 or out[nm][1] != dm):
                raise RuntimeError("oracle table: two different units named %r" % nm)
            out.setdefault(nm, (sc, dm, attr))
        _BYNAME = out
    return _BYNAME


class Unknown(Exception):
    pass


def phys(q):
    """(SI magnitude [float or ndarray], dims tuple, loose?) of a number / quantity, by walking
    the unit objects the quantity is made of and looking their names up in TABLE."""
    import numpy as np
    if not hasattr(q, "dimensionality"):
        return (np.asarray(q, dtype=float) if not isinstance(q, (int, float)) else float(q)), (0,) * 7, False
    scale, dims, loose = 1.0, [0] * 7, False
    tab = byname()
    for uq, e in q.dimensionality.items():
        try:
            sc, dm, attr = tab[uq.name]
        except KeyError:
            raise Unknown("unit %r not in the oracle table" % uq.name)
        scale *= sc ** e
        loose = loose or attr in LOOSE
        for i in range(7):
            dims[i] += dm[i] * e
    mag = np.asarray(q.magnitude, dtype=float)
    if mag.ndim == 0:
        mag = float(mag)
    return mag * scale, tuple(int(x) if x == int(x) else x for x in dims), loose


def spec_scale_dims(spec):
    """spec: list of (attr, exponent).  -> (scale, dims, loose) from the table"""
    scale, dims, loose = 1.0, [0] * 7, False
    for attr, e in spec:
        sc, dm = TABLE[attr]
        scale *= sc ** e
        loose = loose or attr in LOOSE
        for i in range(7):
            dims[i] += dm[i] * e
    return scale, tuple(dims), loose


def spec_log10(spec):
    return sum(e * math.log10(TABLE[a][0]) for a, e in spec)


def build(spec):
    """the quantities object for a spec (product of integer powers of default_units attributes)"""
    import quantities as pq
    out = pq.dimensionless
    first = True
    for attr, e in spec:
        if e == 0:
            continue
        term = getu(attr) ** e
        out = term if first else out * term
        first = False
    return out


def spec_str(spec):
    return "*".join("%s**%d" % (a, e) for a, e in spec) or "1"


def rand_base_spec(rng, dims, choices=None):
    """a spec with exactly the given dims using one base/prefixed unit per dimension"""
    choices = choices or BASE_CHOICES
    spec = []
    for i, e in enumerate(dims):
        if e:
            if i == J:
                spec.append(("candela", e))
            else:
                spec.append((rng.choice(choices[i]), e))
    return spec


def rand_dims(rng, lo=-3, hi=3, pzero=0.55):
    while True:
        d = [0] * 7
        for i in (L, M, T, I, TH, N):
            if rng.random() > pzero:
                d[i] = rng.choice([e for e in range(lo, hi + 1) if e])
        if any(d):
            return tuple(d)


def rand_spec_with_dims(rng, dims, ncompound=None):
    """random spec (possibly with compound units) whose total dims equal `dims`"""
    for _ in range(100):
        spec = []
        rest = list(dims)
        k = rng.choice([0, 0, 1, 1, 2]) if ncompound is None else ncompound
        for _c in range(k):
            a = rng.choice(COMPOUND_CHOICES)
            e = rng.choice([-2, -1, 1, 2])
            spec.append((a, e))
            for i in range(7):
                rest[i] -= TABLE[a][1][i] * e
        if max(abs(x) for x in rest) > 6:
            continue
        spec += rand_base_spec(rng, rest)
        rng.shuffle(spec)
        if abs(spec_log10(spec)) < 120:
            return spec
    return rand_base_spec(rng, dims)


def rand_mag(rng):
    k = rng.random()
    if k < 0.15:
        return float(rng.randint(1, 9))
    if k < 0.25:
        return -rng.uniform(0.1, 10)
    return round(rng.uniform(0.1, 10), 6) * 10.0 ** rng.randint(-4, 4)


def close(a, b, rtol, atol=0.0):
    import numpy as np
    a = np.asarray(a, dtype=float)
    b = np.asarray(b, dtype=float)
    if a.shape != b.shape:
        try:
            a, b = np.broadcast_arrays(a, b)
        except ValueError:
            return False
    if not (np.all(np.isfinite(a)) and np.all(np.isfinite(b))):
        return False
    return bool(np.all(np.abs(a - b) <= rtol * np.maximum(np.abs(a), np.abs(b)) + atol))


# --- registries --------------------------------------------------------------------------

def registry_spec(kind, rng=None):
    """dimension name -> default_units attribute"""
    if kind == "SI":
        return {"length": "metre", "mass": "kg", "time": "s", "current": "A", "temperature": "K",
                "luminous_intensity": "candela", "amount": "mol"}
    if kind == "cgs":
        return {"length": "cm", "mass": "g", "time": "s", "current": "A", "temperature": "K",
                "luminous_intensity": "candela", "amount": "mol"}
    if kind == "random":
        return {"length": rng.choice(["nm", "um", "mm", "cm", "dm", "decimeter", "metre", "km"]),
                "mass": rng.choice(["mg", "g", "kg", "tonne"]),
                "time": rng.choice(["us", "ms", "s", "minute", "hour", "kilosecond"]),
                "current": rng.choice(["uA", "mA", "A"]),
                "temperature": rng.choice(["K", "mK", "kK"]),
                "luminous_intensity": "candela",
                "amount": rng.choice(["mol", "mmol", "umol", "nanomole", "micromole"])}
    raise ValueError(kind)


def build_registry(rspec):
    return {k: getu(a) for k, a in rspec.items()}


def registry_scale(rspec, dims):
    """SI scale of the registry's unit for a quantity of the given dims"""
    s = 1.0
    for i, e in enumerate(dims):
        if e:
            s *= TABLE[rspec[DIMS[i]]][0] ** e
    return s


# --- process pool ------------------------------------------------------------------------

def pmap(func, jobs, procs=16):
    """order-preserving parallel map (fork context); serial for tiny job lists"""
    jobs = list(jobs)
    if len(jobs) <= 1 or procs <= 1:
        return [func(j) for j in jobs]
    ctx = mp.get_context("fork")
    with ctx.Pool(min(procs, len(jobs))) as pool:
        return pool.map(func, jobs, chunksize=1)


def subseed(seed, *parts):
    """deterministic per-case seed"""
    r = random.Random("%d/%s" % (seed, "/".join(str(p) for p in parts)))
    return r.getrandbits(48)
