"""C12  Reaction text is read exactly as written and printing/parsing are inverse."""
import itertools

from pyvc.api import harness
from pyvc import spec as SP
from pyvc.sym import Sym

META = {
    "explanation": "printing structure (coefficient omitted iff 1, zero-coefficient entries dropped, ' + ' joins in stored order, inactive groups, the class's arrow, parameter and name parts) is proved for symbolic coefficients in the str/latex/unicode/html printers; _parse_multiplicity is proved to invert the printed term layout (str(n) + ' ' + key and n + ' * ' + key for every n >= 0, repeated species summed, allowed-key check); to_reaction's placement of the four parsed maps, parameter routes and missing-arrow rejection are proved modularly; _is_inactive_group is checked exhaustively on all strings over a 4-letter alphabet up to length 7; copy()/== proved on symbolic coefficients",
    "trusted_base": ["A9 model of re.split(' \\\\* | ', s) on concatenations whose symbolic pieces contain no space", "eval() of parameter text is external (results unconstrained)", "z3/cvc5 string theories"],
    "not_decided": ["split(join(...)) = id over unbounded term lists and full text round trips: bounded stand-in (print/parse round trip on generated reactions and systems)"],
    "assumptions": ["species keys are concrete per harness; coefficients are symbolic"],
}
PA = "chempy.util.parsing"
ST = "chempy.printing.string"


def _mk(v, cls, reac_keys, prod_keys, ireac=(), iprod=(), param=None, lo=0):
    mk = lambda tag, ks: {k: v.int("%s_%s" % (tag, k.replace("+", "p").replace("-", "m").replace("(", "").replace(")", "")), lo=lo, hi=12) for k in ks}
    d = [mk("r", reac_keys), mk("p", prod_keys), mk("ir", ireac), mk("ip", iprod)]
    return cls(dict(d[0]), dict(d[1]), param, dict(d[2]) or None, dict(d[3]) or None, checks=()), d


def _term(n, key):
    """expected text of one term"""
    import z3
    from pyvc.spec import ite
    if not isinstance(n, Sym):
        return "" if n == 0 else (key if n == 1 else "%d %s" % (n, key))
    return None


def _side(v, d, keys_sorted, sep=" + "):
    """expected text of one side for symbolic coefficients: entries with coefficient 0 dropped, 1 omitted"""
    import z3
    parts = []
    for k in keys_sorted:
        n = d[k]
        if isinstance(n, Sym):
            txt = z3.If(n.e == 1, z3.StringVal(k), z3.Concat(z3.IntToStr(n.e), z3.StringVal(" " + k)))
            parts.append((n.e != 0, txt))
        else:
            if n != 0:
                parts.append((z3.BoolVal(True), z3.StringVal(k if n == 1 else "%d %s" % (n, k))))
    # join the present ones with the separator
    res = z3.StringVal("")
    any_before = z3.BoolVal(False)
    for present, txt in parts:
        res = z3.If(present, z3.If(any_before, z3.Concat(res, z3.StringVal(sep), txt), txt), res)
        any_before = z3.Or(any_before, present)
    return res, any_before


def _print_harness(printer_mod, printer_cls, fmt_name, arrows):
    @harness("C12", "print_structure." + fmt_name, functions=[ST + ":StrPrinter._Reaction_parts", ST + ":StrPrinter._Reaction_str", ST + ":StrPrinter._print_Reaction",
                                                               "%s:%s" % (printer_mod, printer_cls)], kind="shape-bounded", samples=0, max_paths=1500)
    def _(v):
        import importlib
        import z3
        from chempy.chemistry import Reaction, Equilibrium
        P = getattr(importlib.import_module(printer_mod), printer_cls)
        cls = v.choice("cls", [Reaction, Equilibrium])
        rxn, d = _mk(v, cls, ["H2O", "Na+"], ["OH-"], ireac=["A"], iprod=[])
        p = P()
        parts = v.call(p._Reaction_parts, rxn)
        r_exp, r_any = _side(v, d[0], sorted(d[0]))
        p_exp, p_any = _side(v, d[1], sorted(d[1]))
        ir_exp, ir_any = _side(v, d[2], sorted(d[2]))
        arrow = arrows[cls.__name__]
        v.prove("reactant_side", Sym(r_exp) == parts[0])
        v.prove("product_side", Sym(p_exp) == parts[3])
        v.prove("arrow_of_class", parts[2] == arrow)
        v.prove("inactive_reactants_grouped", Sym(z3.If(ir_any, z3.Concat(z3.StringVal(" + ( "), ir_exp, z3.StringVal(")")), z3.StringVal(""))) == parts[1])
        v.prove("no_inactive_products", parts[4] == "")
        whole = v.call(p._print_Reaction, rxn, with_param=False, with_name=False)
        v.prove("whole_line", Sym(z3.Concat(to_e(parts[0]), to_e(parts[1]), z3.StringVal(" " + arrow + " "), to_e(parts[3]), to_e(parts[4]))) == whole)
    return _


def to_e(x):
    import z3
    return x.e if isinstance(x, Sym) else z3.StringVal(x)


_print_harness("chempy.printing.string", "StrPrinter", "str", {"Reaction": "->", "Equilibrium": "="})
_print_harness("chempy.printing.pretty", "UnicodePrinter", "unicode", {"Reaction": "→", "Equilibrium": "⇌"})
_print_harness("chempy.printing.web", "HTMLPrinter", "html", {"Reaction": "&rarr;", "Equilibrium": "&harr;"})
_print_harness("chempy.printing.tex", "LatexPrinter", "latex", {"Reaction": r"\rightarrow", "Equilibrium": r"\rightleftharpoons"})


@harness("C12", "print_names_and_system", functions=[ST + ":StrPrinter._print_Reaction", ST + ":StrPrinter._print_ReactionSystem"], kind="data")
def _(v):
    from chempy.chemistry import Reaction
    from chempy.reactionsystem import ReactionSystem
    from chempy.printing.string import StrPrinter
    r1 = Reaction({"A": 2}, {"B": 1}, 3.5, name="first", checks=())
    r2 = Reaction({"B": 1}, {"C": 1}, None, checks=())
    p = StrPrinter()
    v.prove("param_and_name", p.doprint(r1) == "2 A -> B; 3.5; first")
    v.prove("no_param_no_name", p.doprint(r2) == "B -> C")
    rs = ReactionSystem([r1, r2], "A B C", name="sys", checks=())
    v.prove("system_lines_in_order", p.doprint(rs) == "sys\n2 A -> B; 3.5; first\nB -> C\n")


def _pm(layout):
    @harness("C12", "_parse_multiplicity." + layout, functions=[PA + ":_parse_multiplicity"], kind="shape-bounded", samples=0, max_paths=500)
    def _(v):
        import z3
        from chempy.util.parsing import _parse_multiplicity
        n1, n2, n3 = v.int("n1", lo=0, hi=1000), v.int("n2", lo=0, hi=1000), v.int("n3", lo=0, hi=1000)
        s = lambda n, key, star=False: Sym(z3.Concat(z3.IntToStr(n.e), z3.StringVal((" * " if star else " ") + key)))
        if layout == "space":
            strings = [s(n1, "H2O"), "Na+", s(n2, "(NH4)2SO4")]
            exp = {"H2O": n1, "Na+": 1, "(NH4)2SO4": n2}
        elif layout == "star":
            strings = [s(n1, "H2O", True), s(n2, "OH-", True)]
            exp = {"H2O": n1, "OH-": n2}
        else:   # repeated species are summed
            strings = [s(n1, "A"), "A", s(n2, "B", True), s(n3, "A"), "B"]
            exp = {"A": n1 + 1 + n3, "B": n2 + 1}
        r = v.call(_parse_multiplicity, strings)
        v.prove("keys_exactly_the_written_species", set(r.keys()) == set(exp))
        v.prove("coefficients_as_written_and_summed", SP.conj([r[k] == exp[k] for k in exp]))
        ok = v.run(_parse_multiplicity, strings, list(exp))
        v.prove("allowed_keys_accepts_known", ok.returned)
        bad = v.run(_parse_multiplicity, strings, [k for k in exp][1:])
        v.prove("allowed_keys_rejects_unknown", bad.raised(ValueError))
    return _


for _l in ("space", "star", "repeated"):
    _pm(_l)


@harness("C12", "_parse_multiplicity.concrete_forms", functions=[PA + ":_parse_multiplicity"], kind="data")
def _(v):
    from chempy.util.parsing import _parse_multiplicity as pm
    v.prove("decimal_coefficient_is_float", pm(["2.5 A", "1e1 B"]) == {"A": 2.5, "B": 10.0} and isinstance(pm(["2.5 A"])["A"], float))
    v.prove("integer_coefficient_is_int", pm(["3 A"]) == {"A": 3} and isinstance(pm(["3 A"])["A"], int))
    v.prove("empty_strings_skipped", pm(["", "A"]) == {"A": 1})
    try:
        pm(["2 A B"]); ok = False
    except ValueError:
        ok = True
    v.prove("three_tokens_rejected", ok)


@harness("C12", "_is_inactive_group.exhaustive", functions=[PA + ":_is_inactive_group"], kind="data")
def _(v):
    from chempy.util.parsing import _is_inactive_group as f

    def spec(t):   # enclosed by ONE matching pair: first '(' is closed exactly by the last character
        if len(t) < 2 or t[0] != "(" or t[-1] != ")":
            return False
        depth = 0
        for i, ch in enumerate(t):
            if ch == "(":
                depth += 1
            elif ch == ")":
                depth -= 1
                if depth == 0:
                    return i == len(t) - 1
                if depth < 0:
                    return False
        return False
    bad = []
    n = 0
    for L in range(0, 8):
        for tup in itertools.product("()a ", repeat=L):
            t = "".join(tup)
            n += 1
            if bool(f(t)) != spec(t):
                bad.append(t)
    v.prove("all_strings_up_to_length_7", not bad, "first %s" % bad[:5])
    v.prove("count", n == sum(4 ** L for L in range(8)))
    v.prove("bracket_initial_keys_are_active", not f("(NH4)2SO4") and not f("(CH3)3N(aq)") and f("(2 H2O)") and f("((NH4)2SO4)"))


@harness("C12", "to_reaction.placement", functions=[PA + ":to_reaction", "chempy.chemistry:Reaction.from_string"], kind="shape-bounded", samples=0)
def _(v):
    """which text goes to which of the four maps, modular over _parse_multiplicity (proved above)"""
    from chempy.util import parsing
    from chempy.chemistry import Reaction, Equilibrium
    seen = []

    def pm(v_, strings, substance_keys=None):
        seen.append((tuple(strings), substance_keys))
        return {"PM:" + "|".join(strings): 1}
    v.contract(parsing._parse_multiplicity, "_parse_multiplicity", None, pm)
    cls = v.choice("cls", [Reaction, Equilibrium])
    arrow = "->" if cls is Reaction else "="
    line = "2 A + (B) + (NH4)2SO4 %s  C + (3 D) + (E); None" % arrow
    r = v.call(cls.from_string, line, None, False, checks=())
    v.prove("active_reactants", list(r.reac) == ["PM:2 A|(NH4)2SO4"])
    v.prove("inactive_reactants", list(r.inact_reac) == ["PM:B"])
    v.prove("active_products", list(r.prod) == ["PM:C"])
    v.prove("inactive_products", list(r.inact_prod) == ["PM:3 D|E"])
    v.prove("allowed_keys_forwarded", all(sk is None for _, sk in seen))
    other = "=" if arrow == "->" else "->"
    out = v.run(cls.from_string, "A %s B" % other, None, False, checks=())
    v.prove("missing_arrow_token_rejected", out.raised(ValueError))
    seen.clear()
    v.call(cls.from_string, "A %s B" % arrow, "A B", False, checks=())
    v.prove("string_of_keys_is_split", all(sk == ["A", "B"] for _, sk in seen) and len(seen) == 4)
    seen.clear()
    v.call(cls.from_string, "A %s A" % arrow, "A", False, checks=())
    v.prove("string_with_a_single_key_is_a_list_of_one_key", all(sk == ["A"] for _, sk in seen) and len(seen) == 4, detail=repr(seen))


@harness("C12", "to_reaction.parameters", functions=[PA + ":to_reaction"], kind="data")
def _(v):
    from chempy.chemistry import Reaction
    from chempy.kinetics.rates import MassAction
    r = Reaction.from_string("A -> B; 'k1'", checks=())
    v.prove("quoted_name_is_symbolic_mass_action", isinstance(r.param, MassAction) and r.param.args[0].unique_keys == ("k1",))
    r = Reaction.from_string("A -> B; 2.5e3; name='x', ref='y'", checks=())
    v.prove("numeric_param_and_keywords", r.param == 2500.0 and r.name == "x" and r.ref == "y")
    r = Reaction.from_string("A -> B", checks=())
    v.prove("no_param", r.param is None)
    r = Reaction.from_string("A -> B; 3*4", globals_=False, checks=())
    v.prove("globals_false_never_evals", r.param is None)


@harness("C12", "copy_and_eq", functions=["chempy.chemistry:Reaction.copy", "chempy.chemistry:Reaction.__eq__", "chempy.chemistry:Reaction._init_stoich"], kind="shape-bounded", samples=20)
def _(v):
    from chempy.chemistry import Reaction, Equilibrium
    rxn, d = _mk(v, Reaction, ["B", "A"], ["C"], ireac=["X"], iprod=["Y"], param=v.real("k", lo=0, hi=9), lo=1)
    c = v.call(rxn.copy)
    v.prove("copy_is_new_object", c is not rxn)
    v.prove("copy_equals_original", bool(v.call(rxn.__eq__, c)))
    v.prove("stored_sorted", list(rxn.reac) == ["A", "B"])
    other, d2 = _mk(v, Reaction, ["B", "A"], ["C"], ireac=["X"], iprod=["Y"], param=v.real("k", lo=0, hi=9), lo=1)
    other.prod["C"] = other.prod["C"] + 1
    v.prove("different_coefficient_not_equal", not v.call(rxn.__eq__, other))
    v.prove("set_means_unit_coefficients", Reaction._init_stoich({"A", "B"}) == {"A": 1, "B": 1})


@harness("C12", "print_structure.decimal_coefficients", functions=[ST + ":StrPrinter._Reaction_parts"], kind="shape-bounded", samples=0)
def _(v):
    """coefficient text is omitted iff the coefficient equals 1 - also for decimal coefficients below 1"""
    import z3
    from chempy.chemistry import Reaction
    from chempy.printing.string import StrPrinter
    a = v.real("a", lo=0.01, hi=5)
    v.assume(SP.neg(a == 1))
    rxn = Reaction({"H2O2": 1}, {"O2": a, "H2O": 1}, None, checks=())
    parts = v.call(StrPrinter()._Reaction_parts, rxn)
    S = z3.Function("real2str", z3.RealSort(), z3.StringSort())
    v.prove("fractional_coefficient_is_printed", parts[3] == Sym(z3.Concat(z3.StringVal("H2O + "), S(a.e), z3.StringVal(" O2"))))


@harness("C12", "print_structure.half_round_trip", functions=[ST + ":StrPrinter._Reaction_parts", PA + ":_parse_multiplicity"], kind="data")
def _(v):
    from chempy.chemistry import Reaction
    ok = []
    for c in (0.5, 0.25, 1.5, 2.5, 0.1):
        r = Reaction({"H2O2": 1}, {"O2": c, "H2O": 1}, checks=())
        back = Reaction.from_string(str(r), checks=())
        ok.append(back.prod == r.prod and back.reac == r.reac)
    v.prove("decimal_coefficients_round_trip", all(ok), str(ok))


@harness("C12", "print_parse_round_trip.with_names", functions=["chempy.printing.string:StrPrinter._print_Reaction", "chempy.printing.string:StrPrinter._print_ReactionSystem",
                                                                "chempy.chemistry:Reaction.from_string", "chempy.reactionsystem:ReactionSystem.from_string"], kind="data")
def _(v):
    """'printing a reaction, equilibrium or system ... and parsing the text back yields an equal object' for objects that carry a NAME (the
    documented notation for it is  ; name='...' )"""
    from chempy.chemistry import Reaction, Equilibrium
    from chempy.reactionsystem import ReactionSystem

    def back(cls, obj, **kw):
        try:
            r = cls.from_string(str(obj) if not isinstance(obj, ReactionSystem) else obj.string(), **kw)
            return r == obj and getattr(r, "name", None) == getattr(obj, "name", None), ""
        except Exception as ex:
            return False, "%s: %r" % (str(obj)[:60], ex)
    r = Reaction.from_string("A -> B; 2.5; name='x'")
    ok, det = back(Reaction, r)
    v.prove("named_reaction_with_parameter", ok, detail=det)
    ok, det = back(Reaction, Reaction({"A": 2}, {"B": 1}, name="first"))
    v.prove("named_reaction_without_parameter", ok, detail=det)
    ok, det = back(Equilibrium, Equilibrium({"A": 1}, {"B": 1}, 3.0, name="eq1"))
    v.prove("named_equilibrium", ok, detail=det)
    rs = ReactionSystem.from_string("H2O -> H+ + OH-; 2\nH+ + OH- -> H2O; 3", name="mysys")
    ok, det = back(ReactionSystem, rs)
    v.prove("named_system", ok, detail=det)
    plain = ReactionSystem.from_string("H2O -> H+ + OH-; 2\nH+ + OH- -> H2O; 3")
    ok, det = back(ReactionSystem, plain)
    v.prove("unnamed_system", ok, detail=det)


@harness("C12", "unknown_keys_are_refused", functions=["chempy.chemistry:Reaction.from_string", PA + ":_parse_multiplicity"], kind="data")
def _(v):
    """'an unknown key is rejected when an allowed-key list is given', whatever the form the allowed keys take (list, tuple, blank- or tab-separated
    string, a string holding a single key) and wherever the unknown key stands"""
    from chempy.chemistry import Reaction, Equilibrium
    accepted = []
    for text, keys in (("H2O2 -> H2O + O", "H2O2"), ("H2O2 -> H2O + O", ["H2O2"]), ("H2O2 -> H2O + O", ("H2O2", "H2O")), ("H -> O", "H2O\tO2"), ("H2O -> H + OH", "H2O OH"),
                       ("A + B -> C + (D)", "A B C"), ("A + (2 X) -> C", ["A", "C"]), ("2 * Q -> A", "A")):
        for cls, arrow in ((Reaction, "->"), (Equilibrium, "=")):
            try:
                accepted.append((str(cls.from_string(text.replace("->", arrow), keys, checks=())), keys))
            except ValueError:
                pass
    v.prove("every_form_of_the_allowed_keys", not accepted, detail=repr(accepted))
    ok = str(Reaction.from_string("H2O2 -> H2O + O", "H2O2 H2O O")) == "H2O2 -> H2O + O" and str(Reaction.from_string("H2O2 -> H2O + O", ["O", "H2O", "H2O2"])) == "H2O2 -> H2O + O"
    v.prove("known_keys_are_accepted", ok)


@harness("C12", "system_from_text", functions=["chempy.reactionsystem:ReactionSystem.from_string", "chempy.equilibria:EqSystem.from_string"], kind="data")
def _(v):
    """'multi-line systems with comments': one reaction per non-blank, non-comment line, in order, exactly as written (hand-written expectations);
    a `substances` argument is the allowed-key list for every line; trailing comments and keyword parts are not species"""
    from chempy.chemistry import Substance
    from chempy.reactionsystem import ReactionSystem
    from chempy.equilibria import EqSystem
    text = "\n".join(["# a comment line", "", "2 HNO2 -> H2O + NO + NO2; 3  # trailing comment", "   ", "   # indented comment", "2 NO2 -> N2O4; 4; name='dimerisation'",
                      "NO + (2 H2O) -> NO2 + (H2O); 5e-3", "3 * NO2 + [Fe(CN)6]-3 -> (NH4)2SO4 + 2 NO2; 1.5"])
    rs = ReactionSystem.from_string(text, substance_factory=Substance, checks=())
    got = [(dict(r.reac), dict(r.prod), dict(r.inact_reac), dict(r.inact_prod), r.param, r.name) for r in rs.rxns]
    want = [({"HNO2": 2}, {"H2O": 1, "NO": 1, "NO2": 1}, {}, {}, 3, None), ({"NO2": 2}, {"N2O4": 1}, {}, {}, 4, "dimerisation"),
            ({"NO": 1}, {"NO2": 1}, {"H2O": 2}, {"H2O": 1}, 5e-3, None), ({"NO2": 3, "[Fe(CN)6]-3": 1}, {"(NH4)2SO4": 1, "NO2": 2}, {}, {}, 1.5, None)]
    v.prove("one_reaction_per_line_in_order_as_written", got == want, detail=repr(got))
    v.prove("substances_are_the_species_mentioned", set(rs.substances) == {"HNO2", "H2O", "NO", "NO2", "N2O4", "[Fe(CN)6]-3", "(NH4)2SO4"} and len(rs.substances) == 7, detail=repr(list(rs.substances)))
    keys = "HNO2 H2O NO NO2 N2O4"
    ok = ReactionSystem.from_string("2 HNO2 -> H2O + NO + NO2; 3\n2 NO2 -> N2O4; 4", keys, substance_factory=Substance)
    v.prove("allowed_keys_accepted", [str(r) for r in ok.rxns] == ["2 HNO2 -> H2O + NO + NO2; 3", "2 NO2 -> N2O4; 4"] and list(ok.substances) == keys.split())
    refused = []
    for bad_text in ("2 HNO2 -> H2O + NO + NO2; 3\n2 NO2 -> N2O5; 4", "2 HNO3 -> H2O + NO + NO2; 3\n2 NO2 -> N2O4; 4", "2 HNO2 -> H2O + NO + NO2; 3\n2 NO2 -> (Xe) + N2O4; 4"):
        try:
            ReactionSystem.from_string(bad_text, keys, substance_factory=Substance, checks=())
            refused.append(False)
        except ValueError:
            refused.append(True)
    v.prove("unknown_key_on_any_line_is_refused", all(refused), detail=repr(refused))
    es = EqSystem.from_string("H2O = H+ + OH-; 1e-14\nNH4+ = NH3 + H+; 5.6e-10")
    v.prove("equilibria_use_the_equals_arrow", [(dict(r.reac), dict(r.prod), r.param) for r in es.rxns] == [({"H2O": 1}, {"H+": 1, "OH-": 1}, 1e-14), ({"NH4+": 1}, {"H+": 1, "NH3": 1}, 5.6e-10)])


@harness("C12", "system_text_uses_the_species_keys", functions=["chempy.reactionsystem:ReactionSystem.string", "chempy.printing.string:StrPrinter._print_ReactionSystem"], kind="data")
def _(v):
    """the text of a system is written with the species KEYS (what the reactions refer to and what the parser reads back against the key list), also
    when the Substance objects carry different display names; fractional coefficients are printed, not dropped"""
    from collections import OrderedDict
    from chempy.chemistry import Reaction, Substance
    from chempy.reactionsystem import ReactionSystem
    subs = OrderedDict([("H2O2", Substance("hydrogen peroxide")), ("H2O", Substance("water")), ("O2", Substance("oxygen"))])
    rs = ReactionSystem([Reaction({"H2O2": 2}, {"H2O": 2, "O2": 1}, 3.0)], subs, checks=())
    txt = rs.string()
    v.prove("keys_not_display_names", txt.strip() == "2 H2O2 -> 2 H2O + O2; 3", detail=repr(txt))
    try:
        back = ReactionSystem.from_string(txt, list(subs), substance_factory=Substance)
        ok = [(dict(r.reac), dict(r.prod)) for r in back.rxns] == [({"H2O2": 2}, {"H2O": 2, "O2": 1})]
    except Exception as ex:
        ok = repr(ex)
    v.prove("reads_back_against_the_key_list", ok is True, detail=repr(ok))
    half = Reaction({"H2O2": 1}, {"H2O": 1, "O2": 0.5}, checks=())
    v.prove("coefficient_below_one_is_printed", str(half) == "H2O2 -> H2O + 0.5 O2" and half.unicode({}) == "H2O2 → H2O + 0.5 O2" and "0.5 O" in half.latex({}) and "0.5 O" in half.html({}),
            detail=repr((str(half), half.unicode({}), half.latex({}), half.html({}))))


@harness("C12", "keys_containing_the_arrow", functions=["chempy.util.parsing:to_reaction", "chempy.chemistry:Reaction.from_string", "chempy.chemistry:Equilibrium.from_string"], kind="data")
def _(v):
    """'for every species key without spaces': a key may contain the characters of the arrow itself ('CH2=CH2' in an equilibrium line, 'a->b' in
    a reaction line); the arrow of the line is the one delimited by blanks, and every written species lands on its written side. A line with
    more than one arrow is not the documented notation and is refused, never cut off after the second side"""
    from chempy.chemistry import Reaction, Equilibrium
    bad = []
    for cls, text, reac, prod in ((Equilibrium, "CH2=CH2 + H2 = C2H6; 3", {"CH2=CH2": 1, "H2": 1}, {"C2H6": 1}), (Equilibrium, "2 CH2=CH2 = C4H8", {"CH2=CH2": 2}, {"C4H8": 1}),
                                  (Equilibrium, "C2H6 = H2 + CH2=CH2", {"C2H6": 1}, {"H2": 1, "CH2=CH2": 1}), (Reaction, "a->b + 2 c -> d", {"a->b": 1, "c": 2}, {"d": 1}),
                                  (Reaction, "A- -> B-", {"A-": 1}, {"B-": 1}), (Reaction, "A->B", {"A": 1}, {"B": 1}), (Equilibrium, "A=B", {"A": 1}, {"B": 1})):
        try:
            r = cls.from_string(text)
            if dict(r.reac) != reac or dict(r.prod) != prod:
                bad.append((text, dict(r.reac), dict(r.prod)))
        except Exception as ex:
            bad.append((text, repr(ex)[:80]))
    v.prove("every_written_species_on_its_written_side", not bad, detail=repr(bad[:3]))
    # ... and such a key survives print -> parse, also next to an empty side (the printed text then ends with the arrow)
    lost = []
    for obj in (Equilibrium({"CH2=CH2": 1, "H2": 1}, {"CH3CH3": 1}, 5.0), Equilibrium({"CH2=CH2": 1}, {}, checks=()), Reaction({"a->b": 1}, {}, 2.0), Reaction({}, {"a->b": 2}, 2.0)):
        try:
            back = type(obj).from_string(str(obj), checks=())
            if not (back == obj and dict(back.reac) == dict(obj.reac) and dict(back.prod) == dict(obj.prod)):
                lost.append((str(obj), dict(back.reac), dict(back.prod)))
        except Exception as ex:
            lost.append((str(obj), repr(ex)[:80]))
    v.prove("print_parse_with_an_arrow_in_the_key", not lost, detail=repr(lost[:3]))
    accepted = []
    for cls, text in ((Reaction, "A -> B -> C"), (Equilibrium, "A = B = C"), (Reaction, "A -> B + C -> D; 3")):
        try:
            r = cls.from_string(text)
            accepted.append((text, dict(r.reac), dict(r.prod)))
        except ValueError:
            pass
        except Exception as ex:
            accepted.append((text, repr(ex)[:80]))
    v.prove("more_than_one_arrow_refused", not accepted, detail=repr(accepted[:3]))


@harness("C12", "keys_beginning_with_a_star_and_system_text_switches", functions=["chempy.util.parsing:_parse_multiplicity", "chempy.reactionsystem:ReactionSystem.string"], kind="data")
def _(v):
    """(a) 'for every species key without spaces': keys that begin with the multiplication sign of the 'n * X' notation (surface sites '*',
    '*CO') keep their star with an explicit coefficient in front, and survive print -> parse; (b) the two switches of ReactionSystem.string
    act independently: with_name=False drops the names and keeps the parameters (the only form of a named system that parses back),
    with_param=False drops the parameters and keeps the names"""
    from chempy.chemistry import Reaction, Substance
    from chempy.reactionsystem import ReactionSystem
    try:
        r = Reaction.from_string("2 *CO + * -> 2 * *COH + 3 *; 3")
        ok = dict(r.reac) == {"*CO": 2, "*": 1} and dict(r.prod) == {"*COH": 2, "*": 3}
        back = Reaction.from_string(str(r))
        ok2, det = back == r, "%r %r %r" % (dict(r.reac), dict(r.prod), str(r))
    except Exception as ex:
        ok, ok2, det = False, False, repr(ex)[:200]
    v.prove("star_keys_with_explicit_coefficients", ok, detail=det)
    v.prove("star_keys_print_parse", ok2, detail=det)
    rs = ReactionSystem.from_string("A -> B; 3; name='first'\nB -> C; 4; name='second'", substance_factory=Substance)
    texts = {k: rs.string(**kw) for k, kw in (("default", {}), ("no_name", dict(with_name=False)), ("no_param", dict(with_param=False)), ("neither", dict(with_param=False, with_name=False)))}
    want = {"default": "A -> B; 3; first\nB -> C; 4; second\n", "no_name": "A -> B; 3\nB -> C; 4\n", "no_param": "A -> B; first\nB -> C; second\n", "neither": "A -> B\nB -> C\n"}
    v.prove("system_text_switches_are_independent", texts == want, detail=repr({k: t for k, t in texts.items() if t != want[k]}))
    try:
        back = ReactionSystem.from_string(texts["no_name"], substance_factory=Substance)
        ok3 = [(dict(r.reac), dict(r.prod), r.param) for r in back.rxns] == [({"A": 1}, {"B": 1}, 3), ({"B": 1}, {"C": 1}, 4)]
    except Exception as ex:
        ok3 = False
    v.prove("text_without_names_parses_back", ok3)
