# -*- coding: utf-8 -*-
"""Bounded stand-ins for C13: LaTeX / Unicode / HTML names show the formula that was given.

Real code under check : chempy.util.parsing.formula_to_latex / _unicode / _html,
                        chempy.Substance.from_formula, chempy.Species.from_formula,
                        Reaction/Equilibrium .latex() .unicode() .html()
Oracle                : the presentation mapping of the property statement is UNDONE by three small
                        scanners written here from the statement and the tables of DESIGN 7/C13
                        (own greek / subscript / superscript tables, nothing taken from chempy):
                          count          <-  _{n} | subscript digits | <sub>n</sub>
                          charge         <-  ^{[m]s} | superscript digits+sign | <sup>[m]s</sup>
                                             (magnitude then sign, magnitude 1 not written) -> s[m]
                          greek prefix   <-  \\name- (\\varepsilon-, o-) | glyph- | &name;-
                          radical dot    <-  ^\\bullet_ | U+22C5 | &sdot; (leading)
                          hydrate joint  <-  \\cdot_ | U+00B7 | &sdot; (inner), followed by the plain count
                          braces         <-  \\{ \\}
                        every other character (letters, brackets, prime/star marks, phase suffix) must be
                        verbatim; any character the mapping cannot account for is a violation.
                        The recovered text must be the canonical text of the derivation tree ('..' joint,
                        hydrate count 1 and charge magnitude 1 not written) and, read by the independent
                        reader of _formulas.py, have the tree's composition, charge, prefixes and suffix.
Stand-ins: names (three renderers + Substance.from_formula), species (Species.from_formula: names,
composition, phase index by suffix), reaction_layout (coefficients / names / arrow in stored order).
"""
import re
from collections import OrderedDict

from . import _formulas as F

_STATE = {}


def _api():
    if not _STATE:
        from chempy.util.parsing import formula_to_latex, formula_to_unicode, formula_to_html, formula_to_composition
        from chempy import Substance, Species, Reaction, Equilibrium
        _STATE.update(latex=formula_to_latex, unicode=formula_to_unicode, html=formula_to_html,
                      Substance=Substance, Species=Species, Reaction=Reaction, Equilibrium=Equilibrium)
        formula_to_composition("H2O")
    return _STATE


FORMATS = ("latex", "unicode", "html")

# ---------------------------------------------------------------------------------------------- own tables
_GREEK_CP = dict(zip(F.GREEK, [0x3B1 + i for i in range(17)] + [0x3C3 + i for i in range(7)]))  # skips final sigma
assert _GREEK_CP["rho"] == 0x3C1 and _GREEK_CP["sigma"] == 0x3C3 and _GREEK_CP["omega"] == 0x3C9
_U_GREEK = {chr(cp): name for name, cp in _GREEK_CP.items()}
_U_SUB = {chr(0x2080 + d): str(d) for d in range(10)}
_U_SUP = {chr(cp): str(d) for d, cp in enumerate([0x2070, 0xB9, 0xB2, 0xB3, 0x2074, 0x2075, 0x2076, 0x2077, 0x2078, 0x2079])}
_U_SIGN = {chr(0x207A): "+", chr(0x207B): "-"}
_VERBATIM = set("ABCDEFGHIJKLMNOPQRSTUVWXYZabcdefghijklmnopqrstuvwxyz()[]*'")
_CNT = re.compile(r"\d+(\.\d+)?")


class UndoError(Exception):
    pass


def _charge_text(mag, sign):
    if mag in ("1", "0") or mag.startswith("0"):
        raise UndoError("charge magnitude %r written (1 must be omitted, no leading zero)" % mag)
    return sign + mag


def _tail(s, i, out):
    """After the charge only a phase suffix (verbatim) may follow."""
    rest = s[i:]
    if rest not in ("",) + F.SUFFIXES:
        raise UndoError("text %r after the charge is not a phase suffix" % rest)
    return out + rest


def undo_latex(s):
    i, out = 0, ""
    m = re.match(r"\\([a-z]+)-", s)
    if m:
        name = {"varepsilon": "epsilon"}.get(m.group(1), m.group(1))
        if name not in F.GREEK or m.group(1) in ("epsilon", "omicron"):
            raise UndoError("unknown greek prefix %r" % m.group(0))
        out, i = name + "-", m.end()
    elif s.startswith("o-"):
        out, i = "omicron-", 2
    if s.startswith("^\\bullet ", i):
        out, i = out + ".", i + 9
    while i < len(s):
        if s.startswith("_{", i):
            m = _CNT.match(s, i + 2)
            if not m or s[m.end():m.end() + 1] != "}":
                raise UndoError("malformed subscript at %d" % i)
            out, i = out + m.group(), m.end() + 1
        elif s.startswith("^{", i):
            m = re.compile(r"(\d*)([+-])\}").match(s, i + 2)
            if not m:
                raise UndoError("malformed superscript at %d" % i)
            return _tail(s, m.end(), out + _charge_text(m.group(1), m.group(2)))
        elif s.startswith("\\cdot ", i):
            m = re.compile(r"\d*").match(s, i + 6)
            out, i = out + ".." + m.group(), m.end()
        elif s.startswith("\\{", i) or s.startswith("\\}", i):
            out, i = out + s[i + 1], i + 2
        elif s[i] in _VERBATIM:
            out, i = out + s[i], i + 1
        else:
            raise UndoError("unaccounted %r at %d" % (s[i:i + 8], i))
    return out


def undo_unicode(s):
    i, out = 0, ""
    if len(s) > 1 and s[0] in _U_GREEK and s[1] == "-":
        out, i = _U_GREEK[s[0]] + "-", 2
    if s.startswith("⋅", i):
        out, i = out + ".", i + 1
    while i < len(s):
        c = s[i]
        if c in _U_SUB:
            j, txt = i, ""
            while j < len(s) and (s[j] in _U_SUB or (s[j] == "." and txt and j + 1 < len(s) and s[j + 1] in _U_SUB and "." not in txt)):
                txt += _U_SUB.get(s[j], ".")
                j += 1
            out, i = out + txt, j
        elif c in _U_SUP or c in _U_SIGN:
            j, mag = i, ""
            while j < len(s) and s[j] in _U_SUP:
                mag += _U_SUP[s[j]]
                j += 1
            if j >= len(s) or s[j] not in _U_SIGN:
                raise UndoError("superscript digits without a sign at %d" % i)
            return _tail(s, j + 1, out + _charge_text(mag, _U_SIGN[s[j]]))
        elif c == "·":
            m = re.compile(r"\d*").match(s, i + 1)
            out, i = out + ".." + m.group(), m.end()
        elif c in _VERBATIM or c in "{}":
            out, i = out + c, i + 1
        else:
            raise UndoError("unaccounted %r at %d" % (s[i:i + 4], i))
    return out


def undo_html(s):
    i, out = 0, ""
    m = re.match(r"&([a-z]+);-", s)
    if m:
        if m.group(1) not in F.GREEK:
            raise UndoError("unknown greek prefix %r" % m.group(0))
        out, i = m.group(1) + "-", m.end()
    if s.startswith("&sdot;", i):
        out, i = out + ".", i + 6
    while i < len(s):
        if s.startswith("<sub>", i):
            m = _CNT.match(s, i + 5)
            if not m or not s.startswith("</sub>", m.end()):
                raise UndoError("malformed subscript at %d" % i)
            out, i = out + m.group(), m.end() + 6
        elif s.startswith("<sup>", i):
            m = re.compile(r"(\d*)([+-])</sup>").match(s, i + 5)
            if not m:
                raise UndoError("malformed superscript at %d" % i)
            return _tail(s, m.end(), out + _charge_text(m.group(1), m.group(2)))
        elif s.startswith("&sdot;", i):
            m = re.compile(r"\d*").match(s, i + 6)
            out, i = out + ".." + m.group(), m.end()
        elif s[i] in _VERBATIM or s[i] in "{}":
            out, i = out + s[i], i + 1
        else:
            raise UndoError("unaccounted %r at %d" % (s[i:i + 8], i))
    return out


UNDO = {"latex": undo_latex, "unicode": undo_unicode, "html": undo_html}


def check_name(tree, fmt, shown):
    """None if `shown` is a pure presentation of the derivation `tree` in format fmt."""
    if not isinstance(shown, str):
        return "%s name is %r" % (fmt, shown)
    try:
        back = UNDO[fmt](shown)
    except UndoError as e:
        return "%s name %r cannot be undone: %s" % (fmt, shown, e)
    canon = F.render(tree, canonical=True)
    if back != canon:
        return "%s name %r undoes to %r, the formula given is %r" % (fmt, shown, back, canon)
    # what the statement literally asks for: same composition, charge, prefixes, suffix
    try:
        r = F.ref_parse(back)
    except F.RefError as e:
        return "%s name %r undoes to unreadable %r (%s)" % (fmt, shown, back, e)
    if r["comp"] != F.expected(tree) or r["greek"] != tree["greek"] or r["radical"] != tree["radical"] \
            or r["suffix"] != tree["suffix"] or r["charge"] != F.charge_value(tree["charge"]):
        return "%s name %r undoes to %r: composition/charge/prefix/suffix differ" % (fmt, shown, back)
    return None


# ---------------------------------------------------------------------------------------------- names
def _check_names(tree, via):
    api = _api()
    text = F.render(tree)
    try:
        if via == "Substance.from_formula":
            s = api["Substance"].from_formula(text)
            shown = {"latex": s.latex_name, "unicode": s.unicode_name, "html": s.html_name}
            d = F.compare_comp(s.composition, F.expected(tree), exact=not F.has_decimal(tree))
            if d:
                return "Substance.from_formula(%r).composition == %r: %s" % (text, s.composition, d)
            if s.name != text:
                return "Substance.from_formula(%r).name == %r" % (text, s.name)
        else:
            shown = {fmt: api[fmt](text) for fmt in FORMATS}
    except Exception as e:
        return "%s on %r raised %s: %s" % (via, text, type(e).__name__, str(e)[:120])
    for fmt in FORMATS:
        d = check_name(tree, fmt, shown[fmt])
        if d:
            return "formula %r: %s" % (text, d)
    return None


def _w_names(job):
    seed, chunk, ncases = job
    rng = F.rng_for(seed, "C13.names", chunk)
    n, keys, viol, samples = 0, [], [], []
    for j in range(ncases):
        tree = F.gen_tree(rng, depth=3)
        via = "Substance.from_formula" if j % 4 == 3 else "formula_to_<fmt>"
        text = F.render(tree)
        d = _check_names(tree, via)
        n += 3
        keys.extend(F.key_of(fmt + text) for fmt in FORMATS)
        if d:
            viol.append({"inputs": {"tree": tree, "text": text, "via": via}, "detail": d})
        elif len(samples) < 1 and chunk < 3:
            api = _api()
            samples.append({"text": text, "latex": api["latex"](text), "unicode": api["unicode"](text), "html": api["html"](text)})
    return {"n": n, "keys": keys, "violations": viol, "samples": samples}


# ---------------------------------------------------------------------------------------------- species
PHASE_OF = {"(s)": 1, "(l)": 2, "(g)": 3}
PHASE_MAP = {"(s)": 1, "(l)": 2, "(g)": 3, "(aq)": 0}      # dict variant; default_phase_idx=7 must not be used


def _check_species(tree, variant):
    api = _api()
    text = F.render(tree)
    try:
        if variant == "default":
            s = api["Species"].from_formula(text)
            want = PHASE_OF.get(tree["suffix"], 0)
        elif variant == "mapping":
            s = api["Species"].from_formula(text, dict(PHASE_MAP), default_phase_idx=7)
            want = PHASE_MAP.get(tree["suffix"], 7)
        else:   # sequence of all four suffixes, index + 1
            s = api["Species"].from_formula(text, F.SUFFIXES, default_phase_idx=None if tree["suffix"] else 0)
            want = (F.SUFFIXES.index(tree["suffix"]) + 1) if tree["suffix"] else 0
    except Exception as e:
        return "Species.from_formula(%r) [%s phases] raised %s: %s" % (text, variant, type(e).__name__, str(e)[:120])
    if s.phase_idx != want:
        return "Species.from_formula(%r) [%s phases].phase_idx == %r, expected %r" % (text, variant, s.phase_idx, want)
    if s.name != text:
        return "Species.from_formula(%r).name == %r" % (text, s.name)
    d = F.compare_comp(s.composition, F.expected(tree), exact=not F.has_decimal(tree))
    if d:
        return "Species.from_formula(%r) [%s phases].composition == %r: %s" % (text, variant, s.composition, d)
    for fmt, shown in (("latex", s.latex_name), ("unicode", s.unicode_name), ("html", s.html_name)):
        d = check_name(tree, fmt, shown)
        if d:
            return "Species.from_formula(%r) [%s phases]: %s" % (text, variant, d)
    return None


def _aq_region(tree):
    """'(aq)' suffix together with a charge or a prime/star mark (e.g. 'Na+(aq)')."""
    return tree["suffix"] == "(aq)" and bool(tree["charge"] or tree["marks"])


def _w_species_aq(job):
    """Species.from_formula with its DEFAULT phases on formulas like 'Na+(aq)', "H2O*(aq)": '(aq)' is not one of
    the default phases, so the default index 0 is expected (docstring: Species.from_formula('CO2(aq)').phase_idx == 0)."""
    seed, chunk, ncases = job
    rng = F.rng_for(seed, "C13.species_aq", chunk)
    n, keys, viol, samples = 0, [], [], []
    for j in range(ncases):
        tree = F.gen_tree(rng, depth=1)
        tree["suffix"] = "(aq)"
        if not (tree["charge"] or tree["marks"]):
            tree["charge"] = ("+", "-", "+2", "-2", "+3")[rng.randrange(5)]
        text = F.render(tree)
        d = _check_species(tree, "default")
        n += 1
        keys.append(F.key_of(text))
        if d:
            viol.append({"inputs": {"tree": tree, "text": text, "variant": "default"}, "detail": d})
        elif len(samples) < 1 and chunk < 3:
            samples.append({"text": text, "variant": "default", "phase_idx": 0})
    return {"n": n, "keys": keys, "violations": viol, "samples": samples}


def _w_species(job):
    seed, chunk, ncases = job
    rng = F.rng_for(seed, "C13.species", chunk)
    n, keys, viol, samples = 0, [], [], []
    for j in range(ncases):
        tree = F.gen_tree(rng, depth=2)
        if j % 2 == 0 and not tree["suffix"]:
            tree["suffix"] = F.SUFFIXES[rng.randrange(4)]
        variant = ("default", "mapping", "sequence")[j % 3]
        if _aq_region(tree):
            if variant == "default":
                variant = "mapping"         # default phases on this region: stand-in species_default_aq
        text = F.render(tree)
        d = _check_species(tree, variant)
        n += 1
        keys.append(F.key_of(variant + text))
        if d:
            viol.append({"inputs": {"tree": tree, "text": text, "variant": variant}, "detail": d})
        elif len(samples) < 1 and chunk < 3:
            samples.append({"text": text, "variant": variant, "phase_idx": PHASE_OF.get(tree["suffix"], 0) if variant == "default" else None})
    return {"n": n, "keys": keys, "violations": viol, "samples": samples}


# ---------------------------------------------------------------------------------------------- reaction layout
ARROWS = {("Reaction", "latex"): "\\rightarrow", ("Equilibrium", "latex"): "\\rightleftharpoons",
          ("Reaction", "unicode"): "→", ("Equilibrium", "unicode"): "⇌",
          ("Reaction", "html"): "&rarr;", ("Equilibrium", "html"): "&harr;"}


def gen_layout_case(rng):
    nkeys = rng.randint(2, 7)
    trees, texts = [], []
    while len(trees) < nkeys:
        t = F.gen_tree(rng, depth=rng.randint(0, 2))
        x = F.render(t)
        if x not in texts:
            trees.append(t); texts.append(x)

    def side(lo):
        idx = list(range(nkeys)); rng.shuffle(idx)
        return [[i, 1 if rng.random() < 0.4 else rng.randint(2, 10 ** rng.randint(1, 3))] for i in idx[:rng.randint(lo, min(5, nkeys))]]
    return {"cls": "Equilibrium" if rng.random() < 0.4 else "Reaction", "trees": trees, "reac": side(0), "prod": side(1)}


def _check_layout(case):
    api = _api()
    texts = [F.render(t) for t in case["trees"]]
    try:
        subst = {x: api["Substance"].from_formula(x) for x in texts}
        # OrderedDict: stored order is the order written here (not sorted)
        rxn = api[case["cls"]](OrderedDict((texts[i], c) for i, c in case["reac"]),
                               OrderedDict((texts[i], c) for i, c in case["prod"]), checks=())
        shown = {"latex": rxn.latex(subst), "unicode": rxn.unicode(subst), "html": rxn.html(subst)}
    except Exception as e:
        return "%s over %r raised %s: %s" % (case["cls"], texts, type(e).__name__, str(e)[:120])
    for fmt in FORMATS:
        out = shown[fmt]
        arrow = " " + ARROWS[(case["cls"], fmt)] + " "
        if not isinstance(out, str) or out.count(arrow) != 1:
            return "%s.%s() == %r: arrow %r not found exactly once" % (case["cls"], fmt, out, arrow)
        sides = out.split(arrow)
        for which, got in zip(("reac", "prod"), sides):
            terms = got.split(" + ") if got else []
            want = case[which]
            if len(terms) != len(want):
                return "%s.%s() == %r: %d terms on the %s side, %d stored" % (case["cls"], fmt, out, len(terms), which, len(want))
            for term, (i, c) in zip(terms, want):
                m = re.match(r"(\d+) ", term)
                coeff, name = (int(m.group(1)), term[m.end():]) if m else (None, term)
                if (coeff is None) != (c == 1) or (coeff is not None and coeff != c):
                    return "%s.%s() == %r: term %r should carry coefficient %d (1 is omitted)" % (case["cls"], fmt, out, term, c)
                d = check_name(case["trees"][i], fmt, name)
                if d:
                    return "%s.%s() == %r: term %r for species %r: %s" % (case["cls"], fmt, out, term, texts[i], d)
    return None


def _w_layout(job):
    seed, chunk, ncases = job
    rng = F.rng_for(seed, "C13.layout", chunk)
    n, keys, viol, samples = 0, [], [], []
    for j in range(ncases):
        case = gen_layout_case(rng)
        d = _check_layout(case)
        n += 3
        sig = case["cls"] + repr(case["reac"]) + repr(case["prod"]) + "|".join(F.render(t) for t in case["trees"])
        keys.extend(F.key_of(fmt + sig) for fmt in FORMATS)
        if d:
            viol.append({"inputs": case, "detail": d})
        elif len(samples) < 1 and chunk < 2:
            texts = [F.render(t) for t in case["trees"]]
            samples.append({"cls": case["cls"], "reac": [[texts[i], c] for i, c in case["reac"]], "prod": [[texts[i], c] for i, c in case["prod"]]})
    return {"n": n, "keys": keys, "violations": viol, "samples": samples}


# ----------------------------------------------------------------------------------------------
def _undo_self_test():
    """The three scanners invert a tiny independent forward rendering of the statement (no chempy)."""
    assert undo_latex("\\varepsilon-^\\bullet Fe(CN)_{6}\\cdot 7H_{2.5}O'^{2+}(aq)") == "epsilon-.Fe(CN)6..7H2.5O'+2(aq)"
    assert undo_latex("o-\\{Na\\}_{2}^{-}") == "omicron-{Na}2-"
    assert undo_unicode("β-⋅Fe(CN)₆·7H₂.₅O*¹²⁻(s)") == "beta-.Fe(CN)6..7H2.5O*-12(s)"
    assert undo_html("&theta;-&sdot;Fe<sub>10</sub>&sdot;H<sub>2</sub>O<sup>3-</sup>(g)") == "theta-.Fe10..H2O-3(g)"
    for bad, fn in (("H_{2}O^{1+}", undo_latex), ("H2O", undo_latex), ("H₂O²", undo_unicode), ("H<sub>2<sub>", undo_html)):
        try:
            fn(bad)
        except UndoError:
            continue
        raise AssertionError("stand-in bug: %r accepted" % bad)


def run(tier, seed):
    F.self_test(300, seed)
    _undo_self_test()
    _api()
    procs = 16
    if tier == "quick":
        n_names, n_spec, n_lay = (64, 130), (32, 160), (32, 40)
    else:
        n_names, n_spec, n_lay = (640, 550), (320, 500), (320, 120)
    res_names = F.pmap(_w_names, [(seed, c, n_names[1]) for c in range(n_names[0])], procs)
    res_spec = F.pmap(_w_species, [(seed, c, n_spec[1]) for c in range(n_spec[0])], procs)
    res_aq = F.pmap(_w_species_aq, [(seed, c, 40 if tier == "quick" else 400) for c in range(16)], procs)
    res_lay = F.pmap(_w_layout, [(seed, c, n_lay[1]) for c in range(n_lay[0])], procs)
    bound = ("formulas of the C01 generator: nesting depth <= 3, <= 3 terms per group, <= 3 hydrate-joined parts, subscripts "
             "1..999 / decimals, charges -12..+12, 24 greek prefixes, radical dot, 4 suffixes, prime/star marks")
    return {"standins": [
        F.merge(res_names, "names",
                "for each seeded derivation: formula_to_latex/_unicode/_html (3/4) or the three names of "
                "Substance.from_formula (1/4, also .composition and .name); each name is undone by the statement's "
                "presentation mapping (own tables) and must give the canonical text of the derivation, whose independent "
                "reading has the tree's composition, charge, prefixes and suffix; one evaluation = one (formula, format)",
                bound),
        F.merge(res_spec, "species",
                "Species.from_formula on seeded derivations (half forced to carry a suffix) with the default phases, a "
                "dict of the four suffixes and a sequence of the four suffixes: phase_idx selected by the suffix "
                "((s)(l)(g) -> 1,2,3, otherwise the default), composition == tree, names undo to the formula",
                bound + "; depth <= 2 here; default phases are not applied to '(aq)'-suffixed formulas that carry a charge "
                "or mark (separate stand-in species_default_aq)"),
        F.merge(res_aq, "species_default_aq",
                "Species.from_formula with its default phases ((s),(l),(g)) on generated formulas that end in '(aq)' and carry "
                "a charge or a prime/star mark, e.g. 'Na+(aq)': expected phase_idx 0 (the default, as documented for "
                "'CO2(aq)'), composition == tree, names undo to the formula",
                "depth <= 1, suffix '(aq)', charge -12..+12 or a mark"),
        F.merge(res_lay, "reaction_layout",
                "Reaction/Equilibrium over 2..7 generated species stored in a shuffled (OrderedDict) order, <= 5 terms "
                "per side, coefficients 1..1000 (40% are 1); .latex/.unicode/.html(substances) must split at the format's "
                "arrow into exactly the stored terms in stored order, coefficient shown iff != 1, and each name must undo to "
                "its species' formula; one evaluation = one (reaction, format)",
                "<= 7 species, <= 5 terms per side, depth <= 2"),
    ]}


def replay(case):
    inp = case["inputs"]
    name = case.get("name")
    if name == "reaction_layout" or "reac" in inp:
        d = _check_layout(inp)
    elif name in ("species", "species_default_aq") or "variant" in inp:
        d = _check_species(inp["tree"], inp["variant"])
    else:
        d = _check_names(inp["tree"], inp["via"])
    return (d is None), (d or "holds")
