"""Symbolic scalar values (z3-backed proxies) and the path context they fork through.

A `Sym` wraps a z3 expression of sort Int / Real / Bool / String.  It overloads the
Python operators with CPython's semantics (floor division, true division of ints gives
a real, ...), so both the AST interpreter (pyvc.interp) and proxy-safe builtins
(`sum`, `min`, `reduce(mul, ..)`) can compute with it.  `bool(sym)` asks the current
path (`cur()`) which way to go: that is the single forking point of the engine.
"""
from __future__ import annotations

import fractions
import itertools
import math
import threading

import z3

_tls = threading.local()


def cur():
    p = getattr(_tls, "path", None)
    if p is None:
        raise RuntimeError("no active path")
    return p


def set_cur(p):
    _tls.path = p


def has_cur():
    return getattr(_tls, "path", None) is not None


class Infeasible(BaseException):
    """current path condition became unsatisfiable"""


class PathAbort(BaseException):
    """stop exploring this path (e.g. after the preservation branch of a loop)"""


class Unsupported(BaseException):
    """construct outside the accepted subset -> obligation UNDECIDED, never a violation"""


_counter = itertools.count()


def fresh_name(base):
    return "%s!%d" % (base, next(_counter))


def reset_names():
    global _counter
    _counter = itertools.count()


# ---------------------------------------------------------------------------------
# conversion helpers
# ---------------------------------------------------------------------------------

def is_sym(x):
    return isinstance(x, Sym)


def frac_of_float(f):
    """A2: a float literal denotes its shortest decimal representation."""
    if isinstance(f, bool):
        return fractions.Fraction(int(f))
    if isinstance(f, int):
        return fractions.Fraction(f)
    if isinstance(f, fractions.Fraction):
        return f
    if math.isinf(f) or math.isnan(f):
        raise Unsupported("non-finite float in arithmetic with a symbolic value")
    return fractions.Fraction(repr(float(f)))


def to_z3(x, want=None):
    """z3 term of a python/Sym scalar. want in (None,'int','real','bool','str')."""
    if isinstance(x, Sym):
        e = x.e
    elif isinstance(x, bool):
        e = z3.BoolVal(x)
    elif isinstance(x, int):
        e = z3.IntVal(x)
    elif isinstance(x, float):
        fr = frac_of_float(x)
        e = z3.RealVal(str(fr))
    elif isinstance(x, fractions.Fraction):
        e = z3.RealVal(str(x))
    elif isinstance(x, str):
        e = z3.StringVal(x)
    elif z3.is_expr(x):
        e = x
    else:
        try:
            import numpy as np
            if isinstance(x, np.integer):
                e = z3.IntVal(int(x))
            elif isinstance(x, np.floating):
                e = z3.RealVal(str(frac_of_float(float(x))))
            elif isinstance(x, np.bool_):
                e = z3.BoolVal(bool(x))
            else:
                raise Unsupported("cannot convert %r to a z3 term" % (type(x),))
        except ImportError:
            raise Unsupported("cannot convert %r to a z3 term" % (type(x),))
    if want == "real" and e.sort() == z3.IntSort():
        e = z3.ToReal(e)
    elif want == "real" and e.sort() == z3.BoolSort():
        e = z3.If(e, z3.RealVal(1), z3.RealVal(0))
    elif want == "int" and e.sort() == z3.BoolSort():
        e = z3.If(e, z3.IntVal(1), z3.IntVal(0))
    return e


def kind_of_sort(s):
    if s == z3.IntSort():
        return "int"
    if s == z3.RealSort():
        return "real"
    if s == z3.BoolSort():
        return "bool"
    if s == z3.StringSort():
        return "str"
    return "other"


def wrap(e):
    """z3 term -> python constant when it is a literal, else Sym."""
    e = z3.simplify(e) if z3.is_expr(e) else e
    if z3.is_int_value(e):
        return e.as_long()
    if z3.is_true(e):
        return True
    if z3.is_false(e):
        return False
    if z3.is_string_value(e):
        return e.as_string()
    return Sym(e)


def wrap_keep(e):
    """like wrap but never collapses to python (keeps rational literals symbolic)"""
    return Sym(e)


def _num_operands(a, b):
    """coerce two numeric operands to a common z3 sort; returns (ea, eb, kind)"""
    ea, eb = to_z3(a), to_z3(b)
    ka, kb = kind_of_sort(ea.sort()), kind_of_sort(eb.sort())
    if ka == "bool":
        ea, ka = z3.If(ea, z3.IntVal(1), z3.IntVal(0)), "int"
    if kb == "bool":
        eb, kb = z3.If(eb, z3.IntVal(1), z3.IntVal(0)), "int"
    if ka == kb:
        return ea, eb, ka
    if {ka, kb} == {"int", "real"}:
        if ka == "int":
            ea = z3.ToReal(ea)
        else:
            eb = z3.ToReal(eb)
        return ea, eb, "real"
    raise Unsupported("operands of kinds %s and %s" % (ka, kb))


# uninterpreted real functions (assumed contract 5.3)
_ufuns = {}


def ufun(name, arity=1, sort=None):
    key = (name, arity)
    if key not in _ufuns:
        srt = sort or z3.RealSort()
        _ufuns[key] = z3.Function(name, *([z3.RealSort()] * arity + [srt]))
    return _ufuns[key]


POW = lambda: ufun("pow", 2)


def _is_numeric_const(x):
    return isinstance(x, (int, float, fractions.Fraction)) and not isinstance(x, bool)


class Sym:
    __slots__ = ("e",)
    __array_priority__ = 1000  # make numpy defer to our reflected operators

    def __init__(self, e):
        self.e = e

    # ---- meta
    @property
    def kind(self):
        return kind_of_sort(self.e.sort())

    @property
    def ndim(self):
        return 0

    def __repr__(self):
        s = str(self.e)
        return "Sym(%s)" % (s if len(s) < 200 else s[:200] + "...")

    def __hash__(self):
        # identity-free structural hash so that Syms may be put in sets/dict keys when
        # they are syntactically equal; symbolic equality never goes through hashing.
        return hash(self.e)

    def __bool__(self):
        if self.kind != "bool":
            if self.kind in ("int", "real"):
                return cur().branch(self.e != 0)
            if self.kind == "str":
                return cur().branch(z3.Length(self.e) != 0)
            raise Unsupported("truth value of %s" % self.kind)
        return cur().branch(self.e)

    def __index__(self):
        v = z3.simplify(self.e)
        if z3.is_int_value(v):
            return v.as_long()
        raise Unsupported("symbolic integer used as a concrete index")

    def __int__(self):
        v = z3.simplify(self.e)
        if z3.is_int_value(v):
            return v.as_long()
        raise Unsupported("int() of a symbolic value outside the interpreter")

    def __float__(self):
        raise Unsupported("float() of a symbolic value outside the interpreter")

    # ---- arithmetic
    def _bin(self, other, op, refl=False):
        if isinstance(other, str):
            if self.kind == "str" and op == "+":
                a, b = (other, self) if refl else (self, other)
                return Sym(z3.Concat(to_z3(a), to_z3(b)))
            return NotImplemented
        if isinstance(other, (Sym, int, float, fractions.Fraction, bool)) or z3.is_expr(other):
            pass
        else:
            try:
                import numpy as np
                if isinstance(other, (np.integer, np.floating)):
                    other = other.item()
                elif isinstance(other, np.ndarray):
                    # scalar (op) array: element-wise, like numpy does for an object scalar
                    out = np.empty(other.shape, dtype=object)
                    for idx in np.ndindex(other.shape):
                        x = other[idx]
                        out[idx] = self._bin(x.item() if isinstance(x, np.generic) else x, op, refl)
                    return out
                else:
                    return NotImplemented
            except ImportError:
                return NotImplemented
        a, b = (other, self) if refl else (self, other)
        if self.kind == "str" or (isinstance(other, Sym) and other.kind == "str"):
            if op == "+":
                return Sym(z3.Concat(to_z3(a), to_z3(b)))
            return NotImplemented
        ea, eb, k = _num_operands(a, b)
        if op == "+":
            return wrap_num(ea + eb)
        if op == "-":
            return wrap_num(ea - eb)
        if op == "*":
            return wrap_num(ea * eb)
        if op == "/":
            cur().div_guard(eb)
            if k == "int":
                ea, eb = z3.ToReal(ea), z3.ToReal(eb)
            return wrap_num(ea / eb)
        if op == "//":
            cur().div_guard(eb)
            if k == "int":
                return wrap_num(z3.If(eb > 0, ea / eb, (-ea) / (-eb)))
            raise Unsupported("floor division of reals")
        if op == "%":
            cur().div_guard(eb)
            if k == "int":
                q = z3.If(eb > 0, ea / eb, (-ea) / (-eb))
                return wrap_num(ea - eb * q)
            raise Unsupported("modulo of reals")
        if op == "**":
            return sym_pow(a, b)
        raise Unsupported(op)

    def __add__(self, o): return self._bin(o, "+")
    def __radd__(self, o): return self._bin(o, "+", True)
    def __sub__(self, o): return self._bin(o, "-")
    def __rsub__(self, o): return self._bin(o, "-", True)
    def __mul__(self, o): return self._bin(o, "*")
    def __rmul__(self, o): return self._bin(o, "*", True)
    def __truediv__(self, o): return self._bin(o, "/")
    def __rtruediv__(self, o): return self._bin(o, "/", True)
    def __floordiv__(self, o): return self._bin(o, "//")
    def __rfloordiv__(self, o): return self._bin(o, "//", True)
    def __mod__(self, o): return self._bin(o, "%")
    def __rmod__(self, o): return self._bin(o, "%", True)
    def __pow__(self, o): return self._bin(o, "**")
    def __rpow__(self, o): return self._bin(o, "**", True)

    def __neg__(self):
        return wrap_num(-self.e)

    def __pos__(self):
        return self

    def __abs__(self):
        e = self.e
        return wrap_num(z3.If(e >= 0, e, -e))

    # ---- comparisons
    def _cmp(self, other, op):
        if other is None:
            return op == "!="
        if isinstance(other, str) or (isinstance(other, Sym) and other.kind == "str") or self.kind == "str":
            if not (isinstance(other, (str, Sym))):
                return op == "!="
            ea, eb = to_z3(self), to_z3(other)
            if ea.sort() != eb.sort():
                return op == "!="
            if op == "==":
                return wrap(ea == eb)
            if op == "!=":
                return wrap(ea != eb)
            if op == "<":
                return wrap(z3.StrLT(ea, eb)) if hasattr(z3, "StrLT") else wrap(ea < eb)
            if op == "<=":
                return wrap(ea <= eb)
            if op == ">":
                return wrap(eb < ea)
            if op == ">=":
                return wrap(eb <= ea)
        if self.kind == "bool" and (isinstance(other, bool) or (isinstance(other, Sym) and other.kind == "bool")):
            ea, eb = to_z3(self), to_z3(other)
            if op == "==":
                return wrap(ea == eb)
            if op == "!=":
                return wrap(ea != eb)
        if not (isinstance(other, (Sym, int, float, fractions.Fraction, bool)) or z3.is_expr(other)):
            try:
                import numpy as np
                if isinstance(other, (np.integer, np.floating)):
                    other = other.item()
                else:
                    return NotImplemented if op not in ("==", "!=") else (op == "!=")
            except ImportError:
                return NotImplemented
        if isinstance(other, float) and math.isinf(other):
            # extended reals: every symbolic number is finite
            pos = other > 0
            return {"==": False, "!=": True, "<": pos, "<=": pos, ">": not pos, ">=": not pos}[op]
        ea, eb, _ = _num_operands(self, other)
        return wrap({"==": lambda: ea == eb, "!=": lambda: ea != eb, "<": lambda: ea < eb,
                     "<=": lambda: ea <= eb, ">": lambda: ea > eb, ">=": lambda: ea >= eb}[op]())

    def __eq__(self, o): return self._cmp(o, "==")
    def __ne__(self, o): return self._cmp(o, "!=")
    def __lt__(self, o): return self._cmp(o, "<")
    def __le__(self, o): return self._cmp(o, "<=")
    def __gt__(self, o): return self._cmp(o, ">")
    def __ge__(self, o): return self._cmp(o, ">=")

    # ---- boolean algebra without forking (used by contracts): a & b, a | b, ~a
    def __and__(self, o): return wrap(z3.And(to_z3(self), to_z3(o)))
    def __rand__(self, o): return wrap(z3.And(to_z3(o), to_z3(self)))
    def __or__(self, o): return wrap(z3.Or(to_z3(self), to_z3(o)))
    def __ror__(self, o): return wrap(z3.Or(to_z3(o), to_z3(self)))
    def __invert__(self): return wrap(z3.Not(to_z3(self)))

    # ---- a few str methods on symbolic strings (A9)
    def startswith(self, p):
        if isinstance(p, tuple):
            return wrap(z3.Or([z3.PrefixOf(to_z3(q), self.e) for q in p]))
        return wrap(z3.PrefixOf(to_z3(p), self.e))

    def endswith(self, p):
        if isinstance(p, tuple):
            return wrap(z3.Or([z3.SuffixOf(to_z3(q), self.e) for q in p]))
        return wrap(z3.SuffixOf(to_z3(p), self.e))

    def find(self, sub, start=0):
        return wrap(z3.IndexOf(self.e, to_z3(sub), to_z3(start)))

    def index(self, sub, start=0):
        """str.index: find, with ValueError where the text is not there"""
        i = z3.IndexOf(self.e, to_z3(sub), to_z3(start))
        cur().oblige_or_raise(i >= 0, ValueError, "substring not found")
        return wrap_num(i)

    def __contains__(self, sub):
        return bool(wrap(z3.Contains(self.e, to_z3(sub))))

    def sym_len(self):
        return wrap(z3.Length(self.e))

    def count(self, sub):
        """number of (non-overlapping) occurrences of a non-empty pattern: exact for 0 and 1, a lower bound 2 otherwise"""
        es = to_z3(sub)
        i = z3.IndexOf(self.e, es, 0)
        rest = z3.SubString(self.e, i + z3.Length(es), z3.Length(self.e))
        c = z3.Int(fresh_name("count"))
        p = cur()
        p.assume(z3.And(c >= 0, (c == 0) == z3.Not(z3.Contains(self.e, es)),
                        (c == 1) == z3.And(z3.Contains(self.e, es), z3.Not(z3.Contains(rest, es)))))
        return wrap_num(c)

    def split(self, sep=None, maxsplit=-1):
        """str.split(sep) for a non-empty separator: forks on 0 / 1 / more occurrences"""
        if sep is None or maxsplit != -1:
            raise Unsupported("str.split without separator / with maxsplit on a symbolic string")
        es = to_z3(sep)
        p = cur()
        if not p.branch(z3.Contains(self.e, es)):
            return [self]
        i = z3.IndexOf(self.e, es, 0)
        head = wrap(z3.SubString(self.e, 0, i))
        rest = z3.SubString(self.e, i + z3.Length(es), z3.Length(self.e))
        if not p.branch(z3.Contains(rest, es)):
            return [head, wrap(rest)]
        return ManyParts(self, sep)

    def partition(self, sep):
        """str.partition(sep): forks on whether the separator occurs"""
        es = to_z3(sep)
        p = cur()
        if not p.branch(z3.Contains(self.e, es)):
            return (self, "", "")
        i = z3.IndexOf(self.e, es, 0)
        return (wrap(z3.SubString(self.e, 0, i)), sep, wrap(z3.SubString(self.e, i + z3.Length(es), z3.Length(self.e))))

    def strip(self, chars=None):
        raise Unsupported("str.strip on a symbolic string")

    def isdigit(self):
        return wrap(z3.InRe(self.e, z3.Plus(z3.Range("0", "9"))))

    def __iter__(self):
        if self.kind != "str":
            raise TypeError("'%s' object is not iterable" % {"int": "int", "real": "float", "bool": "bool"}.get(self.kind, self.kind))
        raise Unsupported("iteration over a symbolic string")

    def __getitem__(self, idx):
        if self.kind != "str":
            raise Unsupported("subscript of symbolic %s" % self.kind)
        n = z3.Length(self.e)

        def norm(i, default):
            if i is None:
                return default
            ei = to_z3(i)
            return z3.If(ei < 0, z3.If(n + ei < 0, z3.IntVal(0), n + ei), z3.If(ei > n, n, ei))
        if isinstance(idx, slice):
            if idx.step not in (None, 1):
                raise Unsupported("string slice with step")
            lo = norm(idx.start, z3.IntVal(0))
            hi = norm(idx.stop, n)
            return wrap(z3.SubString(self.e, lo, z3.If(hi - lo < 0, z3.IntVal(0), hi - lo)))
        ei = to_z3(idx)
        ei = z3.If(ei < 0, n + ei, ei)
        cur().oblige_or_raise(z3.And(ei >= 0, ei < n), IndexError, "string index out of range")
        return wrap(z3.SubString(self.e, ei, 1))


def wrap_num(e):
    e = z3.simplify(e)
    if z3.is_int_value(e):
        return e.as_long()
    return Sym(e)


def sym_pow(a, b):
    """a ** b with CPython/real semantics (5.3): concrete integer exponents are
    expanded, everything else goes through the uninterpreted pow with axioms that the
    identity checker (realalg) knows about."""
    if isinstance(b, Sym) and b.kind in ("int", "real"):
        bs = z3.simplify(b.e)
        if z3.is_int_value(bs):
            b = bs.as_long()
        elif z3.is_rational_value(bs):
            b = fractions.Fraction(bs.numerator_as_long(), bs.denominator_as_long())
    if isinstance(a, Sym) and a.kind in ("int", "real"):
        as_ = z3.simplify(a.e)
        if z3.is_int_value(as_):
            a = as_.as_long()
        elif z3.is_rational_value(as_):
            a = fractions.Fraction(as_.numerator_as_long(), as_.denominator_as_long())
    if not isinstance(a, Sym) and not isinstance(b, Sym):
        return a ** b
    if _is_numeric_const(b) and float(b) == int(b) and abs(int(b)) <= 64:
        n = int(b)
        ea = to_z3(a)
        k = kind_of_sort(ea.sort())
        if n >= 0:
            r = z3.IntVal(1) if k == "int" else z3.RealVal(1)
            for _ in range(n):
                r = r * ea
            if isinstance(b, float) and k == "int":
                r = z3.ToReal(r)
            return wrap_num(r)
        ea = to_z3(a, "real")
        cur().div_guard(ea)
        r = z3.RealVal(1)
        for _ in range(-n):
            r = r * ea
        return wrap_num(z3.RealVal(1) / r)
    ea, eb = to_z3(a, "real"), to_z3(b, "real")
    if _is_numeric_const(b) and fractions.Fraction(frac_of_float(b)) == fractions.Fraction(1, 2):
        from .stubs import sym_sqrt
        return sym_sqrt(a)
    if _is_numeric_const(b) and frac_of_float(b).denominator == 2 and abs(frac_of_float(b)) < 40:
        # x**(n/2) = x**k * sqrt(x)
        from .stubs import sym_sqrt
        n = frac_of_float(b).numerator
        k = (n - 1) // 2
        r = sym_sqrt(a)
        base = a if isinstance(a, Sym) else Sym(ea)
        return (base ** k) * r if k != 0 else r
    if _is_numeric_const(b) and frac_of_float(b).denominator != 1:
        cur().domain_guard(ea >= 0 if frac_of_float(b) > 0 else ea > 0, "powbase")
    if _is_numeric_const(a) and frac_of_float(a) == 10:
        # 10**x = exp(x*ln 10): keep a dedicated symbol so that unit tests of exponents work
        return Sym(ufun("exp10")(eb))
    return Sym(POW()(ea, eb))


def z3_and(*cs):
    cs = [to_z3(c) for c in cs]
    return z3.And(*cs) if cs else z3.BoolVal(True)


def z3_or(*cs):
    cs = [to_z3(c) for c in cs]
    return z3.Or(*cs) if cs else z3.BoolVal(False)


def implies(a, b):
    return wrap(z3.Implies(to_z3(a), to_z3(b)))


def ite(c, a, b):
    """non-forking conditional on scalars"""
    if isinstance(c, bool):
        return a if c else b
    ea, eb = to_z3(a), to_z3(b)
    if ea.sort() != eb.sort():
        ea, eb, _ = _num_operands(a, b)
    return wrap_num(z3.If(to_z3(c), ea, eb)) if kind_of_sort(ea.sort()) in ("int", "real") else wrap(z3.If(to_z3(c), ea, eb))


def contains_sym(x, _depth=0):
    """does a python value (recursively through builtin containers) hold a symbolic leaf?"""
    from . import containers as C
    if isinstance(x, (Sym, C.SymSeq, C.SymDict, C.Obj, C.Unknown)):
        return True
    if _depth > 6:
        return False
    if isinstance(x, (list, tuple, set, frozenset)):
        return any(contains_sym(v, _depth + 1) for v in x)
    if type(x).__module__ == "numpy" and type(x).__name__ == "ndarray":
        return x.dtype == object and any(contains_sym(v, _depth + 1) for v in x.ravel().tolist())
    if isinstance(x, dict):
        return any(contains_sym(k, _depth + 1) or contains_sym(v, _depth + 1) for k, v in x.items())
    q = getattr(x, "_pyvc_symbolic", None)
    if q is not None:
        return bool(q() if callable(q) else q)
    mod = getattr(type(x), "__module__", "") or ""
    if (mod.startswith("chempy") or mod.startswith("contracts") or mod == "__main__") and _depth <= 4:
        d = getattr(x, "__dict__", None)
        if d and any(contains_sym(v, _depth + 1) for v in d.values()):
            return True
        sl = getattr(type(x), "__slots__", None)
        if sl:
            for nm in sl:
                if contains_sym(getattr(x, nm, None), _depth + 1):
                    return True
        if isinstance(x, tuple):
            return any(contains_sym(v, _depth + 1) for v in x)
    return False


class ManyParts:
    """result of splitting a symbolic string that holds the separator at least twice: only its length (>= 3) is known"""
    _pyvc_symbolic = True

    def __init__(self, s, sep):
        self.s, self.sep = s, sep

    def __iter__(self):
        raise Unsupported("iteration over the parts of a symbolic string with >= 2 separators")

    def __len__(self):
        raise Unsupported("len of ManyParts")

    def sym_len(self):
        """the number of parts: only `>= 3` is known"""
        n = z3.Int(fresh_name("nparts"))
        cur().assume(n >= 3)
        return wrap_num(n)
