#!/bin/bash
# Behaviour-preserving edits of chempy that the checks must NOT report (exit 0, or 2 = undecided; never 1).
# Each edit is applied to a scratch copy (tools/mutest.py) which is removed afterwards.
cd "$(dirname "$0")/.."
PY=.venv/bin/python
[ -x $PY ] || ./vcheck --setup >/dev/null
fail=0
run() {  # run PROP FILE OLD NEW
  out=$($PY tools/mutest.py "$1" --py "$2" "$3" "$4" 2>&1)
  rc=$(echo "$out" | sed -n 's/^== .* exit=\([0-9]*\)$/\1/p' | head -1)
  printf '%-4s exit=%s  %s\n' "$1" "${rc:-?}" "$5"
  if [ "$rc" != "0" ] && [ "$rc" != "2" ]; then fail=1; echo "$out" | tail -5; fi
}
run C14 chempy/util/periodic.py '    mass = 0.0
    for k, v in composition.items():
        if k == 0:  # electron
            mass -= v * 5.489e-4
        else:
            mass += v * relative_atomic_masses[k - 1]
    return mass' '    total = 0.0
    for number, count in composition.items():
        if number == 0:  # electron
            total = total - count * 5.489e-4
        else:
            total = total + count * relative_atomic_masses[number - 1]
    return total' "mass_from_composition: locals renamed, augmented assignment spelled out"
run C03 chempy/chemistry.py '        return tuple(
            self.prod.get(k, 0)
            - self.reac.get(k, 0)
            + self.inact_prod.get(k, 0)
            - self.inact_reac.get(k, 0)
            for k in substance_keys
        )' '        def _net(k):
            gained = self.prod.get(k, 0) + self.inact_prod.get(k, 0)
            lost = self.reac.get(k, 0) + self.inact_reac.get(k, 0)
            return gained - lost

        return tuple(_net(k) for k in substance_keys)' "net_stoich: helper extracted, terms regrouped"
run C18 chempy/electrolytes.py '    for b, z in zip(molalities, charges):
        if tot is None:
            tot = b * z ** 2
        else:
            tot += b * z ** 2' '    for molality, charge in zip(molalities, charges):
        if tot is None:
            tot = molality * charge ** 2
        else:
            tot = tot + molality * charge ** 2' "ionic_strength: loop variables renamed, augmented assignment spelled out"
run C01 chempy/util/parsing.py '"""Parses a string' '"""Parse a string' "docstring edit in parsing.py"
run C11 chempy/chemistry.py '"""Per substance net stoichiometry tuple (active & inactive)"""' '"""Net stoichiometry per substance key."""' "docstring edit in chemistry.py"
run C05 chempy/chemistry.py '"""Per substance net stoichiometry tuple (active & inactive)"""' '"""Net stoichiometry per substance key."""' "docstring edit seen from another property"
run C12 chempy/util/parsing.py '            if items[0] not in result:
                result[items[0]] = 0
            result[items[0]] += 1' '            result[items[0]] = result.get(items[0], 0) + 1' "_parse_multiplicity: dict.get instead of membership test"
run C12 chempy/util/parsing.py '            if items[1] not in result:
                result[items[1]] = 0
            result[items[1]] += (
                float(items[0]) if "." in items[0] or "e" in items[0] else int(items[0])
            )' '            count, key = items
            is_decimal = "." in count or "e" in count
            amount = float(count) if is_decimal else int(count)
            result[key] = result.get(key, 0) + amount' "_parse_multiplicity: unpacked, named intermediate values"
run C17 chempy/kinetics/integrated.py 'return prod + minor * (1 - be.exp(-major * kf * t))' 'return prod + minor - minor * be.exp(-(major * kf) * t)' "pseudo_irrev: algebraically equivalent form (decaying exponential kept: dividing by the growing one overflows under math for k*t > 709, which C17 reports since round 3)"
run C17 chempy/kinetics/integrated.py 'return 1 / (1 / initial_C + 2 * kf * (t - t0))' 'return initial_C / (1 + 2 * kf * initial_C * (t - t0))' "dimerization_irrev: algebraically equivalent form"
run C18 chempy/electrolytes.py '    return -A * z ** 2 * (sqrt_I_I0 / (1 + sqrt_I_I0) + C * I_I0)' '    zz = z * z
    return -(A * zz * sqrt_I_I0 / (sqrt_I_I0 + 1) + A * zz * C * I_I0)' "davies_log_gamma: distributed product"
run C19 chempy/properties/water_density_tanaka_2001.py '    return a[4] * (1 - ((t + a[0]) ** 2 * (t + a[1])) / (a[2] * (t + a[3])))' '    num = (t + a[0]) * (t + a[0]) * (t + a[1])
    return a[4] - a[4] * num / a[2] / (t + a[3])' "water_density: algebraically equivalent form"
run C16 chempy/kinetics/arrhenius.py '    return A * be.exp(-Ea / RT)' '    return A / be.exp(Ea / RT)' "arrhenius_equation: reciprocal exponential"
run C15 chempy/reactionsystem.py '                if comp_nr in skip_keys:  # charge may be created (if compensated)
                    continue
                composition_conc[comp_nr] += coeff * conc' '                if comp_nr not in skip_keys:  # charge may be created (if compensated)
                    composition_conc[comp_nr] = composition_conc[comp_nr] + conc * coeff' "upper_conc_bounds: inverted guard, commuted product"
exit $fail
