"""Bounded stand-in for C04: the generated ODE system is exactly the kinetic model (translation validation).

For every seeded random reaction system (bounded/_rsys.py: <=5 substances in shuffled order, <=6 reactions,
orders 0..3, repeated species, catalysts, inactive parts, spectators) and every build configuration below the
REAL builders chempy.kinetics.ode.get_odesys / _create_odesys are run and

    odesys.exprs[j]   ==  sum_r net(r, s_j) * K_r * prod_active(y^nu)  (+ F*(fc_j - y_j) with cstr)

is decided as a sympy identity (expand(difference) == 0) in the dependent symbols odesys.dep[j] (j-th substance
of the system's substance order) and the parameter symbols odesys.params (bound BY NAME: the symbol of
parameter 'k3' must multiply reaction 3), where K_r is what the configuration says it must be:

  get/plain/incl    Reaction.param = number, include_params=True          K_r = k_r        no parameters
  get/plain/free    same, include_params=False                            K_r = k_r        no parameters
  get/ma/incl       MassAction([k])                                       K_r = k_r
  get/uk/incl       MassAction([k], unique_keys=['k<r>']), include=True   K_r = k_r (inlined)
  get/uk/free       same, include_params=False                            K_r = symbol 'k<r>', extra['unique']['k<r>'] == k_r
  get/named/free    Reaction.param = 'k<r>', include_params=False         K_r = symbol 'k<r>', unique value None
  get/*/passive     substitutions={'k<r>': v} for a random subset         K_r = v for those, not a parameter any more
  get/*/active      substitutions={'k<r>': Expr c0*T} for one reaction    K_r = c0 * symbol 'T'
  get/*/cstr        cstr=True                                             + feedratio*(fc_<s> - y_s) for EVERY substance
  create/named, create/uk, create/ma, create/named+cstr(rates_kw), create/named+parameter_expressions

Also: odesys.names == substance keys in substance order; param_names == exactly the expected keys, no
duplicates (order among them is not constrained); len(exprs) == number of substances; numeric callbacks
odesys.f_cb(t, y, p) and extra['rate_exprs_cb'](t, y, p) at one random float point (rtol 1e-9 of sum|terms|).

Skipped (outside the property's domain, DESIGN 7/C04): a configuration in which EVERY reaction's rate is a
bare python number (all reactions zero-order with inlined numeric constants, no feed terms): pyodesys refuses
such systems.  Those (system, configuration) pairs are not counted.
Rate constants: int, Fraction, dyadic float (exact in binary; sympy Float arithmetic on them is exact).
"""
from __future__ import annotations

import json
import random
from collections import OrderedDict
from fractions import Fraction

from . import _rsys as G

N_QUICK, N_THOROUGH = 150, 6000
NAMES = ("get_odesys", "create_odesys", "callbacks")

GET_CONFIGS = ["get/plain/incl", "get/plain/free", "get/ma/incl", "get/uk/incl", "get/uk/free", "get/named/free",
               "get/named/passive", "get/uk/passive", "get/uk/active/incl", "get/named/active/free",
               "get/plain/cstr", "get/uk/free/cstr"]
CREATE_CONFIGS = ["create/named", "create/uk", "create/ma", "create/named/cstr", "create/named/parexpr"]


def gen_case(rng):
    spec = G.gen_spec(rng)
    for i, rx in enumerate(spec["rxns"]):
        rx["k"] = G.rand_num(rng, rng.choice("iQQd"))
    nr = len(spec["rxns"])
    passive = {"k%d" % i: G.rand_num(rng, rng.choice("iQ")) for i in range(nr) if rng.random() < 0.5}
    if not passive:
        passive = {"k%d" % rng.randrange(nr): G.rand_num(rng, "Q")}
    return {"spec": spec, "passive": passive, "active": [rng.randrange(nr), G.rand_num(rng, "Q")],
            "y": [round(rng.uniform(0.1, 3.0), 3) for _ in spec["subst"]],
            "pval": {"k%d" % i: round(rng.uniform(0.1, 5.0), 3) for i in range(nr)},
            "T": round(rng.uniform(0.5, 2.0), 3), "fr": round(rng.uniform(0.1, 2.0), 3),
            "fcv": {s: round(rng.uniform(0.0, 3.0), 3) for s in spec["subst"]}}


def _active_expr(c0):
    from chempy.util._expr import Expr

    def cb(args, T, backend=None, **kwargs):
        return args[0] * T
    return Expr.from_callback(cb, parameter_keys=("T",), nargs=1)([c0])


def _free(parts):
    """are the rate constants free parameters of the ODE system in this configuration?"""
    if parts[0] == "create":
        return parts[1] in ("named", "uk")
    return parts[1] == "named" or (parts[1] == "uk" and "free" in parts)


def expectation(case, config):
    """-> (K, params, cstr, unique) : K[r] = (Fraction coefficient, parameter name or None); params = set of expected
    parameter names; cstr = bool; unique = expected extra['unique'] dict (get_odesys only) or None.
    None when the configuration is outside the domain for this system (pyodesys refuses bare numbers)."""
    spec = case["spec"]
    nr = len(spec["rxns"])
    parts = config.split("/")
    ks = [G.exact(rx["k"]) for rx in spec["rxns"]]
    free = _free(parts)
    K = [(Fraction(1), "k%d" % i) if free else (ks[i], None) for i in range(nr)]
    unique = None
    if parts[0] == "get":
        unique = OrderedDict()
        if free:
            for i in range(nr):
                unique["k%d" % i] = ks[i] if parts[1] == "uk" else None
    if "passive" in parts:
        for name, v in case["passive"].items():
            K[int(name[1:])] = (G.exact(v), None)
            unique.pop(name, None)
    if "active" in parts or "parexpr" in parts:
        j, c0 = case["active"]
        K[j] = (G.exact(c0), "T")
        if unique is not None:
            unique.pop("k%d" % j, None)
    cstr = "cstr" in parts
    params = {p for _, p in K if p is not None}
    if cstr:
        params |= {"fr" if parts[0] == "create" else "feedratio"} | {"fc_" + s for s in spec["subst"]}
    if not params and all(not rx["reac"] for rx in spec["rxns"]):
        return None
    return K, params, cstr, unique


def build(case, config):
    """run the REAL builder for this configuration -> (odesys, extra)"""
    from chempy.kinetics.ode import get_odesys, _create_odesys
    spec = case["spec"]
    parts = config.split("/")
    rsys = G.build_rsys(spec, parts[1])
    if parts[0] == "get":
        kw = {"include_params": not ("free" in parts or parts[1] == "named")}
        if "passive" in parts:
            kw["substitutions"] = {n: G.dec(v) for n, v in case["passive"].items()}
        if "active" in parts:
            j, c0 = case["active"]
            kw["substitutions"] = {"k%d" % j: _active_expr(G.dec(c0))}
        if "cstr" in parts:
            kw["cstr"] = True
        return get_odesys(rsys, **kw)
    kw = {}
    if "cstr" in parts:
        kw["rates_kw"] = dict(cstr_fr_fc=("fr", OrderedDict((s, "fc_" + s) for s in spec["subst"])))
    if "parexpr" in parts:
        j, c0 = case["active"]
        kw["parameter_expressions"] = {"k%d" % j: _active_expr(G.dec(c0))}
    return _create_odesys(rsys, **kw)


def check(case, config):
    """-> None if skipped, else {"exprs": [details], "callbacks": [details]}"""
    import sympy
    spec = case["spec"]
    exp = expectation(case, config)
    if exp is None:
        return None
    K, params, cstr, unique = exp
    out = {"exprs": [], "callbacks": []}
    ok, res = G.call(lambda: build(case, config))
    if not ok:
        out["exprs"].append("builder raised " + res)
        return out
    odesys, extra = res
    ns = len(spec["subst"])
    names = list(odesys.names or ())
    if names != list(spec["subst"]):
        out["exprs"].append("odesys.names = %s, expected the substance keys in system order %s" % (names, spec["subst"]))
    pnames = list(odesys.param_names or ())
    if len(set(pnames)) != len(pnames) or set(pnames) != params:
        out["exprs"].append("odesys.param_names = %s, expected exactly %s" % (pnames, sorted(params)))
        return out
    if len(odesys.exprs) != ns or len(odesys.dep) != ns or len(odesys.params) != len(pnames):
        out["exprs"].append("%d expressions / %d dependent symbols for %d substances" % (len(odesys.exprs), len(odesys.dep), ns))
        return out
    if unique is not None:
        got = extra.get("unique")
        if got is None or list(got.keys()) != list(unique.keys()) or any(
                (got[k] is None) != (unique[k] is None) or (unique[k] is not None and not G.same(got[k], unique[k], 0.0)) for k in unique):
            out["exprs"].append("extra['unique'] = %s, expected %s" % (dict(got) if got is not None else None, dict(unique)))
    # ---- symbolic identity, symbols bound by position (substances) and by name (parameters)
    y = {s: odesys.dep[j] for j, s in enumerate(spec["subst"])}
    psym = {n: odesys.params[pnames.index(n)] for n in pnames}
    Ksym = [G.to_sympy(c) * (psym[p] if p is not None else 1) for c, p in K]
    feed = None
    if cstr:
        frn = "fr" if config.startswith("create") else "feedratio"
        feed = (psym[frn], {s: psym["fc_" + s] for s in spec["subst"]})
    want = G.oracle_rates(spec, y, Ksym, feed=feed)
    for j, s in enumerate(spec["subst"]):
        if not G.same(odesys.exprs[j], want[s]):
            out["exprs"].append("exprs[%d] (d[%s]/dt) = %s, expected (N^T r)[%s] = %s" % (j, s, G.fmt(odesys.exprs[j]), s, G.fmt(sympy.expand(G.to_sympy(want[s])))))
    if out["exprs"]:
        return out
    # ---- numeric callbacks at one float point
    import numpy as np
    pv = dict(case["pval"], T=case["T"], fr=case["fr"], feedratio=case["fr"], **{"fc_" + s: v for s, v in case["fcv"].items()})
    yv = {s: Fraction(v) for s, v in zip(spec["subst"], case["y"])}
    Knum = [c * (Fraction(pv[p]) if p is not None else 1) for c, p in K]
    feedn = (Fraction(case["fr"]), {s: Fraction(v) for s, v in case["fcv"].items()}) if cstr else None
    wantn = G.oracle_rates(spec, yv, Knum, feed=feedn)
    scale = G.abs_scale(spec, yv, Knum, feed=feedn)
    yarr = np.array(case["y"], dtype=float)
    parr = np.array([pv[n] for n in pnames], dtype=float)
    ok, f = G.call(lambda: np.asarray(odesys.f_cb(0.25, yarr, parr), dtype=float).ravel())
    if not ok:
        out["callbacks"].append("odesys.f_cb raised " + f)
    elif len(f) != ns:
        out["callbacks"].append("odesys.f_cb returned %d values for %d substances" % (len(f), ns))
    else:
        for j, s in enumerate(spec["subst"]):
            if not G.same(float(f[j]), wantn[s], max(scale[s], 1e-30) * 10):
                out["callbacks"].append("f_cb(y=%s, p=%s)[%s] = %r, expected %r" % (case["y"], dict(zip(pnames, parr.tolist())), s, float(f[j]), float(wantn[s])))
    if config.startswith("get"):
        rr = G.oracle_reaction_rates(spec, yv, Knum)
        ok, r = G.call(lambda: np.asarray(extra["rate_exprs_cb"](0.25, yarr, parr), dtype=float).ravel())
        if not ok:
            out["callbacks"].append("extra['rate_exprs_cb'] raised " + r)
        elif len(r) != len(rr):
            out["callbacks"].append("rate_exprs_cb returned %d values for %d reactions" % (len(r), len(rr)))
        else:
            for i in range(len(rr)):
                if not G.same(float(r[i]), rr[i], abs(float(rr[i])) * 10):
                    out["callbacks"].append("rate_exprs_cb(...)[%d] = %r, expected k*prod(c^nu) = %r" % (i, float(r[i]), float(rr[i])))
    return out


def _work(args):
    seed, lo, hi = args
    res = []
    for i in range(lo, hi):
        rng = random.Random(G.case_seed(seed, "C04", i))
        case = gen_case(rng)
        per = {}
        for cfg in GET_CONFIGS + CREATE_CONFIGS:
            per[cfg] = check(case, cfg)
        res.append((i, case, per))
    return res


def run(tier, seed):
    n = N_QUICK if tier == "quick" else N_THOROUGH
    import chempy.kinetics.ode  # noqa: F401  (import before forking)
    import pyodesys.symbolic    # noqa: F401
    step = 10 if tier == "quick" else 50
    chunks = [(seed, lo, min(lo + step, n)) for lo in range(0, n, step)]
    import multiprocessing as mp
    with mp.get_context("fork").Pool(min(16, len(chunks))) as pool:
        parts = pool.map(_work, chunks)
    results = sorted((r for p in parts for r in p), key=lambda t: t[0])
    ev = {nme: 0 for nme in NAMES}
    viol = {nme: [] for nme in NAMES}
    distinct = {nme: set() for nme in NAMES}
    skipped = 0
    samples = []
    for i, case, per in results:
        key = json.dumps(case["spec"], sort_keys=True)
        for cfg, r in per.items():
            if r is None:
                skipped += 1
                continue
            nme = "get_odesys" if cfg.startswith("get") else "create_odesys"
            ev[nme] += 1
            distinct[nme].add((key, cfg))
            for d in r["exprs"][:2]:
                viol[nme].append({"inputs": {"case": case, "config": cfg}, "detail": "[%s] %s   [system: %s]" % (cfg, d, G.spec_str(case["spec"]))})
            if not r["exprs"]:
                ev["callbacks"] += 1
                distinct["callbacks"].add((key, cfg))
                for d in r["callbacks"][:2]:
                    viol["callbacks"].append({"inputs": {"case": case, "config": cfg}, "detail": "[%s] %s   [system: %s]" % (cfg, d, G.spec_str(case["spec"]))})
        if i < 3:
            samples.append({"system": G.spec_str(case["spec"]), "passive": {k: v[1] for k, v in case["passive"].items()}, "active": [case["active"][0], case["active"][1][1]]})
    bound = ("%d seeded systems: <=5 substances (shuffled order, spectators), <=6 reactions, active order 0..3, catalysts, inactive parts; "
             "rate constants int / Fraction / dyadic float; %d (system, configuration) pairs skipped because pyodesys refuses all-bare-number systems"
             % (n, skipped))
    rules = {
        "get_odesys": "get_odesys in %d configurations (%s): names, param_names (as a set, no duplicates), extra['unique'] values, and "
                      "expand(exprs[j] - (N^T r)[j]) == 0 with parameter symbols bound by name" % (len(GET_CONFIGS), ", ".join(GET_CONFIGS)),
        "create_odesys": "_create_odesys in %d configurations (%s): same comparison" % (len(CREATE_CONFIGS), ", ".join(CREATE_CONFIGS)),
        "callbacks": "for every pair that passed the symbolic comparison: odesys.f_cb(t, y, p) and extra['rate_exprs_cb'](t, y, p) at one random float "
                     "point vs the oracle evaluated in rational arithmetic, tolerance 1e-9 * sum|terms|",
    }
    return {"standins": [
        {"name": nme, "rule": rules[nme], "bound": bound, "evaluations": ev[nme], "distinct": len(distinct[nme]),
         "exhaustive": False, "samples": samples, "violations": viol[nme][:20]} for nme in NAMES]}


def replay(case):
    inp = case["inputs"]
    r = check(inp["case"], inp["config"])
    if r is None:
        return True, "configuration outside the domain for this system (skipped)"
    bad = r["callbacks"] if case.get("name") == "callbacks" else r["exprs"]
    if bad:
        return False, "; ".join(bad[:3])
    return True, "configuration %s: expressions, names and parameters match N^T r" % inp["config"]
