"""Bounded stand-in for C08: reported equilibrium compositions are genuine whenever the solver
claims success.

Run-time contract on the REAL ``EqSystem.root`` / ``EqSystem.solve`` /
``chempy._equilibrium.solve_equilibrium``; the oracle (element/charge totals, mass-action
quotients, solubility alternative) is computed in ``bounded/_eqpool.py`` from a hand-written
species table and the reaction dictionaries, never through chempy's stoichs / composition /
quotient code.

Stand-ins
  root_soundness   success ∧ sane  ⇒  x ≥ 0, B x = B x0, Q_i = K_i (homogeneous) or the
                   solid-present / solid-absent alternative (single-salt systems); an exception
                   is a refusal (no claim; counted in the evidence, not a violation).  Every violation carries the
                   top-level keys "chain" in {"default","Log","LogLin","Lin","solve"} and "symptom" in
                   {"exception","nonfinite","element_lost","negative","conservation","quotient",
                   "precipitation"} (first that applies, in that order).
                   and "stopped_at": "non_root" when the delegated solver's own final residual is
                   comparable with the defect found here (> 1e-3 of it), "root" when the solver did solve
                   its equations (so the equations / the branch / the post-processing are wrong),
                   "unknown" when no residual is reported.
                   RECORDED FINDINGS (genuine defects of the tree, fixed cases fire them on every run):
                   F-C08 (DESIGN section 9): chain "Lin" (NumSys=(NumSysLin,) alone) reports success and
                   sanity for states that do not conserve / have Q != K in about 1 of 8 claims;
                   F-C08b: the same happens on the logarithmic chains (default, (Log,), (Log,Lin),
                   EqSystem.solve) in about 1 of 2500 calls, sometimes losing a whole element.  Cause of
                   both: the systems are over-determined (nr + #composition keys > ns), pyneqsys then uses
                   scipy 'lm', whose success flag means "local minimum of |f|^2 reached".  Signature of all
                   of them: stopped_at == "non_root" and symptom in {conservation, quotient, element_lost}.
                   Violations of any other kind are sorted first so that they are never hidden behind
                   the recorded ones (the reporter forwards three per stand-in).
  success_rate     default chain reports success ∧ sane in >= 95 % of the homogeneous cases
                   (violation only when the sample has >= 40 cases).
  brentq_agreement single equilibria: solve_equilibrium (brentq on the reaction coordinate)
                   reproduces the constructed equilibrium state and agrees with root().

Tolerances (stated again in each "rule"): x_j >= -1e-12; |sum_j B_kj (x_j - x0_j)| <=
1e-6 * sum_j |B_kj| (|x_j| + x0_j) + 1e-12 per element / charge row; |ln Q_i - ln K_i| <= 1e-5.
Observed on the unmodified tree over 10^4 calls: <= 1.1e-9 and <= 2e-14 respectively for every
chain except "Lin", i.e. three and nine orders of magnitude of head-room.
"""
from __future__ import annotations

import json
import math
import multiprocessing as mp
import warnings

from bounded import _eqpool as P

CHAINS = ("default", "Log", "LogLin", "Lin", "solve")
X_NEG_TOL = 1e-12
CONS_RTOL = 1e-6
CONS_ATOL = 1e-12
LNQ_TOL = 1e-5
ABSENT = 1e-10        # a solid below this concentration counts as absent
SYMPTOMS = ("nonfinite", "element_lost", "negative", "conservation", "quotient", "precipitation")  # priority
RATE_MIN = 0.95
RATE_MIN_CASES = 40

N_CASES = {"quick": {"homog": 150, "precip": 100, "brentq": 120},
           "thorough": {"homog": 5000, "precip": 1500, "brentq": 5000}}

# DESIGN section 9, F-C08: fixed case so that the finding fires on every run (chain Lin: conservation AND Q != K)
WITNESS = {"kind": "homog", "id": "witness-F-C08",
           "names": ["H2O", "H+", "OH-", "H2PO4-", "HPO4-2"],
           "rxns": ["water", "phosphoric2"],
           "K": [1e-14 / 55.5, 10 ** -7.2],
           "c0": [55.5, 1e-3, 1e-2, 1e-2, 1e-3], "kwargs": {}}
# chain Lin, elements and charge conserved but Q/K - 1 = 0.53 for Cu+2 + NH3 = CuNH3+2 (found by this generator)
WITNESS_Q = {"kind": "homog", "id": "witness-F-C08-quotient",
             "names": ["CuNH3+2", "Cu+2", "NH3", "H+", "OH-", "H2O"], "rxns": ["water", "cunh3_1"],
             "K": [2.0174728591866805e-18, 22.66170378792828],
             "c0": [0.0595581922214397, 0.008622022551379099, 0.010410169905107599, 0.015462134767624076,
                    5.693849801309474e-05, 55.5], "kwargs": {}}
# F-C08b: the DEFAULT chain (NumSysLog) claims success and sane for a state from which all phosphate and the
# spectator chloride have vanished (found by this generator, thorough tier, seed 0, case h3291).  Same root cause
# as F-C08: nr + #composition keys > ns, so pyneqsys uses scipy 'lm', whose success flag means "local minimum of
# |f|^2 reached", not "root found".
WITNESS_B = {"kind": "homog", "id": "witness-F-C08b",
             "names": ["HPO4-2", "H2PO4-", "H+", "CrO4-2", "OH-", "Cl-", "H2O", "HCrO4-"],
             "rxns": ["water", "chromate", "phosphoric2"],
             "K": [6.376514016041779e-14, 8.312009570602504e-08, 1.6264137021196834e-06],
             "c0": [0.00012051565043724963, 3.391674623353682e-05, 0.05719709276528358, 0.0001234135751377265,
                    0.002868378558884988, 0.0037859604526426904, 55.5, 0.012655204811479652], "kwargs": {}}
FIXED = [WITNESS, WITNESS_Q, WITNESS_B]


def _recorded(v):
    """Signature of the recorded findings F-C08 / F-C08b: the delegated solver stopped at a point where its
    OWN equations are not satisfied ("stopped_at": "non_root") and still reported success, the state then fails
    conservation / Q = K / has lost an element.  Only used to ORDER the violations (anything else first): the
    reporter forwards the first three per stand-in, and a new kind of violation must never be hidden behind the
    recorded ones."""
    if v.get("stopped_at") == "non_root" and v["symptom"] in ("conservation", "quotient", "element_lost"):
        return v["symptom"]
    return None


# ------------------------------------------------------------------------------ generators
def gen_homog(seed, i):
    """water + 1..3 further linearly independent equilibria of the pool (+ 0..2 spectator ions) such
    that reactions + element/charge balances determine the state (rank S + rank B == ns), constants
    moved by +-3 decades, every species strictly positive (log-uniform 1e-5 .. 1e-1 M, water 55.5 M)."""
    r = P.case_rng("C08-homog", seed, i)
    others = [p for p in P.POOL if p[0] not in ("water", "water2")]
    while True:
        k = r.choice([1, 1, 2, 2, 3])
        picks = [P.POOL_BY_TAG[r.choice(["water", "water", "water", "water2"])]] + r.sample(others, k)
        names = []
        for _, re_, pr, _lk in picks:
            for n in list(re_) + list(pr):
                if n not in names:
                    names.append(n)
        if r.random() < 0.3:
            names += r.sample(P.SPECTATORS, r.choice([1, 2]))
        S = [P.net_stoich(p[1], p[2], names) for p in picks]
        # well-posed: independent reactions, and the element/charge balances are ALL the invariants of the
        # reactions (rank S + rank B == number of species).  Otherwise chempy's formulation (reactions +
        # element balances) is under-determined: it then either refuses (ValueError "Under-determined
        # system", e.g. NO3- next to NH3) or has a singular Jacobian (e.g. phosphoric steps 1 and 3 without 2).
        if P.rank(S) == len(S) and len(S) + P.rank(P.comp_matrix(names)[0]) == len(names):
            break
    r.shuffle(names)
    r.shuffle(picks)
    K = [10 ** (p[3] + r.uniform(-3, 3)) for p in picks]
    c0 = [55.5 if n == "H2O" else 10 ** r.uniform(-5, -1) for n in names]
    return {"kind": "homog", "id": "h%d" % i, "names": names, "rxns": [p[0] for p in picks],
            "K": K, "c0": c0, "kwargs": {}}


def gen_precip(seed, i):
    """one sparingly soluble salt and its ions; Ksp moved by +-1.5 decades; amounts 1e-3 .. 3 M,
    in a quarter of the cases no solid, in a quarter only solid initially; half of the cases use
    the keyword arguments of the repository's own precipitation test."""
    r = P.case_rng("C08-precip", seed, i)
    solid, ions, lk = r.choice(P.SALTS)
    names = list(ions) + [solid]
    r.shuffle(names)
    ksp = 10 ** (lk + r.uniform(-6.0, 1.5))      # down to realistic solubility products (AgCl 1.8e-10)
    # the same physical system written as dissolution  solid = ions (K = Ksp)  or as precipitation
    # ions = solid (K = 1/Ksp): the switching conditions of chempy branch on the side of the solid
    orient = r.choice(["diss", "prec"])
    K = ksp if orient == "diss" else 1.0 / ksp
    mode = r.choice(["pos", "pos", "nosolid", "onlysolid"])
    c0 = []
    for n in names:
        v = 10 ** r.uniform(-3, 0.5)
        if mode == "nosolid" and n == solid:
            v = 0.0
        if mode == "onlysolid" and n != solid:
            v = 0.0
        c0.append(v)
    kwargs = r.choice([{}, {"rref_preserv": True, "tol": 1e-12}])
    # (until the repairs F-C08e/g the precipitation spelling was only generated when solid must remain: chempy's "no precipitate"
    # sub-system read 1/[solid] = small for a solid on the product side; both spellings are generated for every state now)
    return {"kind": "precip", "id": "p%d" % i, "names": names, "solid": solid, "orient": orient, "K": [K], "c0": c0,
            "kwargs": kwargs}


def gen_brentq(seed, i):
    """one equilibrium of the pool (+ 0..1 spectator).  mode 'state': a strictly positive target
    state c* (1e-4 .. 1e-1 M, water 55.5 M) DEFINES K = Q(c*), the initial state is c* moved along
    the reaction by 10..90 % of the admissible extent (so the exact answer is known: the mass-action
    quotient is strictly monotone along the reaction coordinate);  mode 'pool': pool constant
    +-3 decades, random positive initial state (agreement only)."""
    r = P.case_rng("C08-brentq", seed, i)
    tag, re_, pr, lk = r.choice(P.POOL)
    names = sorted(set(re_) | set(pr))
    if r.random() < 0.3:
        names += r.sample(P.SPECTATORS, 1)
    r.shuffle(names)
    nu = P.net_stoich(re_, pr, names)
    mode = "state" if r.random() < 0.7 else "pool"
    if mode == "state":
        cstar = [55.5 if n == "H2O" else 10 ** r.uniform(-4, -1) for n in names]
        K = P.quotient(cstar, nu)
        # c0 = c* - xi nu must stay positive: xi in (-min c*/nu (nu<0) , min c*/nu (nu>0))
        hi = min(c / n for c, n in zip(cstar, nu) if n > 0)
        lo = -min(c / -n for c, n in zip(cstar, nu) if n < 0)
        xi = r.uniform(0.1, 0.9) * (hi if r.random() < 0.5 else lo)
        c0 = [c - xi * n for c, n in zip(cstar, nu)]
    else:
        cstar = None
        K = 10 ** (lk + r.uniform(-3, 3))
        c0 = [55.5 if n == "H2O" else 10 ** r.uniform(-5, -1) for n in names]
    return {"kind": "brentq", "id": "b%d" % i, "names": names, "rxns": [tag], "K": [K], "c0": c0,
            "cstar": cstar, "mode": mode}


# ------------------------------------------------------------------------------ running
def _rxns_of(case):
    if case["kind"] == "precip":
        solid = case["solid"]
        ions = [s for s in P.SALTS if s[0] == solid][0][1]
        if case.get("orient", "diss") == "prec":
            return [(dict(ions), {solid: 1})]
        return [({solid: 1}, dict(ions))]
    return [(P.POOL_BY_TAG[t][1], P.POOL_BY_TAG[t][2]) for t in case["rxns"]]


def _call(es, case, chain):
    """-> (x, success, sane, fun); the five ways the property names to obtain a composition.
    fun = max |residual| of the delegated solver's OWN equations at its final point (None if not
    reported); only used to label a violation "stopped_at": non_root / root, never to decide one."""
    from chempy._eqsys import NumSysLin, NumSysLog
    init = dict(zip(case["names"], case["c0"]))
    kw = dict(case.get("kwargs") or {})
    if chain == "solve":
        # EqSystem.solve -> EqCalcResult -> _solve, default chain (NumSysLog, NumSysLin); takes no options
        res = es.solve(init)
        out = [float(v) for v in res.conc], bool(res.success), bool(res.sane)
        fun = None
        if out[1] and out[2]:     # EqCalcResult keeps no residuals: repeat the call it makes to read them
            import numpy as np
            try:
                fun = _fun_of(es._solve(np.array(case["c0"], dtype=float))[1])
            except Exception:
                fun = None
        return out + (fun,)
    if chain == "Log":
        kw["NumSys"] = (NumSysLog,)
    elif chain == "LogLin":
        kw["NumSys"] = (NumSysLog, NumSysLin)
    elif chain == "Lin":
        kw["NumSys"] = (NumSysLin,)
    x, sol, sane = es.root(init, **kw)
    return [float(v) for v in x], bool(sol["success"]), bool(sane), _fun_of(sol)


def _fun_of(sol):
    try:
        info = sol["intermediate_info"][-1] if "intermediate_info" in sol else sol
        fun = info.get("fun")
        if fun is None:
            return None
        return max(abs(float(v)) for v in fun)
    except Exception:
        return None


def _oracle(case, x):
    """List of (symptom, text, size of the defect): why x is NOT a genuine equilibrium composition (empty = genuine).
    symptom in: nonfinite, negative, element_lost (an element's whole amount has vanished from x: the
    least-squares solver stopped in a local minimum with some log-concentrations -> -inf), conservation,
    quotient, precipitation."""
    names, c0 = case["names"], case["c0"]
    bad = []
    if any(not math.isfinite(v) for v in x):
        return [("nonfinite", "non-finite concentration %r" % (x,), float("inf"))]
    for n, v in zip(names, x):
        if v < -X_NEG_TOL:
            bad.append(("negative", "negative concentration %s=%.3e" % (n, v), abs(v)))
    B, keys = P.comp_matrix(names)
    for row, k in zip(B, keys):
        d = sum(b * (xv - cv) for b, xv, cv in zip(row, x, c0))
        sc = sum(abs(b) * (abs(xv) + cv) for b, xv, cv in zip(row, x, c0))
        if abs(d) > CONS_RTOL * sc + CONS_ATOL:
            tx = sum(b * xv for b, xv in zip(row, x))
            t0 = sum(b * cv for b, cv in zip(row, c0))
            lost = k != 0 and abs(tx) <= 1e-6 * t0
            bad.append(("element_lost" if lost else "conservation",
                        "%s not conserved: total changes by %.3e (scale %.3e)" %
                        ("charge" if k == 0 else "element Z=%d" % k, d, sc), abs(d)))
    rxns = _rxns_of(case)
    if case["kind"] == "precip":
        solid = case["solid"]
        ions = [s for s in P.SALTS if s[0] == solid][0][1]
        xs = x[names.index(solid)]
        ip = 1.0
        for ion, n in ions.items():
            ip *= max(x[names.index(ion)], 0.0) ** n
        ksp = case["K"][0] if case.get("orient", "diss") == "diss" else 1.0 / case["K"][0]
        if xs > ABSENT:
            if not (ip > 0 and abs(math.log(ip) - math.log(ksp)) <= LNQ_TOL):
                bad.append(("precipitation", "solid present (%.3e) but ion product %.6e != Ksp %.6e" % (xs, ip, ksp),
                            min(1.0, abs(math.log(ip) - math.log(ksp))) if ip > 0 else 1.0))
        else:
            if not ip <= ksp * (1 + LNQ_TOL):
                bad.append(("precipitation", "solid absent (%.3e) but ion product %.6e > Ksp %.6e" % (xs, ip, ksp),
                            min(1.0, ip / ksp - 1)))
    else:
        for (re_, pr), K, tag in zip(rxns, case["K"], case["rxns"]):
            nu = P.net_stoich(re_, pr, names)
            if any(n and v <= 0 for n, v in zip(nu, x)):
                bad.append(("quotient", "Q undefined/zero for %s (non-positive participant)" % tag, 1.0))
                continue
            lnq = sum(n * math.log(v) for n, v in zip(nu, x) if n)
            if abs(lnq - math.log(K)) > LNQ_TOL:
                bad.append(("quotient", "Q/K - 1 = %.3e for %s" % (math.expm1(lnq - math.log(K)), tag),
                            min(1.0, abs(lnq - math.log(K)))))
    return bad


def run_root_case(case):
    """All chains on one case -> list of dicts {chain, claimed, holds, detail}."""
    warnings.simplefilter("ignore")
    import numpy as np
    out = []
    chains = CHAINS
    with np.errstate(all="ignore"):
        es = None
        for chain in chains:
            try:
                if es is None:
                    es = P.build_eqsys(case["names"], _rxns_of(case), case["K"])
                x, success, sane, fun = _call(es, case, chain)
            except Exception as e:
                # an exception is a refusal: no claim of success, so the statement ('whenever ... reports success and a sane result') says nothing
                # about it.  (Until round 6 this stand-in counted it as a violation: the thorough tier with seed 1 then reported pyneqsys's
                # 'Solving failed, conditional_maxiter reached' on a silver-chloride case -- a false alarm of the stand-in.)  The homogeneous
                # cases still feed success_rate, where a call that raises is a failure to report success.
                out.append({"chain": chain, "claimed": False, "holds": True, "exc": True, "symptom": "exception",
                            "stopped_at": "unknown", "solver_residual": None,
                            "detail": "exception %s: %s" % (type(e).__name__, str(e)[:300])})
                continue
            if success and sane:
                bad = _oracle(case, x)
                sym = [p for p in SYMPTOMS if any(b[0] == p for b in bad)]
                # did the delegated solver stop where ITS OWN equations are not satisfied (residual comparable
                # with the defect found here), or at a genuine root of equations that are wrong / of a wrong branch?
                stopped = None
                if bad:
                    defect = max(b[2] for b in bad)
                    stopped = "unknown" if fun is None else ("non_root" if fun > 1e-3 * defect else "root")
                out.append({"chain": chain, "claimed": True, "holds": not bad, "exc": False,
                            "symptom": sym[0] if sym else None, "stopped_at": stopped, "solver_residual": fun,
                            "detail": "success and sane reported for x=%r but %s" % (x, "; ".join(b[1] for b in bad))
                            if bad else "genuine"})
            else:
                out.append({"chain": chain, "claimed": False, "holds": True, "exc": False, "symptom": None,
                            "stopped_at": None, "solver_residual": fun,
                            "detail": "no claim (success=%s sane=%s)" % (success, sane)})
    return out


def run_brentq_case(case):
    warnings.simplefilter("ignore")
    import numpy as np
    from chempy._equilibrium import solve_equilibrium
    names, c0, K = case["names"], case["c0"], case["K"][0]
    re_, pr = _rxns_of(case)[0]
    nu = P.net_stoich(re_, pr, names)
    amax = max(abs(n) for n in nu)
    with np.errstate(all="ignore"):
        try:
            xb = [float(v) for v in solve_equilibrium(c0, nu, K)]
        except Exception as e:
            return False, "solve_equilibrium raised %s: %s" % (type(e).__name__, str(e)[:300])
        # brentq stops at |d rc| <= 2e-12 + 4 eps |rc|: concentrations carry up to |nu| * 2e-12
        def close(a, b):
            return abs(a - b) <= 1e-6 * max(abs(a), abs(b)) + 1e-11 * amax
        if case["cstar"] is not None:
            for n, a, b in zip(names, xb, case["cstar"]):
                if not close(a, b):
                    return False, "solve_equilibrium: %s=%.12e, constructed equilibrium state has %.12e" % (n, a, b)
        else:
            # conservation along the reaction is by construction; at least require x >= -tol
            if min(xb) < -1e-11 * amax:
                return False, "solve_equilibrium returned negative concentration %r" % (xb,)
        try:
            es = P.build_eqsys(names, [(re_, pr)], [K])
            x, success, sane, _fun = _call(es, dict(case, kwargs={}), "default")
        except Exception as e:
            return False, "root raised %s: %s" % (type(e).__name__, str(e)[:300])
        if success and sane:
            for n, a, b in zip(names, x, xb):
                if not close(a, b):
                    return False, "root gives %s=%.12e, solve_equilibrium %.12e" % (n, a, b)
            return True, "agree"
        return True, "root made no claim; brentq checked against constructed state"


def _key(case):
    return json.dumps({k: case[k] for k in case if k != "id"}, sort_keys=True)


def _pool_map(fn, items):
    if len(items) < 8:
        return [fn(it) for it in items]
    ctx = mp.get_context("fork")
    with ctx.Pool(min(16, len(items))) as pool:
        return pool.map(fn, items, chunksize=max(1, len(items) // 128))


def _rate_sample(seed, n):
    cases = [gen_homog(seed, i) for i in range(n)]
    res = _pool_map(run_root_case, cases)
    ok = sum(1 for rr in res for r in rr if r["chain"] == "default" and r["claimed"])
    return cases, res, ok


# ------------------------------------------------------------------------------ interface
def run(tier, seed):
    warnings.simplefilter("ignore")
    n = N_CASES[tier]
    homog, hres, n_ok = _rate_sample(seed, n["homog"])
    precip = [gen_precip(seed, i) for i in range(n["precip"])]
    pres = _pool_map(run_root_case, precip)
    wres = [run_root_case(w) for w in FIXED]

    viol, calls, claims, nexc = [], 0, 0, 0
    for case, rr in list(zip(FIXED, wres)) + list(zip(homog, hres)) + list(zip(precip, pres)):
        for r in rr:
            calls += 1
            claims += r["claimed"]
            nexc += bool(r.get("exc"))
            if not r["holds"]:
                viol.append({"inputs": case, "chain": r["chain"], "symptom": r["symptom"], "stopped_at": r["stopped_at"],
                             "solver_residual": r["solver_residual"],
                             "detail": "[chain %s] %s%s" % (r["chain"], r["detail"],
                                                           "" if r["solver_residual"] is None else
                                                           " [solver's own max residual %.3e]" % r["solver_residual"])})
    # order: 1. anything that is not of a recorded kind; 2. one representative per recorded kind (the fixed
    # witnesses, so that the same cases are forwarded on every run); 3. the rest
    fixed_ids = [w["id"] for w in FIXED]
    first, rest, seen = [], [], set()
    for v in sorted(viol, key=lambda v: (v["inputs"]["id"] not in fixed_ids,)):      # stable: fixed cases first
        sig = _recorded(v)
        if sig is None:
            first.append(v)
        elif sig not in seen:
            seen.add(sig)
            first.append(v)
        else:
            rest.append(v)
    first.sort(key=lambda v: (_recorded(v) is not None, _recorded(v) or ""))
    viol = first + rest
    all_cases = FIXED + homog + precip
    soundness = {
        "name": "root_soundness",
        "rule": "3 fixed witnesses (F-C08 of DESIGN section 9, a Q != K witness for chain Lin, F-C08b for the default chain) + seeded homogeneous systems (water + 1..3 independent "
                "equilibria from a pool of %d acid/base/complexation equilibria, rank S + rank B == ns, constants *10^U(-3,3), every species "
                "log-uniform 1e-5..1e-1 M, water 55.5 M, 0..2 spectator ions) + single-salt precipitation systems "
                "(5 salts, written as dissolution or (when solid must remain) as precipitation reaction, Ksp*10^U(-1.5,1.5), amounts 1e-3..3 M, with/without initial solid, default options and the "
                "options of the repository's precipitation test); each case through root() default, NumSys=(Log,), "
                "(Log,Lin), (Lin,) and through EqSystem.solve(); contract: success and sane => x_j >= -1e-12, "
                "|B(x-x0)|_k <= 1e-6*sum|B_kj|(|x_j|+x0_j)+1e-12 for every element and charge, |ln Q_i - ln K_i| <= 1e-5 "
                "for every homogeneous equilibrium, for a salt: (solid > 1e-10 and |ln IP - ln Ksp| <= 1e-5) or "
                "(solid <= 1e-10 and IP <= Ksp(1+1e-5)); an exception is a refusal, not a claim (%d of the calls raised); oracle from a hand-written "
                "composition table.  Recorded findings F-C08/F-C08b: stopped_at == non_root (solver's own residual not small) with symptom conservation / quotient / element_lost." % (len(P.POOL) - 2, nexc),
        "bound": "%d homogeneous + %d precipitation cases + 3 fixed witnesses, 5 solver paths each; <= 4 equilibria, <= 11 species; "
                 "measured: %d calls, %d claims of success and sane" % (len(homog), len(precip), calls, claims),
        "evaluations": calls,
        "distinct": len({_key(c) for c in all_cases}) * len(CHAINS),
        "exhaustive": False,
        "samples": [WITNESS, WITNESS_B, homog[0], precip[0]],
        "violations": viol,
    }

    rate = n_ok / float(len(homog))
    # 'the default solver chain' is the one an entry point uses when the caller names none: root()'s (NumSysLog) and EqSystem.solve()'s
    # (NumSysLog, NumSysLin), both counted over the same cases
    n_ok_solve = sum(1 for rr in hres for r in rr if r["chain"] == "solve" and r["claimed"])
    rate_solve = n_ok_solve / float(len(homog))
    rviol = []
    for chain, k, rt, what in (("default", n_ok, rate, "root() with its default chain"), ("solve", n_ok_solve, rate_solve, "EqSystem.solve() with its default chain")):
        if len(homog) >= RATE_MIN_CASES and rt < RATE_MIN:
            failed = [c for c, rr in zip(homog, hres) for r in rr if r["chain"] == chain and not r["claimed"]]
            rviol.append({"inputs": {"seed": seed, "n": len(homog), "chain": chain, "first_failed": failed[:5]}, "chain": chain,
                          "detail": "%s claimed success and sane in %d of %d well-conditioned homogeneous cases "
                                    "(%.3f < %.2f)" % (what, k, len(homog), rt, RATE_MIN)})
    srate = {
        "name": "success_rate",
        "rule": "the homogeneous cases of root_soundness (strictly positive initial concentrations), through root() with its "
                "default solver chain and through EqSystem.solve() with its default chain; counted over the whole sample, per entry point: "
                "success and sane in >= 95 % of the cases (violation only if the sample has >= 40 cases); a call that raises counts as a failure",
        "bound": "%d cases; measured success and sane: root() %d (%.4f), solve() %d (%.4f)" % (len(homog), n_ok, rate, n_ok_solve, rate_solve),
        "evaluations": 2 * len(homog),
        "distinct": len({_key(c) for c in homog}),
        "exhaustive": False,
        "samples": [homog[0]],
        "violations": rviol,
    }

    bq = [gen_brentq(seed, i) for i in range(n["brentq"])]
    bres = _pool_map(run_brentq_case, bq)
    bviol = [{"inputs": c, "chain": "default", "detail": d} for c, (ok, d) in zip(bq, bres) if not ok]
    brent = {
        "name": "brentq_agreement",
        "rule": "one equilibrium of the pool (+0..1 spectator); 70 %: K := Q(c*) for a random positive state c* "
                "(1e-4..1e-1 M) and x0 = c* moved 10..90 % of the admissible extent along the reaction, so c* is the "
                "exact answer (Q strictly monotone in the extent): solve_equilibrium(x0, nu, K) == c*; 30 %: pool "
                "constant *10^U(-3,3), random positive x0; in both: root(x0) (default chain), when it claims success "
                "and sane, equals solve_equilibrium; |a-b| <= 1e-6 max(|a|,|b|) + 1e-11 max|nu| (brentq stops at "
                "2e-12 in the extent); an exception is a violation",
        "bound": "%d single-equilibrium problems, %d with known exact state" % (len(bq), sum(1 for c in bq if c["cstar"])),
        "evaluations": len(bq),
        "distinct": len({_key(c) for c in bq}),
        "exhaustive": False,
        "samples": [bq[0]],
        "violations": bviol,
    }
    return {"standins": [soundness, srate, brent]}


def replay(case):
    warnings.simplefilter("ignore")
    name = case.get("name")
    inp = case["inputs"]
    if name == "success_rate":
        cases, res, ok = _rate_sample(inp["seed"], inp["n"])
        chain = inp.get("chain", "default")
        if chain != "default":
            ok = sum(1 for rr in res for r in rr if r["chain"] == chain and r["claimed"])
        rate = ok / float(len(cases))
        holds = not (len(cases) >= RATE_MIN_CASES and rate < RATE_MIN)
        return holds, "%s chain: success and sane in %d of %d cases (%.4f)" % (chain, ok, len(cases), rate)
    if name == "brentq_agreement":
        return run_brentq_case(inp)
    rr = [r for r in run_root_case(inp) if r["chain"] == case.get("chain", r["chain"])]
    bad = [r for r in rr if not r["holds"]]
    if bad:
        return False, "; ".join("[chain %s] %s" % (r["chain"], r["detail"]) for r in bad)
    return True, "; ".join("[chain %s] %s" % (r["chain"], r["detail"]) for r in rr)
