#!/usr/bin/env python3
"""Confirm and evaluate independently produced breaking changes.

usage: tools/seedeval.py SRC_DIR PROP [--props P1,P2] [--keep-as NAME]
SRC_DIR holds patch.diff, demo.py, meta.json (written by a sub-agent that saw only the property text).
Steps (all on a scratch copy outside /repo and /verif, removed afterwards):
  1. patch applies; repository test-suite result unchanged (506 passed, same 6 failures);
  2. demo exits 0 on the clean copy and non-zero on the changed copy;
  3. the registered quick checks of PROP (and --props) are run with --repo <changed copy>.
If 1 and 2 hold the change is kept as /verif/seeded/<NAME>/ with meta.json extended by what was run here.
"""
import argparse, json, os, shutil, subprocess, sys, tempfile, time
HERE = os.path.dirname(os.path.dirname(os.path.abspath(__file__)))
PY = "/venv/bin/python"


def scratch():
    d = tempfile.mkdtemp(prefix="seed_")
    shutil.copytree("/repo/chempy", os.path.join(d, "chempy"), ignore=shutil.ignore_patterns("__pycache__"))
    for f in ("conftest.py", "setup.cfg", "setup.py", "README.rst", "CHANGES.rst"):
        if os.path.exists("/repo/" + f):
            shutil.copy("/repo/" + f, d)
    return d


def run_tests(d):
    r = subprocess.run([PY, "-m", "pytest", "-q", "-p", "no:cacheprovider", "-n", "8", "--timeout=900"], cwd=d, capture_output=True, text=True)
    tail = r.stdout.strip().splitlines()[-1] if r.stdout.strip() else r.stderr[-200:]
    failed = sorted(l.split(" ")[1] for l in r.stdout.splitlines() if l.startswith("FAILED "))
    return tail, failed


def run_demo(demo, root):
    env = dict(os.environ, CHEMPY_ROOT=root, PYTHONPATH=root)
    r = subprocess.run([PY, demo, root], cwd=root, capture_output=True, text=True, env=env, timeout=1200)
    return r.returncode, (r.stdout + r.stderr).strip().splitlines()[-1:] or [""]


def main():
    ap = argparse.ArgumentParser()
    ap.add_argument("src"); ap.add_argument("prop")
    ap.add_argument("--props", default="")
    ap.add_argument("--keep-as", default=None)
    ap.add_argument("--tier", default="quick")
    a = ap.parse_args()
    patch = os.path.abspath(os.path.join(a.src, "patch.diff"))
    demo = os.path.abspath(os.path.join(a.src, "demo.py"))
    meta = json.load(open(os.path.join(a.src, "meta.json"))) if os.path.exists(os.path.join(a.src, "meta.json")) else {}
    out = {"confirmed_by_verif": {}}
    clean, changed = scratch(), scratch()
    try:
        r = subprocess.run(["patch", "-p1", "-s", "-i", patch], cwd=changed, capture_output=True, text=True)
        out["confirmed_by_verif"]["patch_applies"] = r.returncode == 0
        if r.returncode:
            print("PATCH FAILED", r.stdout, r.stderr); print(json.dumps(out)); return 2
        tail, failed = run_tests(changed)
        base_failed = ["chempy/tests/test_solution.py::test_QuantityDict", "chempy/tests/test_solution.py::test_Solution__add", "chempy/tests/test_solution.py::test_Solution__dissolve",
                       "chempy/tests/test_solution.py::test_Solution__isclose", "chempy/tests/test_solution.py::test_Solution__withdraw", "chempy/tests/test_units.py::test_to_unitless__sympy"]
        ok_tests = ("6 failed, 506 passed" in tail and "4 xpassed" in tail) and failed == sorted(base_failed)
        out["confirmed_by_verif"]["tests_with_change"] = tail
        out["confirmed_by_verif"]["tests_unchanged"] = ok_tests
        rc0, m0 = run_demo(demo, clean)
        rc1, m1 = run_demo(demo, changed)
        out["confirmed_by_verif"]["demo_on_clean"] = rc0
        out["confirmed_by_verif"]["demo_on_changed"] = [rc1, m1[0][:300]]
        ok = ok_tests and rc0 == 0 and rc1 != 0
        out["confirmed_by_verif"]["all_conditions_hold"] = ok
        det = {}
        props = [a.prop] + [p for p in a.props.split(",") if p]
        env = dict(os.environ, VCHECK_NO_EVIDENCE="1")
        for p in props:
            t0 = time.time()
            r = subprocess.run([os.path.join(HERE, "vcheck"), p, "--tier", a.tier, "--repo", changed], env=env, capture_output=True, text=True)
            lines = [l for l in r.stdout.splitlines() if l.startswith(("VIOLATION", "UNDECIDED", "CHECKER-ERROR"))]
            det[p] = {"exit": r.returncode, "first": [l[:260] for l in lines[:4]], "seconds": round(time.time() - t0, 1)}
        out["detection"] = det
        out["detected"] = any(d["exit"] == 1 for d in det.values())
        print(json.dumps(out, indent=1))
        if ok and a.keep_as:
            dst = os.path.join(HERE, "seeded", a.keep_as)
            os.makedirs(dst, exist_ok=True)
            for src_f, name in ((patch, "patch.diff"), (demo, "demo.py")):
                if os.path.abspath(src_f) != os.path.abspath(os.path.join(dst, name)):
                    shutil.copy(src_f, os.path.join(dst, name))
            meta.update({"property": a.prop, "kept_as": a.keep_as, "verif_ran": out})
            json.dump(meta, open(os.path.join(dst, "meta.json"), "w"), indent=1)
        return 0 if ok else 1
    finally:
        shutil.rmtree(clean, ignore_errors=True)
        shutil.rmtree(changed, ignore_errors=True)


if __name__ == "__main__":
    sys.exit(main())
