#!/bin/bash
# The behaviour-preserving edits written by the false-alarm testers (mutants/benign/<property>_<n>.diff, reports in audit/benign/):
# each is applied to a scratch copy of /repo (tools/mutest.py, removed afterwards) and the property's quick check is run against it.
# Expected: exit 0.  mutants/benign/EXPECTED.tsv lists the edits for which exit 2 (undecided, never a violation) is the known answer,
# with the limit of the engine that causes it.  Exit 1 or 3 on any of them fails this self-test.
# usage: tools/selftest_benign_diffs.sh [PROPERTY ...]      (default: all; runs 4 at a time)
cd "$(dirname "$0")/.."
PY=.venv/bin/python
[ -x $PY ] || ./vcheck --setup >/dev/null
props="${*:-}"
one() {
  f=$1
  b=$(basename "$f" .diff); p=${b%%_*}
  want=$(awk -F'\t' -v k="$b" '$1==k{print $2}' mutants/benign/EXPECTED.tsv); want=${want:-0}
  out=$($PY tools/mutest.py "$p" --patch "$f" 2>&1)
  rc=$(echo "$out" | sed -n 's/^== .* exit=\([0-9]*\)$/\1/p' | head -1)
  if [ "$rc" = "$want" ] || { [ "$want" = "2" ] && [ "$rc" = "0" ]; }; then echo "ok    $b exit=$rc"; else echo "FAIL  $b exit=${rc:-?} (expected $want)"; echo "$out" | grep -E "VIOLATION|UNDECIDED|CHECKER|patch failed" | head -3 | cut -c1-240; fi
}
export -f one; export PY
ls mutants/benign/*.diff | while read f; do
  b=$(basename "$f" .diff); p=${b%%_*}
  if [ -z "$props" ] || echo " $props " | grep -q " $p "; then echo "$f"; fi
done | xargs -P 4 -I{} bash -c 'one {}' | tee /tmp/selftest_benign_diffs.out
! grep -q '^FAIL' /tmp/selftest_benign_diffs.out
