"""Bounded stand-in for C02: chempy.balance_stoichiometry returns only balanced, positive,
canonical coefficients, or refuses.

Oracle (independent of sympy/CBC/chempy): exact null space of the signed composition matrix over
fractions.Fraction (bounded/_fracla.py), exact feasibility of "some strictly positive solution
exists" for null spaces of dimension 0, 1, 2 (dimension 2: intersection of open half-planes through
the origin, decided exactly), and for the 'smallest integers' mode the minimum coefficient sum by
enumeration of the free coordinates in 1..60 (complete for every solution of sum <= 60).

What is demanded (only where the property statement gives an expectation):
  * any return (all modes): key sets == species given on each side, in order of dict keys nothing is
    demanded; every composition key balances, identically in the free symbols (checked at 4 affinely
    independent rational assignments of the symbols, the coefficients being affine in them);
  * modes False / None, and mode True when no symbol is left: positive integers, jointly coprime;
  * 1-dimensional null space with a positive vector: exactly that primitive vector, all modes;
  * mode None, feasible: must answer, with minimal coefficient sum (when the minimum is <= 60);
  * infeasible (no strictly positive solution): ValueError in modes False / None, and in mode True
    whenever the null space has dimension <= 1.  (Mode True with a >= 2-dimensional null space is only
    held to "what it returns is balanced": the parametric mode may refuse feasible placements and may
    hand back a parametrisation of an infeasible one; the statement's numeric clauses do not cover it.)
  * mode False with >= 2-dimensional null space: may refuse (ValueError) or answer validly.
  * allow_duplicates: a species on both sides without the flag -> ValueError; with the flag and a mode
    other than None -> NotImplementedError/ValueError; with the flag and mode None: if dropping the
    duplicate from one side leaves a feasible placement an answer must come back, and any answer has
    no species on both sides, keys within the given sides, all non-duplicated species present,
    balanced, positive, coprime.
  * any other exception type is a violation; so is a call that neither answers nor raises within
    TIMEOUT seconds (CBC enumerating an unbounded integer program), its CBC child is killed.

Stand-ins: constructed / wrong_side / duplicates use integer compositions only.  `fractional` holds the
same kinds of cases for species with half-integer (float) composition entries, plus one fixed case through
chempy's formula parser (H3.5 + HO2Cl3.5 -> HO2.5 + H2.5Cl).  It is kept apart because it fires on the
unmodified tree: sympy.nsimplify(Matrix) leaves Floats in place, linsolve then works in floating point, and
mode True returns unbalanced 16-digit "integers" while mode False refuses a uniquely balanced reaction.
"""
import json
import os
import random
import signal
import multiprocessing as mp
from collections import OrderedDict
from fractions import Fraction
from functools import reduce
from math import gcd

from ._fracla import nullspace, primitive, lcm_den

# ----------------------------------------------------------------------------------------------
# species pools.  Compositions are written by hand (atomic number -> count, 0 -> charge); they are
# NOT obtained from chempy's parser, so that a parser/composition slip also shows up here.
Z = dict(H=1, C=6, N=7, O=8, Na=11, Al=13, S=16, Cl=17, K=19, Ca=20, Cr=24, Mn=25, Fe=26, Cu=29,
         Zn=30, Ag=47, I=53)


def _c(charge=0, **el):
    d = {Z[k]: v for k, v in el.items()}
    if charge:
        d[0] = charge
    return d


POOL = OrderedDict([
    ("H2", _c(H=2)), ("O2", _c(O=2)), ("H2O", _c(H=2, O=1)), ("H2O2", _c(H=2, O=2)), ("O3", _c(O=3)),
    ("H+", _c(1, H=1)), ("OH-", _c(-1, H=1, O=1)), ("H3O+", _c(1, H=3, O=1)), ("HO2-", _c(-1, H=1, O=2)),
    ("e-", _c(-1)),
    ("C", _c(C=1)), ("CO", _c(C=1, O=1)), ("CO2", _c(C=1, O=2)), ("CH4", _c(C=1, H=4)),
    ("C2H2", _c(C=2, H=2)), ("C2H6", _c(C=2, H=6)), ("C2H5OH", _c(C=2, H=6, O=1)),
    ("C6H12O6", _c(C=6, H=12, O=6)), ("CH3OH", _c(C=1, H=4, O=1)), ("HCO3-", _c(-1, H=1, C=1, O=3)),
    ("CO3-2", _c(-2, C=1, O=3)),
    ("N2", _c(N=2)), ("NH3", _c(N=1, H=3)), ("NO", _c(N=1, O=1)), ("NO2", _c(N=1, O=2)),
    ("N2O4", _c(N=2, O=4)), ("HNO3", _c(H=1, N=1, O=3)), ("HNO2", _c(H=1, N=1, O=2)),
    ("NH4+", _c(1, N=1, H=4)), ("NO3-", _c(-1, N=1, O=3)), ("N2O", _c(N=2, O=1)),
    ("Fe", _c(Fe=1)), ("FeO", _c(Fe=1, O=1)), ("Fe2O3", _c(Fe=2, O=3)), ("Fe3O4", _c(Fe=3, O=4)),
    ("Fe+2", _c(2, Fe=1)), ("Fe+3", _c(3, Fe=1)), ("Fe(OH)3", _c(Fe=1, O=3, H=3)),
    ("Al", _c(Al=1)), ("Al2O3", _c(Al=2, O=3)),
    ("MnO4-", _c(-1, Mn=1, O=4)), ("Mn+2", _c(2, Mn=1)), ("MnO2", _c(Mn=1, O=2)),
    ("Cr2O7-2", _c(-2, Cr=2, O=7)), ("Cr+3", _c(3, Cr=1)),
    ("S", _c(S=1)), ("SO2", _c(S=1, O=2)), ("SO3", _c(S=1, O=3)), ("H2S", _c(H=2, S=1)),
    ("H2SO4", _c(H=2, S=1, O=4)), ("SO4-2", _c(-2, S=1, O=4)),
    ("Cl2", _c(Cl=2)), ("HCl", _c(H=1, Cl=1)), ("Cl-", _c(-1, Cl=1)), ("ClO-", _c(-1, Cl=1, O=1)),
    ("Cu", _c(Cu=1)), ("Cu+2", _c(2, Cu=1)), ("Ag", _c(Ag=1)), ("Ag+", _c(1, Ag=1)),
    ("Zn", _c(Zn=1)), ("Zn+2", _c(2, Zn=1)),
    ("I2", _c(I=2)), ("I-", _c(-1, I=1)), ("IO3-", _c(-1, I=1, O=3)),
])
_HEAVY = [6, 7, 26, 13, 25, 24, 16, 17, 29, 47, 30, 53]
SYN_KEYS = [0, 1, 6, 8, 17, 26]
MODES = ("True", "False", "None")
MODEVAL = {"True": True, "False": False, "None": None}


# ----------------------------------------------------------------------------------------------
# oracle
def _comp(case, name):
    for n, items in case["species"]:
        if n == name:
            return {int(k): Fraction(v).limit_denominator(1000) for k, v in items}
    raise KeyError(name)


def _signed_matrix(comps, signs):
    keys = sorted(set(k for c in comps for k in c))
    return [[c.get(k, 0) * s for c, s in zip(comps, signs)] for k in keys], keys


def _wedge_feasible(b1, b2):
    """Exists (a, b) with a*b1[i] + b*b2[i] > 0 for all i?  Exact. Returns a positive vector or None."""
    normals = list(zip(b1, b2))
    if any(n == (0, 0) for n in normals):
        return None
    perps = []
    for (p, q) in normals:
        perps.append((-q, p))
        perps.append((q, -p))
    cands = list(normals)
    for i in range(len(perps)):
        for j in range(i + 1, len(perps)):
            cands.append((perps[i][0] + perps[j][0], perps[i][1] + perps[j][1]))
    for (a, b) in cands:
        if all(a * p + b * q > 0 for p, q in normals):
            return [a * p + b * q for p, q in normals]
    return None


def _min_sum(basis, free, n, bound=60):
    """Minimum of sum(x) over integer x >= 1 in span(basis); complete for sums <= bound.
    basis is in 'free column' form: x[free[j]] is the j-th parameter itself."""
    D = lcm_den(basis)
    B = [[int(x * D) for x in v] for v in basis]
    best = None
    d = len(B)

    def rec(j, acc, partial_free_sum):
        nonlocal best
        if j == d:
            if all(a > 0 and a % D == 0 for a in acc):
                s = sum(acc) // D
                if best is None or s < best[0]:
                    best = (s, [a // D for a in acc])
            return
        for f in range(1, bound + 1 - partial_free_sum - (d - j - 1)):
            if best is not None and partial_free_sum + f >= best[0]:
                break
            rec(j + 1, [a + f * b for a, b in zip(acc, B[j])], partial_free_sum + f)

    rec(0, [0] * n, 0)
    if best is None or best[0] > bound:
        return None
    return best


def analyse(comps, signs):
    """comps: list of composition dicts (Fractions), signs: -1 reactant / +1 product.
    Returns dict(dim, feasible (True/False/None=unknown), unique (primitive positive vector or None),
    minsum ((sum, vector) or None), presence_ok)."""
    rows, keys = _signed_matrix(comps, signs)
    n = len(comps)
    basis, free = nullspace(rows, n)
    d = len(basis)
    out = dict(dim=d, feasible=None, unique=None, minsum=None)
    if d == 0:
        out["feasible"] = False
    elif d == 1:
        v = primitive(basis[0])
        if all(x > 0 for x in v) or all(x < 0 for x in v):
            v = [abs(x) for x in v]
            out.update(feasible=True, unique=v, minsum=(sum(v), v))
        else:
            out["feasible"] = False
    elif d == 2:
        w = _wedge_feasible(basis[0], basis[1])
        out["feasible"] = w is not None
        if w is not None:
            out["minsum"] = _min_sum(basis, free, n)
    else:
        rnd = random.Random(n * 1000 + d)
        for _ in range(400):
            co = [rnd.randint(-4, 4) for _ in range(d)]
            v = [sum(c * b[i] for c, b in zip(co, basis)) for i in range(n)]
            if all(x > 0 for x in v):
                out["feasible"] = True
                break
        if d == 3 and out["feasible"]:
            out["minsum"] = _min_sum(basis, free, n, bound=24)
    # presence pre-check analogue (only used to classify trivial cases)
    ok = True
    for k in keys:
        if k == 0:
            continue
        on_r = any(c.get(k, 0) != 0 for c, s in zip(comps, signs) if s < 0)
        on_p = any(c.get(k, 0) != 0 for c, s in zip(comps, signs) if s > 0)
        if on_r != on_p:
            ok = False
    out["presence_ok"] = ok
    return out


# ----------------------------------------------------------------------------------------------
# running one case against the real code
def _to_fraction(x):
    import sympy
    if isinstance(x, (int, Fraction)):
        return Fraction(x)
    x = sympy.nsimplify(x) if isinstance(x, float) else sympy.sympify(x)
    if x.is_Rational:
        return Fraction(int(x.p), int(x.q))
    raise TypeError("not a rational number: %r" % (x,))


def _call(case):
    import chempy
    from chempy import Substance
    reac, prod = list(case["reac"]), list(case["prod"])
    if case.get("container", "list") == "set":
        reac, prod = set(reac), set(prod)
    how = case.get("substances", "obj")
    if how == "none":
        S = None
    elif how == "str":
        S = " ".join(n for n, _ in case["species"])
    else:
        S = OrderedDict()
        for n, items in case["species"]:
            S[n] = Substance(n, composition={int(k): v for k, v in items})
    kw = dict(substances=S, underdetermined=MODEVAL[case["mode"]])
    if case.get("allow_duplicates"):
        kw["allow_duplicates"] = True
    return chempy.balance_stoichiometry(reac, prod, **kw)


def _check_balanced(case, rdict, pdict, mode):
    """Returns (error string or None, has_free_symbols)."""
    import sympy
    items = [(k, v, -1) for k, v in rdict.items()] + [(k, v, 1) for k, v in pdict.items()]
    syms = set()
    for _, v, _ in items:
        if hasattr(v, "free_symbols"):
            syms |= set(v.free_symbols)
    syms = sorted(syms, key=str)
    if syms and mode != "True":
        return "free symbols %s returned in numeric mode" % syms, True
    assignments = [{}]
    if syms:
        base = [Fraction(3), Fraction(5, 2), Fraction(7), Fraction(11, 3), Fraction(13)]
        assignments = []
        for shift in range(len(syms) + 2):
            a = {}
            for i, s in enumerate(syms):
                val = base[(i + shift) % len(base)] + (shift * (i + 1))
                a[s] = sympy.Rational(val.numerator, val.denominator)
            assignments.append(a)
    comps = {n: _comp(case, n) for n, _ in case["species"]}
    for a in assignments:
        tot = {}
        for k, v, sgn in items:
            try:
                val = _to_fraction(sympy.sympify(v).subs(a) if a else v)
            except TypeError:
                return "coefficient %r of %s is not a rational number (or affine in the symbols)" % (v, k), bool(syms)
            for ck, cv in comps[k].items():
                tot[ck] = tot.get(ck, 0) + sgn * val * cv
        bad = {ck: str(t) for ck, t in tot.items() if t != 0}
        if bad:
            return "not balanced (key: residual) %s at %s" % (bad, {str(s): str(x) for s, x in a.items()}), bool(syms)
    return None, bool(syms)


def _numeric_checks(vals):
    fr = []
    for v in vals:
        try:
            f = _to_fraction(v)
        except TypeError:
            return "coefficient %r is not a number" % (v,)
        fr.append(f)
    if any(f.denominator != 1 for f in fr):
        return "non-integer coefficient in %s" % [str(f) for f in fr]
    if any(f <= 0 for f in fr):
        return "non-positive coefficient in %s" % [str(f) for f in fr]
    g = reduce(gcd, [int(f) for f in fr], 0)
    if g != 1:
        return "coefficients %s share the factor %d" % ([int(f) for f in fr], g)
    return None


def run_case(case):
    """Returns (holds, detail, info). info: dict(dim, feasible, outcome)."""
    mode = case["mode"]
    reac, prod = case["reac"], case["prod"]
    dups = sorted(set(reac) & set(prod))
    try:
        res = _call(case)
        exc = None
    except Exception as e:  # the code under test
        res, exc = None, e
    outcome = "answer" if exc is None else type(exc).__name__

    if dups:
        return _judge_duplicates(case, res, exc, dups, outcome)

    names = reac + prod
    comps = [_comp(case, n) for n in names]
    signs = [-1] * len(reac) + [1] * len(prod)
    an = analyse(comps, signs)
    info = dict(dim=an["dim"], feasible=an["feasible"], outcome=outcome, presence_ok=an["presence_ok"])
    d, feas = an["dim"], an["feasible"]

    if exc is not None:
        if not isinstance(exc, ValueError):
            return False, "raised %s: %s (only ValueError is a refusal)" % (type(exc).__name__, exc), info
        if feas is True:
            if mode == "None":
                return False, "feasible (e.g. %s) but mode None refused: %s" % (an["minsum"], exc), info
            if d == 1:
                return False, "unique ray %s exists but mode %s refused: %s" % (an["unique"], mode, exc), info
        return True, "refused: %s" % exc, info

    rdict, pdict = res
    if list(sorted(rdict.keys())) != sorted(reac) or sorted(pdict.keys()) != sorted(prod):
        return False, "key sets %s / %s differ from species given" % (list(rdict), list(pdict)), info
    err, has_syms = _check_balanced(case, rdict, pdict, mode)
    if err:
        return False, err + " ; returned %s -> %s" % (dict(rdict), dict(pdict)), info
    vals = [rdict[k] for k in reac] + [pdict[k] for k in prod]
    shown = "%s -> %s" % ({k: str(v) for k, v in rdict.items()}, {k: str(v) for k, v in pdict.items()})
    if has_syms:
        # parametric answer (mode True, dim >= 2): balanced identically is all that is demanded
        if d <= 1:
            return False, "free symbols in the answer although the null space has dimension %d: %s" % (d, shown), info
        return True, "parametric answer " + shown, info
    if mode in ("False", "None") or d <= 1:
        err = _numeric_checks(vals)
        if err:
            return False, err + " ; returned " + shown, info
        if mode == "None":
            for v in vals:
                if type(v) is not int:
                    return False, "mode None returned a %s, not int: %s" % (type(v).__name__, shown), info
    if feas is False and (mode != "True" or d <= 1):
        return False, "no strictly positive solution exists (null-space dimension %d) but got %s" % (d, shown), info
    if an["unique"] is not None:
        got = [int(_to_fraction(v)) for v in vals]
        if got != an["unique"]:
            return False, "unique minimal solution is %s, got %s" % (an["unique"], got), info
    if mode == "None" and an["minsum"] is not None:
        got = [int(v) for v in vals]
        if sum(got) != an["minsum"][0]:
            return False, "minimal coefficient sum is %d (%s), got %d (%s)" % (
                an["minsum"][0], an["minsum"][1], sum(got), got), info
    return True, "answer " + shown, info


def _judge_duplicates(case, res, exc, dups, outcome):
    mode = case["mode"]
    reac, prod = case["reac"], case["prod"]
    info = dict(dim=None, feasible=None, outcome=outcome, presence_ok=True)
    # is some "drop each duplicate from one side" placement feasible?
    feasible_somehow = False
    if len(dups) == 1:
        for r, p in (([x for x in reac if x != dups[0]], prod), (reac, [x for x in prod if x != dups[0]])):
            if r and p:
                an = analyse([_comp(case, n) for n in r + p], [-1] * len(r) + [1] * len(p))
                if an["feasible"]:
                    feasible_somehow = True
    info["feasible"] = feasible_somehow
    if not case.get("allow_duplicates"):
        if exc is None or not isinstance(exc, ValueError):
            return False, "species %s on both sides without allow_duplicates: expected ValueError, got %s" % (
                dups, outcome if exc else res), info
        return True, "refused", info
    if mode != "None":
        if exc is None or not isinstance(exc, (NotImplementedError, ValueError)):
            return False, "allow_duplicates with mode %s: expected a refusal, got %s" % (mode, outcome if exc else res), info
        return True, "refused", info
    if exc is not None:
        if not isinstance(exc, ValueError):
            return False, "raised %s: %s" % (type(exc).__name__, exc), info
        if feasible_somehow:
            return False, "dropping %s from one side is feasible, but refused: %s" % (dups, exc), info
        return True, "refused", info
    rdict, pdict = res
    shown = "%s -> %s" % (dict(rdict), dict(pdict))
    if set(rdict) & set(pdict):
        return False, "species left on both sides: " + shown, info
    if not set(rdict) <= set(reac) or not set(pdict) <= set(prod):
        return False, "keys outside the given sides: " + shown, info
    missing = (set(reac) | set(prod)) - set(dups) - set(rdict) - set(pdict)
    if missing:
        return False, "non-duplicated species %s missing: %s" % (sorted(missing), shown), info
    if not rdict or not pdict:
        return False, "empty side: " + shown, info
    err, _ = _check_balanced(case, rdict, pdict, mode)
    if err:
        return False, err + " ; returned " + shown, info
    err = _numeric_checks(list(rdict.values()) + list(pdict.values()))
    if err:
        return False, err + " ; returned " + shown, info
    return True, "answer " + shown, info


# ----------------------------------------------------------------------------------------------
# generators
def _items(comp):
    return [[int(k), (v if isinstance(v, (int, float)) else float(v))] for k, v in sorted(comp.items())]


def _formula_species(rnd):
    els = set(rnd.sample(_HEAVY, rnd.choice([1, 1, 2]))) | {1, 8}
    if rnd.random() < 0.25:
        els.discard(1)
    cand = [n for n, c in POOL.items() if set(k for k in c if k != 0) <= els]
    if rnd.random() < 0.5:
        cand = [n for n in cand if 0 not in POOL[n]]
    n = rnd.randint(3, 6)
    if len(cand) < n:
        return None
    names = rnd.sample(cand, n)
    return [(nm, dict(POOL[nm])) for nm in names]


def _synthetic_species(rnd):
    n = rnd.randint(3, 6)
    nk = rnd.randint(2, 4) if n >= 5 else rnd.randint(1, 3)
    use_charge = rnd.random() < 0.4
    keys = rnd.sample(SYN_KEYS[1:], nk)
    frac = rnd.random() < 0.06 and n <= 5  # float matrices make sympy slow (seconds for 6 species)
    out = []
    for i in range(n):
        while True:
            comp = {}
            for k in keys:
                v = rnd.choice([0, 0, 1, 1, 2, 3])
                if v:
                    comp[k] = v + (0.5 if frac and rnd.random() < 0.3 else 0)
                elif rnd.random() < 0.05:
                    comp[k] = 0  # explicit zero entry (kept only if another species has the key, below)
            if any(v for v in comp.values()):
                break
        if use_charge:
            q = rnd.choice([0, 0, 0, 1, -1, 2, -2])
            if q:
                comp[0] = q
        out.append(("S%d" % i, comp))
    # an explicitly stored zero is only a legitimate way of writing a composition when the key occurs
    # in the reaction at all (a key that is zero in every species makes chempy's presence check refuse)
    for _, comp in out:
        for k in [k for k, v in comp.items() if v == 0]:
            if not any(c.get(k, 0) != 0 for _, c in out):
                del comp[k]
    return out


def _placements(rnd, species):
    """Yield (kind, reac names, prod names) for a species list, from the exact unsigned null space."""
    names = [n for n, _ in species]
    comps = [{k: Fraction(v).limit_denominator(1000) for k, v in c.items()} for _, c in species]
    rows, _ = _signed_matrix(comps, [1] * len(comps))
    basis, _ = nullspace(rows, len(comps))
    d = len(basis)
    out = []

    def split(v):
        return [n for n, x in zip(names, v) if x < 0], [n for n, x in zip(names, v) if x > 0]

    if d == 0:
        k = rnd.randint(1, len(names) - 1)
        sh = names[:]
        rnd.shuffle(sh)
        out.append(("dim0_random", sh[:k], sh[k:]))
        return out
    vecs = []
    if d == 1:
        vecs.append(primitive(basis[0]))
    else:
        for _ in range(60):
            co = [rnd.randint(-3, 3) for _ in range(d)]
            v = [sum(c * b[i] for c, b in zip(co, basis)) for i in range(len(names))]
            if all(x != 0 for x in v) and any(x < 0 for x in v) and any(x > 0 for x in v):
                vecs.append(v)
                if len(vecs) >= (2 if d == 2 else 1):
                    break
    for v in vecs:
        if any(x == 0 for x in v):
            # superfluous species: place the zero ones at random
            r, p = split(v)
            for n, x in zip(names, v):
                if x == 0:
                    (r if rnd.random() < 0.5 else p).append(n)
            if r and p:
                out.append(("dim%d_superfluous" % d, r, p))
            continue
        r, p = split(v)
        if not r or not p:
            continue
        if rnd.random() < 0.5:
            r, p = p, r
        out.append(("dim%d_signpattern" % d, r, p))
        # every single-species wrong-side variant
        for n in names:
            r2 = [x for x in r if x != n] + ([n] if n in p else [])
            p2 = [x for x in p if x != n] + ([n] if n in r else [])
            if r2 and p2:
                out.append(("dim%d_wrongside" % d, r2, p2))
    if rnd.random() < 0.15:
        k = rnd.randint(1, len(names) - 1)
        sh = names[:]
        rnd.shuffle(sh)
        out.append(("dim%d_random" % d, sh[:k], sh[k:]))
    return out


def gen_cases(tier, seed):
    rnd = random.Random(1000003 * seed + 17)
    target = 3000 if tier == "quick" else 80000
    cases = []
    seen = set()
    nbase = 0
    # fixed members of the fractional group (every seed, both tiers): non-integer subscripts through chempy's
    # own formula parser; exact answer 171 H3.5 + 70 HO2Cl3.5 -> 56 HO2.5 + 245 H2.5Cl
    anchor = dict(species=[["H3.5", [[1, 3.5]]], ["HO2Cl3.5", [[1, 1], [8, 2], [17, 3.5]]],
                           ["HO2.5", [[1, 1], [8, 2.5]]], ["H2.5Cl", [[1, 2.5], [17, 1]]]],
                  reac=["H3.5", "HO2Cl3.5"], prod=["HO2.5", "H2.5Cl"], kind="dim1_signpattern",
                  container="list", substances="none")
    for mode in MODES:
        c = dict(anchor, mode=mode)
        seen.add(_canon(c))
        cases.append(c)
    while len(cases) < target and nbase < target * 5:
        nbase += 1
        formula = rnd.random() < 0.45
        species = _formula_species(rnd) if formula else _synthetic_species(rnd)
        if species is None:
            continue
        pls = _placements(rnd, species)
        # keep the number of wrong-side variants per base moderate in the quick tier
        ws = [p for p in pls if p[0].endswith("wrongside")]
        other = [p for p in pls if not p[0].endswith("wrongside")]
        if tier == "quick" and len(ws) > 2:
            ws = rnd.sample(ws, 2)
        for kind, r, p in other + ws:
            r, p = list(r), list(p)
            rnd.shuffle(r)
            rnd.shuffle(p)
            used = [(n, c) for n, c in species if n in r or n in p]
            base = dict(species=[[n, _items(c)] for n, c in used], reac=r, prod=p, kind=kind,
                        container=rnd.choice(["set", "list"]),
                        substances=(rnd.choice(["none", "none", "str", "obj"]) if formula else "obj"))
            modes = MODES if (tier == "thorough" or not kind.endswith("wrongside")) else (rnd.choice(MODES), "None")
            for mode in dict.fromkeys(modes):
                c = dict(base, mode=mode)
                key = _canon(c)
                if key in seen:
                    continue
                seen.add(key)
                cases.append(c)
            # duplicate-species variants on some feasible placements
            if kind.endswith("signpattern") and rnd.random() < 0.2:
                if rnd.random() < 0.5 and len(p) >= 1:
                    dup = rnd.choice(p)
                    r2, p2 = r + [dup], p
                else:
                    dup = rnd.choice(r)
                    r2, p2 = r, p + [dup]
                for mode, allow in (("None", True), ("None", False), (rnd.choice(["True", "False"]), True)):
                    c = dict(base, reac=r2, prod=p2, mode=mode, allow_duplicates=allow, kind=kind + "_dup")
                    key = _canon(c)
                    if key not in seen:
                        seen.add(key)
                        cases.append(c)
    return cases[:target]


def _canon(c):
    comp = {n: tuple((k, float(v)) for k, v in items) for n, items in c["species"]}
    return (tuple(sorted(comp[n] for n in c["reac"])), tuple(sorted(comp[n] for n in c["prod"])),
            c["mode"], bool(c.get("allow_duplicates")))


class _Timeout(BaseException):
    """Raised by the interval timer; BaseException so that chempy's own `except Exception` cannot eat it."""


def _alarm(signum, frame):
    raise _Timeout()


def _kill_children():
    """CBC runs as a child process of the worker; after a time-out it must not be left spinning."""
    me = os.getpid()
    for pid in os.listdir("/proc"):
        if not pid.isdigit():
            continue
        try:
            with open("/proc/%s/stat" % pid) as fh:
                ppid = int(fh.read().rsplit(")", 1)[1].split()[1])
            if ppid == me:
                os.kill(int(pid), signal.SIGKILL)
        except (OSError, ValueError, IndexError):
            pass


TIMEOUT = float(os.environ.get("VERIF_C02_TIMEOUT", "90"))   # seconds per call; the slowest call observed on the unmodified tree takes < 10 s


def run_case_guarded(case):
    """run_case with a wall-clock guard: the property says the function answers or raises ValueError, so a
    call that does neither within TIMEOUT seconds (CBC can enumerate for ever on an unbounded integer
    program) is recorded as a violation instead of hanging the checker."""
    old = signal.signal(signal.SIGALRM, _alarm)
    signal.setitimer(signal.ITIMER_REAL, TIMEOUT)
    try:
        return run_case(case)
    except _Timeout:
        _kill_children()
        return False, "neither an answer nor a refusal within %.0f s" % TIMEOUT, dict(
            dim=None, feasible=None, outcome="timeout", presence_ok=True)
    finally:
        signal.setitimer(signal.ITIMER_REAL, 0)
        signal.signal(signal.SIGALRM, old)


def _work(case):
    holds, detail, info = run_case_guarded(case)
    return case, holds, detail, info


def run(tier, seed):
    import chempy, sympy, pulp  # noqa: imported before forking so that the workers do not pay for it
    cases = gen_cases(tier, seed)
    ctx = mp.get_context("fork")
    with ctx.Pool(16) as pool:
        results = pool.map(_work, cases, chunksize=8)
    groups = OrderedDict()
    rules = {
        "constructed": "species sets of size 3..6 from a hand-composed pool of %d formulas (substances=None/str: "
                       "chempy's own parser supplies the composition) and synthetic compositions (entries 0..3 "
                       "over <=4 keys, charge -2..2, explicit zero entries); "
                       "sides from the sign pattern of an exact null-space vector (1-, 2- and 3-dimensional null "
                       "spaces), superfluous species, 0-dimensional sets, random placements; modes True/False/None; "
                       "set and list containers. Oracle: exact Fraction null space, exact feasibility, min-sum by "
                       "enumeration (sum <= 60). Non-trivial: not already refutable by the per-key presence check." % len(POOL),
        "wrong_side": "every (quick: two random) single-species wrong-side variant of a constructed feasible "
                      "placement; expected ValueError when the exact oracle finds no positive solution "
                      "(always for 1-dimensional null spaces), else a valid answer.",
        "fractional": "the same generators (all kinds) restricted to synthetic species sets in which about 30% of the "
                      "non-zero entries are half-integers given as floats (chempy's formula parser produces float "
                      "compositions for non-integer subscripts); same oracle, same expectations.",
        "duplicates": "a feasible placement with one species repeated on the other side: allow_duplicates=True with "
                      "mode None must answer validly; without the flag ValueError; with the flag and mode True/False "
                      "a refusal.",
    }
    for name in rules:
        groups[name] = dict(name=name, rule=rules[name],
                            bound="3..6 species, <=4 element keys + charge, entries 0..3(.5), min-sum oracle to 60",
                            evaluations=0, distinct=0, exhaustive=False, samples=[], violations=[], _stats={})
    for case, holds, detail, info in results:
        fractional = any(float(v) != int(v) for _, items in case["species"] for _, v in items)
        g = groups["fractional" if fractional else
                   "duplicates" if case["kind"].endswith("_dup") else
                   "wrong_side" if case["kind"].endswith("wrongside") else "constructed"]
        g["evaluations"] += 1
        if info.get("presence_ok", True):
            g["distinct"] += 1
        st = "%s/dim%s/feas=%s/%s" % (case["mode"], info["dim"], info["feasible"], info["outcome"])
        g["_stats"][st] = g["_stats"].get(st, 0) + 1
        if len(g["samples"]) < 3 and holds and info["outcome"] == "answer":
            g["samples"].append(dict(inputs=case, observed=detail))
        if not holds:
            g["violations"].append(dict(inputs=case, detail=detail))
    out = []
    for g in groups.values():
        g["outcome_counts"] = dict(sorted(g.pop("_stats").items()))
        g["violations"].sort(key=lambda v: json.dumps(v["inputs"], sort_keys=True))
        out.append(g)
    return {"standins": out}


def replay(case):
    holds, detail, _ = run_case_guarded(case["inputs"])
    return holds, detail
