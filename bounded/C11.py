"""Bounded stand-in for C11: arithmetic on chempy.Equilibrium keeps the constant consistent with the
stoichiometry; eliminate / cancel / as_reactions.

Oracles are plain integer / Fraction bookkeeping written from the property statement:
  * a history of scale / add / subtract operations is tracked as an integer coefficient vector c over the
    operand equilibria; expected net stoichiometry = sum_i c_i * net_i, expected constant = prod_i K_i**c_i
    (Fractions; symbolic constants are compared after substituting distinct primes for the symbols, which
    determines a monomial uniquely, and once more at other rationals);
  * eliminate: the two multipliers m0, m1 must be non-zero integers with m0*v0 + m1*v1 == 0, and the real
    m0*e0 + m1*e1 must not list the species;
  * cancel: trunc-toward-zero of -v1/v2 computed with Fractions, smallest magnitude over the species of the
    second equilibrium, plus the semantic reading of the docstring ("how many times rxn can be added /
    subtracted"): adding m*rxn flips the sign of no species of rxn, one more step in the same direction would;
  * as_reactions: forward/backward reactions are the two sides swapped (inactive parts too) and kf/kb == K.
"""
import json
import random
import multiprocessing as mp
from fractions import Fraction
from itertools import product

SPECIES = ["A", "B", "C", "D", "E", "H2O", "H+", "OH-"]


# ----------------------------------------------------------------------------------------------
# helpers
def _mk_param(p):
    """JSON form of a constant -> object. ["frac", n, d] | ["sym", name] | ["srat", n, d] | None"""
    if p is None:
        return None
    if p[0] == "frac":
        return Fraction(p[1], p[2])
    import sympy
    if p[0] == "sym":
        return sympy.Symbol(p[1], positive=True)
    if p[0] == "srat":
        return sympy.Rational(p[1], p[2])
    raise ValueError(p)


def _mk_eq(e):
    from chempy import Equilibrium
    return Equilibrium(dict(e["reac"]), dict(e["prod"]), _mk_param(e.get("param")))


def _net(e, keys):
    return [dict(e["prod"]).get(k, 0) - dict(e["reac"]).get(k, 0) for k in keys]


_PRIMES = [2, 3, 5, 7, 11, 13, 17, 19, 23, 29, 31, 37]


def _param_value(p, assignment):
    """Evaluate a JSON constant under an assignment symbol-name -> Fraction."""
    if p[0] in ("frac", "srat"):
        return Fraction(p[1], p[2])
    return assignment[p[1]]


def _observed_value(obj, assignment):
    """Evaluate the constant returned by chempy (Fraction / int / sympy expr) exactly."""
    if isinstance(obj, (int, Fraction)):
        return Fraction(obj)
    import sympy
    ex = sympy.sympify(obj)
    sub = {s: sympy.Rational(assignment[s.name].numerator, assignment[s.name].denominator) for s in ex.free_symbols}
    val = ex.subs(sub) if sub else ex
    if not val.is_Rational:
        raise TypeError("constant %r does not evaluate to a rational number" % (obj,))
    return Fraction(int(val.p), int(val.q))


def _is_pos_int(v):
    try:
        return int(v) == v and v > 0
    except Exception:
        return False


# ----------------------------------------------------------------------------------------------
# 1. histories
def _rand_eq(rnd, idx, kind):
    while True:
        n_r, n_p = rnd.randint(1, 3), rnd.randint(1, 3)
        reac = {k: rnd.randint(1, 4) for k in rnd.sample(SPECIES, n_r)}
        prod = {k: rnd.randint(1, 4) for k in rnd.sample(SPECIES, n_p)}
        if rnd.random() < 0.7:  # mostly no species on both sides of one operand
            for k in list(prod):
                if k in reac:
                    del prod[k]
        if prod and any(prod.get(k, 0) - reac.get(k, 0) for k in set(reac) | set(prod)):
            break
    if kind == "none":
        p = None
    elif kind == "sym" and rnd.random() < 0.7:
        p = ["sym", "K%d" % idx]
    elif kind == "sym":
        p = ["srat", rnd.randint(1, 9), rnd.randint(1, 9)]
    else:
        p = ["frac", rnd.choice([1, 2, 3, 5, 7, 10, -3]), rnd.choice([1, 2, 3, 4, 9, 1000])]
    return dict(reac=sorted(reac.items()), prod=sorted(prod.items()), param=p)


def gen_history(rnd):
    kind = rnd.choice(["frac", "frac", "frac", "sym", "sym", "none"])
    nops = rnd.randint(2, 4)
    operands = [_rand_eq(rnd, i, kind) for i in range(nops)]
    keys = sorted(set(k for e in operands for k, _ in e["reac"] + e["prod"]))
    nets = [_net(e, keys) for e in operands]
    coeff = [0] * nops
    steps = []
    i0 = rnd.randrange(nops)
    coeff[i0] = 1
    steps.append(["start", i0])
    for _ in range(rnd.randint(1, 6)):
        for _try in range(20):
            op = rnd.choice(["add", "sub", "radd", "rsub", "scale", "rscale", "neg", "sscale"])
            new = coeff[:]
            if op in ("add", "sub", "radd", "rsub"):
                j = rnd.randrange(nops)
                n = rnd.choice([1, 1, 1, 2, 3, -1, -2, 4])
                step = [op, j, n]
                if op == "add":      # acc + n*e_j
                    new[j] += n
                elif op == "sub":    # acc - n*e_j
                    new[j] -= n
                elif op == "radd":   # n*e_j + acc
                    new[j] += n
                else:                # n*e_j - acc
                    new = [-c for c in new]
                    new[j] += n
            elif op == "neg":
                step = [op]
                new = [-c for c in new]
            else:                    # m*acc, acc*m, sympy.Integer(m)*acc
                m = rnd.choice([2, 3, -1, -2, -3, 5, 1])
                step = [op, m]
                new = [m * c for c in new]
            if max(abs(c) for c in new) > 12:
                continue  # keeps constants of a readable size
            if any(sum(c * nt[i] for c, nt in zip(new, nets)) for i in range(len(keys))):
                coeff = new
                steps.append(step)
                break
            # an all-zero net is refused by the Equilibrium constructor ("no effect"): not part of the property
    return dict(operands=operands, steps=steps)


def run_history(case):
    """Replays the history on real Equilibrium objects, checking after every step."""
    from chempy import Equilibrium
    import sympy
    operands = case["operands"]
    keys = sorted(set(k for e in operands for k, _ in e["reac"] + e["prod"]))
    nets = [_net(e, keys) for e in operands]
    eqs = [_mk_eq(e) for e in operands]
    coeff = [0] * len(eqs)
    acc = None
    syms = sorted(set(e["param"][1] for e in operands if e["param"] and e["param"][0] == "sym"))
    assignments = [{s: Fraction(p) for s, p in zip(syms, _PRIMES)},
                   {s: Fraction(p + 1, 3) for s, p in zip(syms, reversed(_PRIMES))}]
    for si, step in enumerate(case["steps"]):
        prev = acc
        op = step[0]
        try:
            if op == "start":
                acc = eqs[step[1]]
                coeff[step[1]] = 1
            elif op == "add":
                acc = acc + step[2] * eqs[step[1]]
                coeff[step[1]] += step[2]
            elif op == "sub":
                acc = acc - step[2] * eqs[step[1]]
                coeff[step[1]] -= step[2]
            elif op == "radd":
                acc = step[2] * eqs[step[1]] + acc
                coeff[step[1]] += step[2]
            elif op == "rsub":
                acc = eqs[step[1]] * step[2] - acc
                coeff = [-c for c in coeff]
                coeff[step[1]] += step[2]
            elif op == "neg":
                acc = -acc
                coeff = [-c for c in coeff]
            elif op == "scale":
                acc = step[1] * acc
                coeff = [step[1] * c for c in coeff]
            elif op == "rscale":
                acc = acc * step[1]
                coeff = [step[1] * c for c in coeff]
            elif op == "sscale":
                acc = sympy.Integer(step[1]) * acc
                coeff = [step[1] * c for c in coeff]
            else:
                raise ValueError(op)
        except Exception as e:  # code under test
            return False, "step %d %s raised %s: %s" % (si, step, type(e).__name__, e)
        where = "after step %d %s (combination %s): " % (si, step, coeff)
        if not isinstance(acc, Equilibrium):
            return False, where + "result is a %s" % type(acc).__name__
        exp_net = [sum(c * nt[i] for c, nt in zip(coeff, nets)) for i in range(len(keys))]
        got_net = list(acc.net_stoich(keys))
        if got_net != exp_net:
            return False, where + "net stoichiometry over %s is %s, expected %s" % (keys, got_net, exp_net)
        extra = set(acc.keys()) - set(keys)
        if extra:
            return False, where + "foreign species %s" % sorted(extra)
        for side in ("reac", "prod"):
            for k, v in getattr(acc, side).items():
                if not _is_pos_int(v):
                    return False, where + "listed coefficient %s[%s] = %r is not a positive integer" % (side, k, v)
        if acc.inact_reac or acc.inact_prod:
            return False, where + "inactive parts appeared: %s %s" % (dict(acc.inact_reac), dict(acc.inact_prod))
        if op in ("add", "sub", "radd", "rsub"):
            both = set(acc.reac) & set(acc.prod)
            if both:
                return False, where + "sum not netted, %s on both sides: %s" % (sorted(both), acc)
            exp_r = {k: -n for k, n in zip(keys, exp_net) if n < 0}
            exp_p = {k: n for k, n in zip(keys, exp_net) if n > 0}
            if dict(acc.reac) != exp_r or dict(acc.prod) != exp_p:
                return False, where + "sides %s / %s, expected %s / %s" % (dict(acc.reac), dict(acc.prod), exp_r, exp_p)
        elif op in ("neg", "scale", "rscale", "sscale"):
            m = -1 if op == "neg" else step[1]
            src_r, src_p = (prev.reac, prev.prod) if m > 0 else (prev.prod, prev.reac)
            exp_r = {k: abs(m) * v for k, v in src_r.items()}
            exp_p = {k: abs(m) * v for k, v in src_p.items()}
            if dict(acc.reac) != exp_r or dict(acc.prod) != exp_p:
                return False, where + "scaled sides %s / %s, expected %s / %s" % (dict(acc.reac), dict(acc.prod), exp_r, exp_p)
        # constant
        if operands[0]["param"] is None:
            if acc.param is not None:
                return False, where + "constant %r from operands without constants" % (acc.param,)
        else:
            for a in assignments:
                exp = Fraction(1)
                for c, e in zip(coeff, operands):
                    exp *= _param_value(e["param"], a) ** c
                try:
                    got = _observed_value(acc.param, a)
                except TypeError as e:
                    return False, where + str(e)
                if got != exp:
                    return False, where + "constant %s evaluates to %s at %s, expected prod K_i**c_i = %s" % (
                        acc.param, got, {k: str(v) for k, v in a.items()}, exp)
    return True, "final %s ; K = %s" % (acc, acc.param)


# ----------------------------------------------------------------------------------------------
# 2. eliminate
def _elim_eq(v, other, both=0):
    """Equilibrium (JSON) with net stoichiometry v of species X, `both` extra X on each side."""
    reac, prod = {other: 1}, {}
    if v < 0:
        reac["X"] = -v + both
        if both:
            prod["X"] = both
        prod[other + "'"] = 1
    else:
        prod["X"] = v + both
        if both:
            reac["X"] = both
    return dict(reac=sorted(reac.items()), prod=sorted(prod.items()), param=None)


def run_eliminate(case):
    from chempy import Equilibrium
    v0, v1 = case["v0"], case["v1"]
    e0 = _elim_eq(v0, "P", case.get("both0", 0))
    e1 = _elim_eq(v1, "Q", case.get("both1", 0))
    if case.get("param"):
        e0["param"], e1["param"] = case["param"]
    q0, q1 = _mk_eq(e0), _mk_eq(e1)
    try:
        ms = Equilibrium.eliminate([q0, q1], "X")
    except Exception as e:
        return False, "eliminate raised %s: %s" % (type(e).__name__, e)
    try:
        m0, m1 = ms
    except Exception:
        return False, "eliminate returned %r, expected two multipliers" % (ms,)
    for m in (m0, m1):
        is_int = isinstance(m, int) or getattr(m, "is_integer", False) is True
        if not is_int or isinstance(m, bool):
            return False, "multiplier %r (%s) is not an integer" % (m, type(m).__name__)
        if int(m) == 0:
            return False, "multiplier 0 returned: %r" % (ms,)
    if int(m0) * v0 + int(m1) * v1 != 0:
        return False, "multipliers %s do not eliminate: %d*%d + %d*%d != 0" % (ms, int(m0), v0, int(m1), v1)
    # the real combination (constants only when they stay small)
    try:
        comb = m0 * q0 + m1 * q1
    except Exception as e:
        return False, "%s*e0 + %s*e1 raised %s: %s" % (m0, m1, type(e).__name__, e)
    if "X" in comb.reac or "X" in comb.prod or "X" in comb.keys():
        return False, "combination %s still lists X" % comb
    if case.get("param"):
        k0, k1 = (Fraction(p[1], p[2]) for p in case["param"])
        exp = k0 ** int(m0) * k1 ** int(m1)
        if _observed_value(comb.param, {}) != exp:
            return False, "constant of the combination is %s, expected %s" % (comb.param, exp)
    return True, "multipliers %s" % (ms,)


# ----------------------------------------------------------------------------------------------
# 3. cancel
def _cancel_eqs(case):
    """e1 has nets (a1, b1) in species S, T and a private species; e2 nets (a2, b2), a2, b2 != 0."""
    def side(nets, priv):
        reac, prod = {}, {}
        for k, v in nets.items():
            if v < 0:
                reac[k] = -v
            elif v > 0:
                prod[k] = v
        (reac if len(reac) <= len(prod) else prod)[priv] = 1
        if not reac:
            reac[priv + "r"] = 1
        if not prod:
            prod[priv + "p"] = 1
        return dict(reac=sorted(reac.items()), prod=sorted(prod.items()), param=None)
    n1 = {"S": case["a1"], "T": case["b1"]}
    n2 = {"S": case["a2"], "T": case["b2"]}
    e1 = side(n1, "U")
    # e2 has exactly the species S and T (cancel looks at every species of rxn)
    reac = {k: -v for k, v in n2.items() if v < 0}
    prod = {k: v for k, v in n2.items() if v > 0}
    e2 = dict(reac=sorted(reac.items()), prod=sorted(prod.items()), param=None)
    return e1, e2


def _trunc(fr):
    return int(fr) if fr >= 0 else -int(-fr)


def run_cancel(case):
    if "e1" in case:
        e1, e2 = case["e1"], case["e2"]
    else:
        e1, e2 = _cancel_eqs(case)
    q1, q2 = _mk_eq(e1), _mk_eq(e2)
    keys2 = sorted(set(k for k, _ in e2["reac"] + e2["prod"]))
    v1 = _net(e1, keys2)
    v2 = _net(e2, keys2)
    assert all(v2), "generator must not produce net-zero species in rxn"
    try:
        m = q1.cancel(q2)
    except Exception as e:
        return False, "cancel raised %s: %s" % (type(e).__name__, e)
    if not (isinstance(m, int) or getattr(m, "is_integer", False) is True):
        return False, "cancel returned %r (%s), not an integer" % (m, type(m).__name__)
    m = int(m)
    cands = [_trunc(Fraction(-a, b)) for a, b in zip(v1, v2)]
    mag = min(abs(c) for c in cands)
    if abs(m) != mag or m not in cands:
        return False, "cancel = %d, expected magnitude %d from candidates %s (nets %s vs %s over %s)" % (
            m, mag, cands, v1, v2, keys2)
    # semantic reading: adding m*rxn never pushes a species of rxn through zero ...
    for k, a, b in zip(keys2, v1, v2):
        after = a + m * b
        if a * after < 0 or (a == 0 and after != 0):
            return False, "adding %d*rxn flips %s from %d to %d" % (m, k, a, after)
    # ... and, when m != 0, one more step in the same direction would.  (For m == 0 no maximality is
    # claimed: with candidates of mixed direction the docstring does not say which one is meant.)
    for step in ([1 if m > 0 else -1] if m else []):
        mm = m + step
        if not any(a * (a + mm * b) < 0 or (a == 0 and mm * b != 0) for a, b in zip(v1, v2)):
            return False, "%d*rxn could still be added without overshooting (cancel returned %d)" % (mm, m)
    # the real combination agrees with the bookkeeping
    if m != 0:
        allk = sorted(set(keys2) | set(k for k, _ in e1["reac"] + e1["prod"]))
        exp = [a + m * b for a, b in zip(_net(e1, allk), _net(e2, allk))]
        if any(exp):
            try:
                comb = q1 + m * q2
            except Exception as e:
                return False, "e1 + %d*e2 raised %s: %s" % (m, type(e).__name__, e)
            if list(comb.net_stoich(allk)) != exp:
                return False, "e1 + %d*e2 has net %s, expected %s" % (m, comb.net_stoich(allk), exp)
    return True, "cancel = %d" % m


# ----------------------------------------------------------------------------------------------
# 4. as_reactions
def gen_asrxn(rnd):
    while True:
        reac = {k: rnd.randint(1, 3) for k in rnd.sample(SPECIES, rnd.randint(1, 3))}
        prod = {k: rnd.randint(1, 3) for k in rnd.sample(SPECIES, rnd.randint(1, 3))}
        inact_r = {k: rnd.randint(1, 2) for k in rnd.sample(SPECIES, rnd.choice([0, 0, 1]))}
        inact_p = {k: rnd.randint(1, 2) for k in rnd.sample(SPECIES, rnd.choice([0, 0, 1]))}
        # the constructor refuses an equilibrium whose net effect (inactive parts included) is zero
        if any(prod.get(k, 0) + inact_p.get(k, 0) - reac.get(k, 0) - inact_r.get(k, 0) for k in SPECIES):
            break
    return dict(reac=sorted(reac.items()), prod=sorted(prod.items()),
                inact_reac=sorted(inact_r.items()), inact_prod=sorted(inact_p.items()),
                K=[rnd.randint(1, 99), rnd.randint(1, 99)], rate=[rnd.randint(1, 99), rnd.randint(1, 99)],
                given=rnd.choice(["kf", "kb", "kf", "kb", "both", "neither", "pair"]),
                units=rnd.random() < 0.25)


def run_asrxn(case):
    from chempy import Equilibrium, Reaction
    K = Fraction(*case["K"])
    rate = Fraction(*case["rate"])
    reac, prod = dict(case["reac"]), dict(case["prod"])
    ir, ip = dict(case["inact_reac"]), dict(case["inact_prod"])
    nf, nb = sum(reac.values()), sum(prod.values())
    given = case["given"]
    units = None
    kw = {}
    if case["units"] and given in ("kf", "kb"):
        from chempy.units import default_units as u, to_unitless
        units = u
        order = nf if given == "kf" else nb
        ratev = float(rate) * u.molar ** (1 - order) / u.second
        kw["units"] = u
        Kobj = float(K)
    else:
        ratev = rate
        Kobj = K
    if given == "pair":
        Kobj = (rate, rate / K)
    try:
        eq = Equilibrium(reac, prod, Kobj, inact_reac=ir, inact_prod=ip, name="eqname")
    except Exception as e:
        return False, "constructing the equilibrium raised %s: %s" % (type(e).__name__, e)
    try:
        if given == "kf":
            fw, bw = eq.as_reactions(kf=ratev, new_name="newname", **kw)
        elif given == "kb":
            fw, bw = eq.as_reactions(kb=ratev, new_name="newname", **kw)
        elif given == "both":
            fw, bw = eq.as_reactions(kf=rate, kb=rate)
        else:
            fw, bw = eq.as_reactions()
        exc = None
    except Exception as e:
        exc = e
    if given in ("both", "neither"):
        if exc is None:
            return False, "as_reactions with %s rate constants given returned instead of raising ValueError" % given
        if not isinstance(exc, ValueError):
            return False, "as_reactions with %s rate constants raised %s: %s" % (given, type(exc).__name__, exc)
        return True, "refused"
    if exc is not None:
        return False, "as_reactions raised %s: %s" % (type(exc).__name__, exc)
    for r in (fw, bw):
        if not isinstance(r, Reaction) or isinstance(r, Equilibrium):
            return False, "as_reactions returned a %s" % type(r).__name__
    if (dict(fw.reac), dict(fw.prod), dict(fw.inact_reac), dict(fw.inact_prod)) != (reac, prod, ir, ip):
        return False, "forward reaction %s differs from the equilibrium's sides" % fw
    if (dict(bw.reac), dict(bw.prod), dict(bw.inact_reac), dict(bw.inact_prod)) != (prod, reac, ip, ir):
        return False, "backward reaction %s is not the equilibrium reversed (inactive parts included)" % bw
    kf, kb = fw.param, bw.param
    if units is None:
        if given == "kf" and kf != rate or given == "kb" and kb != rate:
            return False, "the given rate constant was changed: kf=%s kb=%s" % (kf, kb)
        # chempy multiplies by c0**(nb - nf) with c0 = 1, which is the float 1.0 for a negative exponent,
        # so the derived rate may be a float: exact when both are Fractions, else relative tolerance 1e-12
        ratio = Fraction(kf) / Fraction(kb)
        exact = isinstance(kf, (int, Fraction)) and isinstance(kb, (int, Fraction))
        if (ratio != K) if exact else (abs(float(ratio / K) - 1) > 1e-12):
            return False, "kf/kb = %s, expected K = %s (%s)" % (ratio, K, "exact" if exact else "rel. tol 1e-12")
    else:
        ratio = float(to_unitless(kf / kb, units.molar ** (nb - nf)))
        if abs(ratio / float(K) - 1) > 1e-9:
            return False, "kf/kb = %r M^%d, expected K = %r (rel. tol 1e-9)" % (ratio, nb - nf, float(K))
    if given != "pair":
        names = (fw.name, bw.name)
        exp_names = ("newname", "eqname") if given == "kf" else ("eqname", "newname")
        if names != exp_names:
            return False, "names %s, expected %s" % (names, exp_names)
    return True, "kf=%s kb=%s" % (kf, kb)


# ----------------------------------------------------------------------------------------------
RUNNERS = dict(histories=run_history, eliminate_grid=run_eliminate, eliminate_random=run_eliminate,
               cancel_grid=run_cancel, cancel_random=run_cancel, as_reactions=run_asrxn)


def _work(job):
    name, case = job
    holds, detail = RUNNERS[name](case)
    return name, case, holds, detail


def _key(case):
    return json.dumps(case, sort_keys=True)


def run(tier, seed):
    import chempy, sympy  # noqa: before forking
    rnd = random.Random(7919 * seed + 11)
    quick = tier == "quick"
    jobs = []
    # histories
    nh = 4000 if quick else 60000
    seen = set()
    for _ in range(nh):
        c = gen_history(rnd)
        k = _key(c)
        if k not in seen and len(c["steps"]) > 1:
            seen.add(k)
            jobs.append(("histories", c))
    # eliminate: exhaustive over v0, v1 in [-60, 60] \ {0}
    rng = [v for v in range(-60, 61) if v]
    for v0, v1 in product(rng, rng):
        jobs.append(("eliminate_grid", dict(v0=v0, v1=v1)))
    n_extra = 600 if quick else 6000
    for _ in range(n_extra):  # X on both sides of an operand; exact constants for small multipliers
        v0, v1 = rnd.choice(rng[48:72]), rnd.choice(rng[48:72])
        c = dict(v0=v0, v1=v1, both0=rnd.randint(0, 3), both1=rnd.randint(0, 3))
        if abs(v0) <= 4 and abs(v1) <= 4:
            c["param"] = [["frac", rnd.randint(1, 9), rnd.randint(1, 9)], ["frac", rnd.randint(1, 9), rnd.randint(1, 9)]]
        jobs.append(("eliminate_random", c))
    # cancel: exhaustive nets a1, b1 in [-7, 7], a2, b2 in [-7, 7] \ {0}
    r1 = range(-7, 8)
    r2 = [v for v in range(-7, 8) if v]
    for a1, b1, a2, b2 in product(r1, r1, r2, r2):
        jobs.append(("cancel_grid", dict(a1=a1, b1=b1, a2=a2, b2=b2)))
    for _ in range(400 if quick else 8000):  # random equilibria with 1..3 shared species, larger coefficients
        ks = rnd.sample(SPECIES, rnd.randint(1, 3))
        n2 = {k: rnd.choice([-1, 1]) * rnd.randint(1, 9) for k in ks}
        n1 = {k: rnd.randint(-30, 30) for k in ks}
        n1[rnd.choice([s for s in SPECIES if s not in ks])] = rnd.choice([-2, -1, 1, 3])

        def js(n):
            reac = {k: -v for k, v in n.items() if v < 0}
            prod = {k: v for k, v in n.items() if v > 0}
            return dict(reac=sorted(reac.items()), prod=sorted(prod.items()), param=None)
        if len([1 for v in n2.values() if v]) and any(n1.values()):
            e1, e2 = js(n1), js(n2)
            if (e1["reac"] or e1["prod"]):
                jobs.append(("cancel_random", dict(e1=e1, e2=e2)))
    # as_reactions
    for _ in range(600 if quick else 10000):
        jobs.append(("as_reactions", gen_asrxn(rnd)))

    ctx = mp.get_context("fork")
    with ctx.Pool(16) as pool:
        results = pool.map(_work, jobs, chunksize=64)

    meta = dict(
        histories=dict(
            rule="random histories: 2..4 operand equilibria over 8 species (coefficients 1..4, 30% with a species on "
                 "both sides of one operand, none with inactive parts), constants all Fraction / all sympy "
                 "(positive symbols or Rationals) / all None; 1..6 operations from {acc+n*e, acc-n*e, n*e+acc, "
                 "e*n-acc, m*acc, acc*m, sympy.Integer(m)*acc, -acc}, n, m non-zero integers (0 is refused by the "
                 "constructor's any-effect check, as is an all-zero net: such steps are not generated). Checked "
                 "after every step: net == integer combination, listed coefficients positive integers, sums netted "
                 "with exactly the non-zero species, scalings |m| times the operand with sides swapped for m<0, "
                 "constant == product K_i**c_i exactly.",
            bound="<= 4 operands, <= 6 operations, |combination coefficient| <= 12", exhaustive=False),
        eliminate_grid=dict(
            rule="every pair of net coefficients v0, v1 in [-60, 60] \\ {0} of the species X in two equilibria "
                 "X-side/P and X-side/Q (X a reactant for v<0, a product for v>0): the multipliers are non-zero "
                 "integers, m0*v0 + m1*v1 == 0, and the real m0*e0 + m1*e1 lists no X.",
            bound="|v0|, |v1| <= 60: all 14400 pairs", exhaustive=True),
        eliminate_random=dict(
            rule="random pairs |v| <= 12 with up to 3 extra X on both sides of an operand (net unchanged) and, for "
                 "|v| <= 4, exact Fraction constants: as above, and the combination has constant K0**m0 * K1**m1.",
            bound="|v| <= 12, <= 3 extra on both sides", exhaustive=False),
        cancel_grid=dict(
            rule="e1.cancel(e2) for every net pair (a1, b1) in [-7, 7]^2 of e1 and (a2, b2) in ([-7, 7] \\ {0})^2 of e2 "
                 "in two shared species (e1 has a private species besides): result == Fraction-truncated -v1/v2 of "
                 "least magnitude, adding it flips the sign of no species of e2, for a non-zero result one more step "
                 "would; the real e1 + m*e2 has the predicted net. (A species of e2 with zero net, which makes cancel "
                 "divide by zero, is outside the grid.)",
            bound="nets in [-7, 7]: all 44100 combinations", exhaustive=True),
        cancel_random=dict(
            rule="the same checks on random equilibria with 1..3 shared species, nets of e1 up to 30, of e2 up to 9.",
            bound="<= 3 shared species, |net| <= 30", exhaustive=False),
        as_reactions=dict(
            rule="random equilibria with inactive parts, K and the given rate Fractions in (1..99)/(1..99); kf given / "
                 "kb given / both / neither / K a (kf, kb) pair; 25% with chempy.units (K a float, rate with units, "
                 "relative tolerance 1e-9 on kf/kb): sides and inactive parts swapped for the backward reaction, the "
                 "given rate unchanged, kf/kb == K (exactly when both stay Fractions, else rel. tol 1e-12), names assigned, both or neither -> ValueError.",
            bound="<= 3 species per side, coefficients <= 3", exhaustive=False),
    )
    out = {}
    for name, m in meta.items():
        out[name] = dict(name=name, evaluations=0, distinct=0, samples=[], violations=[], **m)
    dseen = set()
    for name, case, holds, detail in results:
        g = out[name]
        g["evaluations"] += 1
        k = (name, _key(case))
        if k not in dseen:
            dseen.add(k)
            g["distinct"] += 1
        if holds and len(g["samples"]) < 3:
            g["samples"].append(dict(inputs=case, observed=detail))
        if not holds:
            g["violations"].append(dict(inputs=case, detail=detail))
    for g in out.values():
        g["violations"].sort(key=lambda v: _key(v["inputs"]))
        g["violations"] = g["violations"][:200] if len(g["violations"]) > 200 else g["violations"]
    return {"standins": list(out.values())}


def replay(case):
    return RUNNERS[case["name"]](case["inputs"])
