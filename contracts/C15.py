"""C15  Structural queries on a reaction system match its reaction graph."""
from collections import OrderedDict

from pyvc.api import harness
from pyvc import spec as SP

META = {
    "explanation": "upper_conc_bounds (element totals, least ratio, charge skipped, inf without elements; no non-negative state with the same totals exceeds it), identify_equilibria, substance_participation, per_reaction_effect_on_substance, categorize_substances, subset, +, +=, ==, the per-substance conversions and the constructor's duplicate/key checks are proved for every coefficient/composition/concentration at fixed key layouts; split() and the key-structure of all queries are covered by the exhaustive bounded enumeration (all systems of <=4 reactions over <=5 substances in every order)",
    "trusted_base": ["numpy object arrays store/return elements and apply operators elementwise (5.2)"],
    "not_decided": ["split() for arbitrary graphs as a proof (bounded: exhaustive small systems + random larger ones)", "decompose_yields (lstsq)"],
    "assumptions": ["key layouts fixed per harness (shape-bounded)"],
}
RS = "chempy.reactionsystem"
NAMES = ["A", "B", "C", "D"]
COMP_KEYS = {"A": (1, 8), "B": (0, 1), "C": (0, 1, 8), "D": ()}


def mk_substances(v):
    from chempy.chemistry import Substance
    comp = {}
    out = OrderedDict()
    for n in NAMES:
        comp[n] = {k: v.int("%s_%d" % (n, k), lo=(-3 if k == 0 else 1), hi=4) for k in COMP_KEYS[n]}
        out[n] = Substance(n, composition=dict(comp[n]))
    return out, comp


@harness("C15", "upper_conc_bounds", functions=[RS + ":ReactionSystem.upper_conc_bounds"], kind="shape-bounded", div_mode="assume", samples=40)
def _(v):
    from chempy.reactionsystem import ReactionSystem
    subst, comp = mk_substances(v)
    conc = {n: v.real("c_" + n, lo=0, hi=10) for n in NAMES}
    rsys = ReactionSystem([], subst, checks=())
    if v.symbolic:
        v.contract(ReactionSystem.as_per_substance_array, "as_per_substance_array", None, lambda v_, self, cont, **kw: [cont[k] for k in self.substances])
    b = v.call(rsys.upper_conc_bounds, conc)
    total = {k: sum(comp[n].get(k, 0) * conc[n] for n in NAMES) for k in (1, 8)}
    v.prove("length_and_order", len(b) == 4)
    for i, n in enumerate(NAMES):
        elems = [k for k in comp[n] if k != 0]
        if not elems:
            v.prove("no_elements_is_inf", b[i] == float("inf"))
            continue
        ratios = [total[k] / comp[n][k] for k in elems]
        v.prove("bound_%s.is_a_ratio" % n, SP.disj([v.eq(b[i], r) for r in ratios]))
        v.prove("bound_%s.is_least" % n, SP.conj([b[i] <= r + (0 if v.symbolic else 1e-12) for r in ratios]))
    if v.symbolic:
        # no non-negative state with the same element totals exceeds the bound
        alt = {n: v.real("alt_" + n, lo=0) for n in NAMES}
        v.assume(SP.conj([sum(comp[n].get(k, 0) * alt[n] for n in NAMES) == total[k] for k in (1, 8)]))
        for i, n in enumerate(NAMES):
            if [k for k in comp[n] if k != 0]:
                v.prove_nl("bound_%s.dominates_every_state_with_same_totals" % n, alt[n] <= b[i])


LAYOUTS = [(["A", "B"], ["C"], [], []), (["C"], ["A", "B"], [], []), (["A"], ["D"], ["B"], ["B"]), (["C"], ["A", "B"], [], [])]


def mk_rxns(v, layouts=LAYOUTS, names=None):
    from chempy.chemistry import Reaction
    rxns, ds = [], []
    for i, (reac, prod, ireac, iprod) in enumerate(layouts):
        mk = lambda side, ks: {k: v.int("r%d_%s_%s" % (i, side, k), lo=1, hi=2) for k in ks}
        d = [mk("r", reac), mk("p", prod), mk("ir", ireac), mk("ip", iprod)]
        rxns.append(Reaction(dict(d[0]), dict(d[1]), None, dict(d[2]) or None, dict(d[3]) or None, name=(names[i] if names else None), checks=()))
        ds.append(d)
    return rxns, ds


def all_reac(d, k):
    return d[0].get(k, 0) + d[2].get(k, 0)


def all_prod(d, k):
    return d[1].get(k, 0) + d[3].get(k, 0)


def net(d, k):
    return all_prod(d, k) - all_reac(d, k)


def plain_substances():
    from chempy.chemistry import Substance
    return OrderedDict((n, Substance(n)) for n in NAMES)


@harness("C15", "identify_equilibria", functions=[RS + ":ReactionSystem.identify_equilibria"], kind="shape-bounded", samples=60)
def _(v):
    from chempy.reactionsystem import ReactionSystem
    rxns, ds = mk_rxns(v)
    rsys = ReactionSystem(rxns, plain_substances(), checks=())
    eq = v.call(rsys.identify_equilibria)

    def reverse(i, j):
        return SP.conj([SP.conj([all_reac(ds[i], k) == all_prod(ds[j], k), all_prod(ds[i], k) == all_reac(ds[j], k)]) for k in NAMES])
    n = len(rxns)
    for i in range(n):
        for j in range(i + 1, n):
            first = SP.conj([reverse(i, j)] + [SP.neg(reverse(i, m)) for m in range(i + 1, j)])
            v.prove("pair_%d_%d_listed_iff_first_reverse_partner" % (i, j), SP.iff((i, j) in eq, first))
    v.prove("only_ordered_pairs", all(a < b_ for a, b_ in eq))
    v.prove("sorted_by_first_index", [a for a, _ in eq] == sorted(a for a, _ in eq))


@harness("C15", "participation_and_effect", functions=[RS + ":ReactionSystem.substance_participation", RS + ":ReactionSystem.per_reaction_effect_on_substance", "chempy.chemistry:Reaction.keys"],
         kind="shape-bounded", samples=30)
def _(v):
    from chempy.reactionsystem import ReactionSystem
    rxns, ds = mk_rxns(v)
    rsys = ReactionSystem(rxns, plain_substances(), checks=())
    for k in NAMES:
        exp = [i for i, (r, p, ir, ip) in enumerate(LAYOUTS) if k in r + p + ir + ip]
        v.prove("participation_" + k, v.call(rsys.substance_participation, k) == exp)
        eff = v.call(rsys.per_reaction_effect_on_substance, k)
        v.prove("effect_%s.values" % k, SP.conj([SP.implies(SP.neg(net(d, k) == 0), SP.conj([(i in eff), eff.get(i, 0) == net(d, k)])) for i, d in enumerate(ds)]))
        v.prove("effect_%s.only_nonzero" % k, SP.conj([SP.implies(net(d, k) == 0, i not in eff) for i, d in enumerate(ds)]))


@harness("C15", "categorize_substances", functions=[RS + ":ReactionSystem.categorize_substances", RS + ":ReactionSystem._stoichs"], kind="shape-bounded", samples=60)
def _(v):
    from chempy.reactionsystem import ReactionSystem
    from chempy.chemistry import Substance
    names = NAMES + ["E"]
    lay = [(["A", "B"], ["C"], [], []), (["A"], ["D"], ["B"], ["B"]), (["C"], ["D"], [], [])]
    rxns, ds = mk_rxns(v, lay)
    rsys = ReactionSystem(rxns, OrderedDict((n, Substance(n)) for n in names), checks=())
    cat = v.call(rsys.categorize_substances, checks=())
    for k in names:
        nets = [net(d, k) for d in ds]
        appears = SP.disj([all_prod(d, k) > 0 for d in ds] + [all_reac(d, k) > 0 for d in ds])
        in_r = SP.disj([x < 0 for x in nets])
        in_p = SP.disj([x > 0 for x in nets])
        v.prove(k + ".accumulated_iff_only_net_produced", SP.iff(k in cat["accumulated"], SP.conj([in_p, SP.neg(in_r)])))
        v.prove(k + ".depleted_iff_only_net_consumed", SP.iff(k in cat["depleted"], SP.conj([in_r, SP.neg(in_p)])))
        v.prove(k + ".unaffected_iff_present_with_zero_net", SP.iff(k in cat["unaffected"], SP.conj([SP.neg(in_r), SP.neg(in_p), appears])))
        v.prove(k + ".nonparticipating_iff_absent", SP.iff(k in cat["nonparticipating"], SP.conj([SP.neg(in_r), SP.neg(in_p), SP.neg(appears)])))
    v.prove("keys", set(cat) == {"accumulated", "depleted", "unaffected", "nonparticipating"})


@harness("C15", "subset_add_eq", functions=[RS + ":ReactionSystem.subset", RS + ":ReactionSystem.__add__", RS + ":ReactionSystem.__iadd__", RS + ":ReactionSystem.__eq__"], kind="shape-bounded", samples=30)
def _(v):
    from chempy.reactionsystem import ReactionSystem
    rxns, ds = mk_rxns(v)
    rsys = ReactionSystem(rxns, plain_substances(), checks=())
    thr = v.int("threshold", lo=1, hi=3)
    pred = lambda r: r.reac.get("A", 0) + r.prod.get("A", 0) >= thr
    yes, no = v.call(rsys.subset, pred)
    # partition of the reactions by the predicate, order kept
    for i, (rxn, d) in enumerate(zip(rxns, ds)):
        p = d[0].get("A", 0) + d[1].get("A", 0) >= thr
        v.prove("r%d_in_yes_iff_pred" % i, SP.iff(any(x is rxn for x in yes.rxns), p))
        v.prove("r%d_in_exactly_one" % i, any(x is rxn for x in yes.rxns) != any(x is rxn for x in no.rxns))
    v.prove("order_kept", [id(x) for x in yes.rxns] == [id(x) for x in rxns if any(x is y for y in yes.rxns)])
    v.prove("substances_restricted", all(any(k in r.keys() for r in yes.rxns) for k in yes.substances) and
            all((k in yes.substances) for r in yes.rxns for k in r.keys()))
    s = v.call(yes.__add__, no)
    v.prove("sum_has_all_reactions", [id(x) for x in s.rxns] == [id(x) for x in yes.rxns + no.rxns])
    v.prove("sum_merges_substances", set(s.substances) == set(yes.substances) | set(no.substances))
    v.prove("eq_reflexive", v.call(rsys.__eq__, rsys) is True)
    other = ReactionSystem(list(rxns), plain_substances(), checks=())
    v.prove("eq_same_content", bool(v.call(rsys.__eq__, other)))
    shorter = ReactionSystem(list(rxns[:-1]), plain_substances(), checks=())
    v.prove("neq_different_reactions", not v.call(rsys.__eq__, shorter))
    acc = ReactionSystem(list(rxns[:2]), plain_substances(), checks=())
    v.call(acc.__iadd__, ReactionSystem(list(rxns[2:]), plain_substances(), checks=()))
    v.prove("iadd_appends", [id(x) for x in acc.rxns] == [id(x) for x in rxns])


@harness("C15", "conversions", functions=[RS + ":ReactionSystem.as_per_substance_array", RS + ":ReactionSystem.as_per_substance_dict", RS + ":ReactionSystem.as_substance_index"], kind="data")
def _(v):
    import numpy as np
    from chempy.reactionsystem import ReactionSystem
    rsys = ReactionSystem([], plain_substances(), checks=())
    d = {"C": 3.0, "A": 1.0, "D": 4.0, "B": 2.0}
    arr = rsys.as_per_substance_array(d)
    v.prove("array_in_substance_order", arr.tolist() == [1.0, 2.0, 3.0, 4.0])
    v.prove("dict_round_trip", rsys.as_per_substance_dict(arr) == {"A": 1.0, "B": 2.0, "C": 3.0, "D": 4.0} and list(rsys.as_per_substance_dict(arr)) == NAMES)
    v.prove("index", [rsys.as_substance_index(k) for k in NAMES] == [0, 1, 2, 3] and rsys.as_substance_index(2) == 2)
    for bad, nm in ((dict(d, X=1.0), "unknown_key"),):
        try:
            rsys.as_per_substance_array(bad, raise_on_unk=True)
            ok = False
        except KeyError:
            ok = True
        v.prove(nm + "_raises", ok)
    try:
        rsys.as_per_substance_array([1.0, 2.0])
        ok = False
    except ValueError:
        ok = True
    v.prove("wrong_size_raises", ok)


@harness("C15", "constructor_checks", functions=[RS + ":ReactionSystem.check_duplicate", RS + ":ReactionSystem.check_duplicate_names", RS + ":ReactionSystem.check_substance_keys"],
         kind="shape-bounded", samples=40)
def _(v):
    from chempy.reactionsystem import ReactionSystem
    lay = [(["A", "B"], ["C"], [], []), (["A", "B"], ["C"], [], []), (["C"], ["D"], [], [])]
    rxns, ds = mk_rxns(v, lay, names=["n0", "n1", "n2"])
    rsys = ReactionSystem(rxns, plain_substances(), checks=())
    same01 = SP.conj([ds[0][s].get(k, 0) == ds[1][s].get(k, 0) for s in range(4) for k in NAMES])
    v.prove("duplicate_detected_iff_equal_stoichiometry", SP.iff(v.call(rsys.check_duplicate), SP.neg(same01)))
    out = v.run(rsys.check_duplicate, throw=True)
    if out.returned:
        v.prove("no_throw_without_duplicate", SP.neg(same01))
    else:
        v.prove("throws_ValueError_on_duplicate", SP.conj([out.raised(ValueError), same01]), detail=repr(out.exc))
    v.prove("names_unique", v.call(rsys.check_duplicate_names) is True)
    rxns2, _ = mk_rxns(v, lay, names=["n0", None, "n0"])
    r2 = ReactionSystem(rxns2, plain_substances(), checks=())
    v.prove("duplicate_name_detected", v.call(r2.check_duplicate_names) is False)
    v.prove("duplicate_name_throws", v.run(r2.check_duplicate_names, throw=True).raised(ValueError))
    v.prove("keys_known", v.call(rsys.check_substance_keys) is True)
    from chempy.chemistry import Substance
    r3 = ReactionSystem(rxns, OrderedDict((n, Substance(n)) for n in "ABC"), checks=())
    v.prove("unknown_key_detected", v.call(r3.check_substance_keys) is False)
    v.prove("unknown_key_throws", v.run(r3.check_substance_keys, throw=True).raised(ValueError))


@harness("C15", "categorize_substances.fractional_coefficients", functions=["chempy.reactionsystem:ReactionSystem.categorize_substances"], kind="data")
def _(v):
    """coefficients need not be integers (Fraction / float, admitted with checks=() or dont_check={'all_integral'}): the four categories are still
    decided by the SIGN of what each reaction does to the species"""
    from fractions import Fraction as Fr
    from chempy.chemistry import Reaction, Substance
    from chempy.reactionsystem import ReactionSystem
    mk = lambda rxns, names: ReactionSystem(rxns, [Substance(n) for n in names], checks=())
    c = mk([Reaction({"H2O2": 1}, {"H2O": 1, "O2": 0.5}, checks=())], ["H2O2", "H2O", "O2", "N2"]).categorize_substances()
    v.prove("half_a_product", c == dict(accumulated={"H2O", "O2"}, depleted={"H2O2"}, unaffected=set(), nonparticipating={"N2"}), detail=repr(c))
    c = mk([Reaction({"A": 1, "C": Fr(3, 2)}, {"B": 1, "C": 1}, checks=())], ["A", "B", "C"]).categorize_substances()
    v.prove("net_consumption_of_half_a_catalyst", c == dict(accumulated={"B"}, depleted={"A", "C"}, unaffected=set(), nonparticipating=set()), detail=repr(c))
    c = mk([Reaction({"A": Fr(1, 3)}, {"B": Fr(1, 4)}, checks=()), Reaction({"B": 0.25, "D": 1}, {"A": Fr(1, 3), "D": 1.0}, checks=())], ["A", "B", "D"]).categorize_substances()
    v.prove("fractions_below_one", c == dict(accumulated=set(), depleted=set(), unaffected={"D"}, nonparticipating=set()), detail=repr(c))


@harness("C15", "definitions_on_written_systems", functions=["chempy.reactionsystem:ReactionSystem.per_substance_varied", "chempy.reactionsystem:ReactionSystem.concatenate", "chempy.reactionsystem:ReactionSystem.__eq__",
                                                           "chempy.reactionsystem:ReactionSystem.identify_equilibria", "chempy.reactionsystem:ReactionSystem.as_substance_index"], kind="data")
def _(v):
    """queries the symbolic harnesses do not reach, on small systems written out by hand: grids of varied concentrations (axes in substance order,
    whatever the order of the `varied` mapping), sums of systems with duplicates set aside, equality of systems, forward/backward pairs that differ
    only in their inactive parts"""
    import numpy as np
    from chempy.chemistry import Reaction, Substance
    from chempy.reactionsystem import ReactionSystem
    rs = ReactionSystem([Reaction({"A": 1}, {"B": 1}, checks=())], [Substance(k) for k in ("C", "A", "B")], checks=())
    base = {"A": 2.0, "B": 3.0, "C": 5.0}
    arr, keys = rs.per_substance_varied(base, {"B": [30.0, 31.0], "C": [50.0, 51.0, 52.0]})      # mapping order B, C; substance order C, A, B
    ok = keys == ("C", "B") and arr.shape == (3, 2, 3)
    if ok:
        for i, c in enumerate([50.0, 51.0, 52.0]):
            for j, b in enumerate([30.0, 31.0]):
                ok = ok and list(arr[i, j, :]) == [c, 2.0, b]
    v.prove("grid_axes_follow_substance_order_each_point_is_the_base_with_its_levels", ok, detail="%r %r" % (keys, getattr(arr, "shape", None)))
    arr1, keys1 = rs.per_substance_varied(base)
    v.prove("nothing_varied", keys1 == () and list(arr1) == [5.0, 2.0, 3.0])
    r1, r2, r3 = Reaction({"A": 1}, {"B": 1}, 1.0, checks=()), Reaction({"B": 1}, {"C": 1}, 2.0, checks=()), Reaction({"A": 1}, {"B": 1}, 9.0, checks=())
    s1 = ReactionSystem([r1], [Substance(k) for k in "AB"], checks=())
    s2 = ReactionSystem([r2, r3], [Substance(k) for k in "ABC"], checks=())
    tot, dup = ReactionSystem.concatenate([s1, s2])
    v.prove("sum_has_each_stoichiometry_once_duplicates_set_aside", [str(r) for r in tot.rxns] == ["A -> B; 1", "B -> C; 2"] and [str(r) for r in dup.rxns] == ["A -> B; 9"]
            and set(tot.substances) == {"A", "B", "C"}, detail="%r %r" % ([str(r) for r in tot.rxns], [str(r) for r in dup.rxns]))
    mk = lambda rxns, names: ReactionSystem(rxns, [Substance(k) for k in names], checks=())
    a = mk([Reaction({"A": 1}, {"B": 1}, 1.0, checks=()), Reaction({"B": 1}, {"C": 2}, 2.0, checks=())], "ABC")
    same = mk([Reaction({"A": 1}, {"B": 1}, 1.0, checks=()), Reaction({"B": 1}, {"C": 2}, 2.0, checks=())], "ABC")
    v.prove("equal_content_distinct_objects", a == same)
    differs = [mk([Reaction({"A": 1}, {"B": 1}, 1.0, checks=()), Reaction({"B": 1}, {"C": 3}, 2.0, checks=())], "ABC"),      # a coefficient
               mk([Reaction({"B": 1}, {"C": 2}, 2.0, checks=()), Reaction({"A": 1}, {"B": 1}, 1.0, checks=())], "ABC"),      # reaction order
               mk([Reaction({"A": 1}, {"B": 1}, 1.0, checks=())], "ABC"),                                                     # fewer reactions
               mk([Reaction({"A": 1}, {"B": 1}, 1.0, checks=()), Reaction({"B": 1}, {"C": 2}, 2.0, checks=())], "ABCD")]      # another substance
    v.prove("any_difference_makes_them_unequal", not any(a == d for d in differs))
    fw = Reaction({"A": 1}, {"B": 1}, inact_reac={"S": 1}, checks=())
    bw_swapped = Reaction({"B": 1}, {"A": 1}, inact_prod={"S": 1}, checks=())
    bw_not = Reaction({"B": 1}, {"A": 1}, inact_reac={"S": 1}, checks=())
    v.prove("reverse_pair_needs_the_inactive_parts_swapped_too", mk([fw, bw_swapped], "ABS").identify_equilibria() == [(0, 1)] and mk([fw, bw_not], "ABS").identify_equilibria() == [])
    idx = [rs.as_substance_index(k) for k in ("C", "A", "B")]
    v.prove("index_of_a_key_is_its_position", idx == [0, 1, 2])


@harness("C15", "per_substance_array_size", functions=["chempy.reactionsystem:ReactionSystem.as_per_substance_array", "chempy.reactionsystem:ReactionSystem.upper_conc_bounds"], kind="data")
def _(v):
    """'per-substance arrays … convert into each other in substance order': a container whose length is not the number of substances is no
    per-substance array and is refused (ValueError) whatever its type -- float arrays, integer arrays, lists, tuples -- so that the elemental
    bounds are never computed from a truncated state; a right-sized one comes back with the same numbers"""
    import numpy as np
    from chempy.reactionsystem import ReactionSystem
    rs = ReactionSystem.from_string("2 H2O2 -> 2 H2O + O2\nH2O -> H+ + OH-")
    n = rs.ns
    accepted = []
    for cont in (np.arange(n - 1, dtype=float), np.arange(n + 1, dtype=float), np.arange(n - 1), list(range(n + 2)), tuple(float(i) for i in range(n - 2)), np.zeros(0)):
        for fn in (rs.as_per_substance_array, rs.upper_conc_bounds):
            try:
                accepted.append((type(cont).__name__, len(cont), fn.__name__, repr(fn(cont))[:60]))
            except ValueError:
                pass
            except Exception as ex:
                accepted.append((type(cont).__name__, len(cont), fn.__name__, repr(ex)[:60]))
    v.prove("wrong_size_refused", not accepted, detail=repr(accepted[:3]))
    ok = all(list(rs.as_per_substance_array(c)) == [float(i) for i in range(n)] for c in (np.arange(n, dtype=float), np.arange(n), list(range(n)), tuple(range(n))))
    v.prove("right_size_same_numbers", ok)
    # the other direction: a sequence that is too short or too long is no per-substance sequence either (zip would silently drop the rest)
    took = []
    for seq in ([1.0], list(range(n - 1)), list(range(n + 1)), np.arange(n + 3, dtype=float), ()):
        try:
            took.append((len(seq), rs.as_per_substance_dict(seq)))
        except Exception:
            pass
    v.prove("dict_from_a_wrong_sized_sequence_refused", not took, detail=repr(took[:2]))
    vals = [7.5, 0.25, 3.0, 11.0, 2.0][:n]
    v.prove("dict_from_a_right_sized_sequence", rs.as_per_substance_dict(vals) == dict(zip(rs.substances, vals)) and
            list(rs.as_per_substance_array(rs.as_per_substance_dict(vals))) == vals)
