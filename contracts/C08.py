"""C08  Reported equilibrium compositions are genuine whenever the solver claims success."""
import math

from pyvc.api import harness
from pyvc import spec as SP
from pyvc.sym import Sym

META = {
    "explanation": "what chempy itself contributes to the claim is proved: _result_is_sane is exactly (all x >= 0) and (all x <= elemental bound*(1+rtol)) with the two warnings; root/_solve hand the solver x0 (default: the initial concentrations) and params = initial concentrations followed by the equilibrium constants, and report sanity of the RETURNED x against the SAME initial concentrations; the precipitation switches fire iff Q(1+rtol) < K (resp. Q > K(1+rtol)) on the dissolved state and switch back iff the solid drops below `small`; dissolved() zeroes the solid and moves every other species by -c_solid/nu_solid*net (so element totals are kept for a balanced reaction); each formulation's pre/post processors are inverse on the admissible domain. Soundness and convergence of the delegated root finders are outside any contract: bounded run-time contract (with the recorded findings F-C08/F-C08b).",
    "trusted_base": ["pyneqsys solvers are external: solve(x0, params) is modelled as returning arbitrary (x, {'success': b})", "numpy object arrays (5.2)", "contract of upper_conc_bounds (C15)"],
    "not_decided": ["success and sane => Q = K and conservation (depends on the external least-squares solver; known findings F-C08, F-C08b)", ">= 19/20 success rate, agreement with brentq: bounded only"],
    "assumptions": ["system shapes fixed per harness"],
}
EQ = "chempy.equilibria"


def _eqsys():
    from chempy.chemistry import Equilibrium, Species
    from chempy.equilibria import EqSystem
    from collections import OrderedDict
    subs = OrderedDict((k, Species.from_formula(k)) for k in ["H2O", "H+", "OH-", "NH4+", "NH3"])
    return EqSystem([Equilibrium({"H2O": 1}, {"H+": 1, "OH-": 1}, 1e-14 / 55.5), Equilibrium({"NH4+": 1}, {"NH3": 1, "H+": 1}, 5.6e-10)], subs)


def _arr(xs):
    import numpy as np
    a = np.empty(len(xs), dtype=object)
    for i, x in enumerate(xs):
        a[i] = x
    return a


@harness("C08", "_result_is_sane", functions=[EQ + ":EqSystem._result_is_sane"], kind="shape-bounded", samples=0, max_paths=2000)
def _(v):
    from chempy.equilibria import EqSystem
    es = _eqsys()
    n = es.ns
    x = [v.real("x%d" % i, lo=-1, hi=100) for i in range(n)]
    ub = [v.real("ub%d" % i, lo=0, hi=100) for i in range(n)]
    v.contract(EqSystem.upper_conc_bounds, "upper_conc_bounds", None, lambda v_, self, init_concs, **kw: list(ub))
    r = v.call(es._result_is_sane, [1.0] * n, _arr(x))
    neg = SP.disj([xi < 0 for xi in x])
    much = SP.disj([xi > u * (1 + 1e-9) for xi, u in zip(x, ub)])
    v.prove("sane_iff_nonnegative_and_within_elemental_bounds", SP.iff(r, SP.conj([SP.neg(neg), SP.neg(much)])))
    msgs = [m for _, m in v.events("warning")]
    v.prove("negative_warning_iff_negative", SP.iff(any("Negative" in m for m in msgs), neg))
    v.prove("too_much_warning_iff_exceeding", SP.iff(any("Too much" in m for m in msgs), much))


class _FakeNeqSys:
    def __init__(self, x, success):
        self.x, self.success, self.calls = x, success, []

    def solve(self, x0, params, **kw):
        self.calls.append((x0, params, kw))
        return self.x, {"success": self.success}


def _plumbing(method):
    @harness("C08", method + ".plumbing", functions=[EQ + ":EqSystem." + method], kind="shape-bounded", samples=0)
    def _(v):
        import numpy as np
        from chempy.equilibria import EqSystem
        es = _eqsys()
        n = es.ns
        x = _arr([v.real("x%d" % i, lo=-1, hi=100) for i in range(n)])
        success = v.bool("success")
        tag = {}

        def sane_contract(v_, self, init_concs, xx, rtol=1e-9):
            tag["args"] = (init_concs, xx)
            return "SANE-FLAG"
        v.contract(EqSystem._result_is_sane, "_result_is_sane", None, sane_contract)
        fake = _FakeNeqSys(x, success)
        c0 = np.array([55.5, 1e-7, 1e-7, 1e-3, 1e-3])
        if method == "root":
            rx, sol, sane = v.call(es.root, dict(zip(es.substances, c0)), neqsys=fake)
        else:
            rx, sol, sane = v.call(es._solve, c0, neqsys=fake)
        (x0, params, kw), = fake.calls
        v.prove("solver_gets_initial_state_then_constants", list(params) == list(c0) + [float(k) for k in es.eq_constants()])
        v.prove("default_start_is_initial_state", list(x0) == list(c0))
        v.prove("returns_solver_x_and_info", rx is x and sol["success"] is success)
        v.prove("sanity_of_returned_x_against_same_initial_state", sane == "SANE-FLAG" and tag["args"][1] is x and list(tag["args"][0]) == list(c0))
        warned = any("failed" in m for _, m in v.events("warning"))
        v.prove("failure_warning_iff_solver_reports_failure", SP.iff(warned, SP.neg(success)))
    return _


_plumbing("root")
_plumbing("_solve")


def _warm_start(method):
    @harness("C08", method + ".warm_start", functions=[EQ + ":EqSystem." + method], kind="shape-bounded", samples=0)
    def _(v):
        """an explicit start vector (e.g. the previous solution of a titration) only starts the solver: the conservation
        parameters and the sanity check still refer to the given initial concentrations"""
        import numpy as np
        from chempy.equilibria import EqSystem
        es = _eqsys()
        n = es.ns
        x = _arr([v.real("x%d" % i, lo=-1, hi=100) for i in range(n)])
        tag = {}
        v.contract(EqSystem._result_is_sane, "_result_is_sane", None, lambda v_, self, init_concs, xx, rtol=1e-9: tag.setdefault("args", (init_concs, xx)) and "SANE")
        fake = _FakeNeqSys(x, True)
        c0 = np.array([55.5, 1e-7, 1e-7, 1e-3, 1e-3])
        guess = np.array([55.4, 2e-7, 3e-7, 5e-4, 4e-4])
        if method == "root":
            rx, sol, sane = v.call(es.root, dict(zip(es.substances, c0)), x0=guess, neqsys=fake)
        else:
            rx, sol, sane = v.call(es._solve, c0, x0=guess, neqsys=fake)
        (x0, params, kw), = fake.calls
        v.prove("solver_started_from_the_guess", list(x0) == list(guess))
        v.prove("parameters_are_the_initial_state_not_the_guess", list(params) == list(c0) + [float(k) for k in es.eq_constants()])
        v.prove("sanity_against_the_initial_state", list(tag["args"][0]) == list(c0) and tag["args"][1] is x)
    return _


_warm_start("root")
_warm_start("_solve")


def _precip_system(v, solid_is_reactant=True, n=1):
    from chempy.chemistry import Equilibrium, Species
    from chempy.equilibria import EqSystem
    from collections import OrderedDict
    subs = OrderedDict((k, Species.from_formula(k)) for k in ["Na+", "Cl-", "NaCl(s)"])
    K = 4.0
    if solid_is_reactant:
        eq = Equilibrium({"NaCl(s)": n}, {"Na+": n, "Cl-": n}, K)
    else:
        eq = Equilibrium({"Na+": n, "Cl-": n}, {"NaCl(s)": n}, 1 / K)
    return EqSystem([eq], subs), K


@harness("C08", "dissolved", functions=[EQ + ":EqSystem.dissolved", "chempy.chemistry:Reaction.precipitate_stoich", "chempy.chemistry:Reaction.has_precipitates"], kind="shape-bounded", div_mode="assume", samples=0)
def _(v):
    which = v.choice("solid_is_reactant", [True, False])
    n = v.choice("coefficient", [1, 2, 3])
    es, K = _precip_system(v, which, n)
    c = [v.real("c%d" % i, lo=0, hi=10) for i in range(3)]
    d = v.call(es.dissolved, _arr(c))
    v.prove("solid_entry_becomes_zero", d[2] == 0)
    v.prove("ions_gain_the_dissolved_amount", SP.conj([d[0] == c[0] + c[2], d[1] == c[1] + c[2]]))
    B, keys = es.composition_balance_vectors()
    v.prove("element_and_charge_totals_kept", SP.conj([sum(B[r][j] * d[j] for j in range(3)) == sum(B[r][j] * c[j] for j in range(3)) for r in range(len(keys))]))


@harness("C08", "precipitation_switches", functions=[EQ + ":EqSystem._fw_cond_factory", EQ + ":EqSystem._fw_cond_factory.<locals>.fw_cond", EQ + ":EqSystem._bw_cond_factory",
                                                     EQ + ":EqSystem._bw_cond_factory.<locals>.bw_cond"], kind="shape-bounded", div_mode="assume", samples=0)
def _(v):
    which = v.choice("solid_is_reactant", [True, False])
    es, K = _precip_system(v, which)
    c = [v.real("c%d" % i, lo=1e-6, hi=10) for i in range(3)]
    x = _arr(c)
    fw = es._fw_cond_factory(0)
    bw = es._bw_cond_factory(0, 1e-30)
    ion_product = (c[0] + c[2]) * (c[1] + c[2])      # of the fully dissolved state
    r = v.call(fw, x, None)
    if which:   # NaCl(s) = Na+ + Cl-  (K = Ksp): precipitate while the ion product exceeds Ksp
        v.prove("forward_iff_ion_product_exceeds_Ksp", SP.iff(r, ion_product > K * (1 + 1e-14)))
    else:       # Na+ + Cl- = NaCl(s) (K = 1/Ksp)
        v.prove("forward_iff_ion_product_exceeds_Ksp", SP.iff(r, (1 / ion_product) * (1 + 1e-14) < 1 / K))
    small = 1e-30
    v.prove("backward_iff_solid_gone", SP.iff(v.call(bw, x, None), SP.neg(c[2] < small)))
    # the condition object is kept by the solver object (get_neqsys) and re-used: it must decide with the constant the equilibrium has NOW
    K2 = v.real("Ksp_changed_later", lo=1e-3, hi=50)
    es.rxns[0].param = K2 if which else 1 / K2
    r2 = v.call(fw, x, None)
    if which:
        v.prove("forward_condition_follows_a_changed_constant", SP.iff(r2, ion_product > K2 * (1 + 1e-14)))
    else:
        v.prove("forward_condition_follows_a_changed_constant", SP.iff(r2, (1 / ion_product) * (1 + 1e-14) < 1 / K2))


def _processors(name):
    @harness("C08", "processors_inverse." + name, functions=["chempy._eqsys:%s.pre_processor" % name, "chempy._eqsys:%s.post_processor" % name], kind="shape-bounded", div_mode="assume", samples=0)
    def _(v):
        import chempy._eqsys as E
        from pyvc.stubs import sym_exp, sym_log
        es = _eqsys()
        NS = getattr(E, name)(es, backend=math)
        n = es.ns
        x = [v.real("x%d" % i, lo=0, hi=100) for i in range(n)]
        params = [v.real("p%d" % i, lo=0, hi=100) for i in range(n + es.nr)]
        y, p1 = v.call(NS.pre_processor, _arr(x), params)
        z, p2 = v.call(NS.post_processor, y, params)
        v.prove("parameters_passed_through", p1 is params and p2 is params)
        if name == "NumSysLog":
            small = E.NumSysLog.small
            for i in range(n):
                v.prove("log_then_exp_%d" % i, z[i] == sym_exp(sym_log(x[i] + small)))
        else:
            for i in range(n):
                v.prove_identity("sqrt_abs_then_square_%d" % i, z[i], x[i] + 0.0)
    return _


_processors("NumSysLog")
_processors("NumSysSquare")


@harness("C08", "internal_x0", functions=["chempy._eqsys:NumSysLog.internal_x0_cb", "chempy._eqsys:NumSysSquare.internal_x0_cb"], kind="data")
def _(v):
    import numpy as np
    import chempy._eqsys as E
    es = _eqsys()
    c0 = np.array([55.5, 1e-7, 1e-7, 1e-3, 1e-3])
    v.prove("log_start", E.NumSysLog(es).internal_x0_cb(c0, None) == [0.1] * 5)
    v.prove("square_start", np.allclose(E.NumSysSquare(es).internal_x0_cb(c0, None) ** 2, c0))
    v.prove("small_constants", E.NumSysLog.small == math.exp(-36) and E.NumSysSquare.small == 1e-35 and E.NumSysLin.small == 0)


def _rc(n_species):
    @harness("C08", "single_equilibrium.reaction_coordinate.n%d" % n_species, functions=["chempy._equilibrium:_get_rc_interval", "chempy._equilibrium:equilibrium_residual", "chempy.chemistry:equilibrium_quotient"],
             kind="shape-bounded", div_mode="assume", samples=0, max_paths=6000)
    def _(v):
        """what chempy contributes to solve_equilibrium (the root finder brentq is external): the bracket handed to brentq contains 0 and every
        reaction coordinate inside it leaves all concentrations non-negative; the residual is K - prod(c^nu) at c = c0 + nu*rc, so a root of it is a
        state with Q = K reached from c0 along the stoichiometry (hence conserving whatever the reaction conserves)"""
        from chempy._equilibrium import _get_rc_interval, equilibrium_residual
        nus = [v.int("nu%d" % i, lo=-3, hi=3) for i in range(n_species)]
        cs = [v.real("c%d" % i, lo=0, hi=100) for i in range(n_species)]
        v.assume(SP.conj([nu != 0 for nu in nus]))          # _solve_equilibrium_coord masks the zero coefficients out before calling
        out = v.run(_get_rc_interval, _arr(nus), _arr(cs))
        degenerate = SP.conj([SP.disj([c == 0, False]) for c in cs])
        if out.raised(ValueError):
            # refused only when no coordinate can move at all: some reactant and some product are exhausted, or everything is zero
            can_fwd = SP.conj([SP.implies(nu < 0, c > 0) for nu, c in zip(nus, cs)])
            can_bwd = SP.conj([SP.implies(nu > 0, c > 0) for nu, c in zip(nus, cs)])
            v.prove("refuses_only_a_zero_interval", SP.neg(SP.disj([SP.conj([can_fwd, SP.disj([nu < 0 for nu in nus])]), SP.conj([can_bwd, SP.disj([nu > 0 for nu in nus])])])))
            return
        lower, upper = out.value
        v.prove("bracket_contains_zero", SP.conj([lower <= 0, upper >= 0]))
        rc = v.real("rc", lo=-1e4, hi=1e4)
        v.assume(SP.conj([rc >= lower, rc <= upper]))
        for i, (nu, c) in enumerate(zip(nus, cs)):
            v.prove("inside_bracket_concentration_%d_non_negative" % i, c + nu * rc >= 0)
        # the ends are tight: beyond them some concentration is negative (so no admissible state is excluded)
        eps = v.real("eps", lo=0, hi=1)
        v.assume(eps > 0)
        v.prove_nl("beyond_upper_some_negative", SP.disj([c + nu * (upper + eps) < 0 for nu, c in zip(nus, cs)] + [SP.conj([nu > 0 for nu in nus])]))
        v.prove_nl("beyond_lower_some_negative", SP.disj([c + nu * (lower - eps) < 0 for nu, c in zip(nus, cs)] + [SP.conj([nu < 0 for nu in nus])]))
    return _


for _n in (2, 3):
    _rc(_n)


@harness("C08", "single_equilibrium.residual", functions=["chempy._equilibrium:equilibrium_residual", "chempy.chemistry:equilibrium_quotient"], kind="shape-bounded", div_mode="assume", samples=0, max_paths=400)
def _(v):
    from chempy._equilibrium import equilibrium_residual
    nus = [v.int("nu%d" % i, lo=-3, hi=3) for i in range(3)]
    cs = [v.real("c%d" % i, lo=0, hi=100) for i in range(3)]
    K, rc = v.real("K", lo=0, hi=1e6), v.real("rc", lo=-100, hi=100)
    v.assume(SP.conj([c + nu * rc > 0 for nu, c in zip(nus, cs)]))
    res = v.call(equilibrium_residual, rc, _arr(cs), _arr(nus), K)
    q = 1
    for nu, c in zip(nus, cs):
        q = q * SP.spow(c + nu * rc, nu)
    v.prove_identity("residual_is_K_minus_quotient_at_the_displaced_state", res, K - q)
    ap = v.real("activity_product", lo=0, hi=10)
    res2 = v.call(equilibrium_residual, rc, _arr(cs), _arr(nus), K, lambda c: ap)
    v.prove_identity("activity_product_multiplies_the_quotient", res2, K - q * ap)


@harness("C08", "sanity_of_special_values", functions=[EQ + ":EqSystem._result_is_sane", "chempy.reactionsystem:ReactionSystem.upper_conc_bounds"], kind="data")
def _(v):
    """'sane' must imply non-negative for EVERY species, also one whose elemental bound is infinite (an electron: no element in its composition),
    and a vector containing nan is not a composition at all"""
    import warnings
    import numpy as np
    from collections import OrderedDict
    from chempy.chemistry import Equilibrium, Species
    from chempy.equilibria import EqSystem
    subs = OrderedDict((k, Species.from_formula(k)) for k in ["H+", "e-", "H2"])
    es = EqSystem([Equilibrium({"H+": 2, "e-": 2}, {"H2": 1}, 10.0)], subs)
    c0 = {"H+": 1.0, "e-": 1.0, "H2": 0.5}
    ub = es.upper_conc_bounds(c0)
    v.prove("electron_has_no_elemental_bound", ub[1] == float("inf") and ub[0] == 2.0 and ub[2] == 1.0, detail=repr(ub))
    with warnings.catch_warnings():
        warnings.simplefilter("ignore")
        v.prove("negative_unbounded_species_is_not_sane", es._result_is_sane(c0, np.array([1.0, -0.87, 0.5])) is False)
        v.prove("negative_bounded_species_is_not_sane", es._result_is_sane(c0, np.array([-1e-3, 1.0, 0.5])) is False)
        v.prove("above_the_bound_is_not_sane", es._result_is_sane(c0, np.array([2.1, 1.0, 0.5])) is False)
        v.prove("admissible_state_is_sane", es._result_is_sane(c0, np.array([0.5, 0.5, 0.75])) is True and es._result_is_sane(c0, np.array([0.0, 1e9, 1.0])) is True)
        v.prove("nan_is_not_sane", es._result_is_sane(c0, np.array([np.nan, 1.0, 0.5])) is False and es._result_is_sane(c0, np.array([np.nan] * 3)) is False)
        # an infinite concentration is no composition either, also for the species without elemental bound (inf > inf*(1+rtol) is False)
        v.prove("infinity_is_not_sane", es._result_is_sane(c0, np.array([1.0, np.inf, 0.5])) is False and es._result_is_sane(c0, np.array([np.inf, 1.0, 0.5])) is False)


@harness("C08", "single_equilibrium.solve_equilibrium", functions=["chempy._equilibrium:solve_equilibrium", "chempy._equilibrium:_solve_equilibrium_coord", "chempy._equilibrium:_get_rc_interval",
                                                                 "chempy._equilibrium:equilibrium_residual"], kind="shape-bounded", div_mode="assume", samples=0, max_paths=6000)
def _(v):
    """solve_equilibrium around the external root finder: brentq is replaced by its contract (returns SOME coordinate inside the bracket at which
    the function it was given vanishes). Then the returned state is c0 + rc*nu (spectators untouched), non-negative, and has Q = K"""
    import scipy.optimize
    from chempy._equilibrium import solve_equilibrium
    nus = [v.int("nu%d" % i, lo=-3, hi=3) for i in range(3)]
    v.assume(SP.conj([nu != 0 for nu in nus]))
    cs = [v.real("c%d" % i, lo=0, hi=100) for i in range(4)]
    K = v.real("K", lo=1e-6, hi=1e6)
    seen = {}

    def brentq_contract(v_, f, a, b, args=(), **kw):
        rc = v_.fresh("rc", "real")
        v_.assume(SP.conj([rc >= a, rc <= b]))
        res = v_.interp.call(f, (rc,) + tuple(args))
        seen.update(a=a, b=b, rc=rc, res=res)
        v_.assume(res == 0)
        return rc
    v.contract(scipy.optimize.brentq, "brentq", None, brentq_contract)
    out = v.run(solve_equilibrium, cs, nus + [0], K)
    if not out.returned:
        v.prove("refusal_is_a_ValueError", out.raised(ValueError))
        return
    x = out.value
    rc = seen["rc"]
    v.prove("state_moved_along_the_stoichiometry", SP.conj([v.eq(x[i], cs[i] + rc * nus[i]) for i in range(3)]))
    v.prove("spectator_untouched", v.eq(x[3], cs[3]))
    for i in range(3):
        v.prove("concentration_%d_non_negative" % i, x[i] >= 0)
    q = 1
    for i in range(3):
        q = q * SP.spow(x[i], nus[i])
    v.prove_identity("quotient_equals_constant", seen["res"], K - q)


@harness("C08", "dissolved.unequal_coefficients", functions=[EQ + ":EqSystem.dissolved", "chempy.chemistry:Reaction.precipitate_stoich"], kind="shape-bounded", div_mode="assume", samples=0)
def _(v):
    """a salt whose ions have different coefficients (CaF2 = Ca+2 + 2 F-, written in either direction): dissolving all of the solid adds ONE calcium
    and TWO fluoride per formula unit; element and charge totals are kept"""
    from chempy.chemistry import Equilibrium, Species
    from chempy.equilibria import EqSystem
    from collections import OrderedDict
    which = v.choice("solid_is_reactant", [True, False])
    subs = OrderedDict((k, Species.from_formula(k)) for k in ["F-", "CaF2(s)", "Ca+2"])
    eq = Equilibrium({"CaF2(s)": 1}, {"Ca+2": 1, "F-": 2}, 3.9e-11) if which else Equilibrium({"Ca+2": 1, "F-": 2}, {"CaF2(s)": 1}, 1 / 3.9e-11)
    es = EqSystem([eq], subs)
    c = [v.real("c%d" % i, lo=0, hi=10) for i in range(3)]       # F-, CaF2(s), Ca+2
    d = v.call(es.dissolved, _arr(c))
    v.prove("solid_entry_becomes_zero", d[1] == 0)
    v.prove("one_calcium_two_fluoride_per_formula_unit", SP.conj([d[2] == c[2] + c[1], d[0] == c[0] + 2 * c[1]]))
    hand = {"charge": [-1, 0, 2], "F": [1, 2, 0], "Ca": [0, 1, 1]}
    v.prove("element_and_charge_totals_kept", SP.conj([sum(w * x for w, x in zip(row, d)) == sum(w * x for w, x in zip(row, c)) for row in hand.values()]))
    fw = es._fw_cond_factory(0)
    ion_product = (c[2] + c[1]) * (c[0] + 2 * c[1]) * (c[0] + 2 * c[1])
    v.assume(SP.conj([ion_product > 0]))
    r = v.call(fw, _arr(c), None)
    if which:
        v.prove("precipitates_iff_ion_product_of_the_dissolved_state_exceeds_Ksp", SP.iff(r, ion_product > 3.9e-11 * (1 + 1e-14)))
    else:
        v.prove("precipitates_iff_ion_product_of_the_dissolved_state_exceeds_Ksp", SP.iff(r, (1 / ion_product) * (1 + 1e-14) < 1 / 3.9e-11))


@harness("C08", "row_reduced_equations_with_precipitates", functions=[EQ + ":EqSystem.stoichs_constants", EQ + ":EqSystem.eq_constants", "chempy.reactionsystem:ReactionSystem.stoichs", "chempy._eqsys:_NumSys._get_A_ks"],
         kind="data")
def _(v):
    """the optional row reduction of the equilibrium equations (rref_equil=True) must describe the SAME equations as the plain form for every
    assumed set of absent solids: 'A ln c = ln K' with, for an absent solid, the row '[solid] = small' -- so that a state claimed with the option on
    still meets the solubility products. Decided exactly (sympy rationals and symbolic logarithms): the augmented matrices [A | ln K] of the two
    forms have the same row space, for a two-salt system with a common ion plus a homogeneous equilibrium, all four presence patterns"""
    import sympy
    from chempy.chemistry import Equilibrium, Species
    from chempy.equilibria import EqSystem
    subs = (Species("Na+", 1, composition={11: 1}), Species("Cl-", -1, composition={17: 1}), Species("Ag+", 1, composition={47: 1}), Species("NH3", composition={7: 1, 1: 3}),
            Species("AgNH3+", 1, composition={47: 1, 7: 1, 1: 3}), Species("NaCl", composition={11: 1, 17: 1}, phase_idx=1), Species("AgCl", composition={47: 1, 17: 1}, phase_idx=1))
    eqsys = EqSystem([Equilibrium({"NaCl": 1}, {"Na+": 1, "Cl-": 1}, sympy.Integer(37)), Equilibrium({"AgCl": 1}, {"Ag+": 1, "Cl-": 1}, sympy.Rational(1, 5000)),
                      Equilibrium({"Ag+": 1, "NH3": 1}, {"AgNH3+": 1}, sympy.Integer(2000))], subs)
    small = sympy.Rational(1, 10 ** 9)
    bad = []
    for npr in ((), (0,), (1,), (0, 1)):
        try:
            ks = eqsys.eq_constants(npr, None, small)
            A0, k0 = eqsys.stoichs_constants(ks, False, backend=sympy, non_precip_rids=npr)
            A1, k1 = eqsys.stoichs_constants(ks, True, backend=sympy, non_precip_rids=npr)
            M0 = sympy.Matrix([list(r) + [sympy.log(k)] for r, k in zip(A0.tolist(), k0)])
            M1 = sympy.Matrix([list(r) + [sympy.expand_log(sympy.log(k), force=True)] for r, k in zip(A1, k1)])
            want_rows = [[0, 0, 0, 0, 0, 1, 0] if 0 in npr else [1, 1, 0, 0, 0, 0, 0], [0, 0, 0, 0, 0, 0, 1] if 1 in npr else [0, 1, 1, 0, 0, 0, 0], [0, 0, -1, -1, 1, 0, 0]]
            if [list(map(int, r)) for r in A0.tolist()] != want_rows or list(k0) != [small if 0 in npr else 37, small if 1 in npr else sympy.Rational(1, 5000), 2000]:
                bad.append((npr, "plain form", A0.tolist(), k0))
            r0, r1, r01 = M0.rank(), M1.rank(), M0.col_join(M1).rank()
            if not (r0 == r1 == r01 == 3):
                bad.append((npr, "row spaces differ", r0, r1, r01, M1.tolist()))
        except Exception as ex:
            bad.append((npr, repr(ex)[:200]))
    v.prove("same_equations_for_every_presence_pattern", not bad, detail=repr(bad[:2]))
    # the same salt written in the FORMATION direction (solid on the product side, K = 1/Ksp): the equation for the absent solid is again
    # [solid]**|nu| = small (a positive power of the solid's concentration), not its reciprocal
    form = EqSystem([Equilibrium({"Na+": 1, "Cl-": 1}, {"NaCl": 1}, sympy.Rational(1, 37)), Equilibrium({"Ag+": 2, "Cl-": 2}, {"AgCl": 2}, sympy.Integer(5000) ** 2)], subs)
    rows = {npr: [list(map(int, r)) for r in form.stoichs(npr).tolist()] for npr in ((), (0,), (1,), (0, 1))}
    # 'absent' means [solid] = small whatever multiple of the reaction is written: the exponent of the solid in that equation is 1, not the
    # solid's coefficient ([solid]**3 = small would leave small**(1/3) ~ 6e-6 M of 'absent' solid)
    want = {(): [[-1, -1, 0, 0, 0, 0, 0], [0, -2, -2, 0, 0, 0, 0]], (0,): [[0, 0, 0, 0, 0, 1, 0], [0, -2, -2, 0, 0, 0, 0]], (1,): [[-1, -1, 0, 0, 0, 0, 0], [0, 0, 0, 0, 0, 0, 1]],
            (0, 1): [[0, 0, 0, 0, 0, 1, 0], [0, 0, 0, 0, 0, 0, 1]]}
    v.prove("absent_solid_equation_in_the_formation_direction", rows == want, detail=repr({k: r for k, r in rows.items() if r != want[k]}))
    diss3 = EqSystem([Equilibrium({"NaCl": 3}, {"Na+": 3, "Cl-": 3}, sympy.Integer(37) ** 3)], subs)
    v.prove("absent_solid_equation_does_not_depend_on_the_multiple_written", [list(map(int, r)) for r in diss3.stoichs((0,)).tolist()] == [[0, 0, 0, 0, 0, 1, 0]]
            and [list(map(int, r)) for r in diss3.stoichs(()).tolist()] == [[3, 3, 0, 0, 0, 0, 0]], detail=repr(diss3.stoichs((0,)).tolist()))


@harness("C08", "single_equilibrium.integer_inputs", functions=["chempy._equilibrium:solve_equilibrium"], kind="data")
def _(v):
    """the single-equilibrium solver for concentrations given as integers (a list of ints, an integer array): the answer is the same as for the
    same numbers as floats -- Q = K, spectators untouched, element totals kept -- not the floats cut back to integers; the caller's array is
    not written to"""
    import numpy as np
    from chempy._equilibrium import solve_equilibrium
    stoich, K = (-1, -1, 1, 1, 0), 0.5
    ref = np.asarray(solve_equilibrium([3.0, 2.0, 1.0, 0.0, 7.0], stoich, K), dtype=float)
    q = lambda c: c[2] * c[3] / (c[0] * c[1])
    arr = np.array([3, 2, 1, 0, 7])
    bad = []
    for label, c0 in (("list_of_ints", [3, 2, 1, 0, 7]), ("tuple_of_ints", (3, 2, 1, 0, 7)), ("int_array", arr)):
        try:
            got = np.asarray(solve_equilibrium(c0, stoich, K), dtype=float)
            if not (np.allclose(got, ref, rtol=1e-12) and abs(q(got) / K - 1) < 1e-6 and got[4] == 7):
                bad.append((label, got.tolist()))
        except Exception as ex:
            bad.append((label, repr(ex)[:80]))
    v.prove("same_answer_as_for_floats", not bad and abs(q(ref) / K - 1) < 1e-6, detail=repr(bad))
    v.prove("callers_array_not_written_to", arr.tolist() == [3, 2, 1, 0, 7])
