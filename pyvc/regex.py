"""Translation of the literal regular expressions that occur in the functions under contract
(`re._parser` parse tree -> z3 regular expression) and the `re` call models of A9."""
from __future__ import annotations

import re

import z3

try:
    from re import _parser as sre_parse
    from re import _constants as sre_constants
except ImportError:  # pragma: no cover
    import sre_parse
    import sre_constants

from .sym import Sym, Unsupported, cur, to_z3, wrap, fresh_name


def to_z3_re(pattern):
    """z3 regular expression for the language of `pattern` (anchors must be handled by the caller)"""
    tree = sre_parse.parse(pattern)
    return _seq(list(tree))


def _seq(items):
    parts = [_node(op, av) for op, av in items]
    parts = [p for p in parts if p is not None]
    if not parts:
        return z3.Re(z3.StringVal(""))
    if len(parts) == 1:
        return parts[0]
    return z3.Concat(*parts)


def _char_class(av):
    alts = []
    negate = False
    for op, a in av:
        if op == sre_constants.NEGATE:
            negate = True
        elif op == sre_constants.LITERAL:
            alts.append(z3.Re(z3.StringVal(chr(a))))
        elif op == sre_constants.RANGE:
            alts.append(z3.Range(chr(a[0]), chr(a[1])))
        elif op == sre_constants.CATEGORY and a == sre_constants.CATEGORY_DIGIT:
            alts.append(z3.Range("0", "9"))   # ASCII digits: A9 restricts inputs to ASCII for \d
        else:
            raise Unsupported("regex class item %s" % (op,))
    r = alts[0] if len(alts) == 1 else z3.Union(*alts)
    if negate:
        r = z3.Intersect(z3.AllChar(z3.ReSort(z3.StringSort())), z3.Complement(r))
    return r


def _node(op, av):
    C = sre_constants
    if op == C.LITERAL:
        return z3.Re(z3.StringVal(chr(av)))
    if op == C.IN:
        return _char_class(av)
    if op == C.BRANCH:
        return z3.Union(*[_seq(list(b)) for b in av[1]])
    if op == C.SUBPATTERN:
        return _seq(list(av[3]))
    if op in (C.MAX_REPEAT, C.MIN_REPEAT):
        lo, hi, sub = av
        r = _seq(list(sub))
        if lo == 0 and hi == 1:
            return z3.Option(r)
        if lo == 0 and hi == C.MAXREPEAT:
            return z3.Star(r)
        if lo == 1 and hi == C.MAXREPEAT:
            return z3.Plus(r)
        if hi == C.MAXREPEAT:
            return z3.Concat(*([r] * lo + [z3.Star(r)]))
        return z3.Loop(r, lo, hi)
    if op == C.AT:
        return None
    if op == C.CATEGORY and av == C.CATEGORY_DIGIT:
        return z3.Range("0", "9")
    if op == C.ANY:
        return z3.AllChar(z3.ReSort(z3.StringSort()))
    raise Unsupported("regex node %s" % (op,))


def alternatives(pattern):
    """top-level alternatives of a pattern as (first literal char, source-order index, z3 re)"""
    tree = list(sre_parse.parse(pattern))
    if len(tree) == 1 and tree[0][0] == sre_constants.BRANCH:
        branches = tree[0][1][1]
    else:
        branches = [tree]
    out = []
    for i, b in enumerate(branches):
        items = list(b)
        first = chr(items[0][1]) if items and items[0][0] == sre_constants.LITERAL else None
        out.append((first, i, _seq(items), items))
    return out


# ---------------------------------------------------------------- models of re.* calls (A9)
def findall_leading_digits(interp, pattern, string, *a):
    """re.findall(r"^\\d+", s): [] or [maximal leading run of ASCII digits]"""
    if pattern != r"^\d+" or not isinstance(string, Sym):
        if isinstance(string, Sym):
            raise Unsupported("re.findall pattern %r on a symbolic string" % (pattern,))
        return re.findall(pattern, string, *a)
    p = cur()
    s = string.e
    digit = z3.Range("0", "9")
    if not p.branch(z3.InRe(z3.SubString(s, 0, 1), digit)):
        return []
    d = z3.String(fresh_name("digits"))
    rest = z3.String(fresh_name("rest"))
    p.assume(z3.And(s == z3.Concat(d, rest), z3.InRe(d, z3.Plus(digit)), z3.Not(z3.InRe(z3.SubString(rest, 0, 1), digit))))
    return [Sym(d)]




def _flatten_concat(e):
    if z3.is_app(e) and e.decl().kind() == z3.Z3_OP_SEQ_CONCAT:
        out = []
        for c in e.children():
            out.extend(_flatten_concat(c))
        return out
    return [e]


def split_star_or_space(interp, pattern, string, *a, **kw):
    """re.split(" \\* | ", s): for a symbolic string that is a concatenation of literal pieces and symbolic atoms
    which provably contain no space (so every separator lies inside a literal piece)"""
    if not isinstance(string, Sym):
        return re.split(pattern, string, *a, **kw)
    if pattern != " \\* | ":
        raise Unsupported("re.split pattern %r on a symbolic string" % (pattern,))
    p = cur()
    pieces = _flatten_concat(z3.simplify(string.e))
    items = [[]]          # list of lists of z3 string terms
    for pc in pieces:
        if z3.is_string_value(pc):
            parts = re.split(pattern, pc.as_string())
            for j, lit in enumerate(parts):
                if j > 0:
                    items.append([])
                if lit != "":
                    items[-1].append(z3.StringVal(lit))
        else:
            if p.branch(z3.Contains(pc, z3.StringVal(" "))):
                raise Unsupported("re.split: symbolic piece may contain a space")
            items[-1].append(pc)
    # a separator could also be formed across a literal/atom border only if an atom contained a space: excluded above.
    out = []
    for it in items:
        if not it:
            out.append("")
        elif len(it) == 1:
            out.append(wrap(it[0]))
        else:
            out.append(wrap(z3.Concat(*it)))
    return out


def install(interp):
    interp.register_stub(re.findall, findall_leading_digits)
    interp.register_stub(re.split, split_star_or_space)
