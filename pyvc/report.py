"""Verdicts, replay files, evidence, known findings."""
from __future__ import annotations

import hashlib
import json
import os
import sys
import re
import time

LOOP_AID = re.compile(r"\.loop\d+\.(init|pres|variant)$")   # proof obligations of a loop invariant: aids for the postconditions, gone when the loop is gone
AUTO_GUARD = re.compile(r"\.defined\.(den|radicand|logarg|powbase)\d+$")   # obligations the engine generates per division (not written in a contract)

VERIF = os.path.dirname(os.path.dirname(os.path.abspath(__file__)))
BASELINE = os.path.join(VERIF, "baseline_obligations.json")
KNOWN = os.path.join(VERIF, "known_findings.json")

ASSUMPTIONS_ENGINE = [
    "A1 python ints are mathematical integers (true in CPython)",
    "A2 floats are treated as mathematical reals; a float literal denotes its shortest decimal representation",
    "A3 dict iteration is some fixed enumeration of the keys (ghost order); insertion order only where the code sorts/uses OrderedDict",
    "A4 single-threaded, no recursion-depth or memory limits",
    "A5 `x is 1` / `x is None` are value tests on small ints / None",
    "A6 containers created inside a function are fresh; parameters alias only where the harness says so",
    "A7 exceptions arise only from the modelled sources (raise, KeyError, IndexError, ZeroDivisionError, ValueError of int()/unpacking, AttributeError on stub namespaces)",
    "A8 // and % encoded with floor semantics for both signs",
    "A9 builtins and str/dict/list methods follow their documentation (models in pyvc/stubs.py)",
    "A10 ranges of quantification: a real variable is quantified over [its lower bound, +inf) (an upper bound written in a contract only limits the native samples, unless box=True); integer variables keep both bounds (they are shape parameters: coefficients, charges, counts) and string lengths their caps",
    "A11 fold extensionality: two sum / product folds over index ranges of the same length whose terms agree at every index agree (a theorem of the two recurrences by induction on the length; given to the solver as a lemma per pair of folds on a path, since the solver does no induction)",
    "A12 iterators (zip, map, enumerate, filter, reversed, generators) are materialised lists from which next() takes the first element; an iterator iterated a second time is not empty as in CPython; generator bodies run eagerly",
    "verifier itself (pyvc AST interpreter + VC generation, ~3 kLOC python) and z3/cvc5 are trusted; guarded by the engine-vs-CPython differential and the mutant self-test",
]


def load_json(path, default):
    try:
        with open(path) as fh:
            return json.load(fh)
    except (OSError, ValueError):
        return default


def replay_file(path, repo):
    from pyvc.cli import setup_repo, load_property
    from pyvc import run
    data = load_json(path, None)
    if data is None:
        print("cannot read replay file", path)
        return 3
    setup_repo(repo)
    prop = data["property"]
    hs = load_property(prop)
    if data.get("kind") == "bounded":
        import importlib
        mod = importlib.import_module("bounded.%s" % prop)
        ok, detail = mod.replay(data["case"])
        print("replay %s: %s %s" % (data.get("obligation"), "holds" if ok else "FAILS", detail))
        if not ok:
            print("VIOLATION property=%s replay=%s" % (prop, path))
        return 0 if ok else 1
    h = [x for x in hs if x.ident == data["harness"]]
    if not h or data.get("inputs") is None:
        print("replay file names obligation %s; no concrete input was found by the verifier (no-failing-input-found)" % data.get("obligation"))
        print(data.get("solver_output", "")[:2000])
        return 1
    st, v = run.replay_inputs(h[0], run.unjson(data["inputs"]))
    print("replay %s on %s: status=%s failed=%s %s" % (data["harness"], repo, st, [f[0] for f in v.failed], getattr(v, "error", "")))
    if st in ("failed", "error"):
        print("VIOLATION property=%s replay=%s" % (prop, path))
        return 1
    return 0


def _ob_match(pattern, name):
    """a known finding names one obligation, or (with '*') the obligations of one fixed input that differ only in the configuration part of the name"""
    if "*" in pattern:
        import fnmatch
        return fnmatch.fnmatchcase(name, pattern)
    return pattern == name


def write_replay(prop, name, payload):
    d = os.path.join(VERIF, "replays")
    os.makedirs(d, exist_ok=True)
    fn = os.path.join(d, "%s_%s.json" % (prop, hashlib.sha1(name.encode()).hexdigest()[:10]))
    with open(fn, "w") as fh:
        json.dump(payload, fh, indent=1, default=repr)
    return fn


def finish(prop, tier, seed, repo, hs, results, extra, wall, args):
    from pyvc import run
    baseline_all = load_json(BASELINE, {})
    baseline = baseline_all.get(prop, {})
    known = [k for k in load_json(KNOWN, {"findings": []})["findings"] if k["property"] == prop]
    hmap = {h.ident: h for h in hs}
    violations = []     # dicts: obligation, harness, inputs, kind, detail
    undecided = []
    errors = []
    ob_rows = []
    notes = set()
    functions = {}
    interpreted = {}
    solver_seconds = 0.0
    conc_runs = conc_distinct = 0
    samples = []
    bounded_rows = []
    complete_harnesses = {r["ident"] for r in results if "crash" not in r and not r["symbolic"]["error"] and not r["symbolic"]["unsupported"]}
    for r in results:
        ident = r["ident"]
        h = hmap[ident]
        if "crash" in r:
            errors.append("%s: %s" % (ident, r["crash"][-1500:]))
            continue
        sres = r["symbolic"]
        if sres["error"]:
            errors.append("%s: %s" % (ident, sres["error"][-1500:]))
        for u in sres["unsupported"]:
            undecided.append({"obligation": ident, "reason": "unsupported: " + u})
        notes.update(sres["notes"])
        interpreted.update(sres["interpreted"])
        for f in h.functions:
            functions.setdefault(f, set()).add(ident)
        cres = r.get("concrete")
        dres = r.get("differential")
        native_fail = None
        for cr in (cres, dres):
            if not cr:
                continue
            conc_runs += cr["runs"]
            conc_distinct += cr["distinct"]
            if cr["failed"] and native_fail is None:
                native_fail = cr["failed"][0]
            if cr["errors"] and native_fail is None:
                native_fail = {"inputs": cr["errors"][0]["inputs"], "obligations": [("noexc", cr["errors"][0]["error"])]}
            for m in (cr.get("engine_mismatch", []) or [])[:1]:
                errors.append("%s: engine/CPython disagreement on %s" % (ident, json.dumps(m, default=repr)[:600]))
            if cr["samples"] and len(samples) < 6:
                samples.append({"harness": ident, "concrete_input": cr["samples"][0]})
        if cres:
            bounded_rows.append({"harness": ident, "rule": "seeded sampling of the harness inputs within their declared ranges; real function run natively against the contract", "evaluations": cres["runs"] + (dres["runs"] if dres else 0),
                                 "distinct": cres["distinct"], "rejected_by_requires": cres["rejected"]})
        if not sres["obligations"] and not sres["unsupported"] and not sres["error"]:
            undecided.append({"obligation": ident, "reason": "harness generated zero obligations (vacuous)"})
        for ob in sres["obligations"]:
            solver_seconds += ob["seconds"]
            row = {"name": ob["name"], "harness": ident, "kind": sres["kind"], "status": ob["status"], "instances": ob["instances"],
                   "backend": ob["backend"], "seconds": round(ob["seconds"], 4), "rlimit_used": ob["rlimit"], "havoc": ob["havoc"]}
            ob_rows.append(row)
            if ob["status"] == "discharged":
                continue
            if ob["status"] == "unknown":
                undecided.append({"obligation": ob["name"], "reason": "solver unknown: " + ob["detail"][:200]})
                continue
            cex = ob["cex"] or {}
            base = baseline.get(ob["name"])
            if cex.get("replay_status") == "engine-disagrees":
                errors.append("%s: engine/CPython disagreement on the counter-model of %s: %s" % (ident, ob["name"], json.dumps(cex.get("engine_mismatch"), default=repr)[:600]))
            elif cex.get("replay_status") in ("failed", "error"):
                violations.append({"obligation": ob["name"], "harness": ident, "inputs": cex.get("inputs"), "confirmed": True,
                                   "detail": "counter-model replayed on the real code: failed %s %s" % (cex.get("replay_failed"), cex.get("replay_error") or ""),
                                   "solver_output": cex.get("model")})
            elif native_fail is not None:
                violations.append({"obligation": ob["name"], "harness": ident, "inputs": native_fail["inputs"], "confirmed": True,
                                   "detail": "failing input found by the bounded search of the same contract: %s" % (native_fail["obligations"],),
                                   "solver_output": cex.get("model")})
            elif cex.get("replay_status") == "ok":
                # the model's input, run through the same harness natively, satisfies the contract on the real code: the counter-model is an
                # artefact (havoc'd state, incomplete quantifier instantiation, an engine limit) -- evidence against a violation, so: undecided.
                # (Measured on the 300 seeded changes and 51 reverse patches: no detection rests on such a model.)
                undecided.append({"obligation": ob["name"], "reason": "counter-model does not reproduce: its input satisfies the contract on the real code (replay: ok)"})
            elif base is not None and base.get("status") == "discharged" and not ob["havoc"]:
                violations.append({"obligation": ob["name"], "harness": ident, "inputs": None, "confirmed": False, "replayed": cex.get("replay_status"),
                                   "detail": "obligation discharged on the baseline tree now has a counter-model; replay of the model on the real code: %s" % cex.get("replay_status"),
                                   "solver_output": cex.get("model")})
            else:
                undecided.append({"obligation": ob["name"], "reason": "counter-model not confirmed on the real code (replay: %s) and obligation not in baseline / depends on havoc" % cex.get("replay_status")})
        # failures seen only natively (contract violated on a sampled input)
        if native_fail is not None and not any(v["harness"] == ident for v in violations):
            violations.append({"obligation": "%s.%s" % (ident, native_fail["obligations"][0][0]), "harness": ident, "inputs": native_fail["inputs"],
                               "confirmed": True, "detail": "run-time contract failed on sampled input: %s" % (native_fail["obligations"],), "solver_output": None})
    # property-level bounded stand-ins
    if extra:
        if "crash" in extra:
            errors.append("bounded stand-in crashed: " + extra["crash"][-1500:])
        else:
            for b in extra.get("standins", []):
                bounded_rows.append({k: b[k] for k in b if k != "violations"})
                conc_runs += b.get("evaluations", 0)
                conc_distinct += b.get("distinct", 0)
                if b.get("samples") and len(samples) < 10:
                    samples.append({"standin": b["name"], "case": b["samples"][0]})
                for vv in b.get("violations", [])[:200]:
                    vv = dict(vv, name=b["name"])
                    violations.append({"obligation": "%s.bounded.%s" % (prop, b["name"]), "harness": None, "inputs": vv.get("inputs"), "confirmed": True,
                                       "kind": "bounded", "case": vv, "detail": "bounded stand-in %s: %s" % (b["name"], vv.get("detail")), "solver_output": None})
    # vacuity: every baseline obligation must still be generated
    names_now = {o["name"] for o in ob_rows}
    if not args.only and not args.update_baseline:
        for n in baseline:
            if n not in names_now and not any(v["obligation"].startswith(n.rsplit(".", 1)[0]) for v in violations):
                if tier == "quick" and baseline[n].get("tier") == "thorough":
                    continue
                if AUTO_GUARD.search(n):
                    # a division guard the engine generated for a division that is no longer in the code: nothing of the contract is lost
                    # (they are numbered in the order met, so an algebraic rewrite renumbers them: the ones generated now are decided under their new names)
                    notes.add("definedness guard of the baseline not generated on this tree (the division / root is gone or renumbered): " + n)
                    continue
                if n.endswith(".noexc") and any(n == i + ".noexc" for i in complete_harnesses):
                    # `<harness>.noexc` is generated only where a path of the harness ends in an exception the harness did not expect (and is discharged
                    # where that path is infeasible): not generated = no such path at all on this tree
                    notes.add("no path of the harness ends in an unexpected exception on this tree: " + n)
                    continue
                if LOOP_AID.search(n) and any(n.startswith(i + ".") for i in complete_harnesses):
                    # the loop the invariant was written for is gone (rewritten as a fold / comprehension the engine handles itself) and the
                    # harness ran to its end: the postconditions the invariant served are still generated and decided on their own
                    notes.add("loop-invariant obligation of the baseline not generated on this tree (the loop is gone): " + n)
                    continue
                undecided.append({"obligation": n, "reason": "obligation of the baseline was not generated on this tree (contract stale or code left the path)"})
    # known findings
    fired = []
    fired_obligations = set()     # names of contract obligations refuted by a listed known finding
    kept = []
    for v in violations:
        kf = None
        for k in known:
            if k.get("status") == "known" and _ob_match(k["obligation"], v["obligation"]) and _in_region(k, v):
                kf = k
        if kf:
            fired.append(kf)
            fired_obligations.add(v["obligation"])
        else:
            kept.append(v)
    violations = kept
    # one report per obligation
    seen_ob = set()
    uniq = []
    for v in violations:
        if v["obligation"] not in seen_ob:
            seen_ob.add(v["obligation"])
            uniq.append(v)
    violations = uniq
    for k in {(k["id"], k["obligation"], json.dumps(k.get("region"), sort_keys=True)): k for k in fired}.values():
        print("KNOWN-FINDING: property=%s %s" % (prop, k["what_fails"]))
    discharged = sum(1 for o in ob_rows if o["status"] == "discharged")
    # ------------------------------------------------------------------ output
    exit_code = 0
    if errors:
        for e in errors:
            print("CHECKER-ERROR property=%s %s" % (prop, e))
        exit_code = 3
    for v in violations:
        payload = {"property": prop, "obligation": v["obligation"], "harness": v["harness"], "inputs": v["inputs"], "confirmed": v["confirmed"],
                   "detail": v["detail"], "solver_output": v["solver_output"], "repo": repo, "tier": tier, "kind": v.get("kind", "contract"), "case": v.get("case")}
        fn = write_replay(prop, v["obligation"], payload)
        print("VIOLATION property=%s replay=%s obligation=%s%s%s" % (prop, fn, v["obligation"], (" model-replayed=%s" % v["replayed"]) if v.get("replayed") else "",
                                                                      "" if v["confirmed"] else " no-failing-input-found"))
        exit_code = 1
    if undecided:
        for u in undecided[:20]:
            print("UNDECIDED property=%s obligation=%s reason=%s" % (prop, u["obligation"], u["reason"]))
        if exit_code == 0:
            exit_code = 2
    if args.update_baseline and exit_code == 0:
        new = {o["name"]: {"status": o["status"], "havoc": o["havoc"], "kind": o["kind"], "tier": hmap[o["harness"]].tier} for o in ob_rows}
        if tier == "quick":   # keep the entries that only the thorough tier generates
            for n, e in baseline.items():
                if e.get("tier") == "thorough" and n not in new:
                    new[n] = e
        import fcntl
        with open(BASELINE + ".lock", "w") as lock:      # several properties may be updated at the same time: read-modify-write under a lock
            fcntl.flock(lock, fcntl.LOCK_EX)
            baseline_all = load_json(BASELINE, {})
            baseline_all[prop] = new
            tmp = BASELINE + ".tmp.%d" % os.getpid()
            with open(tmp, "w") as fh:
                json.dump(baseline_all, fh, indent=1, sort_keys=True)
            os.replace(tmp, BASELINE)
    if not args.only and not os.environ.get("VCHECK_NO_EVIDENCE"):
        write_evidence(prop, tier, seed, repo, hs, ob_rows, discharged, violations, undecided, errors, notes, functions, interpreted,
                       solver_seconds, conc_runs, conc_distinct, samples, bounded_rows, fired, wall, extra, fired_obligations)
    n_unb = sum(1 for o in ob_rows if o["kind"] == "unbounded")
    print("vcheck %s tier=%s: %d obligations (%d unbounded, %d shape-bounded, %d data), %d discharged, %d refuted by listed known findings, %d violations, %d undecided; %d functions' ASTs interpreted; %d native contract evaluations; solver %.1fs wall %.1fs -> exit %d"
          % (prop, tier, len(ob_rows), n_unb, sum(1 for o in ob_rows if o["kind"] == "shape-bounded"), sum(1 for o in ob_rows if o["kind"] == "data"),
             discharged, len([o for o in ob_rows if o["name"] in fired_obligations and o["status"] != "discharged"]), len(violations), len(undecided), len(interpreted), conc_runs, solver_seconds, wall, exit_code))
    if args.verbose:
        for o in ob_rows:
            print("  %-90s %-10s n=%d %.2fs %s" % (o["name"], o["status"], o["instances"], o["seconds"], o["kind"]))
    return exit_code


def _in_region(k, v):
    reg = k.get("region")
    if not reg:
        return True
    case = v.get("case") or {}
    inner = case.get("inputs") if isinstance(case.get("inputs"), dict) else {}
    for key, val in reg.items():
        if "." in key:
            cur_ = case
            for part in key.split("."):
                cur_ = cur_.get(part) if isinstance(cur_, dict) else None
            if cur_ != val:
                return False
        elif case.get(key, inner.get(key)) != val:
            return False
    return True


def write_evidence(prop, tier, seed, repo, hs, ob_rows, discharged, violations, undecided, errors, notes, functions, interpreted,
                   solver_seconds, conc_runs, conc_distinct, samples, bounded_rows, fired, wall, extra, fired_obligations=()):
    manifest = load_json(os.path.join(VERIF, "MANIFEST.json"), {})
    level = "proof"
    for c in manifest.get("checks", []):
        if c.get("property_id") == prop:
            level = c["level_claimed"]["category"]
    mod = sys.modules.get("contracts.%s" % prop)
    meta = getattr(mod, "META", {}) if mod else {}
    ob_samples = [{"obligation": o["name"], "status": o["status"], "backend": o["backend"], "kind": o["kind"]} for o in ob_rows[:5]]
    refuted = sorted(o["name"] for o in ob_rows if o["name"] in set(fired_obligations) and o["status"] != "discharged")
    ev = {
        "property_id": prop,
        "tier": tier,
        "seed": seed,
        "level": level,
        "coverage": {
            # obligations claimed as proved by this run. Obligations that pin a LISTED known finding (a genuine defect of the code recorded in
            # known_findings.json) are refuted, not proved: they are counted and named separately below and are not part of the claim
            "obligations": len(ob_rows) - len(refuted),
            "discharged": discharged,
            "obligations_refuted_by_known_findings": len(refuted),
            "obligations_refuted_by_known_findings_names": refuted,
            "checker_cmd": "./vcheck %s --tier %s" % (prop, tier),
            "trusted_base": meta.get("trusted_base", []) + ["pyvc (AST interpreter / VC generator in /verif/pyvc)", "z3 5.1.0", "CPython 3.12 ast module"],
            "evaluations": conc_runs,
            "distinct_nontrivial": conc_distinct,
            "rule": "obligations: one per named postcondition / invariant step / call-site precondition, discharged on every symbolic path of the real function's AST. "
                    "evaluations: native CPython runs of the real function against the same contract on seeded inputs (bounded stand-in, never counted as proved); distinct = distinct input tuples",
            "samples": ob_samples + samples,
            "explanation": meta.get("explanation", ""),
            "obligations_unbounded": sum(1 for o in ob_rows if o["kind"] == "unbounded"),
            "obligations_shape_bounded": sum(1 for o in ob_rows if o["kind"] == "shape-bounded"),
            "obligations_data": sum(1 for o in ob_rows if o["kind"] == "data"),
            "obligation_list": ob_rows,
            "functions_under_contract": {f: sorted(v) for f, v in sorted(functions.items())},
            "function_sources_interpreted": interpreted,
            "extraction_drops": "docstrings, decorators other than staticmethod/classmethod/property, type annotations",
            "solver_seconds_total": round(solver_seconds, 3),
            "bounded": bounded_rows,
            "not_decided_clauses": meta.get("not_decided", []),
            "known_findings_fired": [k["id"] for k in fired],
            "undecided": undecided[:50],
            "checker_errors": errors[:10],
            "repo": repo,
        },
        "assumptions": ASSUMPTIONS_ENGINE + sorted(notes) + meta.get("assumptions", []),
        "wall_s": round(wall, 2),
        "violations": len(violations),
    }
    d = os.path.join(VERIF, "evidence")
    os.makedirs(d, exist_ok=True)
    with open(os.path.join(d, "%s.json" % prop), "w") as fh:
        json.dump(ev, fh, indent=1, default=repr)
