"""C05  Only balanced reactions are admitted and their elements and charge are conserved."""
from pyvc.api import harness
from pyvc import spec as SP
from pyvc.objs import make_obj

META = {
    "explanation": "composition_keys, composition_violation, check_balance (iff), the constructor's default checks (accepted iff balanced), composition_balance_vectors, mass/charge violation helpers and obeys_* proved for every composition value and stoichiometric coefficient at fixed system shapes (substances with partly missing keys incl. charge-only and empty compositions, inactive parts, two reactions)",
    "trusted_base": ["Lean 4 kernel + Mathlib for lemmas/C05_invariant.lean (re-checked on every run: C05.lemma.*): for ANY numbers of reactions and substances, w.(N^T r) = sum_r r_r (w.nu_r), hence w is an invariant of every rate vector when every reaction conserves the key", "assumed contract 5.6 (SymbolicSys.from_callback) for the right-hand side obtained through get_odesys"],
    "not_decided": ["numerical integration keeps the invariants to solver tolerance (external integrator; bounded stand-in, thorough tier)", "linear_dependencies analytic elimination (sympy rref; bounded stand-in)"],
    "assumptions": ["system shapes are fixed per harness (shape-bounded); values are unbounded integers/reals"],
}
CH = "chempy.chemistry"
RS = "chempy.reactionsystem"

# substance -> composition keys present (0 = charge)
LAYOUT = {"A": (1, 8), "B": (0, 1), "C": (0, 1, 8), "D": ()}


def substances(v, bias=None):
    from chempy.chemistry import Substance
    from collections import OrderedDict
    out = OrderedDict()
    comp = {}
    for name, keys in LAYOUT.items():
        c = {k: v.int("%s_%d" % (name, k), lo=-3 if k == 0 else 0, hi=4) for k in keys}
        if bias:
            c.update({k: val for k, val in bias.get(name, {}).items() if k in c})
        comp[name] = c
        out[name] = Substance(name, composition=dict(c))
    return out, comp


def reactions(v, n=2, unit_coeffs=False):
    from chempy.chemistry import Reaction
    lay = [(["A", "B"], ["C"], [], []), (["C"], ["A", "D"], ["B"], ["B"])][:n]
    rxns, ds = [], []
    for i, (reac, prod, ireac, iprod) in enumerate(lay):
        mk = lambda side, ks: {k: (v.int("r%d_%s_%s" % (i, side, k), lo=1, hi=3) if not unit_coeffs else 1) for k in ks}
        d = [mk("r", reac), mk("p", prod), mk("ir", ireac), mk("ip", iprod)]
        rxns.append(Reaction(dict(d[0]), dict(d[1]), None, dict(d[2]) or None, dict(d[3]) or None, checks=()))
        ds.append(d)
    return rxns, ds


def biased(v):
    """concrete sampling only: random compositions are almost never balanced, so a part of the samples is
    steered to balanced systems and to systems that are off in exactly one key (incl. charge only).
    Symbolic mode assumes nothing."""
    if v.symbolic:
        return None, False
    mode = v.choice("bias", ["random", "balanced", "one_key_off", "one_key_off"])
    if mode == "random":
        return None, False
    # A + B -> C and C -> A + D (+ inactive B on both sides); B must be empty for the second to balance
    bias = {"A": {1: 2, 8: 1}, "B": {0: 0, 1: 0}, "C": {0: 0, 1: 2, 8: 1}, "D": {}}
    if mode == "one_key_off":
        which = v.choice("off_key", [0, 1, 8])
        who = v.choice("off_substance", ["A", "B", "C"])
        if which in bias[who] or which in LAYOUT[who]:
            bias[who][which] = bias[who].get(which, 0) + v.choice("off_by", [-1, 1, 2])
    return bias, True


def net(d, k):
    return d[1].get(k, 0) - d[0].get(k, 0) + d[3].get(k, 0) - d[2].get(k, 0)


def violation(d, comp, ck):
    return sum(comp[s].get(ck, 0) * net(d, s) for s in LAYOUT)


CKS = [0, 1, 8]


@harness("C05", "composition_violation", functions=[CH + ":Reaction.composition_violation", CH + ":Substance.composition_keys", CH + ":Reaction.net_stoich"], kind="shape-bounded", samples=40)
def _(v):
    from chempy.chemistry import Substance
    subst, comp = substances(v)
    rxns, ds = reactions(v)
    for i, (rxn, d) in enumerate(zip(rxns, ds)):
        viol, cks = v.call(rxn.composition_violation, subst, True)
        v.prove("r%d.keys_sorted_incl_charge" % i, list(cks) == CKS)
        v.prove("r%d.entries" % i, SP.conj([v.eq(viol[j], violation(d, comp, ck)) for j, ck in enumerate(CKS)]))
        viol2 = v.call(rxn.composition_violation, subst)
        v.prove("r%d.default_keys" % i, SP.conj([v.eq(viol2[j], violation(d, comp, ck)) for j, ck in enumerate(CKS)]))
        viol3 = v.call(rxn.composition_violation, subst, [8, 0])
        v.prove("r%d.given_keys" % i, SP.conj([v.eq(viol3[0], violation(d, comp, 8)), v.eq(viol3[1], violation(d, comp, 0)), len(viol3) == 2]))
    v.prove("composition_keys_skip", v.call(Substance.composition_keys, subst.values(), (0,)) == [1, 8])


def balanced(ds, comp):
    return SP.conj([v_ == 0 for d in ds for v_ in [violation(d, comp, ck) for ck in CKS]])


@harness("C05", "check_balance", functions=[RS + ":ReactionSystem.check_balance"], kind="shape-bounded", samples=60)
def _(v):
    from chempy.reactionsystem import ReactionSystem
    bias, unit = biased(v)
    subst, comp = substances(v, bias)
    rxns, ds = reactions(v, unit_coeffs=unit)
    rsys = ReactionSystem(rxns, subst, checks=())
    r = v.call(rsys.check_balance)
    v.prove("true_iff_balanced", SP.iff(r, balanced(ds, comp)))
    out = v.run(rsys.check_balance, throw=True)
    if out.returned:
        v.prove("throw_returns_only_if_balanced", SP.conj([out.value is True, balanced(ds, comp)]))
    else:
        v.prove("throw_raises_ValueError_only_if_unbalanced", SP.conj([out.raised(ValueError), SP.neg(balanced(ds, comp))]), detail=repr(out.exc))


@harness("C05", "constructor_admits_iff_balanced", functions=[RS + ":ReactionSystem.__init__", RS + ":ReactionSystem.check_balance", RS + ":ReactionSystem.check_substance_keys",
                                                              RS + ":ReactionSystem.check_duplicate", RS + ":ReactionSystem.check_duplicate_names"], kind="shape-bounded", samples=60)
def _(v):
    from chempy.reactionsystem import ReactionSystem
    bias, unit = biased(v)
    subst, comp = substances(v, bias)
    rxns, ds = reactions(v, unit_coeffs=unit)
    out = v.run(ReactionSystem, rxns, subst)
    # the two reactions have different species sets, names are None, all keys are known: the other default checks pass
    if out.returned:
        v.prove("accepted_only_if_balanced", balanced(ds, comp))
        v.prove("default_checks_include_balance", "balance" in ReactionSystem.default_checks)
    else:
        v.prove("refused_only_if_unbalanced", SP.conj([out.raised(ValueError), SP.neg(balanced(ds, comp))]), detail=repr(out.exc))
    out2 = v.run(ReactionSystem, rxns, subst, dont_check={"balance"})
    v.prove("dont_check_skips", out2.returned, detail=repr(out2.exc))


@harness("C05", "no_composition_is_not_checked", functions=[RS + ":ReactionSystem.check_balance"], kind="shape-bounded", samples=10)
def _(v):
    from chempy.reactionsystem import ReactionSystem
    from chempy.chemistry import Substance
    subst, comp = substances(v)
    subst["D"] = Substance("D")   # composition None
    rxns, ds = reactions(v)
    rsys = ReactionSystem(rxns, subst, checks=())
    v.prove("non_strict_true", v.call(rsys.check_balance) is True)
    v.prove("strict_false", v.call(rsys.check_balance, strict=True) is False)
    out = v.run(rsys.check_balance, strict=True, throw=True)
    v.prove("strict_throw", out.raised(ValueError))


@harness("C05", "composition_balance_vectors", functions=[RS + ":ReactionSystem.composition_balance_vectors"], kind="shape-bounded", samples=20)
def _(v):
    from chempy.reactionsystem import ReactionSystem
    subst, comp = substances(v)
    rxns, ds = reactions(v)
    rsys = ReactionSystem(rxns, subst, checks=())
    A, ck = v.call(rsys.composition_balance_vectors)
    names = list(LAYOUT)
    v.prove("keys", list(ck) == CKS)
    v.prove("shape", len(A) == 3 and all(len(row) == 4 for row in A))
    v.prove("rows_are_keys_columns_are_substances", SP.conj([v.eq(A[i][j], comp[s].get(k, 0)) for i, k in enumerate(CKS) for j, s in enumerate(names)]))
    # exact linear invariants of the right-hand side for every rate vector: B . (N^T r) = 0 when balanced
    r0, r1 = v.real("rate0", lo=-9, hi=9), v.real("rate1", lo=-9, hi=9)
    dcdt = {s: net(ds[0], s) * r0 + net(ds[1], s) * r1 for s in names}
    inv = [sum(A[i][j] * dcdt[s] for j, s in enumerate(names)) for i in range(3)]
    # B . (N^T r) is the rate-weighted sum of the reactions' composition violations (so it vanishes for every
    # rate vector exactly when every reaction is balanced): polynomial identity, back end `ring`
    for i, k in enumerate(CKS):
        v.prove_identity("invariant_is_weighted_violation.key%d" % k, inv[i] + 0.0, r0 * violation(ds[0], comp, k) + r1 * violation(ds[1], comp, k), rel=1e-9, abs_=1e-9)


@harness("C05", "mass_charge_helpers", functions=[CH + ":Reaction._violation", CH + ":Reaction.mass_balance_violation", CH + ":Reaction.charge_neutrality_violation",
                                                  RS + ":ReactionSystem.obeys_mass_balance", RS + ":ReactionSystem.obeys_charge_neutrality"], kind="shape-bounded", samples=30)
def _(v):
    from chempy.reactionsystem import ReactionSystem
    from chempy.chemistry import Substance
    from collections import OrderedDict
    names = list(LAYOUT)
    masses = {s: v.real("m_" + s, lo=0, hi=50) for s in names}
    charges = {s: v.int("q_" + s, lo=-3, hi=3) for s in names}
    subst = OrderedDict((s, Substance(s, composition={0: charges[s]}, data={"mass": masses[s]})) for s in names)
    rxns, ds = reactions(v)
    rsys = ReactionSystem(rxns, subst, checks=())
    for i, (rxn, d) in enumerate(zip(rxns, ds)):
        v.prove("r%d.mass" % i, v.eq(v.call(rxn.mass_balance_violation, subst), sum(masses[s] * net(d, s) for s in names)))
        v.prove("r%d.charge" % i, v.eq(v.call(rxn.charge_neutrality_violation, subst), sum(charges[s] * net(d, s) for s in names)))
    mspec = [sum(masses[s] * net(d, s) for s in names) for d in ds]
    cspec = [sum(charges[s] * net(d, s) for s in names) for d in ds]
    # modular step: the per-reaction helpers are replaced by their (just proved) contracts
    from chempy.chemistry import Reaction
    idx = lambda rxn: [i for i, r in enumerate(rxns) if r is rxn][0]
    v.contract(Reaction.mass_balance_violation, "mass_balance_violation", None, lambda v, rxn, subs: mspec[idx(rxn)])
    v.contract(Reaction.charge_neutrality_violation, "charge_neutrality_violation", None, lambda v, rxn, subs: cspec[idx(rxn)])
    v.prove("obeys_mass_balance", SP.iff(v.call(rsys.obeys_mass_balance), SP.conj([m == 0 for m in mspec])) if v.symbolic else True)
    v.prove("obeys_charge_neutrality", SP.iff(v.call(rsys.obeys_charge_neutrality), SP.conj([c == 0 for c in cspec])))


@harness("C05", "fractional_compositions", functions=[RS + ":ReactionSystem.composition_balance_vectors", CH + ":Reaction.composition_violation", RS + ":ReactionSystem.check_balance"], kind="shape-bounded", samples=30)
def _(v):
    """non-stoichiometric formulas (FeO1.5, Ca2.832...) give real-valued composition entries: nothing may truncate them"""
    from chempy.reactionsystem import ReactionSystem
    from chempy.chemistry import Substance
    from collections import OrderedDict
    comp = {name: {k: v.real("f_%s_%d" % (name, k), lo=0, hi=4) for k in keys} for name, keys in LAYOUT.items()}
    subst = OrderedDict((n, Substance(n, composition=dict(c))) for n, c in comp.items())
    rxns, ds = reactions(v)
    rsys = ReactionSystem(rxns, subst, checks=())
    A, ck = v.call(rsys.composition_balance_vectors)
    names = list(LAYOUT)
    v.prove("entries_are_the_compositions_exactly", SP.conj([v.eq(A[i][j], comp[s].get(k, 0)) for i, k in enumerate(CKS) for j, s in enumerate(names)]))
    viol = v.call(rxns[0].composition_violation, subst)
    v.prove("violation_entries", SP.conj([v.eq(viol[j], violation(ds[0], comp, ck_)) for j, ck_ in enumerate(CKS)]))
    r = v.call(rsys.check_balance)
    v.prove("true_iff_balanced", SP.iff(r, balanced(ds, comp)) if v.symbolic else True)


@harness("C05", "lemma", functions=["lemmas/C05_invariant.lean: weighted_rhs_is_weighted_violation, invariant_of_balanced"], kind="lemma", samples=0)
def _(v):
    """shape-independent step of the invariant clause, checked by the Lean kernel on every run (no sorry/axiom: scanned)"""
    v.prove_lean("invariant_of_balanced_any_shape", "lemmas/C05_invariant.lean", theorems=("weighted_rhs_is_weighted_violation", "invariant_of_balanced"))


@harness("C05", "invariants_of_the_real_right_hand_side", functions=["chempy.kinetics.ode:get_odesys", "chempy.kinetics.ode:get_odesys.<locals>.dydt", RS + ":ReactionSystem.rates",
                                                                   RS + ":ReactionSystem.composition_balance_vectors"], kind="shape-bounded", samples=0, max_paths=400)
def _(v):
    """the vectors REPORTED with the ODE system are invariants of the right-hand side the ODE system actually has (ReactionSystem.rates through
    get_odesys, formula-defined species incl. ions, an inactive product that carries the balance, a species on both sides of a reaction, symbolic rate
    constants and coefficients): w . f(c) == sum_r rate_r * (violation of r), for every concentration vector; for the system that can be accepted
    (a == b == 2c) the vectors are reported, are the compositions written here, and w . f(c) == 0; and with a feed (cstr) no invariant, elimination
    or safe step is offered"""
    from collections import OrderedDict
    from chempy.chemistry import Reaction, Substance
    from chempy.reactionsystem import ReactionSystem
    from chempy.kinetics.ode import get_odesys
    from contracts.C04 import FakeSymbolicSys
    names = ["Fe+3", "SCN-", "FeSCN+2", "H2O2", "H2O", "O2", "e-", "O"]
    subs = OrderedDict((k, Substance.from_formula(k)) for k in names)
    comp = {k: dict(s.composition) for k, s in subs.items()}
    # the compositions as the formulas are written (key 0 = charge): everything below is judged against THIS table, not against what chempy reports
    hand = {"Fe+3": {26: 1, 0: 3}, "SCN-": {16: 1, 6: 1, 7: 1, 0: -1}, "FeSCN+2": {26: 1, 16: 1, 6: 1, 7: 1, 0: 2},
            "H2O2": {1: 2, 8: 2}, "H2O": {1: 2, 8: 1}, "O2": {8: 2}, "e-": {0: -1}, "O": {8: 1}}
    v.prove("compositions_as_written", comp == hand)
    a, b, c = v.int("a", lo=1, hi=3), v.int("b", lo=1, hi=3), v.int("c", lo=1, hi=3)
    k = [v.real("k%d" % i, lo=0, hi=9) for i in range(6)]
    # (active reactants, active products, inactive reactants, inactive products).  No. 3 is balanced only through its INACTIVE product (the rate law
    # does not see it, the stoichiometry must), no. 4 has water on both sides; the last one is never balanced (sulfur, carbon, nitrogen, charge)
    lay = [({"Fe+3": 1, "SCN-": 1}, {"FeSCN+2": 1}, {}, {}), ({"FeSCN+2": 1}, {"Fe+3": 1, "SCN-": 1}, {}, {}), ({"H2O2": a}, {"H2O": b, "O2": c}, {}, {}),
           ({"H2O2": 1}, {"H2O": 1}, {}, {"O": 1}), ({"O": 2, "H2O": 1}, {"O2": 1, "H2O": 1}, {}, {}), ({"Fe+3": 1, "e-": 1}, {"FeSCN+2": 1}, {}, {})]
    nb = 5       # the first nb reactions form the system that is accepted when a == b == 2c
    rxns = [Reaction(dict(r), dict(p), kk, dict(ir) or None, dict(ip) or None, checks=()) for (r, p, ir, ip), kk in zip(lay, k)]
    rsys = ReactionSystem(rxns, subs, checks=())
    odesys, extra = v.call(get_odesys, rsys, SymbolicSys=FakeSymbolicSys)
    keys = sorted({ck for cc in hand.values() for ck in cc})
    rows = [[hand[s].get(ck, 0) for s in names] for ck in keys]           # one row per key, one column per substance, from the table above

    def reported_ok(osys):
        inv, inv_names = osys.linear_invariants, osys.linear_invariant_names
        return inv is not None and inv_names is not None and [str(x) for x in keys] == list(inv_names) and [list(r) for r in inv] == rows

    def rates_of(osys):
        y = dict(zip(osys.names, osys.dep))
        out = []
        for (r, p, ir, ip), kk in zip(lay, k):
            cp = 1
            for key, nu in r.items():         # mass action over the ACTIVE reactants only
                cp = cp * SP.spow(y[key], nu)
            out.append(kk * cp)
        return out

    def viol_of(ck):                          # change of key ck per turn-over of each reaction, inactive parts included
        tot = lambda side: sum(nu * hand[s].get(ck, 0) for s, nu in side.items())
        return [tot(p) + tot(ip) - tot(r) - tot(ir) for (r, p, ir, ip) in lay]

    # this system is never balanced, so its vectors are NOT invariants: reporting them (as today) or reporting nothing are both within the property;
    # what is reported must be the composition vectors (a zero, mis-scaled or mis-ordered row is refuted also for keys every reaction conserves)
    v.prove("one_reported_vector_per_composition_key", reported_ok(odesys) or (odesys.linear_invariants is None and odesys.linear_invariant_names is None))
    rate = rates_of(odesys)
    for row, ck in zip(rows, keys):
        lhs = sum(row[j] * odesys.exprs[j] for j in range(len(names)))
        v.prove("reported_vector_of_key_%d_against_the_real_rhs" % ck, v.eq(lhs, sum(rt * vi for rt, vi in zip(rate, viol_of(ck)))))
    # the last reaction is unbalanced and the third unless a == b == 2c ... : the callback is offered iff all balance
    bal = SP.conj([a == b, a == 2 * c])   # H: 2a = 2b, O: 2a = b + 2c
    v.prove("safe_step_and_elimination_only_for_balanced_systems", (extra["max_euler_step_cb"] is None) and (extra["linear_dependencies"] is None))
    rsys_b = ReactionSystem(rxns[:nb], subs, checks=())
    ode_b, extra_b = v.call(get_odesys, rsys_b, SymbolicSys=FakeSymbolicSys)
    offered = extra_b["linear_dependencies"] is not None
    v.prove("elimination_offered_iff_every_reaction_balanced", SP.iff(offered, bal) if not isinstance(bal, bool) else offered == bal)
    # 'for every accepted system the reported composition vectors are exact linear invariants of the kinetic right-hand side', on the system that
    # CAN be accepted: when it is balanced the vectors are reported and are the table's, and each annihilates the real right-hand side
    v.prove("accepted_system.reports_the_composition_vectors_of_the_formulas", SP.implies(bal, reported_ok(ode_b)))
    for row, ck in zip(rows, keys):
        lhs = sum(row[j] * ode_b.exprs[j] for j in range(len(names)))
        v.prove("accepted_system.key_%d_is_conserved_by_the_real_rhs_when_balanced" % ck, SP.implies(bal, v.eq(lhs, 0)))
    ode_c, extra_c = v.call(get_odesys, rsys_b, cstr=True, SymbolicSys=FakeSymbolicSys)
    v.prove("with_a_feed_nothing_is_reported_as_conserved", ode_c.linear_invariants is None and ode_c.linear_invariant_names is None
            and extra_c["linear_dependencies"] is None and extra_c["max_euler_step_cb"] is None)
    # the feed may also be given as the pair (feed-ratio key, {substance: feed-concentration key}) -- the form get_odesys itself reports
    pair = ("fr", OrderedDict((k, "feed_" + k) for k in names))
    ode_p, extra_p = v.call(get_odesys, rsys_b, cstr=pair, SymbolicSys=FakeSymbolicSys)
    v.prove("with_a_feed_given_as_a_pair_nothing_is_reported_as_conserved", ode_p.linear_invariants is None and ode_p.linear_invariant_names is None
            and extra_p["linear_dependencies"] is None and extra_p["max_euler_step_cb"] is None and extra_p["cstr_fr_fc"] == pair)


@harness("C05", "composition_balance_vectors.follow_the_current_substance_order", functions=[RS + ":ReactionSystem.composition_balance_vectors", RS + ":ReactionSystem.sort_substances_inplace"],
         kind="shape-bounded", samples=10)
def _(v):
    """the vectors are read off the system as it IS: after the substances have been re-ordered (or a system has been extended) the columns
    follow the new order -- no state from an earlier call"""
    from collections import OrderedDict
    from chempy.reactionsystem import ReactionSystem
    subst, comp = substances(v)
    rxns, ds = reactions(v)
    order = ["C", "A", "D", "B"]
    rsys = ReactionSystem(rxns, OrderedDict((k, subst[k]) for k in order), checks=())
    A1, ck1 = v.call(rsys.composition_balance_vectors)
    v.prove("columns_in_given_order", SP.conj([v.eq(A1[i][j], comp[s].get(k, 0)) for i, k in enumerate(CKS) for j, s in enumerate(order)]))
    v.call(rsys.sort_substances_inplace)
    v.prove("sorted_now", list(rsys.substances) == sorted(order))
    A2, ck2 = v.call(rsys.composition_balance_vectors)
    v.prove("columns_follow_the_new_order", SP.conj([v.eq(A2[i][j], comp[s].get(k, 0)) for i, k in enumerate(CKS) for j, s in enumerate(sorted(order))]))
    v.prove("keys_unchanged", list(ck1) == CKS and list(ck2) == CKS)


# H, N, O per formula unit of the NOx species, as the formulas are written (all neutral: no charge key)
NOX = {"HNO2": {1: 1, 7: 1, 8: 2}, "H2O": {1: 2, 8: 1}, "NO": {7: 1, 8: 1}, "NO2": {7: 1, 8: 2}, "N2O4": {7: 2, 8: 4}}


@harness("C05", "analytic_elimination", functions=["chempy.kinetics.ode:get_odesys.<locals>.linear_dependencies", "chempy.kinetics.ode:get_odesys.<locals>.linear_dependencies.<locals>.analytic_solver"], kind="data")
def _(v):
    """'any analytic elimination of a concentration offered from them reproduces those invariants': the expression offered for an eliminated
    concentration, substituted into the conservation relations, makes them hold identically in the remaining concentrations -- which requires that no
    eliminated concentration is left in it.  All preferred subsets of sizes 1..rank and the default (no preference) of one NOx system in two substance
    orders (real pyodesys object).  The conservation relations are A.(y - y0) = 0 with A WRITTEN HERE from the formulas (rows H, N, O), not read from
    the implementation; a subset of concentrations can be expressed through the others exactly when its columns of A are linearly independent"""
    import itertools
    import sympy
    from collections import OrderedDict
    from chempy.chemistry import Substance
    from chempy.reactionsystem import ReactionSystem
    from chempy.kinetics.ode import get_odesys
    base = ReactionSystem.from_string("2 HNO2 -> H2O + NO + NO2; 3\n2 NO2 -> N2O4; 4", substance_factory=Substance.from_formula)
    for tag, order in (("order1", ["NO", "H2O", "HNO2", "N2O4", "NO2"]), ("order2", ["HNO2", "H2O", "NO", "NO2", "N2O4"])):
        try:
            rs = ReactionSystem(base.rxns, OrderedDict((k, base.substances[k]) for k in order))
            odesys, extra = get_odesys(rs)
            reported = {str(nm): [sympy.nsimplify(x) for x in row] for nm, row in zip(odesys.linear_invariant_names, sympy.Matrix(odesys.linear_invariants).tolist())}
        except Exception as ex:
            v.prove(tag + ".every_offered_equation_follows_from_the_invariants", False, detail="building the system: %r" % (ex,))
            continue
        A = sympy.Matrix([[NOX[s].get(ck, 0) for s in order] for ck in (1, 7, 8)])
        v.prove(tag + ".reported_vectors_are_the_compositions_of_the_formulas", reported == {str(ck): list(A.row(i)) for i, ck in enumerate((1, 7, 8))}, detail=repr(reported))
        rank = A.rank()          # 3
        dep = dict(zip(odesys.names, odesys.dep))
        y0 = {d: sympy.Symbol("y0_" + n) for d, n in zip(odesys.dep, odesys.names)}
        y0vec = sympy.Matrix([y0[d] for d in odesys.dep])
        circular, wrong, other_keys, not_offered, not_reproduced, total = [], [], [], [], [], 0
        prefs = [list(pref) for size in range(1, rank + 1) for pref in itertools.combinations(order, size)] + [None]
        for pref in prefs:
            eliminable = pref is None or A[:, [order.index(s) for s in pref]].rank() == len(pref)
            try:
                ex = extra["linear_dependencies"](pref)(0, y0, None, sympy)
            except Exception as exc:          # refusing a subset that cannot be eliminated is right; one that can (or the default) must be served
                if eliminable:
                    not_offered.append((pref, repr(exc)[:80]))
                continue
            total += 1
            elim = set(ex.keys())
            if (pref is not None and elim != {dep[s] for s in pref}) or not elim or not elim <= set(odesys.dep):
                other_keys.append((pref, sorted(map(str, elim))))
            ex = OrderedDict((d, sympy.sympify(e)) for d, e in ex.items())
            if any(e.free_symbols & elim for e in ex.values()):
                circular.append(pref)
                continue
            # what must always hold: every offered equation is a consequence of the invariants (lies in the row space of A, constant term from y0)
            for d, e in ex.items():
                lhs = sympy.expand(d - e)
                coeffs = sympy.Matrix([[lhs.coeff(x) for x in odesys.dep]])
                aug = A.col_join(coeffs)
                const_ok = sympy.expand(lhs - sum(c * x for c, x in zip(coeffs, odesys.dep)) + sum(c * y0[x] for c, x in zip(coeffs, odesys.dep))) == 0
                if aug.rank() != rank or not const_ok:
                    wrong.append((pref, str(d)))
            # as many eliminated as there are independent relations (and always for the default): with the offers substituted EVERY relation holds identically
            if len(elim) == rank or pref is None:
                full = sympy.Matrix([ex.get(d, d) for d in odesys.dep])
                resid = (A * full - A * y0vec).applyfunc(sympy.expand)
                if len(elim) != rank or any(r != 0 for r in resid):
                    not_reproduced.append((pref, str(list(resid))))
        v.prove(tag + ".every_offered_equation_follows_from_the_invariants", not wrong and total >= 10, detail=repr(wrong[:3]))
        v.prove(tag + ".no_eliminated_concentration_left_in_an_offered_expression", not circular, detail="circular for preferred=%s" % (circular[:4],))
        v.prove(tag + ".the_eliminated_concentrations_are_the_requested_ones", not other_keys, detail=repr(other_keys[:3]))
        v.prove(tag + ".every_eliminable_subset_and_the_default_are_served", not not_offered, detail=repr(not_offered[:3]))
        v.prove(tag + ".full_and_default_eliminations_reproduce_every_invariant", not not_reproduced, detail=repr(not_reproduced[:2]))


@harness("C05", "integration_keeps_the_invariants", functions=["chempy.kinetics.ode:get_odesys", "chempy.kinetics.ode:get_odesys.<locals>.dydt",
                                                                "chempy.kinetics.ode:get_odesys.<locals>.linear_dependencies.<locals>.analytic_solver"], kind="data")
def _(v):
    """'numerical integration keeps them at their initial values to solver tolerance': the real pyodesys system of an accepted reaction system is
    integrated (scipy, atol = rtol = 1e-9) and A.y(t) stays at A.y(0) within 1e-6 (1 + |A|.y(0)) at every reported time, A written here from the
    formulas (NOx system: rows H, N, O; an ionic equilibrium: charge, C = N = S, Fe).  Not vacuous: the twin with an UNBALANCED first reaction
    (2 HNO2 -> H2O + NO + 2 NO2, built with checks=()) drifts by more than 0.1 in N and O over the same time span while H stays.  And the use a caller
    makes of an offered elimination (pyodesys' PartiallySolvedSystem) gives the same concentrations as the full integration"""
    import warnings
    import numpy as np
    from collections import OrderedDict
    from chempy.chemistry import Reaction, Substance
    from chempy.reactionsystem import ReactionSystem
    from chempy.kinetics.ode import get_odesys
    tout = np.linspace(0, 2, 41)
    kw = dict(integrator="scipy", atol=1e-9, rtol=1e-9)

    def drift(res, names, comp, c0):
        """per composition key: max over the reported times of |sum_s comp[s][key] (y_s(t) - y_s(0))|, and the tolerance 1e-6 (1 + sum_s |comp| y_s(0))"""
        out = {}
        for ck in sorted({k for s in names for k in comp[s]}):
            tot = sum(comp[s].get(ck, 0) * (np.asarray(res.named_dep(s), dtype=float) - c0[s]) for s in names)
            out[ck] = (float(np.max(np.abs(tot))), 1e-6 * (1 + sum(abs(comp[s].get(ck, 0)) * c0[s] for s in names)))
        return out

    with warnings.catch_warnings():
        warnings.simplefilter("ignore")
        order = ["HNO2", "H2O", "NO", "NO2", "N2O4"]
        c0 = dict(zip(order, [1.0, 0.2, 0.1, 0.3, 0.05]))
        try:
            subs = OrderedDict((k, Substance.from_formula(k)) for k in order)
            second = Reaction({"NO2": 2}, {"N2O4": 1}, 4)
            rs = ReactionSystem([Reaction({"HNO2": 2}, {"H2O": 1, "NO": 1, "NO2": 1}, 3), second], subs)
            odesys, extra = get_odesys(rs)
            res = odesys.integrate(tout, c0, **kw)
            d = drift(res, order, NOX, c0)
            moved = float(abs(res.named_dep("HNO2")[-1] - c0["HNO2"]))
            ok, det = bool(res.info["success"]) and all(dr <= tol for dr, tol in d.values()) and moved > 0.5, "drift, tolerance per key: %r; HNO2 consumed: %g" % (d, moved)
        except Exception as ex:
            res, ok, det = None, False, repr(ex)[:300]
        v.prove("nox.element_totals_stay_at_their_initial_values", ok, detail=det)
        try:
            twin = ReactionSystem([Reaction({"HNO2": 2}, {"H2O": 1, "NO": 1, "NO2": 2}, 3, checks=()), second], subs, checks=())
            d = drift(get_odesys(twin)[0].integrate(tout, c0, **kw), order, NOX, c0)
            ok, det = d[7][0] > 0.1 and d[8][0] > 0.1 and d[1][0] <= d[1][1], repr(d)
        except Exception as ex:
            ok, det = False, repr(ex)[:300]
        v.prove("nox.an_unbalanced_twin_visibly_drifts_in_the_violated_keys_only", ok, detail=det)
        ions = ["Fe+3", "SCN-", "FeSCN+2"]
        icomp = {"Fe+3": {0: 3, 26: 1}, "SCN-": {0: -1, 6: 1, 7: 1, 16: 1}, "FeSCN+2": {0: 2, 6: 1, 7: 1, 16: 1, 26: 1}}
        ic0 = {"Fe+3": 0.8, "SCN-": 0.5, "FeSCN+2": 0.1}
        try:
            irs = ReactionSystem([Reaction({"Fe+3": 1, "SCN-": 1}, {"FeSCN+2": 1}, 5.0), Reaction({"FeSCN+2": 1}, {"Fe+3": 1, "SCN-": 1}, 0.7)], [Substance.from_formula(k) for k in ions])
            ires = get_odesys(irs)[0].integrate(tout, ic0, **kw)
            d = drift(ires, ions, icomp, ic0)
            moved = float(abs(ires.named_dep("FeSCN+2")[-1] - ic0["FeSCN+2"]))
            ok, det = bool(ires.info["success"]) and all(dr <= tol for dr, tol in d.values()) and moved > 0.1, "drift, tolerance per key: %r; complex formed: %g" % (d, moved)
        except Exception as ex:
            ok, det = False, repr(ex)[:300]
        v.prove("ions.charge_and_element_totals_stay_at_their_initial_values", ok, detail=det)
        # an offered elimination in use: the reduced system must trace the same concentrations (all five, the eliminated ones through the offers)
        worst = []
        for pref in (None, ["HNO2", "NO2"], ["N2O4"]):
            try:
                from pyodesys.symbolic import PartiallySolvedSystem
                red = PartiallySolvedSystem(odesys, extra["linear_dependencies"](pref)).integrate(tout, c0, **kw)
                err = max(float(np.max(np.abs(np.asarray(red.named_dep(s), dtype=float) - np.asarray(res.named_dep(s), dtype=float)))) for s in order)
                if not (bool(red.info["success"]) and err <= 1e-6):
                    worst.append((pref, err))
            except Exception as ex:
                worst.append((pref, repr(ex)[:200]))
        v.prove("nox.integration_with_an_offered_elimination_gives_the_same_concentrations", res is not None and not worst, detail=repr(worst))


@harness("C05", "decimal_compositions", functions=[RS + ":ReactionSystem.check_balance", CH + ":Reaction.composition_violation"], kind="data")
def _(v):
    """formula-defined substances with decimal subscripts: a reaction that leaves every element unchanged (exactly, in the decimals as written) is
    accepted, one that does not is refused naming the element"""
    from fractions import Fraction as Fr
    from chempy.chemistry import Substance, Reaction, balance_stoichiometry
    from chempy.reactionsystem import ReactionSystem
    subs = [Substance.from_formula(f) for f in ("Fe0.1O0.1", "Fe0.3O0.3")]
    try:
        ReactionSystem([Reaction({"Fe0.1O0.1": 3}, {"Fe0.3O0.3": 1})], subs)
        ok, det = True, ""
    except ValueError as e:
        ok, det = False, str(e)
    v.prove("balanced_in_the_decimals_as_written_is_accepted", ok, detail=det)
    # what the library's own balancer makes of these two species is C02's business (a refusal is not judged here); C05's is only that, if it answers, it
    # answers with the reaction called balanced above: the only ratio that conserves Fe and O in the decimals as written is 3 : 1
    try:
        r, p = balance_stoichiometry({"Fe0.1O0.1"}, {"Fe0.3O0.3"})
        okb, detb = set(r) == {"Fe0.1O0.1"} and set(p) == {"Fe0.3O0.3"} and r["Fe0.1O0.1"] == 3 * p["Fe0.3O0.3"] and p["Fe0.3O0.3"] > 0, repr((dict(r), dict(p)))
    except Exception as e:
        okb, detb = True, repr(e)
    v.prove("the_balancer_returns_that_very_reaction", okb, detail=detb)
    try:
        ReactionSystem([Reaction({"Fe0.1O0.1": 2}, {"Fe0.3O0.3": 1})], subs)
        refused = None
    except ValueError as e:
        refused = str(e)
    # 2 * 0.1 -> 0.3 leaves 1/10 of an iron and of an oxygen: either may be named (wording free, see _names_a_violated_key)
    v.prove("unbalanced_is_refused_naming_an_element", refused is not None and _names_a_violated_key(refused, [({"Fe0.1O0.1", "Fe0.3O0.3"}, {26: Fr(1, 10), 8: Fr(1, 10)})], {26: "Fe", 8: "O"}),
            detail=repr(refused))
    halves = [Substance.from_formula(f) for f in ("H0.5", "H2")]
    try:
        ReactionSystem([Reaction({"H0.5": 4}, {"H2": 1})], halves)
        okh = True
    except ValueError:
        okh = False
    v.prove("binary_fractions_accepted", okh)


def _species_in(msg, species):
    """the species whose key stands in the text as a word of its own (H2O is not found inside H2O2, e- not inside Fe-...)"""
    import re
    return {sp for sp in species if re.search(r"(?<![A-Za-z0-9])" + re.escape(sp) + r"(?![A-Za-z0-9])", msg)}


def _names_a_violated_key(msg, reactions, symbols):
    """'construction fails with a ValueError naming a violated key'.  reactions: [(species of the reaction, {key: violation})], symbols: {key: symbol}.
    The wording is not part of the property: accepted are (1) today's 'Composition violation (<key>: <amount>) in <reaction>' -- then the key must be
    a violated one and the amount its violation (as a float or a fraction p/q) -- and (2) any other text in which, once the species are taken out,
    at least one violated key stands as a number or as its element symbol ('charge' for key 0) and no symbol of a key that is NOT violated does.  In both forms,
    when the text shows exactly the species of one reaction, the key must be violated by THAT reaction (not merely by some reaction of the system)"""
    import re
    from fractions import Fraction
    if not msg:
        return False
    every = set().union(*[set(sp) for sp, _ in reactions])
    shown = _species_in(msg, every)
    printed = [viol for sp, viol in reactions if set(sp) == shown]
    allowed = {}
    for viol in (printed if printed else [viol for _, viol in reactions]):
        for ck, amount in viol.items():
            allowed.setdefault(ck, set()).add(Fraction(amount))
    m = re.search(r"Composition violation \(([^:()]+): ([^()]+)\)", msg)
    if m is not None:
        try:
            named = [ck for ck in symbols if m.group(1).strip() in (str(ck), symbols[ck])]
            amount = m.group(2).strip()
            amount = Fraction(amount) if "/" in amount else float(amount)
        except ValueError:
            return False
        return len(named) == 1 and named[0] in allowed and any(abs(float(amount) - float(a)) <= 1e-9 * max(1, abs(float(a))) for a in allowed[named[0]])
    # free wording: take the reaction as printed (from its first to its last species, with a leading coefficient) and any other species out, then look
    # for keys.  Numbers are ambiguous (an amount 'off by 1' is not the key 1), symbols are not: a wrong SYMBOL is held against the message
    spans = [mt.span() for sp in every for mt in re.finditer(r"(?:\d+ )?(?<![A-Za-z0-9])" + re.escape(sp) + r"(?![A-Za-z0-9])", msg)]
    text = msg if not spans else msg[:min(a for a, _ in spans)] + " " + msg[max(b for _, b in spans):]
    numbers = {int(t) for t in re.findall(r"(?<![\w.+/-])\d+(?![\w./])", text)}
    words = set(re.findall(r"[A-Za-z]+", text))
    by_symbol = {ck for ck in symbols if symbols[ck] in words}
    named = by_symbol | {ck for ck in symbols if ck in numbers}
    return bool(named & set(allowed)) and by_symbol <= set(allowed)


@harness("C05", "refusal_names_a_violated_key", functions=[RS + ":ReactionSystem.check_balance", RS + ":ReactionSystem.__init__"], kind="data")
def _(v):
    """'construction fails with a ValueError naming a violated key': the key named in the message is one that the reaction shown really changes (by
    the amount printed, when one is printed); charge-only imbalance names key 0; formula-defined species (ions incl. the electron) and explicit
    compositions; a violation in the second reaction is not laid at the first one's door; with two unbalanced reactions (different keys) the key goes
    with the reaction shown.  The wording itself is free, see _names_a_violated_key"""
    from chempy.chemistry import Reaction, Substance
    from chempy.reactionsystem import ReactionSystem
    F = Substance.from_formula
    sym = {0: "charge", 1: "H", 7: "N", 8: "O", 26: "Fe", 99: "Es"}
    # per case: reactions, substances, per reaction the hand-computed {violated key: amount} (products - reactants)
    cases = [
        ("element_only", [Reaction({"H2O2": 1}, {"H2O": 1})], [F("H2O2"), F("H2O")], [{8: -1}]),
        ("charge_only", [Reaction({"Fe+3": 1}, {"Fe+2": 1})], [F("Fe+3"), F("Fe+2")], [{0: -1}]),
        ("charge_only_second_reaction", [Reaction({"Fe+3": 1, "e-": 1}, {"Fe+2": 1}), Reaction({"Fe+2": 1}, {"Fe+3": 1})], [F("Fe+3"), F("Fe+2"), F("e-")], [{}, {0: 1}]),
        ("both", [Reaction({"NH4+": 1}, {"NH3": 1})], [F("NH4+"), F("NH3")], [{0: -1, 1: -1}]),
        ("explicit_compositions", [Reaction({"A": 2}, {"B": 1})], [Substance("A", composition={1: 1, 99: 2}), Substance("B", composition={1: 2, 99: 5})], [{99: 1}]),
        ("two_unbalanced_reactions_with_different_keys", [Reaction({"H2O2": 1}, {"H2O": 1}), Reaction({"Fe+3": 1}, {"Fe+2": 1})], [F("H2O2"), F("H2O"), F("Fe+3"), F("Fe+2")], [{8: -1}, {0: -1}]),
    ]
    for label, rxns, subs, violated in cases:
        try:
            ReactionSystem(rxns, subs)
            msg, refused = None, False
        except ValueError as e:
            msg, refused = str(e), True
        except Exception as e:
            msg, refused = repr(e), False
        keys = {ck for sb in subs for ck in sb.composition}
        ok = refused and _names_a_violated_key(msg, [(set(r.keys()), vi) for r, vi in zip(rxns, violated)], {ck: sym[ck] for ck in keys})
        v.prove(label, ok, detail=repr(msg))
    try:
        balanced = ReactionSystem([Reaction({"Fe+3": 1, "e-": 1}, {"Fe+2": 1}), Reaction({"H2O2": 2}, {"H2O": 2, "O2": 1})], [F(k) for k in ("Fe+3", "e-", "Fe+2", "H2O2", "H2O", "O2")])
        ok, det = balanced.nr == 2, ""
    except Exception as e:
        ok, det = False, repr(e)
    v.prove("balanced_formula_defined_system_is_accepted", ok, detail=det)
    # the judge itself: wrong attributions and wrong keys are rejected, other wordings of a right refusal are not (so the obligations above can fail)
    second = [({"Fe+3", "e-", "Fe+2"}, {}), ({"Fe+2", "Fe+3"}, {0: 1})]
    two = [({"H2O2", "H2O"}, {8: -1}), ({"Fe+3", "Fe+2"}, {0: -1})]
    s2, s4 = {0: "charge", 26: "Fe"}, {0: "charge", 1: "H", 8: "O", 26: "Fe"}
    judge = [_names_a_violated_key("Composition violation (0: 1) in Fe+2 -> Fe+3", second, s2), not _names_a_violated_key("Composition violation (0: 1) in Fe+3 + e- -> Fe+2", second, s2),
             not _names_a_violated_key("Composition violation (26: 1) in Fe+2 -> Fe+3", second, s2), not _names_a_violated_key("Composition violation (0: -1) in Fe+2 -> Fe+3", second, s2),
             not _names_a_violated_key("Composition violation (0: -1) in H2O2 -> H2O", two, s4), _names_a_violated_key("Composition violation (8: -1) in H2O2 -> H2O", two, s4),
             _names_a_violated_key("Unbalanced reaction Fe+3 -> Fe+2: charge changes", two, s4), not _names_a_violated_key("Unbalanced reaction Fe+3 -> Fe+2: O changes", two, s4),
             _names_a_violated_key("key 8 is not conserved by H2O2 -> H2O (off by -1)", two, s4), not _names_a_violated_key("key 1 is not conserved by H2O2 -> H2O", two, s4),
             not _names_a_violated_key("unbalanced", two, s4), _names_a_violated_key("Composition violation (O: -1/1) in H2O2 -> H2O", two, s4),
             _names_a_violated_key("Unbalanced key 99 (off by 1) in 2 A -> B", [({"A", "B"}, {99: 1})], {1: "H", 99: "Es"}), not _names_a_violated_key("Unbalanced key 1 in 2 A -> B", [({"A", "B"}, {99: 1})], {1: "H", 99: "Es"}),
             not _names_a_violated_key("Unbalanced: H in 2 A -> B", [({"A", "B"}, {99: 1})], {1: "H", 99: "Es"})]
    v.prove("the_judge_of_messages_rejects_wrong_keys_and_wrong_attributions", all(judge), detail=repr(judge))


@harness("C05", "every_way_of_giving_the_substances", functions=[RS + ":ReactionSystem.__init__", RS + ":ReactionSystem.from_string", RS + ":ReactionSystem.check_balance"], kind="data")
def _(v):
    """'a reaction system is accepted if and only if every reaction leaves every composition key unchanged', through every form in which the
    substances can be handed over (the symbolic iff above goes through an OrderedDict only): a list and a tuple of Substance (keyed by name), a plain
    dict (sorted by the constructor), an OrderedDict, a string of keys with a substance factory, ReactionSystem.from_string (the library makes the
    formula-defined substances itself) and a system of Equilibrium objects.  Per form: the balanced pair of reactions is accepted and
    check_balance(strict=True) -- the gate get_odesys uses -- says True; with the electron left out (charge-only imbalance) it is refused with a
    ValueError naming the charge"""
    from collections import OrderedDict
    from chempy.chemistry import Equilibrium, Reaction, Substance
    from chempy.reactionsystem import ReactionSystem
    F = Substance.from_formula
    names = ["H2O2", "H2O", "O2", "Fe+3", "e-", "Fe+2"]
    sym = {0: "charge", 1: "H", 8: "O", 26: "Fe"}
    rx = lambda cls, with_electron, *a: [cls({"H2O2": 2}, {"H2O": 2, "O2": 1}, *a), cls({"Fe+3": 1, "e-": 1} if with_electron else {"Fe+3": 1}, {"Fe+2": 1}, *a)]
    text = lambda with_electron: "2 H2O2 -> 2 H2O + O2\n" + ("Fe+3 + e- -> Fe+2" if with_electron else "Fe+3 -> Fe+2")
    forms = [
        ("list", lambda e: ReactionSystem(rx(Reaction, e), [F(n) for n in names])),
        ("tuple", lambda e: ReactionSystem(rx(Reaction, e), tuple(F(n) for n in names))),
        ("plain_dict", lambda e: ReactionSystem(rx(Reaction, e), {n: F(n) for n in names})),
        ("ordered_dict", lambda e: ReactionSystem(rx(Reaction, e), OrderedDict((n, F(n)) for n in names))),
        ("string_and_factory", lambda e: ReactionSystem(rx(Reaction, e), " ".join(names), substance_factory=F)),
        ("from_string", lambda e: ReactionSystem.from_string(text(e), substance_factory=F)),
        ("equilibria", lambda e: ReactionSystem(rx(Equilibrium, e, 10.0), [F(n) for n in names])),
    ]
    # hand calculation: 2 H2O2 -> 2 H2O + O2 conserves H (4), O (4) and charge (0); Fe+3 + e- -> Fe+2 conserves Fe and charge (3 - 1 = 2); without
    # the electron the charge goes from 3 to 2 (violation -1) and nothing else changes
    per_reaction = [({"H2O2", "H2O", "O2"}, {}), ({"Fe+3", "Fe+2"}, {0: -1})]
    for label, make in forms:
        try:
            rs = make(True)
            ok, det = rs.nr == 2 and set(rs.substances) == set(names) and rs.check_balance(strict=True) is True and rs.check_balance() is True, ""
        except Exception as ex:
            ok, det = False, repr(ex)[:200]
        v.prove(label + ".balanced_is_accepted", ok, detail=det)
        try:
            make(False)
            ok, det = False, "accepted"
        except ValueError as ex:
            ok, det = _names_a_violated_key(str(ex), per_reaction, sym), str(ex)
        except Exception as ex:
            ok, det = False, repr(ex)[:200]
        v.prove(label + ".charge_only_imbalance_is_refused_naming_the_charge", ok, detail=det)
    try:
        loose = ReactionSystem(rx(Reaction, False), [F(n) for n in names], checks=())
        ok, det = loose.check_balance(strict=True) is False and loose.check_balance() is False, ""
        try:
            loose.check_balance(strict=True, throw=True)
            ok, det = False, "throw=True returned"
        except ValueError as ex:
            ok, det = ok and _names_a_violated_key(str(ex), per_reaction, sym), str(ex)
    except Exception as ex:
        ok, det = False, repr(ex)[:200]
    v.prove("strict_check_of_a_fully_composed_unbalanced_system_says_no", ok, detail=det)


@harness("C05", "keys_are_not_names", functions=[CH + ":Reaction.composition_violation", RS + ":ReactionSystem.check_balance", RS + ":ReactionSystem.composition_balance_vectors"], kind="shape-bounded", samples=10)
def _(v):
    """substances registered under keys that differ from their names (a mapping {'water': Substance.from_formula('H2O'), ...}): the balance is taken
    over the KEYS the reactions use; an unbalanced reaction is refused, a balanced one accepted, the vectors' columns are the keys' substances"""
    from collections import OrderedDict
    from chempy.chemistry import Reaction, Substance
    from chempy.reactionsystem import ReactionSystem
    subs = OrderedDict([("peroxide", Substance.from_formula("H2O2")), ("water", Substance.from_formula("H2O")), ("oxygen", Substance.from_formula("O2")), ("ferric", Substance.from_formula("Fe+3")),
                        ("ferrous", Substance.from_formula("Fe+2"))])
    a, b, c = v.int("a", lo=1, hi=4), v.int("b", lo=1, hi=4), v.int("c", lo=1, hi=4)
    rxn = Reaction({"peroxide": a}, {"water": b, "oxygen": c}, checks=())
    viol = v.call(rxn.composition_violation, subs)
    keys = sorted({k for s in subs.values() for k in s.composition})
    want = {1: 2 * b - 2 * a, 8: b + 2 * c - 2 * a, 26: 0, 0: 0}
    v.prove("violation_per_element_by_key", SP.conj([v.eq(x, want[k]) for x, k in zip(viol, keys)]) and len(viol) == len(keys))
    out = v.run(ReactionSystem, [rxn], subs)
    balanced = SP.conj([a == b, a == 2 * c])
    v.prove("accepted_iff_balanced", SP.iff(out.returned, balanced))
    if not out.returned:
        v.prove("refusal_is_ValueError", out.raised(ValueError))
    redox = v.run(ReactionSystem, [Reaction({"ferric": 1}, {"ferrous": 1}, checks=())], subs)
    v.prove("charge_only_imbalance_refused", redox.raised(ValueError))
    ok = ReactionSystem([Reaction({"peroxide": 2}, {"water": 2, "oxygen": 1}, checks=())], subs)
    B, ck = v.call(ok.composition_balance_vectors)
    v.prove("vectors_columns_are_the_keyed_substances", list(ck) == [0, 1, 8, 26] and [list(r) for r in B] == [[0, 0, 0, 3, 2], [2, 2, 0, 0, 0], [2, 1, 2, 0, 0], [0, 0, 0, 1, 1]])


@harness("C05", "alternative_builder_invariants", functions=["chempy.kinetics.ode:_create_odesys"], kind="data")
def _(v):
    """'the reported composition vectors are exact linear invariants of the kinetic right-hand side', for the alternative builder _create_odesys
    as well: whatever it hands to the ODE system as linear_invariants annihilates the right-hand side it hands over, identically in all symbols --
    in a closed system (where the composition vectors must be reported) and with a feed (where the element totals change, so they must not)"""
    import sympy
    from chempy.reactionsystem import ReactionSystem
    from chempy.kinetics.ode import _create_odesys
    rs = ReactionSystem.from_string("2 H2O2 -> 2 H2O + O2; 'k1'\nH2O -> H+ + OH-; 'k2'", "H2O2 H2O O2 H+ OH-".split())
    # charge, H and O per formula unit over H2O2 H2O O2 H+ OH- (written from the formulas)
    want = {"0": [0, 0, 0, 1, -1], "1": [2, 2, 0, 1, 1], "8": [2, 1, 2, 0, 1]}
    for label, kw in (("closed", {}), ("with_a_feed", {"rates_kw": dict(cstr_fr_fc=("fr", {k: "fc_" + k for k in rs.substances}))})):
        try:
            o, _e = _create_odesys(rs, **kw)
            inv = o.linear_invariants
            rows = [] if inv is None else [list(r) for r in (inv.tolist() if hasattr(inv, "tolist") else inv)]
            resid = [sympy.expand(sum(sympy.nsimplify(c) * e for c, e in zip(row, o.exprs))) for row in rows]
            ok, det = all(r == 0 for r in resid), repr(resid)[:300]
            if label == "closed":
                ok = ok and len(rows) == 3                       # H, O and charge
                # 'the reported COMPOSITION vectors': three zero rows, one row three times or rows under the wrong names annihilate the rhs as well
                names = o.linear_invariant_names
                same = names is not None and len(names) == len(rows) and {str(n): [sympy.nsimplify(c) for c in row] for n, row in zip(names, rows)} == want
                v.prove("closed.reported_vectors_are_the_compositions_of_the_formulas", same, detail="%r %r" % (names, rows))
        except Exception as ex:
            ok, det = False, repr(ex)[:200]
            if label == "closed":
                v.prove("closed.reported_vectors_are_the_compositions_of_the_formulas", False, detail=det)
        v.prove(label + ".reported_vectors_annihilate_the_right_hand_side", ok, detail=det)


@harness("C05", "exact_fraction_compositions", functions=["chempy.chemistry:Reaction.composition_violation", "chempy.reactionsystem:ReactionSystem.check_balance"], kind="data")
def _(v):
    """'accepted if and only if every reaction leaves every composition key unchanged', decided in the arithmetic of the compositions as given:
    with exact Fraction amounts (2.1 + 2.2 = 4.3 has no exact float form) a balanced reaction has violation exactly 0 in every key and is
    accepted; the violation of an unbalanced one is the exact Fraction; Decimal amounts likewise"""
    from decimal import Decimal
    from fractions import Fraction as Fr
    from chempy.chemistry import Reaction, Substance
    from chempy.reactionsystem import ReactionSystem
    for label, num in (("fraction", lambda a, b: Fr(a, b)), ("decimal", lambda a, b: Decimal(a) / Decimal(b))):
        subs = [Substance("UO2.1", composition={92: 1, 8: num(21, 10)}), Substance("UO2.2", composition={92: 1, 8: num(22, 10)}), Substance("UO2.4", composition={92: 1, 8: num(24, 10)}),
                Substance("U3O6.7", composition={92: 3, 8: num(67, 10)})]
        rxn = Reaction({"UO2.1": 1, "UO2.2": 1, "UO2.4": 1}, {"U3O6.7": 1})
        try:
            viol = list(rxn.composition_violation({s.name: s for s in subs}))
            rs = ReactionSystem([rxn], subs)
            ok, det = all(x == 0 for x in viol) and rs.check_balance(strict=True) is True, repr(viol)
        except Exception as ex:
            ok, det = False, repr(ex)[:200]
        v.prove(label + ".balanced_is_exactly_zero_and_accepted", ok, detail=det)
        bad = Reaction({"UO2.1": 3}, {"U3O6.7": 1})
        try:
            viol = dict(zip(*reversed(bad.composition_violation({s.name: s for s in subs}, composition_keys=True))))
            # the violation as a VALUE: 3 * 2.1 -> 6.7 leaves 2/5 of an oxygen (whether it comes back as Decimal('0.4'), Fraction(2, 5) or the float 0.4)
            ok, det = set(viol) == {8, 92} and Fr(str(viol[8])) == Fr(2, 5) and viol[92] == 0, repr(viol)
            try:
                ReactionSystem([bad], subs)
                ok = False
            except ValueError:
                pass
        except Exception as ex:
            ok, det = False, repr(ex)[:200]
        v.prove(label + ".unbalanced_has_the_exact_violation_and_is_refused", ok, detail=det)


@harness("C05", "analytic_elimination_with_decimal_compositions", functions=["chempy.kinetics.ode:get_odesys.<locals>.linear_dependencies", "chempy.kinetics.ode:get_odesys.<locals>.linear_dependencies.<locals>.analytic_solver"], kind="data")
def _(v):
    """'any analytic elimination of a concentration offered from them reproduces those invariants', for an accepted system whose compositions are
    decimals (Fe0.9O3 ...): the composition matrix has rank 1 in the decimals as written, so exactly one concentration can be eliminated and what
    is offered for it is the element balance; nothing declares a concentration constant. Decided with the matrix written here in rationals"""
    import warnings
    import sympy
    from chempy.chemistry import Reaction, Substance
    from chempy.reactionsystem import ReactionSystem
    from chempy.kinetics.ode import get_odesys
    n = ["Fe0.9O3", "Fe2.7O9", "O9Fe2.7"]
    with warnings.catch_warnings():
        warnings.simplefilter("ignore")
        rs = ReactionSystem([Reaction({n[0]: 3}, {n[1]: 1}, 2.0), Reaction({n[1]: 1}, {n[2]: 1}, 1.0)], [Substance.from_formula(f) for f in n])
        odesys, extra = get_odesys(rs)
        y0 = {d: sympy.Symbol("y0_%d" % i) for i, d in enumerate(odesys.dep)}
        try:
            offered = extra["linear_dependencies"]()(0, y0, None, sympy)
        except Exception as ex:
            v.prove("default_elimination_is_the_element_balance", False, detail=repr(ex)[:200])
            return
    A = sympy.Matrix([[3, 9, 9], [sympy.Rational(9, 10), sympy.Rational(27, 10), sympy.Rational(27, 10)]])        # O and Fe over the three oxides
    ys = list(odesys.dep)
    inv = A * sympy.Matrix([y - y0[y] for y in ys])
    ok = len(offered) == A.rank() == 1
    for yk, expr in offered.items():
        sub = [e.subs(yk, expr) for e in inv]
        ok = ok and all(sympy.simplify(sympy.nsimplify(e, rational=True)) == 0 for e in sub) and expr.free_symbols - {yk} >= {y for y in ys if y != yk}
    v.prove("default_elimination_is_the_element_balance", ok, detail=repr(offered))


# the periodic table as printed: the atomic number of a symbol is its position (written here, so that 'which element is this' is not answered by the
# parser's own table)
ELEMENTS = ("H He Li Be B C N O F Ne Na Mg Al Si P S Cl Ar K Ca Sc Ti V Cr Mn Fe Co Ni Cu Zn Ga Ge As Se Br Kr Rb Sr Y Zr Nb Mo Tc Ru Rh Pd Ag Cd In Sn "
            "Sb Te I Xe Cs Ba La Ce Pr Nd Pm Sm Eu Gd Tb Dy Ho Er Tm Yb Lu Hf Ta W Re Os Ir Pt Au Hg Tl Pb Bi Po At Rn Fr Ra Ac Th Pa U Np Pu Am Cm Bk "
            "Cf Es Fm Md No Lr Rf Db Sg Bh Hs Mt Ds Rg Cn Nh Fl Mc Lv Ts Og").split()
PHASES = ("(s)", "(l)", "(g)", "(aq)")


@harness("C05", "phase_labels_do_not_enter_the_balance", functions=["chempy.util.parsing:formula_to_composition", "chempy.util.parsing:_formula_to_parts", CH + ":Substance.from_formula",
                                                                     RS + ":ReactionSystem.from_string", RS + ":ReactionSystem.check_balance", RS + ":ReactionSystem.composition_balance_vectors"], kind="data")
def _(v):
    """'for all reactions over formula-defined substances ... accepted if and only if every reaction leaves every composition key (each element and net
    charge) unchanged': the elements and the charge of a formula-defined substance are those of the formula AS WRITTEN; a phase label ((s), (l), (g),
    (aq)) or a leading modification (alpha-, gamma-) adds and removes nothing.  For every element of the periodic table and every phase label the bare
    symbol, a subscripted symbol and its ions carry exactly that element (and charge); a change of phase is accepted and reports the one vector of
    ones; turning an element into another whose symbol begins with the same letter is refused naming one of the two, whatever the labels; and hand-
    balanced reactions between labelled species (metals in water and acid, displacement, precipitation, decomposition) are accepted, their twins
    that are off in one element or in the charge only are refused naming a key that is really violated"""
    import re
    from chempy.chemistry import Reaction, Substance
    from chempy.reactionsystem import ReactionSystem
    F = Substance.from_formula
    Z = {s: i + 1 for i, s in enumerate(ELEMENTS)}

    def comp_of(formula):
        try:
            return dict(F(formula).composition)
        except Exception as ex:
            return repr(ex)[:60]

    # (1) the composition is the formula's, with any label
    wrong = []
    for s in ELEMENTS:
        for ph in ("",) + PHASES:
            for formula, want in ((s + ph, {Z[s]: 1}), (s + "2" + ph, {Z[s]: 2}), (s + "+" + ph, {Z[s]: 1, 0: 1}), (s + "-2" + ph, {Z[s]: 1, 0: -2}), (s + "3+2" + ph, {Z[s]: 3, 0: 2})):
                got = comp_of(formula)
                if got != want:
                    wrong.append((formula, got))
    v.prove("every_element_with_every_phase_label_has_the_composition_of_its_formula", not wrong, detail="%d wrong, e.g. %r" % (len(wrong), wrong[:6]))
    wrong = []
    for formula, want in (("alpha-Al2O3(s)", {13: 2, 8: 3}), ("gamma-Al2O3", {13: 2, 8: 3}), (".OH(aq)", {8: 1, 1: 1}), (".NHO-(aq)", {7: 1, 1: 1, 8: 1, 0: -1}), ("e-(aq)", {0: -1}),
                          ("Hg2Cl2(s)", {80: 2, 17: 2}), ("Ca(OH)2(aq)", {20: 1, 8: 2, 1: 2}), ("Ca(OH)2(s)", {20: 1, 8: 2, 1: 2}), ("Na2CO3..10H2O(s)", {11: 2, 6: 1, 8: 13, 1: 20})):
        got = comp_of(formula)
        if got != want:
            wrong.append((formula, got))
    v.prove("modifications_brackets_and_hydrates_with_a_phase_label", not wrong, detail=repr(wrong))

    # (2) a change of phase conserves the element: accepted, one invariant (the amount of the element) with a one per phase
    refused, vectors = [], []
    for s in ELEMENTS:
        text = "\n".join("%s%s -> %s%s" % (s, a, s, b) for a, b in zip(PHASES, PHASES[1:]))
        try:
            rs = ReactionSystem.from_string(text)
            A, ck = rs.composition_balance_vectors()
            if not (list(ck) == [Z[s]] and [list(r) for r in A] == [[1] * len(PHASES)] and set(rs.substances) == {s + ph for ph in PHASES} and rs.check_balance(strict=True) is True):
                vectors.append((s, [list(r) for r in A], list(ck)))
        except Exception as ex:
            refused.append((s, repr(ex)[:80]))
    v.prove("a_change_of_phase_is_accepted_for_every_element", not refused, detail="%d refused, e.g. %r" % (len(refused), refused[:5]))
    v.prove("a_change_of_phase_reports_the_amount_of_the_element_as_its_invariant", not vectors and not refused, detail=repr(vectors[:5]))

    # (3) no element turns into another one: symbols that begin alike (H He Hf Hg Ho Hs, C Ca Cd Ce Cf Cl Cm Cn Co Cr Cs Cu, ...) are the ones a reader of
    # formulas could confuse
    accepted, misnamed = [], []
    for x in ELEMENTS:
        for y in ELEMENTS:
            if x == y or x[0] != y[0]:
                continue
            for i, a in enumerate(PHASES):
                b = PHASES[(i + len(x) + len(y)) % len(PHASES)]
                kx, ky = x + a, y + b
                try:
                    ReactionSystem([Reaction({kx: 1}, {ky: 1})], [F(kx), F(ky)])
                    accepted.append("%s -> %s" % (kx, ky))
                except ValueError as ex:
                    if not _names_a_violated_key(str(ex), [({kx, ky}, {Z[x]: -1, Z[y]: 1})], {Z[x]: x, Z[y]: y}):
                        misnamed.append(str(ex))
                except Exception as ex:
                    misnamed.append(repr(ex)[:80])
    v.prove("no_element_turns_into_another_whatever_the_phase_labels", not accepted, detail="%d accepted, e.g. %r" % (len(accepted), accepted[:6]))
    v.prove("such_a_refusal_names_one_of_the_two_elements", not misnamed, detail="%d, e.g. %r" % (len(misnamed), misnamed[:3]))

    # (4) hand-balanced reactions between labelled species; per unbalanced twin the hand-computed {key: products - reactants}
    good = ["2 Na(s) + 2 H2O(l) -> 2 Na+(aq) + 2 OH-(aq) + H2(g)", "Mg(s) + 2 H+(aq) -> Mg+2(aq) + H2(g)", "2 Ag+(aq) + Cu(s) -> 2 Ag(s) + Cu+2(aq)", "2 Al(s) + 3 Cl2(g) -> 2 AlCl3(s)",
            "CaCO3(s) -> CaO(s) + CO2(g)", "Ba+2(aq) + SO4-2(aq) -> BaSO4(s)", "Hg2Cl2(s) -> Hg(l) + HgCl2(aq)", "alpha-Al2O3(s) -> gamma-Al2O3(s)", "Ca(s) + 2 H2O(l) -> Ca(OH)2(aq) + H2(g)",
            "2 Hg(l) + O2(g) -> 2 HgO(s)", "Os(s) + 2 O2(g) -> OsO4(g)", "Na(g) -> Na+(g) + e-"]
    bad = [("Na(s) + H2O(l) -> Na+(aq) + OH-(aq) + H2(g)", {1: 1}), ("Mg(s) + H+(aq) -> Mg+2(aq) + H2(g)", {1: 1, 0: 1}), ("Ag+(aq) + Cu(s) -> Ag(s) + Cu+2(aq)", {0: 1}),
           ("Hg(l) -> H2(g)", {80: -1, 1: 2}), ("H2(g) -> 2 Hg(g)", {1: -2, 80: 2}), ("Ca(s) + O2(g) -> CO2(g)", {20: -1, 6: 1}), ("Ba(s) + 2 H2O(l) -> B(OH)3(aq) + H2(g)", {56: -1, 5: 1, 8: 1, 1: 1}),
           ("4 Al(l) + 3 O2(g) -> 2 Al2O3(s) + Al(g)", {13: 1}), ("Na(aq) -> N(g)", {11: -1, 7: 1}), ("Na(aq) -> Na+(aq)", {0: 1})]
    sym = dict((z, s) for s, z in Z.items())
    sym[0] = "charge"
    failures = []
    for text in good:
        try:
            rs = ReactionSystem.from_string(text)
            if rs.check_balance(strict=True) is not True:
                failures.append((text, "strict balance check says no"))
        except Exception as ex:
            failures.append((text, repr(ex)[:100]))
    v.prove("balanced_reactions_between_labelled_species_are_accepted", not failures, detail=repr(failures[:4]))
    failures = []
    for text, viol in bad:
        species = {t for t in text.replace("->", "+").split() if not t.isdigit() and t != "+"}
        try:
            ReactionSystem.from_string(text)
            failures.append((text, "accepted"))
        except ValueError as ex:
            keys = set(viol) | {Z[t] for t in re.findall(r"[A-Z][a-z]?", text) if t in Z} | {0}          # the keys the species of this reaction carry
            if not _names_a_violated_key(str(ex), [(species, viol)], {k: sym[k] for k in keys}):
                failures.append((text, str(ex)))
        except Exception as ex:
            failures.append((text, repr(ex)[:100]))
    v.prove("unbalanced_twins_are_refused_naming_a_violated_key", not failures, detail=repr(failures[:4]))


@harness("C05", "right_hand_side_for_many_states_at_once", functions=[RS + ":ReactionSystem.rates", CH + ":Reaction.rate", RS + ":ReactionSystem.composition_balance_vectors"], kind="data")
def _(v):
    """'the reported composition vectors are exact linear invariants of the kinetic right-hand side for ALL concentrations' -- also when the right-hand
    side is asked for many concentration vectors in one call (one numpy array per substance, the form a caller plotting or scanning rates uses): state
    by state it is the mass-action right-hand side sum_r nu_sr k_r prod_i c_i^nu_ir written out here, every composition vector (written here from the
    formulas) annihilates it, it is what the one-state-at-a-time evaluation gives, the concentrations handed in are left as they were and asking twice
    gives the same.  Two accepted systems (NOx: several species formed or consumed with coefficient one by one reaction and changed singly by others;
    an ionic equilibrium with the charge as a key), each with its reactions in the order given and reversed -- the right-hand side is a sum over the
    reactions, their order cannot matter"""
    import numpy as np
    from collections import OrderedDict
    from contracts._purity import prove_pure
    from chempy.chemistry import Reaction, Substance
    from chempy.reactionsystem import ReactionSystem
    nox = {"HNO2": {1: 1, 7: 1, 8: 2}, "H2O": {1: 2, 8: 1}, "NO": {7: 1, 8: 1}, "NO2": {7: 1, 8: 2}, "N2O4": {7: 2, 8: 4}, "N2O3": {7: 2, 8: 3}}
    ions = {"Fe+3": {0: 3, 26: 1}, "SCN-": {0: -1, 6: 1, 7: 1, 16: 1}, "FeSCN+2": {0: 2, 6: 1, 7: 1, 16: 1, 26: 1}, "Fe+2": {0: 2, 26: 1}, "e-": {0: -1}}
    systems = [
        ("nox", nox, [({"HNO2": 2}, {"H2O": 1, "NO": 1, "NO2": 1}, 3.0), ({"NO2": 2}, {"N2O4": 1}, 4.0), ({"N2O4": 1}, {"NO2": 2}, 0.5), ({"NO": 1, "NO2": 1}, {"N2O3": 1}, 1.5),
                      ({"N2O3": 1, "H2O": 1}, {"HNO2": 2}, 0.25)]),
        ("ions", ions, [({"Fe+3": 1, "SCN-": 1}, {"FeSCN+2": 1}, 5.0), ({"FeSCN+2": 1}, {"Fe+3": 1, "SCN-": 1}, 0.7), ({"Fe+3": 1, "e-": 1}, {"Fe+2": 1}, 2.0)]),
    ]
    npts = 7
    for tag, comp, lay in systems:
        names = list(comp)
        keys = sorted({ck for c in comp.values() for ck in c})
        A = np.array([[comp[s].get(ck, 0) for s in names] for ck in keys], dtype=float)
        # the states: a fixed spread of positive concentrations, different for every substance
        conc = np.array([[0.1 + 0.37 * ((3 * i + 5 * j) % 11) + 0.01 * i * j for j in range(npts)] for i in range(len(names))])
        # mass action, written out: rate_r = k_r prod_reactants c^nu; d c_s/dt = sum_r (prod_r[s] - reac_r[s]) rate_r
        want, size = np.zeros_like(conc), np.zeros_like(conc)
        for reac, prod, k in lay:
            rate = k * np.prod([conc[names.index(s)] ** nu for s, nu in reac.items()], axis=0)
            for i, s in enumerate(names):
                want[i] += (prod.get(s, 0) - reac.get(s, 0)) * rate
                size[i] += abs(prod.get(s, 0) - reac.get(s, 0)) * rate
        tol = 1e-12 * (1 + size)                                                # rounding of a sum of terms of this size, in whatever order they are added
        scale = 1 + np.abs(A) @ np.abs(want)
        assert np.all(np.abs(A @ want) <= 1e-12 * scale)                       # the table above is balanced (a slip here is the contract's, not the library's)
        for order, seq in (("as_given", lay), ("reversed", lay[::-1])):
            label = "%s.%s" % (tag, order)
            try:
                rs = ReactionSystem([Reaction(dict(r), dict(p), k) for r, p, k in seq], OrderedDict((s, Substance.from_formula(s)) for s in names))
                as_matrix = lambda f: np.array([np.broadcast_to(np.asarray(f[s], dtype=float), (npts,)) for s in names])
                got = prove_pure(v, label, rs.rates, lambda: (({s: conc[i].copy() for i, s in enumerate(names)},), {}), materialise=as_matrix)
                worst = np.argwhere(np.abs(got - want) > tol)
                v.prove(label + ".is_the_mass_action_right_hand_side_in_every_state", worst.size == 0,
                        detail="d[%s]/dt in state %d: %r, by hand %r" % ((names[worst[0][0]], worst[0][1], got[tuple(worst[0])], want[tuple(worst[0])]) if worst.size else ("", 0, 0, 0)))
                resid = np.abs(A @ got)
                v.prove(label + ".every_composition_vector_annihilates_it_in_every_state", bool(np.all(resid <= 1e-9 * (1 + np.abs(A) @ np.abs(got)))),
                        detail="max |A.f| per key %r: %r" % (keys, resid.max(axis=1).tolist()))
                single = np.array([[float(rs.rates({s: float(conc[i, j]) for i, s in enumerate(names)})[sk]) for j in range(npts)] for sk in names])
                v.prove(label + ".agrees_with_one_state_at_a_time", bool(np.all(np.abs(got - single) <= tol)), detail="max difference %g" % float(np.abs(got - single).max()))
                # the contribution of a single reaction, asked in the same way: nu_s * rate for every substance of the system
                contrib = []
                for (reac, prod, k), rxn in zip(seq, rs.rxns):
                    f = rxn.rate({s: conc[i].copy() for i, s in enumerate(names)}, substance_keys=names)
                    rate = k * np.prod([conc[names.index(s)] ** nu for s, nu in reac.items()], axis=0)
                    contrib.append(all(np.all(np.abs(np.asarray(f[s], dtype=float) - (prod.get(s, 0) - reac.get(s, 0)) * rate) <= 1e-12 * (1 + np.abs(rate)) * 4) for s in names))
                v.prove(label + ".each_reaction_contributes_its_net_coefficient_times_its_rate", all(contrib), detail=repr(contrib))
                v.prove(label + ".can_be_evaluated", True)
            except Exception as ex:
                v.prove(label + ".can_be_evaluated", False, detail=repr(ex)[:300])
