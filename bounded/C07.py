"""Bounded stand-in for C07: equilibrium residual formulations vanish exactly at, and only at,
true equilibrium states; equation counts.

States are built in exact rationals (fractions.Fraction): a strictly positive equilibrium state c
is drawn first, the constants are DEFINED as K_i := prod_j c_j**nu_ij (so Q_i = K_i holds exactly),
and the initial state is c moved by random extents along every reaction (c0 = c - sum_i xi_i nu_i,
strictly positive), so c and c0 carry exactly the same amount of every element and charge.
The oracle side (net stoichiometry, composition rows, rank, quotients, totals, upper bounds) comes
from the hand-written table in bounded/_eqpool.py; the code under test is
``NumSys(eqsys, backend=sympy, rref_equil=.., rref_preserv=.., new_eq_params=..).f(y, params)`` for
NumSysLin / NumSysLog / NumSysSquare / NumSysLinRel (/ NumSysLinTanh when it can be evaluated at
all), ``EqSystem.equilibrium_quotients`` and ``EqSystem.composition_conservation``.

When the constants are passed as parameters (new_eq_params=True, the way EqSystem.root uses the
formulations) the EqSystem itself is built with DECOY constants (K_i * (i+2)), so a formulation that
reads the stored constants instead of the parameters is caught; with new_eq_params=False the stored
constants are the true ones and no constant parameters are passed.  Only linearly independent reaction
sets are generated (with dependent reactions the row-reduced equilibrium block has fewer than nr rows).
NumSysLinTanh.f raises TypeError for every input on the pinned tree (its min_ callback takes two
arguments, ReactionSystem.upper_conc_bounds passes one list); it is not among the formulations the
statement lists, so a configuration whose f() cannot be evaluated at all is skipped for LinTanh only
(and counted in "bound"); on a tree where it can be evaluated it is checked like the others.

Internal variables are computed here: Lin y=c; Square y=+-sqrt(c) (sympy, exact); Log y=ln c (sympy,
exact symbol; residuals that stay symbolic are evaluated with 40 digits); LinRel y=c/ub where ub_j =
min over the elements of species j of (element total of c0)/(count); LinTanh y=atanh((8c/ub-4)/5).

zero test    : exact == 0 for rational residuals; |r| < 1e-25 for 40-digit evaluations of symbolic
               ones (Log rows); |r| < 1e-10 for formulations that go through machine floats inside
               chempy (LinRel, LinTanh: upper bounds are accumulated in float64).
non-zero test: exact != 0, resp. max|r| > 1e-9 (every perturbation changes a concentration of at
               least 1e-6 M by >= 25 %, a total by >= 1e-3 M, a constant by >= 25 %, or moves
               >= 20 % of the admissible extent along one reaction, so the smallest true residual
               is > 1e-7).
"""
from __future__ import annotations

import json
import multiprocessing as mp
import warnings
from fractions import Fraction

from bounded import _eqpool as P

N_CASES = {"quick": 160, "thorough": 4000}
FORMS = ("Lin", "Log", "Square", "LinRel", "LinTanh")
FLOAT_FORMS = ("LinRel", "LinTanh")
ZERO_SYM = 1e-25
ZERO_FLT = 1e-10
NONZERO = 1e-9


def _fr(x):
    return P.frac_to_json(x)


# ------------------------------------------------------------------------------ generator
def gen_case(seed, i):
    r = P.case_rng("C07", seed, i)
    while True:
        nr = r.choice([1, 2, 2, 3, 3, 4])
        picks = r.sample(P.POOL, nr)
        names = []
        for _, re_, pr, _lk in picks:
            for n in list(re_) + list(pr):
                if n not in names:
                    names.append(n)
        S = [P.net_stoich(p[1], p[2], names) for p in picks]
        if P.rank(S) == nr:          # independent reactions only (otherwise rref drops equations)
            break
    nspect = r.choice([0, 0, 1, 2])
    names += r.sample(P.SPECTATORS, nspect)
    r.shuffle(names)
    S = [P.net_stoich(p[1], p[2], names) for p in picks]
    c = []
    for n in names:
        if n == "H2O":
            c.append(Fraction(r.randint(5000, 5600), 100))
        elif n in P.SPECTATORS:
            c.append(Fraction(r.randint(100, 999), 10 ** r.randint(3, 6)))     # >= 1e-4
        else:
            c.append(Fraction(r.randint(100, 999), 10 ** r.randint(3, 8)))     # >= 1e-6
    # initial state: walk along every reaction, staying strictly positive
    c0 = list(c)
    order = list(range(nr))
    r.shuffle(order)
    for ri in order:
        nu = S[ri]
        hi = min(s / n for s, n in zip(c0, nu) if n > 0)       # c0 - xi*nu > 0  <=>  -lo < xi < hi
        lo = min(s / -n for s, n in zip(c0, nu) if n < 0)
        t = Fraction(r.randint(-90, 90), 100)
        xi = t * (hi if t > 0 else lo)
        c0 = [s - xi * n for s, n in zip(c0, nu)]
    assert min(c0) > 0
    # perturbations
    perts = []
    j = r.randrange(len(names))
    perts.append({"type": "conc", "index": j, "value": _fr(r.choice([Fraction(1, 2), Fraction(3, 4), Fraction(5, 4), 2, 3]))})
    j = r.randrange(len(names))
    perts.append({"type": "total", "index": j, "value": _fr(Fraction(r.randint(1, 9), 1000))})
    ri = r.randrange(nr)
    nu = S[ri]
    hi = min(s / -n for s, n in zip(c, nu) if n < 0)           # c + xi*nu > 0  <=>  -lo < xi < hi
    lo = min(s / n for s, n in zip(c, nu) if n > 0)
    t = Fraction(r.choice([-1, 1]) * r.randint(20, 80), 100)
    perts.append({"type": "extent", "index": ri, "value": _fr(t * (hi if t > 0 else lo))})
    ri = r.randrange(nr)
    perts.append({"type": "K", "index": ri, "value": _fr(r.choice([Fraction(1, 10), Fraction(3, 4), Fraction(5, 4), 10]))})
    signs = [r.choice([1, -1]) for _ in names]                 # branch of the square root
    # configurations: every formulation x rref flags with constants passed as parameters, plus one
    # configuration per formulation that takes the constants from the EqSystem itself
    configs = []
    for form in FORMS:
        for re_ in (False, True):
            for rp in (False, True):
                configs.append({"form": form, "rref_equil": re_, "rref_preserv": rp, "new_eq_params": True})
        configs.append({"form": form, "rref_equil": r.random() < 0.5, "rref_preserv": r.random() < 0.5,
                        "new_eq_params": False})
    return {"id": i, "names": names, "rxns": [p[0] for p in picks], "c": [_fr(x) for x in c],
            "c0": [_fr(x) for x in c0], "perts": perts, "signs": signs, "configs": configs}


# ------------------------------------------------------------------------------ evaluation
def _R(x):
    import sympy as sp
    x = Fraction(x)
    return sp.Rational(x.numerator, x.denominator)


def _internal(form, names, conc, init, signs):
    """Concentrations -> the formulation's unknowns (written from the definition of each transform)."""
    import sympy as sp
    if form == "Lin":
        return [_R(x) for x in conc]
    if form == "Square":
        return [s * sp.sqrt(_R(x)) for s, x in zip(signs, conc)]
    if form == "Log":
        return [sp.log(_R(x)) for x in conc]
    ub = P.upper_bounds(names, init)
    if form == "LinRel":
        return [_R(x / u) for x, u in zip(conc, ub)]
    if form == "LinTanh":
        return [sp.atanh(_R((8 * x / u - 4) / 5)) for x, u in zip(conc, ub)]
    raise ValueError(form)


def _classify(form, res):
    """-> (all_zero, some_nonzero, printable magnitudes)"""
    import sympy as sp
    zero, nonzero, mags = True, False, []
    for r in res:
        r = sp.sympify(r)
        if r.is_Rational and form not in FLOAT_FORMS:
            z, nz = (r == 0), (r != 0)
            mags.append(str(r) if len(str(r)) < 40 else "%.3e" % float(r))
        else:
            v = abs(complex(sp.N(r, 40)))
            tol = ZERO_FLT if form in FLOAT_FORMS else ZERO_SYM
            z, nz = v < tol, v > NONZERO
            mags.append("%.3e" % v)
        zero = zero and z
        nonzero = nonzero or nz
    return zero, nonzero, mags


def _numsys_class(form):
    from chempy import _eqsys
    return getattr(_eqsys, "NumSys" + form)


def eval_config(case, cfg, eqsys_cache=None):
    """Run every check of one configuration -> list of (check, holds, detail); [] when the
    formulation cannot be evaluated at all on this tree (only tolerated for LinTanh)."""
    import sympy as sp
    names = case["names"]
    c = [Fraction(x) for x in case["c"]]
    c0 = [Fraction(x) for x in case["c0"]]
    rx = [(P.POOL_BY_TAG[t][1], P.POOL_BY_TAG[t][2]) for t in case["rxns"]]
    S = [P.net_stoich(re_, pr, names) for re_, pr in rx]
    K = [P.quotient(c, nu) for nu in S]
    B, keys = P.comp_matrix(names)
    nr = len(rx)
    n_expected = nr + (P.rank(B) if cfg["rref_preserv"] else len(keys))
    form = cfg["form"]

    cache = eqsys_cache if eqsys_cache is not None else {}

    def residuals(conc, init, consts):
        # constants passed as parameters must override those stored in the EqSystem: store decoys there
        stored = [k * (i + 2) for i, k in enumerate(consts)] if cfg["new_eq_params"] else list(consts)
        ck = tuple(stored)
        if ck not in cache:      # the system only depends on the constants (species order is fixed per case)
            cache[ck] = P.build_eqsys(names, rx, [_R(k) for k in stored])
        es = cache[ck]
        ns = _numsys_class(form)(es, backend=sp, rref_equil=cfg["rref_equil"], rref_preserv=cfg["rref_preserv"],
                                 new_eq_params=cfg["new_eq_params"])
        y = _internal(form, names, conc, init, case["signs"])
        params = [_R(x) for x in init] + ([_R(k) for k in consts] if cfg["new_eq_params"] else [])
        return list(ns.f(y, params))

    out = []
    try:
        res = residuals(c, c0, K)
    except TypeError as e:
        if form == "LinTanh" and "positional argument" in str(e):
            return []            # NumSysLinTanh.f cannot be evaluated for ANY input on this tree
        return [("zero", False, "f raised TypeError: %s" % str(e)[:300])]
    except Exception as e:
        return [("zero", False, "f raised %s: %s" % (type(e).__name__, str(e)[:300]))]
    z, _, mags = _classify(form, res)
    out.append(("zero", z, "residuals at the exact equilibrium state: %s" % mags))
    out.append(("count", len(res) == n_expected,
                "number of equations %d, expected nr + %s = %d + %d" %
                (len(res), "rank(B)" if cfg["rref_preserv"] else "number of composition keys", nr, n_expected - nr)))
    for p in case["perts"]:
        conc, init, consts = list(c), list(c0), list(K)
        v, j = Fraction(p["value"]), p["index"]
        if p["type"] == "conc":
            conc[j] = conc[j] * v
        elif p["type"] == "total":
            init[j] = init[j] + v
        elif p["type"] == "extent":
            conc = [x + v * n for x, n in zip(conc, S[j])]
        elif p["type"] == "K":
            consts[j] = consts[j] * v
        what = "nonzero:" + p["type"]
        try:
            res = residuals(conc, init, consts)
        except Exception as e:
            out.append((what, False, "f raised %s: %s" % (type(e).__name__, str(e)[:300])))
            continue
        _, nz, mags = _classify(form, res)
        out.append((what, nz, "residuals after perturbation %s: %s" % (p, mags)))
        out.append(("count", len(res) == n_expected, "number of equations %d, expected %d" % (len(res), n_expected)))
    return out


def eval_quotients(case):
    """EqSystem.equilibrium_quotients / composition_conservation against the table-based oracle."""
    import numpy as np
    names = case["names"]
    c = [Fraction(x) for x in case["c"]]
    c0 = [Fraction(x) for x in case["c0"]]
    rx = [(P.POOL_BY_TAG[t][1], P.POOL_BY_TAG[t][2]) for t in case["rxns"]]
    S = [P.net_stoich(re_, pr, names) for re_, pr in rx]
    K = [P.quotient(c, nu) for nu in S]
    B, keys = P.comp_matrix(names)
    out = []
    try:
        es = P.build_eqsys(names, rx, [float(k) for k in K])
        # exact path: a list of Fractions goes through unchanged
        q = es.equilibrium_quotients(list(c))
        ok = len(q) == len(K) and all(Fraction(a) == b for a, b in zip(q, K))
        out.append(("quotients_exact", ok, "equilibrium_quotients(c) = %s, prod c^nu = %s" % ([str(a) for a in q], [str(b) for b in K])))
        # 1-D and 2-D float arrays (the 2-D branch transposes), rows: c0 and c
        arr = np.array([[float(x) for x in c0], [float(x) for x in c]])
        q1 = es.equilibrium_quotients(arr[1])
        q2 = es.equilibrium_quotients(arr)
        exp0 = [float(P.quotient(c0, nu)) for nu in S]
        exp1 = [float(k) for k in K]
        ok = all(abs(a - b) <= 1e-9 * abs(b) for a, b in zip(q1, exp1))
        ok = ok and all(abs(row[0] - a) <= 1e-9 * abs(a) and abs(row[1] - b) <= 1e-9 * abs(b)
                        for row, a, b in zip(q2, exp0, exp1))
        out.append(("quotients_float", ok, "1-D %s 2-D %s expected %s / %s" % (list(q1), [list(x) for x in q2], exp0, exp1)))
        # composition_conservation: (keys, B c, B c0)
        ck, t1, t0 = es.composition_conservation(dict(zip(names, map(float, c))), dict(zip(names, map(float, c0))))
        mine = P.totals(B, c)            # == totals(B, c0) exactly, by construction
        assert mine == P.totals(B, c0)
        ok = list(ck) == list(keys) and len(t1) == len(keys) == len(t0)
        if ok:
            for k, a, b, m, row in zip(keys, t1, t0, mine, B):
                sc = float(sum(abs(bb) * (x + x0) for bb, x, x0 in zip(row, c, c0)))
                if abs(float(a) - float(m)) > 1e-11 * sc or abs(float(b) - float(m)) > 1e-11 * sc:
                    ok = False
        out.append(("composition_conservation", ok, "keys %s totals(c) %s totals(c0) %s expected keys %s totals %s" %
                    (list(ck), list(map(float, t1)), list(map(float, t0)), keys, [float(m) for m in mine])))
        # a state off by one extent is conserved, a state with one concentration changed is not
        p = case["perts"][0]
        conc = list(c)
        conc[p["index"]] = conc[p["index"]] * Fraction(p["value"])
        ck, t1, t0 = es.composition_conservation(np.array([float(x) for x in conc]), np.array([float(x) for x in c0]))
        d = max(abs(float(a) - float(b)) for a, b in zip(t1, t0))
        exp = max(abs(float(m1 - m0)) for m1, m0 in zip(P.totals(B, conc), P.totals(B, c0)))
        sc = max(float(sum(abs(bb) * (x + x0) for bb, x, x0 in zip(row, conc, c0))) for row in B)
        out.append(("composition_conservation_perturbed", abs(d - exp) <= 1e-9 * exp + 1e-11 * sc,
                    "max |B c' - B c0| = %.6e expected %.6e" % (d, exp)))
    except Exception as e:
        out.append(("quotients", False, "raised %s: %s" % (type(e).__name__, str(e)[:300])))
    return out


def run_case(case):
    warnings.simplefilter("ignore")
    import numpy as np
    with np.errstate(all="ignore"):
        res = {"id": case["id"], "configs": [], "quot": eval_quotients(case)}
        cache = {}
        for cfg in case["configs"]:
            res["configs"].append(eval_config(case, cfg, cache))
    return res


def _pool_map(fn, items):
    if len(items) < 4:
        return [fn(it) for it in items]
    ctx = mp.get_context("fork")
    with ctx.Pool(min(16, len(items))) as pool:
        return pool.map(fn, items, chunksize=max(1, len(items) // 160))


def _case_key(case):
    return json.dumps({k: case[k] for k in ("names", "rxns", "c", "c0")}, sort_keys=True)


# ------------------------------------------------------------------------------ interface
def run(tier, seed):
    warnings.simplefilter("ignore")
    cases = [gen_case(seed, i) for i in range(N_CASES[tier])]
    results = _pool_map(run_case, cases)
    v_res, v_cnt, v_quot = [], [], []
    n_res = n_cnt = n_quot = 0
    skipped = {}
    keys_res, keys_cnt = set(), set()
    forms_seen = set()
    for case, res in zip(cases, results):
        ck = _case_key(case)
        for cfg, checks in zip(case["configs"], res["configs"]):
            if not checks:
                skipped[cfg["form"]] = skipped.get(cfg["form"], 0) + 1
                continue
            forms_seen.add(cfg["form"])
            small = {k: case[k] for k in case if k != "configs"}
            for what, holds, detail in checks:
                if what == "count":
                    n_cnt += 1
                    keys_cnt.add((ck, json.dumps(cfg, sort_keys=True)))
                    if not holds:
                        v_cnt.append({"inputs": small, "config": cfg, "detail": "%s %s" % (cfg, detail)})
                else:
                    n_res += 1
                    keys_res.add((ck, json.dumps(cfg, sort_keys=True), what))
                    if not holds:
                        v_res.append({"inputs": small, "config": cfg, "check": what,
                                      "detail": "%s expected %s residuals: %s" %
                                                (cfg, "all-zero" if what == "zero" else "some non-zero", detail)})
        for what, holds, detail in res["quot"]:
            n_quot += 1
            if not holds:
                v_quot.append({"inputs": {k: case[k] for k in case if k != "configs"}, "check": what, "detail": detail})
    # one violation per (config) is enough for the count stand-in
    seen, v_cnt2 = set(), []
    for v in v_cnt:
        k = (v["inputs"]["id"], json.dumps(v["config"], sort_keys=True))
        if k not in seen:
            seen.add(k)
            v_cnt2.append(v)
    note = "; ".join("%s skipped in %d configurations: f() raises TypeError for every input on this tree" % kv
                     for kv in sorted(skipped.items()))
    gen_rule = ("1..4 linearly independent equilibria from a pool of %d (water autoprotolysis in two spellings, one with "
                "water on both sides, ammonia, CO2/carbonic, phosphoric steps, acetic, HF, bisulfate, Fe/SCN, Fe hydrolysis, "
                "Cu/NH3 incl. a coefficient 4, Ag/NH3, hydronium, chromate/dichromate) over formula-defined species, 0..2 "
                "spectator ions, shuffled species order; exact rational equilibrium state (1e-6..1 M, water 50..56 M), "
                "K_i := prod c^nu, initial state = state moved by random extents along every reaction" % len(P.POOL))
    s1 = {
        "name": "residual_zero_nonzero",
        "rule": gen_rule + "; every formulation (Lin, Log, Square, LinRel, LinTanh when evaluable) x rref_equil x rref_preserv "
                "with constants as parameters + one configuration per formulation with constants taken from the EqSystem; "
                "f(y*, params) all zero (exact for rational residuals, <1e-25 at 40 digits for symbolic ones, <1e-10 for the "
                "float-based LinRel/LinTanh); four perturbations each must give a non-zero residual (exact, resp. >1e-9): one "
                "concentration scaled, one initial total shifted (Q=K still true), one reaction moved by 20..80 % of its "
                "admissible extent (conservation still true), one constant scaled",
        "bound": "%d systems x %d configurations x 5 evaluations; <= 4 reactions, <= 13 species; formulations reached: %s%s" %
                 (len(cases), len(cases[0]["configs"]), sorted(forms_seen), ("; " + note) if note else ""),
        "evaluations": n_res,
        "distinct": len(keys_res),
        "exhaustive": False,
        "samples": [{k: cases[0][k] for k in cases[0] if k != "configs"}],
        "violations": v_res,
    }
    s2 = {
        "name": "equation_count",
        "rule": gen_rule + "; len(f(y, params)) == nr + number of composition keys (elements + charge if any species is "
                "charged), resp. nr + rank of the composition matrix (fraction-exact elimination) when rref_preserv; checked "
                "for the equilibrium state and each perturbed state",
        "bound": "%d systems x %d configurations" % (len(cases), len(cases[0]["configs"])),
        "evaluations": n_cnt,
        "distinct": len(keys_cnt),
        "exhaustive": False,
        "samples": [{k: cases[0][k] for k in cases[0] if k != "configs"}],
        "violations": v_cnt2,
    }
    s3 = {
        "name": "quotients_conservation",
        "rule": gen_rule + "; EqSystem.equilibrium_quotients(c) == K exactly on Fractions, to 1e-9 relative on 1-D and 2-D "
                "float arrays (rows c0 and c); composition_conservation(c, c0) returns the sorted composition keys and twice "
                "the same totals (1e-11 relative to sum|B_kj| (c_j + c0_j)), and the exact defect for a state with one concentration scaled",
        "bound": "%d systems, 4 checks each" % len(cases),
        "evaluations": n_quot,
        "distinct": len({_case_key(c) for c in cases}) * 4,
        "exhaustive": False,
        "samples": [{k: cases[0][k] for k in cases[0] if k != "configs"}],
        "violations": v_quot,
    }
    return {"standins": [s1, s2, s3]}


def replay(case):
    warnings.simplefilter("ignore")
    inp = case["inputs"]
    name = case.get("name")
    if name == "quotients_conservation":
        rr = [r for r in eval_quotients(inp) if r[0] == case.get("check", r[0])]
        bad = [r for r in rr if not r[1]]
        return (not bad), "; ".join("%s: %s" % (r[0], r[2]) for r in (bad or rr))[:2000]
    checks = eval_config(inp, case["config"])
    if name == "equation_count":
        rr = [r for r in checks if r[0] == "count"]
    else:
        rr = [r for r in checks if r[0] == case.get("check", r[0]) and r[0] != "count"]
    bad = [r for r in rr if not r[1]]
    return (not bad), "; ".join("%s: %s" % (r[0], r[2]) for r in (bad or rr))[:2000]
