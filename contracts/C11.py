"""C11  Arithmetic on equilibria keeps the constant consistent with the stoichiometry."""
from pyvc.api import harness
from pyvc import spec as SP
from pyvc.sym import Sym

META = {
    "explanation": "intdiv proved for all integers; integer scaling, negation, addition and subtraction of equilibria proved (net stoichiometry, positivity, netted form, side swap, constant = product of powers) for every coefficient and constant at fixed key layouts that include species on opposite sides and shared species; cancel and as_reactions likewise; the induction over operation histories is the Lean lemma pair nu_eq_combination / const_eq_product_of_powers (lemmas/C11_history.lean); two- and three-step expressions are also proved directly on the code",
    "trusted_base": ["pow(K, n) axioms (5.3)", "Lean 4 kernel + Mathlib for lemmas/C11_history.lean (re-checked on every run, C11.lemma.*): for any expression over any number of operands, net stoichiometry = sum_i c_i nu_i and constant = prod_i K_i^c_i, given that one scaling/addition/subtraction acts as proved in C11.scale/add/sub; the correspondence between `EqExpr.nu/const` and those obligations is by inspection"],
    "not_decided": ["Equilibrium.eliminate: the common multiple comes from sympy.primefactors (bounded stand-in, exhaustive on [-60,60]^2)"],
    "assumptions": ["key layouts fixed per harness (shape-bounded)", "scaling by a non-zero integer (scaling by 0 lists zero coefficients: outside 'every listed coefficient positive')"],
}
CH = "chempy.chemistry"


@harness("C11", "intdiv", functions=["chempy._util:intdiv"], samples=60)
def _(v):
    from chempy._util import intdiv
    p = v.int("p", lo=-50, hi=50)
    q = v.int("q", lo=-9, hi=9)
    v.assume(q != 0)
    r = v.call(intdiv, p, q)
    # truncation toward zero: p = q*r + rem with |rem| < |q| and rem having the sign of p (or 0)
    rem = p - q * r
    v.prove("trunc", SP.conj([abs(rem) < abs(q), SP.implies(p >= 0, rem >= 0), SP.implies(p <= 0, rem <= 0)]))
    out = v.run(intdiv, p, 0)
    v.prove("zero_divisor_raises", out.raised(ZeroDivisionError))


@harness("C11", "ArithmeticDict.scalar", functions=["chempy.util.arithmeticdict:ArithmeticDict.__mul__", "chempy.util.arithmeticdict:ArithmeticDict.__rmul__",
                                                    "chempy.util.arithmeticdict:ArithmeticDict.__imul__", "chempy.util.arithmeticdict:_imul", "chempy.util.arithmeticdict:ArithmeticDict.copy"],
         kind="shape-bounded", samples=30)
def _(v):
    from chempy.util.arithmeticdict import ArithmeticDict
    import operator
    a, b, n = v.int("a", lo=-5, hi=5), v.int("b", lo=-5, hi=5), v.int("n", lo=-4, hi=4)
    d = ArithmeticDict(int, {"A": a, "B": b})
    r = v.call(d.__rmul__, n)
    v.prove("rmul", SP.conj([set(r.keys()) == {"A", "B"}, r["A"] == n * a, r["B"] == n * b]))
    r2 = v.call(d.__mul__, n)
    v.prove("mul", SP.conj([set(r2.keys()) == {"A", "B"}, r2["A"] == n * a, r2["B"] == n * b]))
    v.prove("operand_unchanged", SP.conj([d["A"] == a, d["B"] == b, r is not d]))
    c = v.call(d.copy)
    v.prove("copy", SP.conj([c is not d, c["A"] == a, c["B"] == b, type(c) is ArithmeticDict]))


LAY = {
    "opposite": ((["A", "B"], ["C"]), (["C", "D"], ["A"])),        # C and A appear on opposite sides
    "same_side": ((["A"], ["B", "C"]), (["A", "D"], ["C"])),
    "disjoint": ((["A"], ["B"]), (["C"], ["D"])),
}


def mk_eq(v, tag, lay):
    from chempy.chemistry import Equilibrium
    reac = {k: v.int("%s_r_%s" % (tag, k), lo=1, hi=4) for k in lay[0]}
    prod = {k: v.int("%s_p_%s" % (tag, k), lo=1, hi=4) for k in lay[1]}
    K = v.real("K_" + tag, lo=0.01, hi=50)
    return Equilibrium(dict(reac), dict(prod), K, checks=()), reac, prod, K


def netof(reac, prod, k):
    return prod.get(k, 0) - reac.get(k, 0)


def _pow(K, n):
    return SP.spow(K, n)


def _scale(name, lay):
    @harness("C11", "scale." + name, functions=[CH + ":Equilibrium.__rmul__", CH + ":Equilibrium.__mul__", CH + ":Equilibrium.__neg__"], kind="shape-bounded", div_mode="assume", samples=30)
    def _(v):
        e, reac, prod, K = mk_eq(v, "e", lay)
        n = v.int("n", lo=-4, hi=4)
        v.assume(n != 0)
        keys = sorted(set(reac) | set(prod))
        for label, r in (("rmul", v.call(e.__rmul__, n)), ("mul", v.call(e.__mul__, n))):
            v.prove(label + ".net", SP.conj([netof(r.reac, r.prod, k) == n * netof(reac, prod, k) for k in keys]))
            v.prove(label + ".positive", SP.conj([c > 0 for c in list(r.reac.values()) + list(r.prod.values())]))
            an = SP.ite(n < 0, -n, n)
            # which species are listed on which side: a negative factor reverses the reaction (no extra keys on either side)
            v.prove(label + ".sides", SP.ite(n > 0, set(r.reac) == set(reac) and set(r.prod) == set(prod), set(r.reac) == set(prod) and set(r.prod) == set(reac)))
            v.prove(label + ".coefficients", SP.conj([SP.ite(n > 0, r.reac.get(k, 0), r.prod.get(k, 0)) == an * c for k, c in reac.items()] +
                                                     [SP.ite(n > 0, r.prod.get(k, 0), r.reac.get(k, 0)) == an * c for k, c in prod.items()]))
            v.prove(label + ".constant", v.eq(r.param, _pow(K, n)))
            v.prove(label + ".no_inactive", not r.inact_reac and not r.inact_prod)
        m = v.call(e.__neg__)
        v.prove("neg.swaps", SP.conj([m.reac.get(k, 0) == c for k, c in prod.items()] + [m.prod.get(k, 0) == c for k, c in reac.items()] +
                                     [set(m.reac) == set(prod), set(m.prod) == set(reac)]))
        v.prove("neg.constant", v.eq(m.param, _pow(K, -1)))
    return _


for _n, _l in LAY.items():
    _scale(_n, _l[0])


def _add(name, l1, l2):
    @harness("C11", "add." + name, functions=[CH + ":Equilibrium.__add__", CH + ":Equilibrium.__sub__"], kind="shape-bounded", div_mode="assume", samples=40)
    def _(v):
        e1, r1, p1, K1 = mk_eq(v, "e1", l1)
        e2, r2, p2, K2 = mk_eq(v, "e2", l2)
        keys = sorted(set(r1) | set(p1) | set(r2) | set(p2))
        s = v.call(e1.__add__, e2)
        nets = {k: netof(r1, p1, k) + netof(r2, p2, k) for k in keys}
        v.prove("net", SP.conj([netof(s.reac, s.prod, k) == nets[k] for k in keys]))
        v.prove("netted_no_species_on_both_sides", not (set(s.reac) & set(s.prod)))
        v.prove("positive_and_cancelled_removed", SP.conj([c > 0 for c in list(s.reac.values()) + list(s.prod.values())]))
        v.prove("only_given_species", set(s.reac) | set(s.prod) <= set(keys))
        v.prove("present_iff_nonzero", SP.conj([SP.iff((k in s.reac) or (k in s.prod), SP.neg(nets[k] == 0)) for k in keys]))
        v.prove("constant_is_product", v.eq(s.param, K1 * K2))
        d = v.call(e1.__sub__, e2)
        netd = {k: netof(r1, p1, k) - netof(r2, p2, k) for k in keys}
        v.prove("sub.net", SP.conj([netof(d.reac, d.prod, k) == netd[k] for k in keys]))
        v.prove("sub.netted", not (set(d.reac) & set(d.prod)))
        v.prove("sub.positive", SP.conj([c > 0 for c in list(d.reac.values()) + list(d.prod.values())]))
        v.prove_identity("sub.constant_is_quotient", d.param * K2, K1 + 0 * K2) if v.symbolic else v.prove("sub.constant_is_quotient", v.eq(d.param, K1 / K2, rel=1e-9))
    return _


for _n, _l in LAY.items():
    _add(_n, _l[0], _l[1])


@harness("C11", "add.none_params", functions=[CH + ":Equilibrium.__add__"], kind="data")
def _(v):
    from chempy.chemistry import Equilibrium
    s = Equilibrium({"A": 1}, {"B": 1}) + Equilibrium({"B": 1}, {"C": 2})
    v.prove("param_none", s.param is None and s.reac == {"A": 1} and s.prod == {"C": 2})


def _cancel(name, l1, l2):
    @harness("C11", "cancel." + name, functions=[CH + ":Equilibrium.cancel", "chempy._util:intdiv"], kind="shape-bounded", samples=40)
    def _(v):
        from chempy._util import intdiv
        e1, r1, p1, K1 = mk_eq(v, "e1", l1)
        e2, r2, p2, K2 = mk_eq(v, "e2", l2)
        keys2 = sorted(set(r2) | set(p2))
        n2 = {k: netof(r2, p2, k) for k in keys2}
        n1 = {k: netof(r1, p1, k) for k in keys2}
        v.assume(SP.conj([SP.neg(n2[k] == 0) for k in keys2]))
        c = v.call(e1.cancel, e2)
        qs = [v.call(intdiv, -n1[k], n2[k]) for k in keys2]
        absv = lambda x: SP.ite(x >= 0, x, -x)
        v.prove("is_one_of_the_quotients", SP.disj([c == q for q in qs]))
        v.prove("minimal_magnitude", SP.conj([absv(c) <= absv(q) for q in qs]))
    return _


for _n, _l in LAY.items():
    _cancel(_n, _l[0], _l[1])


@harness("C11", "as_reactions", functions=[CH + ":Equilibrium.as_reactions"], kind="shape-bounded", div_mode="assume", samples=30)
def _(v):
    from chempy.chemistry import Equilibrium, Reaction
    K, kf, kb = v.real("K", lo=0.01, hi=50), v.real("kf", lo=0.01, hi=50), v.real("kb", lo=0.01, hi=50)
    e = Equilibrium({"A": 2, "B": 1}, {"C": 1}, K, inact_reac={"X": 1}, inact_prod={"Y": 2}, checks=())
    fw, bw = v.call(e.as_reactions, kf=kf)
    v.prove_identity("kb_from_kf", bw.param * K, kf + 0 * K) if v.symbolic else v.prove("kb_from_kf", v.eq(bw.param, kf / K))
    v.prove("forward_param", v.eq(fw.param, kf))
    v.prove("sides", fw.reac == e.reac and fw.prod == e.prod and bw.reac == e.prod and bw.prod == e.reac)
    v.prove("inactive_swapped", fw.inact_reac == e.inact_reac and fw.inact_prod == e.inact_prod and bw.inact_reac == e.inact_prod and bw.inact_prod == e.inact_reac)
    v.prove("types", type(fw) is Reaction and type(bw) is Reaction)
    fw2, bw2 = v.call(e.as_reactions, kb=kb)
    v.prove("kf_from_kb", v.eq(fw2.param, kb * K))
    v.prove("backward_param", v.eq(bw2.param, kb))
    out = v.run(e.as_reactions, kf=kf, kb=kb)
    v.prove("both_given_raises", out.raised(ValueError))
    out = v.run(e.as_reactions)
    v.prove("none_given_raises", out.raised(ValueError))


@harness("C11", "lemma", functions=["lemmas/C11_history.lean: EqExpr.nu_eq_combination, EqExpr.const_eq_product_of_powers"], kind="lemma", samples=0)
def _(v):
    """induction over operation histories, checked by the Lean kernel on every run (no sorry/axiom: scanned)"""
    v.prove_lean("history_of_operations_any_length", "lemmas/C11_history.lean", theorems=("nu_eq_combination", "const_eq_product_of_powers"))


@harness("C11", "composed_expressions", functions=[CH + ":Equilibrium.__rmul__", CH + ":Equilibrium.__add__", CH + ":Equilibrium.__sub__", CH + ":Equilibrium.__neg__"], kind="shape-bounded", div_mode="assume", samples=20)
def _(v):
    """several operations in a row on the real objects (operands with a species on BOTH sides included): net stoichiometry is the same integer
    combination, the listing is netted and positive, and the constant is the product of powers"""
    from chempy.chemistry import Equilibrium
    K1, K2 = v.real("K1", lo=0.01, hi=50), v.real("K2", lo=0.01, hi=50)
    a1, b1, c1 = v.int("a1", lo=1, hi=4), v.int("b1", lo=1, hi=4), v.int("c1", lo=1, hi=4)
    e1 = Equilibrium({"A": a1 + 1, "B": b1}, {"A": 1, "C": c1}, K1, checks=())      # A on both sides of one operand
    e2 = Equilibrium({"C": 1}, {"A": 2, "D": 1}, K2, checks=())
    n1 = {"A": -a1, "B": -b1, "C": c1, "D": 0}
    n2 = {"A": 2, "B": 0, "C": -1, "D": 1}
    for label, build, (x, y) in (("2e1_plus_3e2_minus_e1", lambda: v.call(v.call(v.call(e1.__rmul__, 2).__add__, v.call(e2.__rmul__, 3)).__sub__, e1), (1, 3)),
                                 ("minus_e1_plus_2e2_plus_2e1", lambda: v.call(v.call(v.call(e1.__neg__).__add__, v.call(e2.__rmul__, 2)).__add__, v.call(e1.__rmul__, 2)), (1, 2)),
                                 ("neg_of_difference", lambda: v.call(v.call(e1.__sub__, e2).__neg__), (-1, 1))):
        r = build()
        want = {k: x * n1[k] + y * n2[k] for k in "ABCD"}
        v.prove(label + ".net", SP.conj([netof(r.reac, r.prod, k) == want[k] for k in "ABCD"]))
        v.prove(label + ".netted_and_positive", (not (set(r.reac) & set(r.prod))) and SP.conj([c > 0 for c in list(r.reac.values()) + list(r.prod.values())]))
        v.prove(label + ".present_iff_nonzero", SP.conj([SP.iff((k in r.reac) or (k in r.prod), SP.neg(want[k] == 0)) for k in "ABCD"]))
        if v.symbolic:
            lhs, rhs = r.param, 1
            for K, e in ((K1, x), (K2, y)):
                if e >= 0:
                    rhs = rhs * K ** e
                else:
                    lhs = lhs * K ** (-e)
            v.prove_identity(label + ".constant", lhs, rhs)
        else:
            v.prove(label + ".constant", v.eq(r.param, K1 ** x * K2 ** y, rel=1e-9))


@harness("C11", "eliminate.pairs", functions=[CH + ":Equilibrium.eliminate"], kind="data")
def _(v):
    """'for two equilibria that both involve a species, the elimination helper returns non-zero integer multipliers whose combination contains
    none of that species': all pairs of net coefficients in [-12, 12] with the species on one or on both sides (the larger grid is the bounded
    stand-in); the combination is formed with the real operators"""
    from fractions import Fraction as Fr
    from chempy.chemistry import Equilibrium
    bad = []
    n = 0
    for v0 in range(-12, 13):
        for v1 in range(-12, 13):
            if v0 == 0 or v1 == 0:
                continue
            for both in (False, True):
                extra = 2 if both else 0
                mk = lambda vv, other, K: Equilibrium({"X": extra + (-vv if vv < 0 else 0), other: 1} if (vv < 0 or extra) else {other: 1},
                                                      {"X": extra + (vv if vv > 0 else 0), other + "p": 1} if (vv > 0 or extra) else {other + "p": 1}, K, checks=())
                e0, e1 = mk(v0, "P", Fr(3, 2)), mk(v1, "Q", Fr(5, 7))
                n += 1
                try:
                    m0, m1 = Equilibrium.eliminate([e0, e1], "X")
                    ok = int(m0) == m0 and int(m1) == m1 and m0 != 0 and m1 != 0 and m0 * v0 + m1 * v1 == 0
                    if ok and abs(v0) <= 3 and abs(v1) <= 3:
                        comb = int(m0) * e0 + int(m1) * e1
                        ok = "X" not in comb.reac and "X" not in comb.prod and comb.param == Fr(3, 2) ** int(m0) * Fr(5, 7) ** int(m1)
                except Exception as ex:
                    ok = False
                    m0 = m1 = repr(ex)
                if not ok:
                    bad.append((v0, v1, both, m0, m1))
    v.prove("multipliers_eliminate_the_species", not bad and n == 2 * 24 * 24, detail="%d bad of %d: %s" % (len(bad), n, bad[:5]))


@harness("C11", "cancel.proper_multiple", functions=[CH + ":Equilibrium.cancel", "chempy._util:intdiv"], kind="shape-bounded", samples=40)
def _(v):
    """cancel where the answer is not trivially 0: every species of the second equilibrium occurs in the first, on the same side.  The multiplier m = -c
    is the number of times the second can be SUBTRACTED: no species of it is overshot (sign kept) and one more subtraction would overshoot one"""
    from chempy.chemistry import Equilibrium
    a1, b1, c1 = v.int("a1", lo=1, hi=60), v.int("b1", lo=1, hi=9), v.int("c1", lo=1, hi=60)
    a2, c2 = v.int("a2", lo=1, hi=7), v.int("c2", lo=1, hi=7)
    e1 = Equilibrium({"A": a1, "B": b1}, {"C": c1}, 2.0, checks=())
    e2 = Equilibrium({"A": a2}, {"C": c2}, 3.0, checks=())
    c = v.call(e1.cancel, e2)
    m = -c
    v.prove("subtraction_not_addition", m >= 0)
    v.prove("no_species_overshot", SP.conj([m * a2 <= a1, m * c2 <= c1]))
    v.prove("one_more_would_overshoot", SP.disj([(m + 1) * a2 > a1, (m + 1) * c2 > c1]))
    # opposite direction: the second written backwards can be ADDED the same number of times
    e2r = Equilibrium({"C": c2}, {"A": a2}, 1 / 3.0, checks=())
    v.prove("reversed_partner_is_added", v.call(e1.cancel, e2r) == m)


@harness("C11", "degenerate_and_inactive", functions=[CH + ":Equilibrium.__rmul__", CH + ":Equilibrium.__mul__", CH + ":Equilibrium.__neg__", CH + ":Equilibrium.__add__", CH + ":Equilibrium.__sub__"], kind="data")
def _(v):
    """corners of the algebra on the real objects: a combination whose net stoichiometry is empty (0*e, e - e, e + reverse(e)) is refused with
    ValueError, never returned as an equilibrium with some left-over species or a constant other than 1; kinetically inactive participants are
    scaled with the reaction and change sides with it"""
    from chempy.chemistry import Equilibrium
    e = Equilibrium({"A": 1, "B": 2}, {"C": 3}, 10.0, inact_reac={"S": 1})
    rev = Equilibrium({"C": 3}, {"A": 1, "B": 2}, 0.1)
    outcomes = []
    for label, f in (("0*e", lambda: 0 * e), ("e*0", lambda: e * 0), ("e-e", lambda: e - e), ("e+rev", lambda: e + rev)):
        try:
            r = f()
            outcomes.append((label, dict(r.reac), dict(r.prod), r.param))
        except ValueError:
            pass
        except Exception as ex:
            outcomes.append((label, repr(ex)))
    v.prove("empty_net_stoichiometry_refused", not outcomes, detail=repr(outcomes))
    two, neg = 2 * e, -e
    v.prove("inactive_parts_scaled_and_moved_with_the_reaction", dict(two.inact_reac) == {"S": 2} and not two.inact_prod and dict(neg.inact_prod) == {"S": 1} and not neg.inact_reac
            and dict((-3 * e).inact_prod) == {"S": 3}, detail=repr((two.inact_reac, neg.inact_prod)))
