"""C06  Integrated kinetics reproduce exact solutions and stay physically admissible."""
from pyvc.api import harness
from pyvc import spec as SP
from pyvc.sym import Sym

META = {
    "explanation": "the advertised explicit-Euler step: the closure max_euler_step_cb of get_odesys is proved safe for ANY right-hand side vector and any state inside [0, upper bound]: the returned h is non-negative, at most 1, and y + h*f stays inside [0, upper bound] component-wise (nlsat); the bound itself is the elemental upper bound of C15 (used through its contract). Agreement of the delegated integrator with exact solutions is not decidable by contracts: bounded stand-in (first-order networks vs matrix exponential, bimolecular steps vs closed forms).",
    "trusted_base": ["assumed contract 5.6 for odesys.pre_process / to_arrays / f_cb (identity pre-processing without units, f_cb returns the right-hand side vector)", "contract of ReactionSystem.upper_conc_bounds (proved in C15)"],
    "not_decided": ["accuracy of CVODE/LSODA/scipy integration against exact solutions (adaptive numerical integrator, IEEE arithmetic): bounded only", "non-negativity of integrated trajectories beyond tolerance: bounded only"],
    "assumptions": ["three- and four-substance shapes for the step-size proof (the loop is over the components; each component's clause is independent)"],
}
ODE = "chempy.kinetics.ode"


def _euler(n):
    @harness("C06", "max_euler_step_cb.n%d" % n, functions=[ODE + ":get_odesys.<locals>.max_euler_step_cb"], kind="shape-bounded", div_mode="fork", samples=0, max_paths=3000)
    def _(v):
        from chempy.kinetics.ode import get_odesys
        from chempy.chemistry import Reaction, Substance
        from chempy.reactionsystem import ReactionSystem
        from contracts.C04 import FakeSymbolicSys
        names = ["A", "B", "C", "D"][:n]
        subs = [Substance(s, composition={1: 1}) for s in names]
        rsys = ReactionSystem([Reaction({"A": 1}, {"B": 1}, 1.0, checks=())], subs, checks=())
        ys = [v.real("y_" + s, lo=0, hi=100) for s in names]
        ubs = [v.real("ub_" + s, lo=0, hi=1000) for s in names]
        fs = [v.real("f_" + s, lo=-1e3, hi=1e3) for s in names]
        v.assume(SP.conj([y <= ub for y, ub in zip(ys, ubs)]))
        seen = []
        v.contract(ReactionSystem.upper_conc_bounds, "upper_conc_bounds", None, lambda v_, self, init_concs, **kw: (seen.append(("bounds_of", init_concs)), list(ubs))[1])

        class Sys(FakeSymbolicSys):
            def f_cb(self, x, y, p):
                seen.append(("rhs_at", x, y, tuple(p)))
                return list(fs)
        odesys, extra = v.call(get_odesys, rsys, SymbolicSys=Sys)
        cb = extra["max_euler_step_cb"]
        v.prove("callback_offered_when_compositions_known", cb is not None)
        t0 = v.real("t0", lo=0, hi=10)
        h = v.call(cb, t0, ys)
        v.prove("bounds_and_rhs_are_those_of_the_given_state", len(seen) == 2 and seen[0][0] == "bounds_of" and seen[0][1] is ys and seen[1][0] == "rhs_at" and seen[1][1] is t0 and seen[1][2] is ys
                and seen[1][3] == ())
        v.prove_nl("step_is_non_negative", h >= 0)
        v.prove_nl("step_at_most_one", h <= 1)
        for y, ub, f, s in zip(ys, ubs, fs, names):
            v.prove_nl("stays_non_negative_" + s, y + h * f >= 0)
            v.prove_nl("stays_below_bound_" + s, y + h * f <= ub)
        # not needlessly small: either the cap 1 is returned or some concentration reaches its limit exactly (0 when falling, the bound when rising)
        v.prove_nl("step_is_as_large_as_safety_allows", SP.disj([h == 1] + [SP.conj([f < 0, y + h * f == 0]) for y, f in zip(ys, fs)] + [SP.conj([f > 0, y + h * f == ub]) for y, ub, f in zip(ys, ubs, fs)]))
    return _


for _n in (2, 3, 4):
    _euler(_n)


@harness("C06", "max_euler_step_cb.no_stale_bounds", functions=[ODE + ":get_odesys.<locals>.max_euler_step_cb"], kind="shape-bounded", div_mode="fork", samples=0, max_paths=3000)
def _(v):
    """the callback is used repeatedly on one odesys: the second call must use the bounds and right-hand side of ITS state"""
    from chempy.kinetics.ode import get_odesys
    from chempy.chemistry import Reaction, Substance
    from chempy.reactionsystem import ReactionSystem
    from contracts.C04 import FakeSymbolicSys
    names = ["A", "B"]
    subs = [Substance(s, composition={1: 1}) for s in names]
    rsys = ReactionSystem([Reaction({"A": 1}, {"B": 1}, 1.0, checks=())], subs, checks=())
    state = {"call": 0}
    ys = [[v.real("y%d_%s" % (c, s), lo=0, hi=100) for s in names] for c in (0, 1)]
    ubs = [[v.real("ub%d_%s" % (c, s), lo=0, hi=1000) for s in names] for c in (0, 1)]
    fs = [[v.real("f%d_%s" % (c, s), lo=-1e3, hi=1e3) for s in names] for c in (0, 1)]
    v.assume(SP.conj([y <= ub for c in (0, 1) for y, ub in zip(ys[c], ubs[c])]))

    def bounds(v_, self, init_concs, **kw):
        c = 0 if init_concs is ys[0] else 1
        return list(ubs[c])
    v.contract(ReactionSystem.upper_conc_bounds, "upper_conc_bounds", None, bounds)

    class Sys(FakeSymbolicSys):
        def f_cb(self, x, y, p):
            return list(fs[0 if y is ys[0] else 1])
    odesys, extra = v.call(get_odesys, rsys, SymbolicSys=Sys)
    cb = extra["max_euler_step_cb"]
    v.call(cb, 0.0, ys[0])
    h = v.call(cb, 0.0, ys[1])
    v.prove_nl("second_call.step_is_non_negative", h >= 0)
    for y, ub, f, s in zip(ys[1], ubs[1], fs[1], names):
        v.prove_nl("second_call.stays_non_negative_" + s, y + h * f >= 0)
        v.prove_nl("second_call.stays_below_bound_" + s, y + h * f <= ub)


@harness("C06", "no_callback_without_compositions", functions=[ODE + ":get_odesys"], kind="shape-bounded", samples=0)
def _(v):
    from chempy.kinetics.ode import get_odesys
    from chempy.chemistry import Reaction, Substance
    from chempy.reactionsystem import ReactionSystem
    from contracts.C04 import FakeSymbolicSys
    rsys = ReactionSystem([Reaction({"A": 1}, {"B": 1}, v.real("k", lo=0, hi=9), checks=())], [Substance("A"), Substance("B")], checks=())
    odesys, extra = v.call(get_odesys, rsys, SymbolicSys=FakeSymbolicSys)
    v.prove("no_bound_no_callback", extra["max_euler_step_cb"] is None and extra["linear_dependencies"] is None)


@harness("C06", "get_odesys.result_arrays_carry_the_requested_units", functions=[ODE + ":get_odesys", ODE + ":get_odesys.<locals>.post_processor", ODE + ":get_odesys.<locals>.<lambda>",
                                                                                 "chempy.units:rescale", "chempy.units:to_unitless", "chempy.units:get_derived_unit"],
         kind="shape-bounded", div_mode="assume", samples=0, max_paths=400)
def _(v):
    """'through to the result arrays': with a unit registry the numbers handed to the integrator are the state in registry units, and the arrays
    handed back are the integrator's numbers in registry units EXPRESSED in the requested output units (same physical value), for any registry
    and any compatible output units (generic units of symbolic scale, abstraction 5.1)"""
    import numpy
    from chempy.kinetics.ode import get_odesys
    from chempy.kinetics.rates import MassAction
    from chempy.chemistry import Reaction, Substance
    from chempy.reactionsystem import ReactionSystem
    from chempy import units as CU
    from pyvc.qmodel import si_value, dim_of, std_table, Quantity
    from contracts.C04 import FakeSymbolicSys
    from contracts.C10 import _registry, _unit_in_registry, CONC, TIME
    t = std_table()
    reg = _registry(v, t)
    v.contract(CU.default_unit_in_registry, "default_unit_in_registry", None, lambda v_, value, registry: _unit_in_registry(t, registry, value) if isinstance(value, Quantity) else 1)
    v.contract(CU.unitless_in_registry, "unitless_in_registry", None,
               lambda v_, value, registry: v_.interp.call(CU.to_unitless, (value, _unit_in_registry(t, registry, value))) if isinstance(value, Quantity) else value)
    k = v.real("k", lo=1e-9, hi=1e9)
    ku = t.generic("ku", (0, 0, -1, 0, 0, 0, 0))
    rsys = ReactionSystem([Reaction({"A": 1}, {"B": 1}, MassAction([k * ku]), checks=())], [Substance("A"), Substance("B")], checks=())
    out_t, out_c = t.generic("out_t", TIME), t.generic("out_c", CONC)
    x, y = v.real("x", lo=0, hi=1e6), v.real("y", lo=0, hi=1e6)
    reg_t, reg_c = reg["time"], reg["amount"] / reg["length"] ** 3
    for label, kw in (("both_requested", dict(output_time_unit=out_t, output_conc_unit=out_c)), ("only_conc_requested", dict(output_conc_unit=out_c)),
                      ("only_time_requested", dict(output_time_unit=out_t)), ("none_requested", {})):
        odesys, extra = v.call(get_odesys, rsys, unit_registry=reg, SymbolicSys=FakeSymbolicSys, **kw)
        to_x, to_y, to_p = odesys.kwargs["to_arrays_callbacks"]
        (post,) = odesys.kwargs["post_processors"]
        tm, conc, par = v.call(post, x, y, numpy.array([]))
        want_t, want_c = kw.get("output_time_unit", reg_t), kw.get("output_conc_unit", reg_c)
        v.prove(label + ".time_dimension", isinstance(tm, Quantity) and dim_of(tm) == TIME)
        v.prove(label + ".conc_dimension", isinstance(conc, Quantity) and dim_of(conc) == CONC)
        v.prove_identity(label + ".time_same_physical_value", si_value(tm), x * si_value(reg_t))
        v.prove_identity(label + ".conc_same_physical_value", si_value(conc), y * si_value(reg_c))
        v.prove_identity(label + ".time_expressed_in_requested_unit", tm.magnitude * si_value(want_t), x * si_value(reg_t))
        v.prove_identity(label + ".conc_expressed_in_requested_unit", conc.magnitude * si_value(want_c), y * si_value(reg_c))
        # going in: any compatible unit is converted to registry units; what comes back converts to the same number again
        v.prove_identity(label + ".state_in_registry_units", v.call(to_y, y * out_c) * si_value(reg_c), y * si_value(out_c))
        v.prove_identity(label + ".time_in_registry_units", v.call(to_x, x * out_t) * si_value(reg_t), x * si_value(out_t))
        v.prove_identity(label + ".round_trip_conc", v.call(to_y, conc), y)
        v.prove_identity(label + ".round_trip_time", v.call(to_x, tm), x)
    yA, yB = odesys.dep
    v.prove_identity("rhs_in_registry_units", odesys.exprs[0] / si_value(reg_t), -si_value(k * ku) * yA)
    v.prove_identity("rhs_product", odesys.exprs[1], -odesys.exprs[0])


@harness("C06", "from_text_to_right_hand_side", functions=[ODE + ":get_odesys", ODE + ":get_odesys.<locals>.dydt", "chempy.reactionsystem:ReactionSystem.from_string (native: pyparsing/regex inside, decided in C12)"],
         kind="shape-bounded", samples=0)
def _(v):
    """'from text input through to the result arrays', first half: fixed texts (repeated species, explicit and decimal coefficients, branch and
    cycle, comments) become exactly the kinetic model written in them; what the integrator then does with the right-hand side is bounded only"""
    from chempy.chemistry import Substance
    from chempy.reactionsystem import ReactionSystem
    from chempy.kinetics.ode import get_odesys
    from contracts.C04 import FakeSymbolicSys
    text = "\n".join(["A + 2 A -> B; 0.5", "B + A + 1 B -> 2 C + C; 0.25  # repeated on both sides", "C -> A; 3", "C -> D; 7", "D + 2 D -> A; 0.125"])
    rsys = ReactionSystem.from_string(text, substance_factory=Substance)
    v.prove("substances_in_order_of_appearance", list(rsys.substances) == ["A", "B", "C", "D"])
    v.prove("stoichiometry_as_written", [(dict(r.reac), dict(r.prod)) for r in rsys.rxns] ==
            [({"A": 3}, {"B": 1}), ({"B": 2, "A": 1}, {"C": 3}), ({"C": 1}, {"A": 1}), ({"C": 1}, {"D": 1}), ({"D": 3}, {"A": 1})])
    odesys, extra = v.call(get_odesys, rsys, SymbolicSys=FakeSymbolicSys)
    y = dict(zip(odesys.names, odesys.dep))
    from fractions import Fraction as F
    r = [F(1, 2) * y["A"] ** 3, F(1, 4) * y["B"] ** 2 * y["A"], 3 * y["C"], 7 * y["C"], F(1, 8) * y["D"] ** 3]
    want = {"A": -3 * r[0] - r[1] + r[2] + r[4], "B": r[0] - 2 * r[1], "C": 3 * r[1] - r[2] - r[3], "D": r[3] - 3 * r[4]}
    for e, s in zip(odesys.exprs, "ABCD"):
        v.prove_identity("rhs_" + s, e, want[s])
    # the same system object after one rate constant was re-assigned: the next system built from it uses the new constant
    rsys.rxns[2].param = 11
    ode2, _x = v.call(get_odesys, rsys, SymbolicSys=FakeSymbolicSys)
    y2 = dict(zip(ode2.names, ode2.dep))
    r = [F(1, 2) * y2["A"] ** 3, F(1, 4) * y2["B"] ** 2 * y2["A"], 11 * y2["C"], 7 * y2["C"], F(1, 8) * y2["D"] ** 3]
    want2 = {"A": -3 * r[0] - r[1] + r[2] + r[4], "B": r[0] - 2 * r[1], "C": 3 * r[1] - r[2] - r[3], "D": r[3] - 3 * r[4]}
    for e, s in zip(ode2.exprs, "ABCD"):
        v.prove_identity("rebuilt_after_changing_a_constant.rhs_" + s, e, want2[s])
    # a reversible bimolecular step written as ONE equilibrium with a kinetically inactive participant on each side, split into its two directions:
    # the backward step gives back what the forward step takes (inactive parts mirrored), and neither enters a concentration product
    from chempy.chemistry import Equilibrium
    eq = Equilibrium.from_string("A + B + (S) = C + (2 W); 4")
    for label, kw, kf, kb in (("kf_given", {"kf": 3}, 3, F(3, 4)), ("kb_given", {"kb": 5}, 20, 5)):
        sys3 = ReactionSystem(eq.as_reactions(**kw), "A B C S W", substance_factory=Substance)
        ode3, _x = v.call(get_odesys, sys3, SymbolicSys=FakeSymbolicSys)
        y3 = dict(zip(ode3.names, ode3.dep))
        net = kf * y3["A"] * y3["B"] - kb * y3["C"]
        want3 = {"A": -net, "B": -net, "C": net, "S": -net, "W": 2 * net}
        v.prove("reversible_step_with_inactive_parts.%s.names" % label, list(ode3.names) == ["A", "B", "C", "S", "W"])
        for e, s in zip(ode3.exprs, "ABCSW"):
            v.prove_identity("reversible_step_with_inactive_parts.%s.rhs_%s" % (label, s), e, want3[s])


@harness("C06", "euler_step_with_scaled_variables_and_missing_constants", functions=[ODE + ":get_odesys", ODE + ":get_odesys.<locals>.max_euler_step_cb"], kind="data")
def _(v):
    """(a) the advertised Euler step on the real pyodesys classes, also when the ODE system keeps its dependent variables in scaled form
    (ScaledSys, dep_scaling -- the configuration chempy's own examples use for stiff problems): one explicit step from the USER's concentrations
    with the independent mass-action rate stays inside [0, elemental bound] for a bimolecular step; (b) 'agree with the exact solution': a
    network in which one reaction has no rate constant has no solution to agree with -- it is refused, never integrated with the remaining
    constants shifted onto other reactions"""
    from chempy.chemistry import Substance
    from chempy.reactionsystem import ReactionSystem
    from chempy.kinetics.ode import get_odesys
    from pyodesys.symbolic import ScaledSys
    kf = 1.4e11
    rsys = ReactionSystem.from_string("H+ + OH- -> H2O; %r" % kf)
    cases = [{"H+": 1e-3, "OH-": 2e-4, "H2O": 55.0}, {"H+": 3e-7, "OH-": 5e-6, "H2O": 1.0}, {"H+": 0.25, "OH-": 0.75, "H2O": 0.0}]
    bad = []
    for label, kw in (("plain", {}), ("dep_scaling=1e6", dict(SymbolicSys=ScaledSys, dep_scaling=1e6)), ("dep_scaling=1e-3", dict(SymbolicSys=ScaledSys, dep_scaling=1e-3))):
        try:
            odesys, extra = get_odesys(rsys, **kw)
            for c0 in cases:
                h = float(extra["max_euler_step_cb"](0, c0))
                r = kf * c0["H+"] * c0["OH-"]
                f = {"H+": -r, "OH-": -r, "H2O": r}
                H, O = c0["H+"] + c0["OH-"] + 2 * c0["H2O"], c0["OH-"] + c0["H2O"]
                ub = {"H+": H, "OH-": min(H, O), "H2O": min(H / 2, O)}
                scale = max(c0.values())
                for k in c0:
                    c1 = c0[k] + h * f[k]
                    if not (h > 0 and -1e-12 * scale <= c1 <= ub[k] * (1 + 1e-12) + 1e-12 * scale):
                        bad.append((label, c0, h, k, c1))
        except Exception as ex:
            bad.append((label, repr(ex)[:120]))
    v.prove("one_step_from_user_concentrations_stays_inside", not bad, detail=repr(bad[:2]))
    answered = []
    for text in ("A -> B; 2\nB -> C\nC -> D; 5", "A -> B\nB -> C; 2"):
        try:
            o, _e = get_odesys(ReactionSystem.from_string(text, substance_factory=Substance))
            answered.append((text, str(getattr(o, "exprs", None))[:120]))
        except Exception:
            pass
    v.prove("missing_rate_constant_is_refused", not answered, detail=repr(answered))
