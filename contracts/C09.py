"""C09  Unit conversion is exact, reversible, and refuses incompatible dimensions."""
import fractions

from pyvc.api import harness
from pyvc import spec as SP
from pyvc.sym import Sym

META = {
    "explanation": "under the unit abstraction 5.1 with generic units of symbolic scale: to_unitless returns magnitude times the exact unit ratio (so multiplying back reproduces the quantity, conversions compose, scaling is linear), element-wise for lists and dicts, and raises for an incompatible target; magnitude/unit_of/rescale/is_unitless; get_derived_unit equals the product of registry units to the SI exponents of an independent table for every key, for every registry; the unit-aware array helpers have the delegation shape numpy_f(magnitudes in one common unit) * unit (polyfit coefficient i carries u_y*u_x^(i-deg)); the Backend wrapper and the patched numpy namespace send every positional argument through to_unitless; allclose decides on physical values within the band that every customary weighting of the relative tolerance agrees on, compare_equality decides on physical values; clauses of the array helpers are stated on physical values (one common unit, whichever); get_physical_dimensionality / default_unit_in_registry / unitless_in_registry / the registry's human-readable round trip against hand-typed values on the real package (data obligations); chemistry-specific unit definitions and the abstraction itself are checked against the real quantities package (data obligations)",
    "trusted_base": ["assumed contract 5.1 (pyvc/qmodel.py) for `quantities`, validated on every run against the installed package by abstraction_validation (fixed behaviours) and abstraction_differential (1400 seeded random expressions: value, dimension, truth value, refusal)", "numpy array routines are uninterpreted (delegation shape only, 5.2)", "SI exponent table typed into this file"],
    "not_decided": ["correctness of the quantities package itself", "get_physical_dimensionality / default_unit_in_registry / unitless_in_registry / registry human-readable round trip (walk quantities internals): data obligations on chosen quantities and registries here, bounded stand-in beyond them", "allclose between rtol*min(|a|,|b|) and rtol*max(|a|,|b|)+atol (either answer accepted: the weighting of the relative term is not part of the property)"],
    "assumptions": [],
}
U = "chempy.units"
Fr = fractions.Fraction
# SI exponents (length, mass, time, current, temperature, luminous_intensity, amount)
SI = {
    "diffusivity": (2, 0, -1, 0, 0, 0, 0), "diffusion": (2, 0, -1, 0, 0, 0, 0), "electrical_mobility": (0, -1, 2, 1, 0, 0, 0),
    "permittivity": (-3, -1, 4, 2, 0, 0, 0), "charge": (0, 0, 1, 1, 0, 0, 0), "energy": (2, 1, -2, 0, 0, 0, 0),
    "concentration": (-3, 0, 0, 0, 0, 0, 1), "density": (-3, 1, 0, 0, 0, 0, 0), "radiolytic_yield": (-2, -1, 2, 0, 0, 0, 1),
    "doserate": (2, 0, -3, 0, 0, 0, 0), "linear_energy_transfer": (1, 1, -2, 0, 0, 0, 0),
}
DIMS = ("length", "mass", "time", "current", "temperature", "luminous_intensity", "amount")


def _table(v):
    from pyvc.qmodel import std_table
    return std_table()


_MISSING = object()


def _arg(call, pos, *names):
    """argument number `pos` of an uninterpreted numerical call, whether it was handed over by position or by (one of the) keyword(s): the
    property says WHAT the numerical routine is given, not how the call is spelled (np.linspace(a, b, num=n) is the same call)"""
    if len(call.args) > pos:
        return call.args[pos]
    for n in names:
        if n in call.kwargs:
            return call.kwargs[n]
    return _MISSING


def _unit_scale(q):
    """SI value of ONE unit of a quantity of the abstraction (its magnitude set aside): the helpers must return 'numpy(magnitudes in one common
    unit) times that unit' -- WHICH common unit (the first argument's, the last one's, SI base units...) is not part of the property, so the
    clauses are stated on physical values: magnitude handed to numpy * _unit_scale(result) == physical value of the input"""
    return q.t.scale_of(q.u)


@harness("C09", "to_unitless.scalar", functions=[U + ":to_unitless", U + ":magnitude", U + ":unit_of", U + ":rescale"], div_mode="assume", samples=0)
def _(v):
    from chempy import units as CU
    from pyvc.qmodel import si_value
    t = _table(v)
    dimv = v.choice("dimension", [(1, 0, 0, 0, 0, 0, 0), (-3, 0, 0, 0, 0, 0, 1), (2, 1, -2, 0, 0, 0, -1), (0, 0, -1, 0, 0, 0, 0)])
    u1, u2, u3 = t.generic("u1", dimv), t.generic("u2", dimv), t.generic("u3", dimv)
    m = v.real("mag", lo=-1e6, hi=1e6)
    q = m * u1
    r = v.call(CU.to_unitless, q, u2)
    s1, s2, s3 = t.scale["u1"], t.scale["u2"], t.scale["u3"]
    v.prove_identity("magnitude_times_exact_unit_ratio", r * s2, m * s1)
    v.prove_identity("multiply_back_reproduces_quantity", si_value(r * u2), si_value(q))
    r13 = v.call(CU.to_unitless, q, u3)
    r23 = v.call(CU.to_unitless, r * u2, u3)
    v.prove_identity("conversions_compose", r13, r23)
    a = v.real("a", lo=-10, hi=10)
    v.prove_identity("linear", v.call(CU.to_unitless, (a * m) * u1, u2), a * r)
    v.prove("same_unit_is_magnitude", v.call(CU.to_unitless, q, u1) == m)
    v.prove("magnitude", SP.conj([v.call(CU.magnitude, q) == m, v.call(CU.magnitude, 3.5) == 3.5]))
    uo = v.call(CU.unit_of, q)
    v.prove("unit_of", uo.u == {"u1": 1} and uo.mag == 1 and v.call(CU.unit_of, 3.5) == 1)
    # unit_of(q, simplified=True): the same unit (same physical value of ONE unit, same dimension) written in SI base units
    from pyvc.qmodel import BASE, dim_of
    us = v.call(CU.unit_of, q, simplified=True)
    v.prove("unit_of_simplified.in_base_units_of_the_same_dimension", set(us.u) <= set(BASE) and dim_of(us) == dimv, detail=repr(us))
    v.prove_identity("unit_of_simplified.same_physical_unit", si_value(us), s1)
    v.prove("plain_number_passthrough", v.call(CU.to_unitless, 3.5, 1) == 3.5)
    # products of powers of different symbols, with a symbol shared between quantity and target cancelling
    ua, ub, uc, ud = (t.generic(n, dd) for n, dd in (("ua", (1, 0, 0, 0, 0, 0, 0)), ("ub", (0, 0, 1, 0, 0, 0, 0)), ("uc", (1, 0, 0, 0, 0, 0, 0)), ("ud", (0, 0, 1, 0, 0, 0, 0))))
    sa, sb, sc, sd = (t.scale[n] for n in ("ua", "ub", "uc", "ud"))
    rc = v.call(CU.to_unitless, m * ua ** 2 / ub, uc ** 2 / ud)
    v.prove_identity("compound_units", rc * sc * sc * sb, m * sa * sa * sd)
    rs_ = v.call(CU.to_unitless, m * ua ** 2 / ub, ua * uc / ub)
    v.prove_identity("shared_symbols_cancel", rs_ * sc, m * sa)
    a2 = v.real("a2", lo=-10, hi=10)
    v.prove_identity("additive_across_units", v.call(CU.to_unitless, m * ua + a2 * uc, ua), m + a2 * sc / sa)


@harness("C09", "to_unitless.incompatible_raises", functions=[U + ":to_unitless", U + ":rescale"], div_mode="assume", samples=0)
def _(v):
    from chempy import units as CU
    t = _table(v)
    base = [1, 0, -1, 0, 0, 0, 0]
    which = v.choice("off_dimension", [0, 1, 2, 3, 4, 6])
    by = v.choice("off_by", [-1, 1, 2])
    other = list(base)
    other[which] += by
    u1, u2 = t.generic("u1", tuple(base)), t.generic("u2", tuple(other))
    m = v.real("mag", lo=-1e6, hi=1e6)
    out = v.run(CU.to_unitless, m * u1, u2)
    v.prove("raises_instead_of_returning_a_number", out.raised(ValueError), detail=repr(out.value if out.returned else out.exc))
    out = v.run(CU.to_unitless, m * u1)
    v.prove("dimensional_to_dimensionless_raises", out.raised(ValueError))


@harness("C09", "to_unitless.containers", functions=[U + ":to_unitless", U + ":uniform"], div_mode="assume", samples=0)
def _(v):
    from chempy import units as CU
    t = _table(v)
    d = (1, 0, 0, 0, 0, 0, 0)
    u1, u2, u3 = t.generic("u1", d), t.generic("u2", d), t.generic("u3", d)
    a, b = v.real("a", lo=-100, hi=100), v.real("b", lo=-100, hi=100)
    s1, s2, s3 = t.scale["u1"], t.scale["u2"], t.scale["u3"]
    r = v.call(CU.to_unitless, {"x": a * u1, "y": b * u2}, u3)
    v.prove("dict_keys", set(r) == {"x", "y"})
    v.prove_identity("dict_x", r["x"] * s3, a * s1)
    v.prove_identity("dict_y", r["y"] * s3, b * s2)
    from pyvc.qmodel import si_value, dim_of
    un = v.call(CU.uniform, {"x": a * u1, "y": b * u2})
    # 'uniformisation of mixed-unit containers ... in one common unit': every value comes back in the SAME unit and is physically unchanged; WHICH
    # common unit (uniform's docstring does not promise the first one) is not part of the property.  (The obligation keeps its historical name.)
    v.prove("uniform_dict_takes_first_unit", set(un) == {"x", "y"} and un["x"].u == un["y"].u and dim_of(un["x"]) == d, detail=repr(un))
    v.prove_identity("uniform_dict_value", si_value(un["y"]), b * s2)
    v.prove_identity("uniform_dict_value_x", si_value(un["x"]), a * s1)
    # lists / tuples / nested lists of quantities in DIFFERENT units to a dimensional target: element-wise the exact ratio
    for label, arg in (("list", [a * u1, b * u2]), ("tuple", (a * u1, b * u2))):
        r = v.call(CU.to_unitless, arg, u3)
        v.prove(label + "_length", len(r) == 2)
        v.prove_identity(label + "_0", r[0] * s3, a * s1)
        v.prove_identity(label + "_1", r[1] * s3, b * s2)
    r = v.call(CU.to_unitless, [[a * u1, b * u2], [b * u3, a * u2]], u3)
    v.prove("nested_list_shape", len(r) == 2 and len(r[0]) == 2 and len(r[1]) == 2)
    v.prove_identity("nested_list_01", r[0][1] * s3, b * s2)
    v.prove_identity("nested_list_10", r[1][0], b)
    v.prove_identity("nested_list_11", r[1][1] * s3, a * s2)
    # ONE incompatible element inside a container: refused, not a number for it (nor for the others)
    other = t.generic("other", (0, 0, 1, 0, 0, 0, 0))
    out = v.run(CU.to_unitless, [a * u1, b * other], u3)
    v.prove("list_with_one_incompatible_element_raises", out.raised(ValueError), detail=repr(out.value if out.returned else out.exc))
    out = v.run(CU.to_unitless, {"x": a * u1, "y": b * other}, u3)
    v.prove("dict_with_one_incompatible_element_raises", out.raised(ValueError), detail=repr(out.value if out.returned else out.exc))
    # uniform / unit_of on a list: one common unit, physical values unchanged; unit_of(container) is the unit of the uniformised container
    ul = v.call(CU.uniform, [a * u1, b * u2])
    v.prove("uniform_list_one_common_unit", len(ul) == 2 and dim_of(ul) == d, detail=repr(ul))
    v.prove_identity("uniform_list_0", si_value(ul[0]), a * s1)
    v.prove_identity("uniform_list_1", si_value(ul[1]), b * s2)
    for label, arg in (("list", [a * u1, b * u2]), ("dict", {"x": a * u1, "y": b * u2})):
        uo = v.call(CU.unit_of, arg)
        v.prove("unit_of_%s_is_the_common_unit" % label, uo.mag == 1 and uo.u == (ul.u if label == "list" else un["x"].u), detail=repr(uo))


@harness("C09", "to_unitless.scaled_dimensionless_target", functions=[U + ":to_unitless", U + ":is_unitless", U + ":rescale", U + ":unit_of", U + ":magnitude"], div_mode="assume", samples=0)
def _(v):
    """a target unit that is dimensionless but not 1 (percent, ppm, degree...; here: dimension zero, ANY scale): plain numbers, lists and plain
    numpy arrays are all expressed in it (value / scale), element-wise the same"""
    import numpy as np
    from chempy import units as CU
    t = _table(v)
    pc = t.generic("pc", (0, 0, 0, 0, 0, 0, 0))
    s = t.scale["pc"]
    m = v.real("m", lo=-1e6, hi=1e6)
    v.prove_identity("plain_number", v.call(CU.to_unitless, m, pc) * s, m)
    r = v.call(CU.to_unitless, [m, 2.5], pc)
    v.prove("list_length", len(r) == 2)
    v.prove_identity("list_0", r[0] * s, m)
    v.prove_identity("list_1", r[1] * s, 2.5)
    arr = np.array([0.5, 2.0, -3.0])
    r = v.call(CU.to_unitless, arr, pc)
    v.prove("plain_array_length", len(r) == 3)
    for i, x in enumerate([0.5, 2.0, -3.0]):
        v.prove_identity("plain_array_%d" % i, r[i] * s, x)
    r1 = v.call(CU.to_unitless, arr, 1)
    v.prove("plain_array_to_one_unchanged", [float(x) for x in r1] == [0.5, 2.0, -3.0])
    q = v.call(CU.to_unitless, m * pc)
    v.prove_identity("quantity_in_it_to_plain_number", q, m * s)


@harness("C09", "is_unitless", functions=[U + ":is_unitless"], div_mode="assume", samples=0)
def _(v):
    from chempy import units as CU
    t = _table(v)
    u1, u2 = t.generic("u1", (1, 0, 0, 0, 0, 0, 0)), t.generic("u2", (1, 0, 0, 0, 0, 0, 0))
    m = v.real("m")
    v.prove("plain_numbers", v.call(CU.is_unitless, 3.0) is True and v.call(CU.is_unitless, [1, 2.0]) is True)
    v.prove("dimensional_is_not", v.call(CU.is_unitless, m * u1) is False)
    v.prove("ratio_of_same_dimension_is", bool(v.call(CU.is_unitless, (m * u1) / u2)) is True)
    v.prove("containers", v.call(CU.is_unitless, {"a": m * u1}) is False and v.call(CU.is_unitless, [m * u1 / u1]) is True)
    # a container is unit-less iff EVERY element is (both truth values for every container type, mixed contents)
    v.prove("mixed_containers", bool(v.call(CU.is_unitless, {"a": 1.0, "b": (m * u1) / u2})) is True and bool(v.call(CU.is_unitless, {"a": 1.0, "b": m * u1})) is False
            and bool(v.call(CU.is_unitless, [1.0, m * u1])) is False and bool(v.call(CU.is_unitless, (1.0, (m * u1) / u2))) is True and bool(v.call(CU.is_unitless, (m * u1, 1.0))) is False
            and bool(v.call(CU.is_unitless, [])) is True)


@harness("C09", "get_derived_unit", functions=[U + ":get_derived_unit"], div_mode="assume", samples=0)
def _(v):
    from chempy import units as CU
    from pyvc.qmodel import si_value, dim_of
    t = _table(v)
    reg = {}
    for i, name in enumerate(DIMS):
        dv = tuple(1 if j == i else 0 for j in range(7))
        reg[name] = t.generic("r_" + name, dv)
    for key, exps in SI.items():
        got = v.call(CU.get_derived_unit, reg, key)
        want = 1
        for name, e in zip(DIMS, exps):
            sc = t.scale["r_" + name]
            want = want * (sc ** e if e >= 0 else 1 / sc ** (-e))
        v.prove(key + ".dimension", dim_of(got) == exps)
        v.prove_identity(key + ".value", si_value(got), want)
    v.prove("base_key_passthrough", v.call(CU.get_derived_unit, reg, "mass") is reg["mass"])
    v.prove("no_registry", v.call(CU.get_derived_unit, None, "energy") == 1.0)


@harness("C09", "array_helpers.delegation", functions=[U + ":linspace", U + ":logspace_from_lin", U + ":concatenate", U + ":tile", U + ":polyfit", U + ":polyval"], div_mode="assume", samples=0)
def _(v):
    from chempy import units as CU
    from pyvc.qmodel import NPCall, Quantity
    t = _table(v)
    L = (1, 0, 0, 0, 0, 0, 0)
    T = (0, 0, 1, 0, 0, 0, 0)
    x1, x2, y1, y2 = t.generic("x1", L), t.generic("x2", L), t.generic("y1", T), t.generic("y2", T)
    sx1, sx2, sy1, sy2 = (t.scale[k] for k in ("x1", "x2", "y1", "y2"))
    a, b, c, d = (v.real(n, lo=0.1, hi=100) for n in "abcd")
    from pyvc.qmodel import dim_of
    sc = _unit_scale
    # Every clause below is on PHYSICAL values (finding: 'one common unit', not 'the first argument's unit'): the result has the right dimension,
    # and each magnitude handed to the numerical routine, times the SI value of one unit of the RESULT, is the physical value of the input.  (The
    # obligation names that say 'first unit' are historical.)  Arguments of the numerical call are looked up by position or keyword.
    r = v.call(CU.linspace, a * x1, b * x2, 7)
    v.prove("linspace.shape", isinstance(r, Quantity) and dim_of(r) == L and isinstance(r.mag, NPCall) and r.mag.name == "linspace" and _arg(r.mag, 2, "num") == 7, detail=repr(r))
    v.prove_identity("linspace.start_in_first_unit", _arg(r.mag, 0, "start") * sc(r), a * sx1)
    v.prove_identity("linspace.stop_converted_to_first_unit", _arg(r.mag, 1, "stop") * sc(r), b * sx2)
    r = v.call(CU.concatenate, [[a * x1], [b * x2]])
    v.prove("concatenate.shape", dim_of(r) == L and r.mag.name == "concatenate", detail=repr(r))
    parts = r.mag.args[0]
    v.prove_identity("concatenate.first_kept", parts[0][0] * sc(r), a * sx1)
    v.prove_identity("concatenate.second_converted", parts[1][0] * sc(r), b * sx2)
    r = v.call(CU.tile, [a * x1, b * x2], 3)
    v.prove("tile.shape", dim_of(r) == L and r.mag.name == "tile" and _arg(r.mag, 1, "reps") == 3 and len(_arg(r.mag, 0, "A")) == 2, detail=repr(r))
    v.prove_identity("tile.first_kept", _arg(r.mag, 0, "A")[0] * sc(r), a * sx1)
    v.prove_identity("tile.converted", _arg(r.mag, 0, "A")[1] * sc(r), b * sx2)
    coef = v.call(CU.polyfit, [a * x1, b * x2], [c * y1, d * y2], 1)
    # coefficient i carries u_y * u_x**(i - deg), u_x / u_y being the units the magnitudes were handed to numpy in: its dimension is T*L**(i-deg) and
    # (SI value of its unit) * (x magnitude)**(deg-i) * ... is consistent with the physical values of the FIRST point (a*sx1, c*sy1)
    pf_args = coef[0].mag.args[0]
    px, py = pf_args[0], pf_args[1]
    v.prove("polyfit.units", dim_of(coef[0]) == (-1, 0, 1, 0, 0, 0, 0) and dim_of(coef[1]) == T, detail=repr(coef))
    v.prove_identity("polyfit.unit_of_slope_is_u_y_per_u_x", sc(coef[0]) * (a * sx1) * py[0], (c * sy1) * px[0])
    v.prove_identity("polyfit.unit_of_intercept_is_u_y", sc(coef[1]) * py[0], c * sy1)
    v.prove("polyfit.numpy_called_with_degree", pf_args[2] == 1 and coef[0].mag.name == "polyfit_coef")
    # coefficient i of the result is coefficient i of numpy's result (highest power first), not a permutation of it
    v.prove("polyfit.coefficients_in_numpys_order", [cf.mag.args[1] for cf in coef] == [0, 1] and len(coef) == 2)
    coef2 = v.call(CU.polyfit, [a * x1, b * x2, a * x2], [c * y1, d * y2, c * y2], 2)
    p2x, p2y = coef2[0].mag.args[0][0], coef2[0].mag.args[0][1]
    v.prove("polyfit.degree_two", len(coef2) == 3 and [cf.mag.args[1] for cf in coef2] == [0, 1, 2] and [dim_of(cf) for cf in coef2] == [(-2, 0, 1, 0, 0, 0, 0), (-1, 0, 1, 0, 0, 0, 0), T]
            and coef2[0].mag.args[0][2] == 2, detail=repr(coef2))
    for i in range(3):
        v.prove_identity("polyfit.degree_two_unit_%d" % i, sc(coef2[i]) * (a * sx1) ** (2 - i) * p2y[0], (c * sy1) * p2x[0] ** (2 - i))
    # all x (all y) magnitudes are in ONE unit: the ratios of the physical values are kept, and the first point fixes the unit (above)
    v.prove_identity("polyfit.x_magnitudes_in_first_x_unit", px[1] * (a * sx1), px[0] * (b * sx2))
    v.prove_identity("polyfit.y_magnitudes_in_first_y_unit", py[1] * (c * sy1), py[0] * (d * sy2))
    p0, p1 = v.real("p0", lo=-5, hi=5), v.real("p1", lo=-5, hi=5)
    r = v.call(CU.polyval, [p1 * (y1 / x1), p0 * y2], [a * x1, b * x2])
    v.prove("polyval.unit_of_last_coefficient", dim_of(r) == T and r.mag.name == "polyval", detail=repr(r))
    _p, _x = r.mag.args
    # numpy evaluates _p[0]*_x + _p[1] on magnitudes; times the unit of the result each TERM must be the physical term: the constant p0*y2, the
    # linear one (p1*y1/x1) * (physical x) for every x -- which also says that all x are in one unit and _p[0] is in (unit of result)/(that unit)
    v.prove_identity("polyval.leading_coefficient_in_u_y_per_u_x", _p[0] * _x[0] * sc(r) * sx1, p1 * sy1 * (a * sx1))
    v.prove_identity("polyval.constant_term", _p[1] * sc(r), p0 * sy2)
    v.prove_identity("polyval.x_in_first_unit", _p[0] * _x[1] * sc(r) * sx1, p1 * sy1 * (b * sx2))
    v.prove_identity("polyval.all_x_in_one_unit", _x[1] * (a * sx1), _x[0] * (b * sx2))


@harness("C09", "Backend.wrapper", functions=[U + ":Backend.__getattr__"], div_mode="assume", samples=0)
def _(v):
    from chempy import units as CU
    import math
    t = _table(v)
    u1, u2 = t.generic("u1", (1, 0, 0, 0, 0, 0, 0)), t.generic("u2", (1, 0, 0, 0, 0, 0, 0))
    m = v.real("m", lo=0.1, hi=10)
    be = CU.Backend("math")
    out = v.run(v.getattr(be, "exp"), m * u1)
    v.prove("dimensional_argument_refused", out.raised(ValueError))
    r = v.call(v.getattr(be, "exp"), (m * u1) / u2)
    from pyvc.stubs import sym_exp
    v.prove("dimensionless_ratio_is_scaled_before_the_call", r == sym_exp(m * t.scale["u1"] / t.scale["u2"]))
    v.prove("constants_passthrough", v.getattr(be, "pi") == math.pi)


@harness("C09", "unit_definitions", functions=[U + ":<module unit definitions>"], kind="data")
def _(v):
    from chempy.units import default_units as u, default_constants as c, to_unitless as tu, SI_base_registry
    close = lambda a, b: abs(a / b - 1) < 1e-12
    v.prove("molar", close(tu(1 * u.molar, u.mol / u.m ** 3), 1000.0))
    v.prove("millimolar_micromolar_nanomolar", close(tu(1 * u.millimolar, u.molar), 1e-3) and close(tu(1 * u.micromolar, u.molar), 1e-6) and close(tu(1 * u.nanomolar, u.molar), 1e-9))
    v.prove("molal", close(tu(1 * u.molal, u.mol / u.kg), 1.0))
    v.prove("decimetre_and_litre", close(tu(1 * u.decimetre, u.m), 0.1) and close(tu(1 * u.dm3, u.m ** 3), 1e-3))
    v.prove("per100eV", close(tu(1 * u.per100eV, u.mol / u.joule), 1 / (100 * 1.602176634e-19 * 6.02214076e23)) or abs(tu(1 * u.per100eV, u.mol / u.joule) / 1.0364e-7 - 1) < 1e-3)
    v.prove("umol_per_J", close(tu(1 * u.umol_per_J, u.mol / u.joule), 1e-6))
    v.prove("centipoise", close(tu(1 * u.centipoise, u.pascal * u.second), 1e-3))
    import numpy as np
    v.prove("percent_is_a_scaled_dimensionless_unit", close(tu(1 * u.percent), 0.01) and close(tu(0.5, u.percent), 50.0)
            and [float(x) for x in tu(np.array([0.5, 1.0]), u.percent)] == [float(x) for x in tu([0.5, 1.0], u.percent)] == [50.0, 100.0])
    v.prove("SI_base_registry", [tu(SI_base_registry[k], getattr(u, n)) for k, n in zip(DIMS, ("metre", "kilogram", "second", "ampere", "kelvin", "candela", "mole"))] == [1.0] * 7)


@harness("C09", "abstraction_validation", functions=["pyvc.qmodel (assumed contract 5.1)"], kind="data")
def _(v):
    """the behaviours of the real quantities package that the abstraction relies on"""
    import math
    import numpy as np
    from chempy.units import default_units as u
    q = 3.0 * u.mM / u.M
    v.prove("different_symbols_do_not_cancel", str(q.dimensionality) != "dimensionless" and q.simplified.dimensionality.string == "dimensionless")
    v.prove("float_ignores_units", float(q) == 3.0 and abs(float(q.simplified) - 3e-3) < 1e-15)
    try:
        np.exp(q); ok = False
    except ValueError:
        ok = True
    v.prove("numpy_function_refuses_uncancelled_units", ok)
    try:
        10 ** q; ok = False
    except ValueError:
        ok = True
    v.prove("number_to_quantity_power_refused", ok)
    v.prove("math_function_takes_raw_magnitude", math.exp(q) == math.exp(3.0))
    s = 1.0 * u.m + 1.0 * u.cm
    v.prove("addition_takes_first_operands_unit", s.dimensionality.string == "m" and abs(float(s) - 1.01) < 1e-12)
    try:
        1.0 * u.m + 1.0 * u.s; ok = False
    except ValueError:
        ok = True
    v.prove("adding_different_dimensions_raises", ok)
    try:
        1.0 * u.m + 1.0; ok = False
    except ValueError:
        ok = True
    v.prove("adding_plain_number_to_dimensional_raises", ok)
    v.prove("comparison_rescales", bool(1.0 * u.m > 50 * u.cm))
    v.prove("comparison_with_a_bare_number_uses_the_magnitude_only", bool(3.0 * u.m == 3) and bool(u.percent == 1) and not bool(u.percent == 0.01) and bool(2.0 * u.km > 1.5)
            and bool(3.0 * u.m != 4) and not bool(3.0 * u.m == 3 * u.s))
    v.prove("same_symbols_cancel", (1.0 * u.K / u.K).dimensionality.string == "dimensionless")
    v.prove("power_scales_exponents", ((2.0 * u.m) ** 3).dimensionality.string == "m**3" and float((2.0 * u.m) ** 3) == 8.0)
    try:
        (1.0 * u.m).rescale(u.s); ok = False
    except ValueError:
        ok = True
    v.prove("rescale_refuses_dimension_mismatch", ok)


@harness("C09", "abstraction_differential", functions=["pyvc.qmodel (assumed contract 5.1) against the installed quantities package"], kind="data")
def _(v):
    """differential validation of the assumed contract 5.1: seeded random expressions over the units the abstraction knows are evaluated with the
    abstraction (exact rationals) and with the real package; value, dimension, truth value and refusal (ValueError) must agree"""
    import random
    from fractions import Fraction as Fr
    import quantities as pq
    from chempy.units import default_units as u
    from pyvc.qmodel import Units, ALIASES, Quantity as MQ, std_table
    t = std_table()
    mu = Units(t)
    names = sorted(n for n in ALIASES if hasattr(u, n) and n not in ("C",))      # 'C' would be coulomb here and Celsius-like elsewhere
    v.prove("enough_common_units", len(names) >= 30, detail=str(len(names)))
    bad_scale = []
    for n in names:
        real = getattr(u, n)
        model = getattr(mu, n)
        rs = real.simplified
        if abs(float(rs.magnitude) / float(model.si()) - 1) > 1e-12:
            bad_scale.append((n, float(rs.magnitude), float(model.si())))
    v.prove("every_common_unit_has_the_same_SI_value", not bad_scale, detail=str(bad_scale[:5]))
    rng = random.Random(20260927)

    def leaf():
        n = rng.choice(names)
        m = Fr(rng.randint(-40, 40), rng.choice([1, 2, 4, 5, 8]))
        if rng.random() < 0.15:
            return m, float(m)                                        # a bare number
        return m * getattr(mu, n), float(m) * getattr(u, n)

    def same_value(a, b):
        if isinstance(a, MQ) != isinstance(b, pq.Quantity):
            return False
        if isinstance(a, MQ):
            if abs(float(a.mag) - float(b.magnitude)) > 1e-9 * max(1.0, abs(float(b.magnitude))):
                return False
            sb = b.simplified
            sa = float(a.si())
            if abs(sa - float(sb.magnitude)) > 1e-9 * max(1e-300, abs(float(sb.magnitude))):
                return False
            dv = a.dimv()
            want = tuple(sb.dimensionality.get(k, 0) for k in (pq.m, pq.kg, pq.s, pq.A, pq.K, pq.cd, pq.mol))
            return tuple(dv) == tuple(want)
        return abs(float(a) - float(b)) <= 1e-9 * max(1.0, abs(float(b)))

    ops = ["mul", "div", "pow", "add", "sub", "lt", "eq", "ne", "rescale", "float", "neg", "abs", "simplified", "eq_bare", "gt_bare"]
    mismatches, count, raised = [], 0, 0
    for case in range(1500):
        (a, ra), (b, rb) = leaf(), leaf()
        op = rng.choice(ops)
        k = rng.choice([-2, -1, 2, 3])
        bare = rng.choice([float(rng.randint(-3, 3)), 1.0])
        funs = {
            "mul": lambda x, y: x * y, "div": lambda x, y: x / y if y != 0 else None, "pow": lambda x, y: x ** k, "add": lambda x, y: x + y, "sub": lambda x, y: x - y,
            "lt": lambda x, y: bool(x < y), "eq": lambda x, y: bool(x == y), "ne": lambda x, y: bool(x != y), "rescale": lambda x, y: x.rescale(y.units),
            "float": lambda x, y: float(x), "neg": lambda x, y: -x, "abs": lambda x, y: abs(x), "simplified": lambda x, y: x.simplified,
            "eq_bare": lambda x, y: bool(x == bare), "gt_bare": lambda x, y: bool(x > bare),
        }
        if op in ("rescale", "simplified") and not (isinstance(a, MQ) and isinstance(b, MQ)):
            continue
        if op in ("div", "pow") and ((op == "div" and float(rb if not isinstance(rb, pq.Quantity) else rb.magnitude) == 0) or (op == "pow" and float(ra if not isinstance(ra, pq.Quantity) else ra.magnitude) == 0)):
            continue
        if op == "float" and isinstance(a, MQ):
            got_m = ("ok", float(a.raw_float()))
        else:
            try:
                got_m = ("ok", funs[op](a, b))
            except ValueError:
                got_m = ("ValueError", None)
        try:
            got_r = ("ok", funs[op](ra, rb))
        except ValueError:
            got_r = ("ValueError", None)
        count += 1
        if got_m[0] != got_r[0]:
            mismatches.append((case, op, repr(a), repr(ra), repr(b), repr(rb), got_m[0], got_r[0]))
            continue
        if got_m[0] == "ValueError":
            raised += 1
            continue
        x, y = got_m[1], got_r[1]
        ok = (x == y) if isinstance(x, bool) or isinstance(y, bool) else same_value(x, y)
        if not ok:
            mismatches.append((case, op, repr(a), repr(ra), repr(b), repr(rb), repr(x), repr(y)))
    v.prove("abstraction_agrees_with_the_real_package", not mismatches, detail="%d of %d: %s" % (len(mismatches), count, mismatches[:4]))
    v.prove("refusals_were_exercised", raised >= 50 and count >= 1000, detail="%d refusals in %d cases" % (raised, count))


@harness("C09", "rescale", functions=[U + ":rescale"], div_mode="assume", samples=0)
def _(v):
    """rescale: a quantity is expressed in the target unit (same physical value), a plain number is returned only for a target that is exactly
    one, and a plain number with a dimensional target is refused ('raises instead of returning a number')"""
    from chempy import units as CU
    from pyvc.qmodel import si_value
    t = _table(v)
    d = (1, 0, -1, 0, 0, 0, 0)
    u1, u2 = t.generic("u1", d), t.generic("u2", d)
    other = t.generic("other", (0, 1, 0, 0, 0, 0, 0))
    m = v.real("m", lo=-1e6, hi=1e6)
    r = v.call(CU.rescale, m * u1, u2)
    v.prove("result_is_in_the_target_unit", r.u == {"u2": 1})
    v.prove_identity("same_physical_value", si_value(r), si_value(m * u1))
    v.prove("incompatible_target_refused", v.run(CU.rescale, m * u1, other).raised(ValueError))
    v.prove("plain_number_and_one", v.call(CU.rescale, 3.5, 1) == 3.5)
    out = v.run(CU.rescale, 3.5, u1)
    # refused with one of the exceptions that mean 'cannot convert' (the quantities package raises ValueError, a plain number has no .rescale:
    # AttributeError, a wrong kind of unit: TypeError) -- a NameError or the like on that path is a bug, not a refusal
    v.prove("plain_number_with_dimensional_target_refused", out.raised(ValueError, AttributeError, TypeError), detail=repr(out.value if out.returned else out.exc))


@harness("C09", "helpers_on_the_real_package", functions=[U + ":rescale", U + ":polyfit", U + ":polyval", U + ":Backend.__getattr__", U + ":default_unit_in_registry", U + ":unitless_in_registry", U + ":get_derived_unit"], kind="data")
def _(v):
    """behaviours that involve the real quantities/numpy objects: refusal of a plain number with a dimensional target, keyword arguments of the
    numerical routine are passed on, every positional argument of a wrapped function is made unitless, and a registry is read as it is NOW"""
    import math
    import numpy as np
    from chempy import units as CU
    from chempy.units import default_units as u, SI_base_registry
    refused = []
    for target in (u.metre, u.km, 2 * u.metre):
        try:
            refused.append(("returned", CU.rescale(3.0, target)))
        except (ValueError, AttributeError, TypeError):         # the 'cannot convert' exceptions; anything else (NameError...) is a bug on that path
            refused.append(True)
        except Exception as ex:
            refused.append(("raised", repr(ex)))
    try:
        ok1 = CU.rescale(3.0, 1) == 3.0 and CU.rescale(3.0, 1.0) == 3.0
    except Exception as ex:
        ok1 = False
        refused.append(("rescale(3.0, 1) raised", repr(ex)))
    v.prove("rescale_plain_number_refused_unless_target_is_one", all(r is True for r in refused) and ok1, detail=repr(refused))
    # a bare number IS dimensionally compatible with a scaled pure-number unit (percent): the property ('the magnitude multiplied by the exact
    # ratio') makes 3.0 -> 300 %; refusing is tolerated (that is what the code does today), returning any OTHER number is not
    try:
        got = CU.rescale(3.0, u.percent)
        okp, det = abs(float(CU.to_unitless(got)) - 3.0) < 1e-12 and abs(float(CU.to_unitless(got, u.percent)) - 300.0) < 1e-9, repr(got)
    except (ValueError, AttributeError, TypeError) as ex:
        okp, det = True, "refused: %r" % ex
    except Exception as ex:
        okp, det = False, repr(ex)
    v.prove("rescale_plain_number_to_percent_is_exact_or_refused", okp, detail=det)
    x = np.array([0.0, 1.0, 2.0, 3.0]) * u.s
    y = np.array([-1.4, 1.7, 4.8, 100.0]) * u.m
    w = [1, 1, 1, 1e-6]
    ref = np.polyfit([0.0, 1.0, 2.0, 3.0], [-1.4, 1.7, 4.8, 100.0], 1, w=w)
    try:        # (an exception of the code under test is a failed obligation, not a checker error)
        got = CU.polyfit(x, y, 1, w=w)
        ok, det = abs(float(CU.to_unitless(got[0], u.m / u.s)) - ref[0]) < 1e-9 and abs(float(CU.to_unitless(got[1], u.m)) - ref[1]) < 1e-9, repr(got)
    except Exception as ex:
        ok, det = False, repr(ex)
    v.prove("polyfit_weights_are_used", ok, detail=det)
    refq = np.polyfit([0.0, 1.0, 2.0, 3.0], [1.0, 2.0, 7.0, 16.0], 2)
    try:
        quad = CU.polyfit(x, np.array([1.0, 2.0, 7.0, 16.0]) * u.m, 2)
        ok, det = len(quad) == 3 and all(abs(float(CU.to_unitless(c, u.m / u.s ** (2 - i))) - refq[i]) < 1e-9 for i, c in enumerate(quad)), repr(quad)
    except Exception as ex:
        ok, det = False, repr(ex)
    v.prove("polyfit_degree_two_highest_power_first", ok, detail=det)
    # x and y EACH in mixed units, fit and evaluation tied together: the line through (0 s, 1 km), (1 min, 3000 m), (2 min, 5 km) is
    # 1 km + (2 km/min) t = 1 km + (1/30 km/s) t; evaluated at 30 s and 1.5 min (another unit than the fit's) it is 2 km and 4 km
    try:
        pm = CU.polyfit([0 * u.s, 1 * u.minute, 2 * u.minute], [1 * u.km, 3000 * u.m, 5 * u.km], 1)
        ev = CU.polyval(pm, [30 * u.s, 1.5 * u.minute])
        got = [float(CU.to_unitless(pm[0], u.km / u.s)), float(CU.to_unitless(pm[1], u.km))] + [float(x) for x in CU.to_unitless(ev, u.km)]
        okm, det = len(pm) == 2 and all(abs(g / w - 1) < 1e-9 for g, w in zip(got, [1 / 30.0, 1.0, 2.0, 4.0])), repr(got)
    except Exception as ex:
        okm, det = False, repr(ex)
    v.prove("polyfit_then_polyval_with_mixed_units", okm, detail=det)
    be = CU.Backend("math")
    try:
        vals = (be.pow(3.0, 2000 * u.m / u.km), be.atan2(1, 1000 * u.mm / u.m))
        ok2, det = abs(vals[0] - 9.0) < 1e-12 and abs(vals[1] - math.pi / 4) < 1e-12, repr(vals)
    except Exception as ex:
        ok2, det = False, repr(ex)
    v.prove("backend_second_argument_made_unitless", ok2, detail=det)
    try:
        ok, det = False, "returned %r" % (be.pow(2.0, 3 * u.metre),)
    except ValueError as ex:                  # the refusal the wrapper documents ('raises an error if ... used with quantities with units')
        ok, det = True, repr(ex)
    except Exception as ex:                   # something else went wrong on that path: not a refusal
        ok, det = False, repr(ex)
    v.prove("backend_dimensional_second_argument_refused", ok, detail=det)
    reg = dict(SI_base_registry)
    try:
        first = float(CU.unitless_in_registry(3 * u.molar, reg))
        reg["length"] = u.decimetre
        second = float(CU.unitless_in_registry(3 * u.molar, reg))
        du = CU.default_unit_in_registry(3 * u.molar, reg)
        ok = (abs(first - 3000.0) < 1e-9 and abs(second - 3.0) < 1e-12 and abs(float(CU.to_unitless(du, u.mol / u.decimetre ** 3)) - 1) < 1e-12
              and abs(float(CU.to_unitless(CU.get_derived_unit(reg, "concentration"), u.molar)) - 1) < 1e-12)
        det = "%r %r %r" % (first, second, du)
    except Exception as ex:
        ok, det = False, repr(ex)
    v.prove("registry_edited_in_place_is_read_again", ok, detail=det)
    reg["length"] = u.decimetre
    other = dict(SI_base_registry, time=u.minute)
    try:
        ok, det = abs(float(CU.unitless_in_registry(2 / u.second, other)) - 120.0) < 1e-9 and abs(float(CU.unitless_in_registry(2 / u.second, reg)) - 2.0) < 1e-12, ""
    except Exception as ex:
        ok, det = False, repr(ex)
    v.prove("another_registry_alive_at_the_same_time", ok, detail=det)


@harness("C09", "bare_units_and_exact_registry_round_trip", functions=[U + ":Backend.__getattr__", U + ":unit_registry_to_human_readable", U + ":unit_registry_from_human_readable"], kind="data")
def _(v):
    """(a) an argument that carries a unit without being a number-times-unit product (a bare unit object such as metre or percent, an object
    array holding quantities) is made unitless by the Backend wrapper like any other quantity: refused when dimensional, converted with the exact
    unit ratio when a scaled pure number; (b) the human-readable round trip of a registry reproduces every unit with ratio exactly one, also for
    scale factors that need all 17 significant digits (1/3 nm, 1/60 s, 1/N_A mol)"""
    import math
    import numpy as np
    from chempy import units as CU
    from chempy.units import default_units as u
    be = CU.Backend("math")
    out = []
    for arg in (u.metre, u.second, 3 * u.metre):
        try:
            out.append(("returned", be.exp(arg)))
        except ValueError:                    # the documented refusal; any other exception is a bug on that path
            out.append("refused")
        except Exception as ex:
            out.append(("raised", repr(ex)))
    v.prove("dimensional_bare_unit_refused", out == ["refused"] * 3, detail=repr(out))
    try:
        got = (be.exp(u.percent), be.exp(1 * u.percent), be.log10(u.km / u.m))
        ok, det = abs(got[0] - math.exp(0.01)) < 1e-15 and got[0] == got[1] and abs(got[2] - 3) < 1e-12, repr(got)
    except Exception as ex:
        ok, det = False, repr(ex)
    v.prove("scaled_pure_number_unit_converted", ok, detail=det)
    nbe = CU.Backend("numpy")
    try:
        arr = nbe.exp(np.array([1 * u.percent, 200 * u.percent], dtype=object))
        ok, det = np.allclose(np.asarray(arr, dtype=float), [math.exp(0.01), math.exp(2.0)], rtol=1e-14), repr(arr)
    except Exception as ex:
        ok, det = False, repr(ex)
    v.prove("object_array_of_quantities_converted", ok, detail=det)
    try:
        ok, det = False, "returned %r" % (nbe.exp(np.array([1 * u.metre, 2 * u.metre], dtype=object)),)
    except ValueError as ex:
        ok, det = True, repr(ex)
    except Exception as ex:
        ok, det = False, repr(ex)
    v.prove("object_array_of_dimensional_quantities_refused", ok, detail=det)
    reg = dict(CU.SI_base_registry, length=(1 / 3.0) * u.nanometre, time=(1 / 60.0) * u.second, amount=(1 / 6.02214076e23) * u.mole, mass=0.1 * 3 * u.gram)
    back = hr = None
    try:        # (an exception of the code under test is a failed obligation, not a checker error)
        back = CU.unit_registry_from_human_readable(CU.unit_registry_to_human_readable(reg))
        ratios = {k: float(CU.to_unitless(reg[k], back[k])) for k in reg}
        ok, det = set(back) == set(reg) and all(r == 1.0 for r in ratios.values()), repr(ratios)
    except Exception as ex:
        ok, det = False, repr(ex)
    v.prove("round_trip_ratio_exactly_one", ok, detail=det)
    q = 7 * u.nanometre / u.second
    try:
        ok, det = float(CU.unitless_in_registry(q, reg)) == float(CU.unitless_in_registry(q, back)), ""
    except Exception as ex:
        ok, det = False, repr(ex)
    v.prove("round_trip_same_magnitudes", ok, detail=det)
    # ... against the number known by hand, not only one call against another: 7 nm/s in units of (1/3 nm)/(1/60 s) = 20 nm/s is 7*3/60 = 0.35
    try:
        got = [float(CU.unitless_in_registry(q, r_)) for r_ in (reg, back)]
        ok, det = all(abs(g / 0.35 - 1) < 1e-12 for g in got), repr(got)
    except Exception as ex:
        ok, det = False, repr(ex)
    v.prove("registry_with_factors_known_magnitude", ok, detail=det)
    # the HUMAN-READABLE form itself (identity functions would satisfy the two round-trip obligations above): per base dimension one plain number
    # and the symbol or name of the unit, nothing else -- so it survives being written out as text (JSON) and read again, with ratio exactly one
    import json
    try:
        hr = CU.unit_registry_to_human_readable(reg)
        entries = {k: tuple(e) for k, e in hr.items()}
        plain = set(hr) == set(reg) and all(len(e) == 2 and type(e[0]) in (float, int) and type(e[1]) is str for e in entries.values())
        known = (plain and entries["length"][0] == 1 / 3.0 and entries["length"][1] in ("nm", "nanometer", "nanometre") and entries["time"][0] == 1 / 60.0 and entries["time"][1] in ("s", "second")
                 and entries["mass"][0] == 0.1 * 3 and entries["mass"][1] in ("g", "gram") and entries["amount"][1] in ("mol", "mole") and entries["current"][0] == 1.0 and entries["current"][1] in ("A", "ampere"))
        det = repr(hr)
    except Exception as ex:
        plain = known = False
        det = repr(ex)
    v.prove("human_readable_form_is_a_number_and_a_unit_name", plain and known, detail=det)
    try:
        back_j = CU.unit_registry_from_human_readable(json.loads(json.dumps(hr)))
        ratios = {k: float(CU.to_unitless(reg[k], back_j[k])) for k in reg}
        ok, det = set(back_j) == set(reg) and all(r == 1.0 for r in ratios.values()), repr(ratios)
    except Exception as ex:
        ok, det = False, repr(ex)
    v.prove("round_trip_through_text_ratio_exactly_one", ok, detail=det)
    # 'a registry of standard prefixed units': milli- and micro-prefixed units of every base dimension that has them here, the unit chempy defines
    # itself (decimetre), a unit whose symbol is a Python keyword (attosecond, 'as'), and a base dimension switched off with the integer 1; every
    # unit read back is compared with its SI value typed in here (not only with the registry it came from)
    SIVAL = {"length": u.metre, "mass": u.kilogram, "time": u.second, "current": u.ampere, "temperature": u.kelvin, "amount": u.mole}
    for label, reg_p, want in (
            ("milli", dict(CU.SI_base_registry, length=u.decimetre, mass=u.mg, time=u.ms, current=u.mA, temperature=u.mK, amount=u.mmol, luminous_intensity=1),
             {"length": 1e-1, "mass": 1e-6, "time": 1e-3, "current": 1e-3, "temperature": 1e-3, "amount": 1e-3}),
            ("micro", dict(CU.SI_base_registry, length=u.um, time=u.attosecond, current=u.uA, temperature=u.uK, amount=u.umol),
             {"length": 1e-6, "mass": 1.0, "time": 1e-18, "current": 1e-6, "temperature": 1e-6, "amount": 1e-6})):
        try:
            hr_p = CU.unit_registry_to_human_readable(reg_p)
            back_p = CU.unit_registry_from_human_readable(json.loads(json.dumps(hr_p)))
            si = {k: float(CU.to_unitless(back_p[k], SIVAL[k])) for k in want}
            ok = (set(back_p) == set(reg_p) and all(abs(si[k] / want[k] - 1) < 1e-12 for k in want) and all(float(CU.to_unitless(reg_p[k], back_p[k])) == 1.0 for k in want)
                  and all(type(e[1]) is str or e[1] == 1 for e in map(tuple, hr_p.values())))
            if isinstance(reg_p["luminous_intensity"], int):       # the switched-off dimension comes back as the plain number one
                ok = ok and back_p["luminous_intensity"] == 1 and not hasattr(back_p["luminous_intensity"], "dimensionality")
            det = "%r -> %r" % (hr_p, si)
        except Exception as ex:
            ok, det = False, repr(ex)
        v.prove("round_trip_of_%s_prefixed_units" % label, ok, detail=det[:400])
    try:
        ok, det = CU.unit_registry_to_human_readable(None) is None and CU.unit_registry_from_human_readable(None) is None, ""
    except Exception as ex:
        ok, det = False, repr(ex)
    v.prove("no_registry_round_trips_to_no_registry", ok, detail=det)


@harness("C09", "closeness_and_logarithmic_spacing", functions=[U + ":allclose", U + ":logspace_from_lin"], div_mode="assume", samples=0)
def _(v):
    """'closeness test' and 'logarithmic spacing' of the property: allclose on two quantities in two different compatible units decides on the
    PHYSICAL values, whatever the two units are, and takes the absolute tolerance in any compatible unit (so it is what a numerical closeness test
    returns on magnitudes in one common unit).  WHICH of the customary weightings of the relative term is used (|a| as in this implementation, |b|
    as in numpy.allclose, or a symmetric one) is not part of the property: the answer must be True whenever the difference is within
    rtol*min(|a|,|b|) and False whenever it exceeds rtol*max(|a|,|b|) + atol; in between either answer is accepted.  Incompatible dimensions are
    not close.  logspace_from_lin hands numpy the logarithms of the magnitudes in one common unit, spaces them linearly, takes the inverse function
    and returns the result times that unit"""
    from chempy import units as CU
    from pyvc.qmodel import NPCall, Quantity, dim_of
    t = _table(v)
    L = (1, 0, 0, 0, 0, 0, 0)
    T = (0, 0, 1, 0, 0, 0, 0)
    x1, x2, x3, y1 = t.generic("x1", L), t.generic("x2", L), t.generic("x3", L), t.generic("y1", T)
    sx1, sx2, sx3 = (t.scale[k] for k in ("x1", "x2", "x3"))
    a, b = v.real("a", lo=-100, hi=100), v.real("b", lo=-100, hi=100)
    rtol, atol = v.real("rtol", lo=0, hi=1), v.real("atol", lo=0, hi=10)
    from pyvc.sym import wrap, to_z3
    import z3

    def decided(got, pairs, rt, at):
        """pairs: physical values (pa, pb) compared element-wise.  got must be True when every |pa-pb| <= rt*min(|pa|,|pb|), and False when some
        |pa-pb| > rt*max(|pa|,|pb|) + at"""
        surely, surely_not = [], []
        for pa, pb in pairs:
            za, zb = to_z3(abs(pa)), to_z3(abs(pb))
            diff = to_z3(abs(pa - pb))
            surely.append(diff <= to_z3(rt) * z3.If(za <= zb, za, zb))
            surely_not.append(diff > to_z3(rt) * z3.If(za <= zb, zb, za) + to_z3(at))
        g = z3.BoolVal(got) if isinstance(got, bool) else to_z3(got)
        return wrap(z3.And(z3.Implies(z3.And(*surely), g), z3.Implies(z3.Or(*surely_not), z3.Not(g))))
    r = v.call(CU.allclose, a * x1, b * x2, rtol)
    v.prove("allclose.relative_on_physical_values", decided(r, [(a * sx1, b * sx2)], rtol, 0))
    r = v.call(CU.allclose, a * x1, b * x2, rtol, atol * x3)
    v.prove("allclose.absolute_term_in_any_unit", decided(r, [(a * sx1, b * sx2)], rtol, atol * sx3))
    # the absolute tolerance really is used (the band above also admits an implementation that ignores it): with rtol = 0 the test is
    # |a - b| <= atol on physical values, for every weighting of the relative term
    r = v.call(CU.allclose, a * x1, b * x2, 0, atol * x3)
    v.prove("allclose.absolute_term_alone", wrap(to_z3(r) == to_z3(abs(a * sx1 - b * sx2) <= atol * sx3)) if not isinstance(r, bool) else r == (abs(a * sx1 - b * sx2) <= atol * sx3))
    r = v.call(CU.allclose, a * x1, b * y1, rtol)
    v.prove("allclose.incompatible_dimensions_are_not_close", r is False or r == False)  # noqa: E712
    # lists: element-wise, ALL elements.  One pair is the general one (two units), the other is identical on both sides (difference 0: close under
    # every rule), once in each position -- so 'any' for 'all', looking at one position only, or pairing crosswise all give a wrong answer, and each
    # query stays as small as the scalar one (two general pairs at once made the solver give up on correct implementations with another weighting)
    r = v.call(CU.allclose, [a * x1, 2 * x3], [b * x2, 2 * x3], rtol)
    v.prove("allclose.lists_element_wise", decided(r, [(a * sx1, b * sx2)], rtol, 0))
    r = v.call(CU.allclose, [2 * x3, a * x1], [2 * x3, b * x2], rtol)
    v.prove("allclose.lists_element_wise_second_position", decided(r, [(a * sx1, b * sx2)], rtol, 0))
    c, d = v.real("c", lo=0.1, hi=100), v.real("d", lo=0.1, hi=100)
    r = v.call(CU.logspace_from_lin, c * x1, d * x2, 9)
    # shape: inverse(linspace(log(start), log(stop), num)) * unit for ANY logarithm/inverse pair (the points are the same geometric sequence);
    # the engine models exp2/log2 (and exp/log) -- another spelling (np.geomspace) would need a model in the engine first
    PAIRS = {"exp2": "log2", "exp": "log", "power10": "log10"}
    v.prove("logspace.shape", isinstance(r, Quantity) and dim_of(r) == L and isinstance(r.mag, NPCall) and r.mag.name in PAIRS and len(r.mag.args) == 1, detail=repr(r))
    inner = r.mag.args[0]
    v.prove("logspace.linear_spacing_of_logarithms", isinstance(inner, NPCall) and inner.name == "linspace" and _arg(inner, 2, "num") == 9)
    lo_, hi_ = _arg(inner, 0, "start"), _arg(inner, 1, "stop")
    from pyvc.sym import wrap_num
    zlo, zhi = to_z3(lo_), to_z3(hi_)
    log_name = PAIRS.get(r.mag.name)
    v.prove("logspace.both_ends_are_log2_of_a_magnitude", zlo.decl().name() == log_name and zhi.decl().name() == log_name and zlo.num_args() == 1 and zhi.num_args() == 1, detail="%r %r" % (zlo, zhi))
    # on physical values: (magnitude whose logarithm is handed over) * (SI value of one unit of the result) is the physical end point
    v.prove_identity("logspace.start_in_first_unit", wrap_num(zlo.arg(0)) * _unit_scale(r), c * sx1)
    v.prove_identity("logspace.stop_converted_to_first_unit", wrap_num(zhi.arg(0)) * _unit_scale(r), d * sx2)


@harness("C09", "closeness_of_containers_of_different_length", functions=[U + ":allclose"], kind="data")
def _(v):
    """the closeness test on containers: two containers of different length are never close (as with numpy's routine, a shape mismatch is not a
    match) -- uniform-unit arrays, mixed-unit lists, and an empty container against a non-empty one; equal lengths are compared element-wise"""
    import warnings
    from chempy.units import allclose, default_units as u
    out, raised = {}, {}
    with warnings.catch_warnings():
        warnings.simplefilter("ignore")
        for label, a, b in (("array_prefix", [1, 2] * u.m, [1, 2, 3] * u.m), ("mixed_units_prefix", [1 * u.m, 2 * u.km], [1 * u.m, 2 * u.km, 3 * u.m]), ("empty_left", [], [1 * u.m]),
                            ("empty_right", [1 * u.m], []), ("longer_left", [1 * u.m, 2 * u.km, 3 * u.m], [1 * u.m, 2 * u.km])):
            try:
                out[label] = bool(allclose(a, b))
            except Exception as ex:
                # numpy's own routine refuses some shape mismatches (ValueError) instead of answering False: tolerated for the uniform-unit ARRAYS
                # only, and recorded -- an implementation that raises for every container must not pass as 'never close'
                out[label] = False
                raised[label] = repr(ex)
        v.prove("different_lengths_are_not_close", not any(out.values()), detail=repr(out))
        v.prove("different_lengths_of_lists_are_answered_not_refused", not (set(raised) - {"array_prefix"}), detail=repr(raised))
        try:
            ok = bool(allclose([1 * u.m, 2 * u.km], [100 * u.cm, 2000 * u.m])) and not bool(allclose([1 * u.m, 2 * u.km], [100 * u.cm, 2001 * u.m]))
        except Exception as ex:
            ok = False
        v.prove("equal_lengths_element_wise", ok)


@harness("C09", "closeness_on_arrays", functions=[U + ":allclose"], kind="data")
def _(v):
    """'closeness test ... returns what the plain numerical routine returns on the magnitudes expressed in one common unit', for ARRAYS of
    quantities (the symbolic harness covers scalars and lists of scalars): ALL elements must be close (one bad element of two is enough for
    False), array against scalar in either order, two-dimensional arrays, an absolute tolerance in another unit, and quantities with uncertainty
    (compared by their nominal value).  Expected answers by hand: the differences are 0 or at least 1e-3 relative, far from any tolerance used"""
    import warnings
    import numpy as np
    import quantities as pq
    from chempy.units import allclose, default_units as u
    cases = [
        ("all_elements_close", lambda: allclose([1, 2] * u.km, [1000, 2000] * u.m), True),
        ("one_bad_element_of_two_first", lambda: allclose([1, 2] * u.km, [1001, 2000] * u.m), False),
        ("one_bad_element_of_two_last", lambda: allclose([1, 2] * u.km, [1000, 2001] * u.m), False),
        # |1001 m - 1 km| = 1 m against atol 0.5 m / 2 m, rtol = 0: array difference, scalar-or-array limit
        ("array_vs_scalar_atol_too_small", lambda: allclose([1000., 1001.] * u.m, 1 * u.km, rtol=0, atol=.5 * u.m), False),
        ("array_vs_scalar_atol_large_enough", lambda: allclose([1000., 1001.] * u.m, 1 * u.km, rtol=0, atol=2 * u.m), True),
        ("array_vs_scalar_atol_in_another_unit", lambda: allclose([1000., 1001.] * u.m, 1 * u.km, rtol=0, atol=200 * u.cm), True),
        ("scalar_vs_array_one_bad", lambda: allclose(1 * u.km, [1000., 1001.] * u.m, rtol=1e-6), False),
        ("scalar_vs_array_all_close", lambda: allclose(1 * u.km, [1000., 1000.] * u.m, rtol=1e-6), True),
        ("two_dimensional_close", lambda: allclose(np.array([[1., 2], [3, 4]]) * u.km, np.array([[1000., 2000], [3000, 4000]]) * u.m), True),
        ("two_dimensional_one_bad", lambda: allclose(np.array([[1., 2], [3, 4]]) * u.km, np.array([[1000., 2000], [3000, 4001]]) * u.m), False),
        ("per_element_relative_limit", lambda: allclose([1., 1000.] * u.m, [1.5, 1000.] * u.m, rtol=0.01), False),   # 0.5 m is within 1 % of 1000 m, not of 1 m
        ("uncertain_quantity_left", lambda: allclose(pq.UncertainQuantity(1, u.km, .1), 1000 * u.m), True),
        ("uncertain_quantity_left_far", lambda: allclose(pq.UncertainQuantity(1, u.km, .1), 1001 * u.m), False),
        ("uncertain_quantity_right", lambda: allclose(1000 * u.m, pq.UncertainQuantity(1, u.km, .1)), True),
        ("uncertain_quantity_right_far", lambda: allclose(1001 * u.m, pq.UncertainQuantity(1, u.km, .1)), False),
    ]
    with warnings.catch_warnings():
        warnings.simplefilter("ignore")
        for label, f, want in cases:
            try:
                got = f()
                ok, det = bool(got) is want, repr(got)
            except Exception as ex:
                ok, det = False, repr(ex)
            v.prove(label, ok, detail=det)


@harness("C09", "compare_equality", functions=[U + ":compare_equality"], div_mode="assume", samples=0)
def _(v):
    """equality of two quantities is decided on PHYSICAL values ('the exact ratio of the two units'): a*x1 equals b*x2 iff a*scale(x1) ==
    b*scale(x2); quantities of different dimension -- and a quantity against a bare number -- are never equal (no exception); containers
    element-wise, of different length never; None equals None"""
    from chempy import units as CU
    from pyvc.sym import wrap, to_z3
    t = _table(v)
    L = (1, 0, 0, 0, 0, 0, 0)
    x1, x2, y1 = t.generic("x1", L), t.generic("x2", L), t.generic("y1", (0, 0, 1, 0, 0, 0, 0))
    sx1, sx2 = t.scale["x1"], t.scale["x2"]
    a, b = v.real("a", lo=-100, hi=100), v.real("b", lo=-100, hi=100)
    iff = lambda got, want: wrap(to_z3(got) == to_z3(want)) if not isinstance(got, bool) else (wrap(to_z3(want)) if got else ~wrap(to_z3(want)))
    r = v.call(CU.compare_equality, a * x1, b * x2)
    v.prove("decided_on_physical_values", iff(r, a * sx1 == b * sx2))
    r = v.call(CU.compare_equality, a * x1, a * x1)
    v.prove("reflexive", r is True or r == True)  # noqa: E712
    r = v.call(CU.compare_equality, a * x1, b * y1)
    v.prove("different_dimensions_are_not_equal", r is False or r == False)  # noqa: E712
    r = v.call(CU.compare_equality, a * x1, 3)
    v.prove("quantity_against_bare_number_is_not_equal", r is False or r == False)  # noqa: E712
    v.prove("none_equals_none", v.call(CU.compare_equality, None, None) is True)
    r = v.call(CU.compare_equality, [a * x1, None], [b * x2, None])
    v.prove("containers_element_wise", iff(r, a * sx1 == b * sx2))
    r = v.call(CU.compare_equality, [a * x1, None], [a * x1, None, None])
    v.prove("containers_of_different_length_are_not_equal", r is False or r == False)  # noqa: E712


@harness("C09", "compare_equality_on_the_real_package", functions=[U + ":compare_equality"], kind="data")
def _(v):
    """the same clauses on objects of the real package (documented examples and hand values): equal physical values in different units are equal,
    unequal ones are not, a dimension mismatch or a bare number is 'not equal' rather than an exception, arrays and lists element-wise"""
    import numpy as np
    from chempy.units import compare_equality as ce, default_units as u
    cases = [
        ("same_value_other_unit", lambda: ce(3 * u.km, 3000 * u.m), True), ("other_value", lambda: ce(3 * u.km, 3001 * u.m), False),
        ("same_number_other_unit", lambda: ce(3 * u.km, 3 * u.m), False), ("bare_number", lambda: ce(3 * u.km, 3), False),
        ("other_dimension", lambda: ce(3 * u.km, 3 * u.second), False), ("none_none", lambda: ce(None, None), True),
        ("compound_units", lambda: ce(1 * u.molar, 1000 * u.mol / u.metre ** 3), True),
        ("list_with_none", lambda: ce([3 * u.km, None], [3000 * u.m, None]), True), ("list_with_none_other_value", lambda: ce([3 * u.km, None], [3 * u.m, None]), False),
        ("lists_of_different_length", lambda: ce([3 * u.km, None], [3 * u.km, None, None]), False),
    ]
    for label, f, want in cases:
        try:
            got = f()
            ok, det = bool(np.all(got)) is want, repr(got)
        except Exception as ex:
            ok, det = False, repr(ex)
        v.prove(label, ok, detail=det)


@harness("C09", "patched_numpy", functions=[U + ":_wrap_numpy", U + ":<module patched_numpy>"], kind="data")
def _(v):
    """the numpy namespace chempy hands out with unit support: its transcendental functions take every argument through to_unitless (a
    dimensional argument is refused -- in ANY position --, a scaled pure number such as km/m or percent is converted with the exact ratio before
    the call), and its array helpers are the unit-aware ones of this property"""
    import math
    import numpy as np
    from chempy import units as CU
    from chempy.units import default_units as u, patched_numpy as pn

    def outcome(f):
        try:
            return ("returned", f())
        except ValueError:
            return "refused"
        except Exception as ex:
            return ("raised", repr(ex))
    got = [outcome(lambda: pn.exp(3 * u.km)), outcome(lambda: pn.log(2 * u.second)), outcome(lambda: pn.log10(u.metre)), outcome(lambda: pn.expm1(1 * u.mol / u.dm3))]
    v.prove("dimensional_argument_refused", got == ["refused"] * 4, detail=repr(got))
    got = [outcome(lambda: pn.logaddexp(1 * u.percent, 2 * u.m)), outcome(lambda: pn.logaddexp2(2 * u.m, 1.0))]
    v.prove("dimensional_argument_refused_in_any_position", got == ["refused"] * 2, detail=repr(got))
    try:
        vals = [float(pn.log10(u.km / u.m)), float(pn.log10(1000 * u.m / u.km)), float(pn.exp(50 * u.percent)), float(pn.log2(8000 * u.mm / u.m)), float(pn.logaddexp(0.0, 100 * u.percent)),
                float(pn.log1p(100 * u.percent)), float(pn.exp(2.0))]
        want = [3.0, 0.0, math.exp(0.5), 3.0, math.log(1 + math.e), math.log(2.0), math.exp(2.0)]
        ok, det = all(abs(g - w) < 1e-12 for g, w in zip(vals, want)), repr(vals)
    except Exception as ex:
        ok, det = False, repr(ex)
    v.prove("scaled_pure_number_converted_before_the_call", ok, detail=det)
    try:
        arr = pn.exp(np.array([0.0, 1.0]) * u.m / u.cm)
        ok, det = np.allclose(np.asarray(arr, dtype=float), [1.0, math.exp(100.0)], rtol=1e-13), repr(arr)
    except Exception as ex:
        ok, det = False, repr(ex)
    v.prove("arrays_of_ratios_converted", ok, detail=det)
    # ... judged by what they return on MIXED units (hand values), not by being one particular function object
    tu = CU.to_unitless
    checks = {
        "linspace": lambda: [float(x) for x in tu(pn.linspace(0 * u.m, 1 * u.km, 3), u.m)] == [0.0, 500.0, 1000.0],
        "concatenate": lambda: [float(x) for x in tu(pn.concatenate(([1.0] * u.km, [2.0] * u.m)), u.m)] == [1000.0, 2.0],
        "tile": lambda: [float(x) for x in tu(pn.tile([1.0 * u.km, 2.0 * u.m], 2), u.m)] == [1000.0, 2.0, 1000.0, 2.0],
        "allclose": lambda: bool(pn.allclose(1 * u.km, 1000 * u.m)) and not bool(pn.allclose(1 * u.km, 1 * u.m)),
        # line through (0 min, 1 km), (1 min, 3 km), (2 min, 5 km): 2 km/min and 1 km; at 30 s and 90 s: 2 km and 4 km
        "polyfit_polyval": lambda: all(abs(float(g) - w) < 1e-9 for g, w in zip(tu(pn.polyval(pn.polyfit([0, 1, 2] * u.minute, [1, 3, 5] * u.km, 1), [30, 90] * u.s), u.km), [2.0, 4.0])),
    }
    bad = {}
    for n, f in checks.items():
        try:
            if not f():
                bad[n] = "wrong value"
        except Exception as ex:
            bad[n] = repr(ex)
    v.prove("array_helpers_are_the_unit_aware_ones", not bad, detail=repr(bad))
    v.prove("the_rest_is_numpy", pn.sqrt is np.sqrt and pn.pi == np.pi)


@harness("C09", "physical_dimensionality_and_registry_defaults", functions=[U + ":get_physical_dimensionality", U + ":default_unit_in_registry", U + ":unitless_in_registry", U + ":_get_unit_from_registry"], kind="data")
def _(v):
    """'the reported physical dimensionality, the default unit and magnitude of a quantity in any base-unit registry ... are all consistent with
    that same ratio': dimensionalities against SI exponents typed in here (also of chempy's own units, fractional powers, pure numbers and
    mixed-unit lists); magnitudes in a registry whose base units carry FACTORS (0.1 m, minute, gram) against hand calculation; and
    to_unitless(q, default_unit_in_registry(q, reg)) == unitless_in_registry(q, reg)"""
    from chempy import units as CU
    from chempy.units import default_units as u, SI_base_registry, get_physical_dimensionality as gpd
    cases = [
        ("molar", lambda: 3 * u.molar, {"amount": 1, "length": -3}),
        ("per100eV", lambda: 3 * u.per100eV, {"mass": -1, "length": -2, "time": 2, "amount": 1}),       # mol/J, J = kg m2 s-2
        ("newton", lambda: 2 * u.newton, {"mass": 1, "length": 1, "time": -2}),
        ("volt", lambda: 1 * u.volt, {"mass": 1, "length": 2, "time": -3, "current": -1}),              # W/A
        ("kelvin_per_second", lambda: 1 * u.kelvin / u.second, {"temperature": 1, "time": -1}),
        ("square_root_of_length", lambda: (4 * u.m) ** 0.5, {"length": 0.5}),
        ("percent", lambda: 50 * u.percent, {}),
        ("ratio_of_lengths", lambda: 3 * u.km / u.m, {}),
        ("plain_number", lambda: 3.0, {}),
        ("mixed_unit_list", lambda: [1 * u.km, 200 * u.m], {"length": 1}),
    ]
    for label, q, want in cases:
        try:
            got = gpd(q())
            ok, det = isinstance(got, dict) and set(got) == set(want) and all(float(got[k]) == want[k] for k in want), repr(got)
        except Exception as ex:
            ok, det = False, repr(ex)
        v.prove("dimensionality." + label, ok, detail=det)
    # one unit of the registry: concentration mol/(0.1 m)^3 = 1000 mol/m3; energy g (0.1 m)^2 / min^2 = 1e-3 * 1e-2 / 3600 J; velocity 0.1 m / 60 s;
    # density g/(0.1 m)^3 = 1 kg/m3
    reg = dict(SI_base_registry, length=0.1 * u.metre, time=u.minute, mass=u.gram)
    table = [("concentration", 3 * u.molar, 3.0), ("energy", 2 * u.joule, 2 * 3600 / 1e-5), ("velocity", 7 * u.metre / u.second, 7 * 60 / 0.1), ("density", 5 * u.kg / u.metre ** 3, 5.0),
             ("pure_number", 50 * u.percent, 0.5)]
    for label, q, want in table:
        try:
            mag = float(CU.unitless_in_registry(q, reg))
            du = CU.default_unit_in_registry(q, reg)
            via = float(CU.to_unitless(q, du))
            back = float(CU.to_unitless(mag * du, q.units)) / float(q.magnitude)        # multiplying back by the default unit reproduces the quantity
            ok, det = abs(mag / want - 1) < 1e-12 and abs(via / want - 1) < 1e-12 and abs(back - 1) < 1e-12, "%r %r %r" % (mag, du, back)
        except Exception as ex:
            ok, det = False, repr(ex)
        v.prove("registry_with_factors." + label, ok, detail=det)


@harness("C09", "polyfit_with_further_outputs", functions=[U + ":polyfit"], kind="data")
def _(v):
    """'polynomial fit … returns what the plain numerical routine returns on the magnitudes expressed in one common unit, times that unit', also
    when the routine is asked for more than the coefficients (cov=True, full=True): the coefficients still carry u_y*u_x**(i-deg) each -- the
    intercept is a length, not a velocity -- and nothing that is not a coefficient is labelled as one; the further outputs are the numbers the
    numerical routine returns for the magnitudes (or the request is refused)"""
    import numpy as np
    from chempy import units as CU
    from chempy.units import default_units as u
    xs, ys = [0.0, 1.0, 2.0, 3.0, 4.0], [0.0, 1.1, 1.9, 3.2, 3.9]
    x, y = np.array(xs) * u.s, np.array(ys) * u.m
    for kw, ref in (({"cov": True}, np.polyfit(xs, ys, 1, cov=True)), ({"full": True}, np.polyfit(xs, ys, 1, full=True))):
        label = list(kw)[0]
        try:
            r = CU.polyfit(x, y, 1, **kw)
        except (ValueError, TypeError, NotImplementedError):
            v.prove(label + ".coefficients_keep_their_units", True, detail="refused")
            continue
        try:
            coeffs, rest = r[0], r[1:]
            ok = (len(coeffs) == 2 and abs(float(CU.to_unitless(coeffs[0], u.m / u.s)) - ref[0][0]) < 1e-12 and abs(float(CU.to_unitless(coeffs[1], u.m)) - ref[0][1]) < 1e-12
                  and len(rest) == len(ref) - 1 and all(np.allclose(np.asarray(CU.magnitude(a), dtype=float), np.asarray(b, dtype=float)) for a, b in zip(rest, ref[1:])))
            det = repr(r)[:300]
        except Exception as ex:
            ok, det = False, "%r -> %r" % (r, ex)
        v.prove(label + ".coefficients_keep_their_units", ok, detail=det[:300])


@harness("C09", "array_helpers_on_arrays_of_more_than_one_dimension", functions=[U + ":concatenate", U + ":tile", U + ":polyval", U + ":linspace", U + ":logspace_from_lin", U + ":<module patched_numpy>"], kind="data")
def _(v):
    """'concatenation, tiling ... return what the plain numerical routine returns on the magnitudes expressed in one common unit, times that unit'
    -- with the numerical routine's OWN defaults and keywords, whatever the number of dimensions of the parts (the symbolic harness fixes the
    delegation shape on lists of scalars only): blocks of rows in different units are joined along the first axis when no axis is asked for, along
    the axis asked for otherwise (axis=None: flattened), parts that do not fit or are of another dimension are refused; tiling follows the
    repetition count per axis; the number of points of a spacing left out is the numerical routine's (50).  Expected values typed in by hand (in
    metre), compared as physical values -- which common unit the result carries is not part of the property"""
    import numpy as np
    from chempy import units as CU
    from chempy.units import default_units as u, patched_numpy as pn

    def in_metre(q):
        return np.asarray(CU.to_unitless(q, u.metre), dtype=float)

    def same(got, want):
        want = np.asarray(want, dtype=float)
        return got.shape == want.shape and bool(np.allclose(got, want, rtol=1e-12, atol=0))

    def check(name, f, want, conv=in_metre):
        try:
            got = conv(f())
            ok, det = same(got, want), "shape %r: %r" % (got.shape, got.tolist())
        except Exception as ex:
            ok, det = False, repr(ex)
        v.prove(name, ok, detail=det[:300])

    def refused(name, f):
        try:
            ok, det = False, "returned %r" % (f(),)
        except (ValueError, TypeError) as ex:                       # numpy's / the quantities package's 'does not fit' / 'cannot convert'
            ok, det = True, repr(ex)
        except Exception as ex:
            ok, det = False, repr(ex)
        v.prove(name, ok, detail=det[:300])
    a = np.array([[1.0, 2.0], [3.0, 4.0]]) * u.metre                # two rows of two columns, in m
    b = np.array([[5.0, 6.0], [7.0, 8.0]]) * u.centimetre           # ... in cm
    c = np.array([[9.0, 10.0]]) * u.km                              # ONE row of two columns, in km
    for label, cat in (("concatenate", CU.concatenate), ("patched_numpy.concatenate", pn.concatenate)):
        check(label + ".blocks_of_rows_are_stacked_along_the_first_axis_by_default", lambda: cat((a, b)), [[1, 2], [3, 4], [.05, .06], [.07, .08]])
        check(label + ".axis_0_is_the_default", lambda: cat((a, b), axis=0), [[1, 2], [3, 4], [.05, .06], [.07, .08]])
        check(label + ".axis_1_appends_columns", lambda: cat((a, b), axis=1), [[1, 2, .05, .06], [3, 4, .07, .08]])
        check(label + ".axis_none_flattens", lambda: cat((a, b), axis=None), [1, 2, 3, 4, .05, .06, .07, .08])
        check(label + ".blocks_with_different_numbers_of_rows", lambda: cat((a, c, b)), [[1, 2], [3, 4], [9000, 10000], [.05, .06], [.07, .08]])
        check(label + ".three_dimensional_parts", lambda: cat((a.reshape(1, 2, 2), b.reshape(1, 2, 2))), [[[1, 2], [3, 4]], [[.05, .06], [.07, .08]]])
        check(label + ".one_dimensional_parts_of_different_length", lambda: cat(([1.0, 2.0] * u.km, [3.0] * u.metre, [4.0, 5.0] * u.centimetre)), [1000, 2000, 3, .04, .05])
        refused(label + ".different_numbers_of_rows_side_by_side_refused", lambda: cat((a, c), axis=1))
        refused(label + ".part_of_another_dimension_refused", lambda: cat((a, np.array([[1.0, 2.0]]) * u.second)))
    for label, til in (("tile", CU.tile), ("patched_numpy.tile", pn.tile)):
        check(label + ".row_repeated_downwards", lambda: til(c, (2, 1)), [[9000, 10000], [9000, 10000]])
        check(label + ".row_repeated_sideways_by_a_plain_count", lambda: til(c, 2), [[9000, 10000, 9000, 10000]])
        check(label + ".block_repeated_per_axis", lambda: til(b, (1, 2)), [[.05, .06, .05, .06], [.07, .08, .07, .08]])
        check(label + ".one_dimensional_to_two_dimensional", lambda: til([1.0, 2.0] * u.centimetre, (2, 2)), [[.01, .02, .01, .02], [.01, .02, .01, .02]])
        check(label + ".nested_list_of_mixed_units", lambda: til([[1 * u.km, 2 * u.metre]], (2, 1)), [[1000, 2], [1000, 2]])
    # evaluation of a polynomial keeps the shape of the points: 1 km + (2 km/min) t at 0, 30, 60, 90 s (0, 1/2, 1, 3/2 min) is 1, 2, 3, 4 km
    check("polyval.two_dimensional_points", lambda: CU.polyval([2 * u.km / u.minute, 1 * u.km], np.array([[0.0, 30.0], [60.0, 90.0]]) * u.second), [[1000, 2000], [3000, 4000]])
    # number of points left out: the numerical routine's own default (50), end points included
    for label, f, second in (("linspace", CU.linspace, 1 + 999 / 49.0), ("logspace_from_lin", CU.logspace_from_lin, 1000 ** (1 / 49.0))):
        try:
            got = in_metre(f(1 * u.metre, 1 * u.km))
            ok, det = got.shape == (50,) and abs(got[0] - 1) < 1e-12 and abs(got[-1] / 1000 - 1) < 1e-12 and abs(got[1] / second - 1) < 1e-12, "shape %r: %r ..." % (got.shape, got[:3].tolist())
        except Exception as ex:
            ok, det = False, repr(ex)
        v.prove(label + ".default_number_of_points_is_the_numerical_routines", ok, detail=det)
